#!/usr/bin/env python3
"""merge_evidence.py C20 C20B C20G: combine the evidence of the two halves of one property into evidence/<id>.json."""
import json, os, sys
root = os.path.dirname(os.path.abspath(__file__))
out_id, parts = sys.argv[1], sys.argv[2:]
docs = []
for p in parts:
    f = os.path.join(root, "evidence", p + ".json")
    if os.path.exists(f):
        docs.append(json.load(open(f)))
if not docs:
    sys.exit(0)
cov = {"evaluations": 0, "distinct_nontrivial": 0, "rule": "", "samples": [], "observed": {}, "exhaustive": False}
for d in docs:
    c = d["coverage"]
    cov["evaluations"] += c.get("evaluations", 0)
    cov["distinct_nontrivial"] += c.get("distinct_nontrivial", 0)
    cov["rule"] += "[" + d["property_id"] + "] " + c.get("rule", "") + " "
    cov["samples"] += c.get("samples", [])[:4]
    for k, v in c.get("observed", {}).items():
        cov["observed"][d["property_id"] + "." + k] = v
    for k in ("inconclusive", "blind"):
        if k in c:
            cov[d["property_id"] + "." + k] = c[k]
ev = {"property_id": out_id, "tier": docs[0]["tier"], "seed": docs[0]["seed"], "level": docs[0]["level"], "coverage": cov,
      "assumptions": sum((d.get("assumptions") or [] for d in docs), []),
      "wall_s": sum(d.get("wall_s", 0) for d in docs), "violations": sum(d.get("violations", 0) for d in docs),
      "halves_present": [d["property_id"] for d in docs]}
json.dump(ev, open(os.path.join(root, "evidence", out_id + ".json"), "w"), indent=1)

package common

import "sync/atomic"

// LogicalClock is the single process-wide event counter used to order client-side call / return events.
type LogicalClock struct{ n int64 }

func (c *LogicalClock) Tick() int64 { return atomic.AddInt64(&c.n, 1) }
func (c *LogicalClock) Now() int64  { return atomic.LoadInt64(&c.n) }

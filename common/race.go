package common

import (
	"os"
	"path/filepath"
	"strings"
)

// ScanRaceLogs reads the race-detector logs of this check (GORACE log_path=<root>/.build/race-<check>, set by
// ./check; written by this process and by its children) and reports every distinct report that has a frame in
// pkg as a violation. Reports without such a frame are counted only.
func (r *Run) ScanRaceLogs(pkg string) {
	if r.Replay != nil {
		return
	}
	blocks, total := RaceBlocks(filepath.Join(Root(), ".build"), "race-"+r.Prop+".", pkg)
	r.Count("race_report_blocks_total", int64(total))
	r.Count("race_report_signatures_in_emulator", int64(len(blocks)))
	if total > 0 && len(blocks) == 0 {
		// reports whose stacks never touch the emulator are races inside the harness: the check itself is broken
		r.Blind("the race detector reported a data race that involves only harness code; the check is broken, not the emulator")
	}
	i := 0
	for sig, text := range blocks {
		r.Violation("race", i, "data race reported by the race detector in emulator code: "+sig, map[string]any{"report": text})
		i++
	}
}

// raceBlocks parses race logs: returns deduplicated blocks (by the pair of first emulator frames) that mention pkg.
func RaceBlocks(dir, prefix, pkg string) (map[string]string, int) {
	out := map[string]string{}
	total := 0
	files, _ := filepath.Glob(filepath.Join(dir, prefix+"*"))
	for _, f := range files {
		buf, err := os.ReadFile(f)
		if err != nil {
			continue
		}
		for _, blk := range strings.Split(string(buf), "==================") {
			if !strings.Contains(blk, "WARNING: DATA RACE") {
				continue
			}
			total++
			if !strings.Contains(blk, pkg) {
				continue
			}
			var frames []string
			for _, l := range strings.Split(blk, "\n") {
				l = strings.TrimSpace(l)
				if strings.HasPrefix(l, pkg) || strings.Contains(l, pkg+"/") && !strings.HasPrefix(l, "/") {
					if i := strings.Index(l, "("); i > 0 {
						l = l[:i]
					}
					if len(frames) == 0 || frames[len(frames)-1] != l {
						frames = append(frames, l)
					}
				}
			}
			sig := strings.Join(frames, " | ")
			if len(frames) > 4 {
				sig = strings.Join(frames[:4], " | ")
			}
			if _, ok := out[sig]; !ok {
				out[sig] = truncate(blk, 6000)
			}
		}
	}
	return out, total
}

module verif/common

go 1.23.0

package common

import (
	"encoding/json"
	"fmt"
	"os"
	"path/filepath"
	"sort"
	"strconv"
	"sync"
	"sync/atomic"
	"time"
)

// Root is the /verif directory (VERIF_ROOT, set by ./check).
func Root() string {
	if r := os.Getenv("VERIF_ROOT"); r != "" {
		return r
	}
	return "/verif"
}

// Run collects what one invocation of one check observed and turns it into the evidence file,
// the VIOLATION / KNOWN-FINDING lines and the exit code.
type Run struct {
	Prop  string // check id (evidence file name); C20B / C20G are the two halves of property C20
	As    string // property id used in VIOLATION / KNOWN-FINDING lines
	Tier  string
	Seed  int64
	Level string
	Rule  string

	Assumptions []string
	Exhaustive  bool
	Explanation string

	Replay *ReplaySpec // non-nil: only re-execute this case

	start      time.Time
	mu         sync.Mutex
	evals      int64
	nontrivial map[uint64]struct{}
	samples    []any
	counters   map[string]int64
	extra      map[string]any
	violations int
	inconcl    map[string]int64
	blind      []string
	findings   *Findings
	kfPrinted  map[string]bool
	maxViol    int
}

// ReplaySpec identifies one case of one check.
type ReplaySpec struct {
	Property string `json:"property"`
	Seed     int64  `json:"seed"`
	Tier     string `json:"tier"`
	Sub      string `json:"sub"`
	Case     int    `json:"case"`
}

func Thorough(tier string) bool { return tier == "thorough" }

// NewRun parses "<tier>" or "--replay <file>" from args.
func NewRun(prop, level string, args []string) *Run {
	r := &Run{Prop: prop, Level: level, Tier: "quick", Seed: 1, start: time.Now(),
		nontrivial: map[uint64]struct{}{}, counters: map[string]int64{}, extra: map[string]any{},
		inconcl: map[string]int64{}, kfPrinted: map[string]bool{}, maxViol: 5}
	r.As = prop
	if len(prop) == 4 && (prop[3] == 'B' || prop[3] == 'G') {
		r.As = prop[:3]
	}
	if s := os.Getenv("VERIF_SEED"); s != "" {
		if v, err := strconv.ParseInt(s, 10, 64); err == nil {
			r.Seed = v
		}
	}
	if t := os.Getenv("VERIF_TIER"); t == "quick" || t == "thorough" {
		r.Tier = t
	}
	if len(args) >= 2 && args[0] == "--replay" {
		buf, err := os.ReadFile(args[1])
		if err != nil {
			fmt.Fprintln(os.Stderr, "cannot read replay file:", err)
			os.Exit(3)
		}
		var f struct {
			Replay ReplaySpec `json:"replay"`
		}
		if err := json.Unmarshal(buf, &f); err != nil || f.Replay.Property == "" {
			fmt.Fprintln(os.Stderr, "replay file has no replay spec:", err)
			os.Exit(3)
		}
		r.Replay = &f.Replay
		r.Seed = f.Replay.Seed
		r.Tier = f.Replay.Tier
	} else if len(args) >= 1 && (args[0] == "quick" || args[0] == "thorough") {
		r.Tier = args[0]
	}
	f, err := LoadFindings(filepath.Join(Root(), "known_findings.json"))
	if err != nil {
		fmt.Fprintln(os.Stderr, "known_findings.json:", err)
		os.Exit(3)
	}
	r.findings = f
	return r
}

func (r *Run) IsThorough() bool { return r.Tier == "thorough" }

// N picks the case count for the tier.
func (r *Run) N(quick, thorough int) int {
	if r.IsThorough() {
		return thorough
	}
	return quick
}

// Want reports whether case (sub, idx) is to be executed (always, unless replaying one case).
func (r *Run) Want(sub string, idx int) bool {
	if r.Replay == nil {
		return true
	}
	return r.Replay.Sub == sub && r.Replay.Case == idx
}

// WantSub reports whether any case of sub is wanted.
func (r *Run) WantSub(sub string) bool { return r.Replay == nil || r.Replay.Sub == sub }

func (r *Run) Rand(sub string, idx int) *Rand { return NewRand(r.Seed, sub, idx) }

// Case records one executed case; hash identifies its content, nontrivial says whether it satisfied the check's rule.
func (r *Run) Case(hash uint64, nontrivial bool) {
	atomic.AddInt64(&r.evals, 1)
	if nontrivial {
		r.mu.Lock()
		r.nontrivial[hash] = struct{}{}
		r.mu.Unlock()
	}
}

// Evals adds executed evaluations that are not individually hashed.
func (r *Run) Evals(n int) { atomic.AddInt64(&r.evals, int64(n)) }

func (r *Run) Count(name string, n int64) {
	r.mu.Lock()
	r.counters[name] += n
	r.mu.Unlock()
}

func (r *Run) Counter(name string) int64 {
	r.mu.Lock()
	defer r.mu.Unlock()
	return r.counters[name]
}

func (r *Run) Max(name string, n int64) {
	r.mu.Lock()
	if n > r.counters[name] {
		r.counters[name] = n
	}
	r.mu.Unlock()
}

func (r *Run) Set(name string, v any) {
	r.mu.Lock()
	r.extra[name] = v
	r.mu.Unlock()
}

// Sample keeps up to 6 cases verbatim.
func (r *Run) Sample(v any) {
	r.mu.Lock()
	if len(r.samples) < 6 {
		r.samples = append(r.samples, v)
	}
	r.mu.Unlock()
}

// Inconclusive counts a case whose verdict could not be decided (never folded into held/violated).
func (r *Run) Inconclusive(reason string) {
	r.mu.Lock()
	r.inconcl[reason]++
	r.mu.Unlock()
}

// Blind marks the whole run as having observed nothing it depends on.
func (r *Run) Blind(reason string) {
	r.mu.Lock()
	r.blind = append(r.blind, reason)
	r.mu.Unlock()
}

// TooMany reports whether enough violations were reported to stop exploring.
func (r *Run) TooMany() bool {
	r.mu.Lock()
	defer r.mu.Unlock()
	return r.violations >= r.maxViol
}

func (r *Run) Violations() int {
	r.mu.Lock()
	defer r.mu.Unlock()
	return r.violations
}

// Violation writes a replay file and prints the VIOLATION line. detail should hold the case (program /
// history / schedule), the expectation and the observation.
func (r *Run) Violation(sub string, idx int, what string, detail any) {
	r.mu.Lock()
	r.violations++
	n := r.violations
	r.mu.Unlock()
	if n > r.maxViol {
		return
	}
	spec := ReplaySpec{Property: r.Prop, Seed: r.Seed, Tier: r.Tier, Sub: sub, Case: idx}
	doc := map[string]any{"replay": spec, "what": what, "detail": detail}
	buf, err := json.MarshalIndent(doc, "", " ")
	if err != nil {
		buf, _ = json.MarshalIndent(map[string]any{"replay": spec, "what": what, "detail": fmt.Sprintf("%+v", detail)}, "", " ")
	}
	dir := filepath.Join(Root(), "replays")
	_ = os.MkdirAll(dir, 0o777)
	name := fmt.Sprintf("%s-%016x.json", r.Prop, Hash64(r.Prop, sub, strconv.Itoa(idx), strconv.FormatInt(r.Seed, 10), what))
	path := filepath.Join(dir, name)
	_ = os.WriteFile(path, buf, 0o666)
	fmt.Printf("VIOLATION property=%s replay=%s\n", r.As, path)
	fmt.Printf("  what: %s (sub=%s case=%d seed=%d)\n", truncate(what, 600), sub, idx, r.Seed)
}

func truncate(s string, n int) string {
	if len(s) > n {
		return s[:n] + "..."
	}
	return s
}

// KnownOpen reports whether finding id is listed as open (not fixed).
func (r *Run) KnownOpen(id string) bool { return r.findings.Open(id) }

// Canary runs the fixed reproducer of an open known finding. fails() must return (true, description) if the
// defect is still present. For an entry that is not open nothing is run here (generators are then unrestricted
// and the ordinary oracle reports the defect if it returns).
func (r *Run) Canary(id string, fails func() (bool, string)) {
	if r.Replay != nil || !r.findings.Open(id) {
		return
	}
	f := r.findings.Get(id)
	if f.Property != r.Prop && f.Property != r.As {
		return
	}
	bad, desc := fails()
	r.Count("canary_runs", 1)
	if bad {
		r.mu.Lock()
		if !r.kfPrinted[id] {
			r.kfPrinted[id] = true
			fmt.Printf("KNOWN-FINDING: property=%s %s: %s [%s]\n", r.As, id, f.What, truncate(desc, 300))
		}
		r.mu.Unlock()
		r.Count("known_findings_reproduced", 1)
	} else {
		fmt.Printf("note: known finding %s no longer reproduces on this tree (%s)\n", id, truncate(desc, 200))
	}
}

// Finish writes the evidence file and exits.
func (r *Run) Finish() {
	r.mu.Lock()
	cov := map[string]any{
		"evaluations":         atomic.LoadInt64(&r.evals),
		"distinct_nontrivial": len(r.nontrivial),
		"rule":                r.Rule,
		"samples":             r.samples,
		"exhaustive":          r.Exhaustive,
	}
	if r.Explanation != "" {
		cov["explanation"] = r.Explanation
	}
	keys := make([]string, 0, len(r.counters))
	for k := range r.counters {
		keys = append(keys, k)
	}
	sort.Strings(keys)
	obs := map[string]int64{}
	for _, k := range keys {
		obs[k] = r.counters[k]
	}
	cov["observed"] = obs
	for k, v := range r.extra {
		cov[k] = v
	}
	if len(r.inconcl) > 0 {
		cov["inconclusive"] = r.inconcl
	}
	if len(r.blind) > 0 {
		cov["blind"] = r.blind
	}
	if len(r.samples) == 0 {
		cov["samples"] = []any{"(no case was executed)"}
	}
	ev := map[string]any{
		"property_id": r.Prop,
		"tier":        r.Tier,
		"seed":        r.Seed,
		"level":       r.Level,
		"coverage":    cov,
		"assumptions": r.Assumptions,
		"wall_s":      time.Since(r.start).Seconds(),
		"violations":  r.violations,
	}
	viol := r.violations
	blind := append([]string(nil), r.blind...)
	r.mu.Unlock()

	if r.Replay == nil {
		buf, _ := json.MarshalIndent(ev, "", " ")
		dir := filepath.Join(Root(), "evidence")
		_ = os.MkdirAll(dir, 0o777)
		tmp := filepath.Join(dir, r.Prop+".json.tmp")
		_ = os.WriteFile(tmp, buf, 0o666)
		_ = os.Rename(tmp, filepath.Join(dir, r.Prop+".json"))
	}
	fmt.Printf("%s %s seed=%d: evaluations=%d distinct_nontrivial=%d violations=%d wall=%.1fs\n",
		r.Prop, r.Tier, r.Seed, atomic.LoadInt64(&r.evals), len(r.nontrivial), viol, time.Since(r.start).Seconds())
	if viol > 0 {
		os.Exit(1)
	}
	if len(blind) > 0 && r.Replay == nil {
		for _, b := range blind {
			fmt.Printf("INCONCLUSIVE property=%s reason=%s\n", r.As, b)
		}
		os.Exit(4)
	}
	os.Exit(0)
}

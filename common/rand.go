package common

import "hash/fnv"

// Rand is a small deterministic PRNG (splitmix64). Every case of every check derives its own
// generator from (seed, check name, case index), so a case list is a function of VERIF_SEED only.
type Rand struct{ s uint64 }

func Hash64(parts ...string) uint64 {
	h := fnv.New64a()
	for _, p := range parts {
		h.Write([]byte(p))
		h.Write([]byte{0})
	}
	return h.Sum64()
}

func HashBytes(b []byte) uint64 {
	h := fnv.New64a()
	h.Write(b)
	return h.Sum64()
}

func NewRand(seed int64, sub string, idx int) *Rand {
	r := &Rand{s: uint64(seed)*0x9E3779B97F4A7C15 ^ Hash64(sub) ^ (uint64(idx)+1)*0xBF58476D1CE4E5B9}
	r.Uint64()
	r.Uint64()
	return r
}

func (r *Rand) Uint64() uint64 {
	r.s += 0x9E3779B97F4A7C15
	z := r.s
	z = (z ^ (z >> 30)) * 0xBF58476D1CE4E5B9
	z = (z ^ (z >> 27)) * 0x94D049BB133111EB
	return z ^ (z >> 31)
}

// Intn returns a value in [0,n). n<=0 yields 0.
func (r *Rand) Intn(n int) int {
	if n <= 0 {
		return 0
	}
	return int(r.Uint64() % uint64(n))
}

// Range returns a value in [lo,hi].
func (r *Rand) Range(lo, hi int) int { return lo + r.Intn(hi-lo+1) }

func (r *Rand) Bool() bool { return r.Uint64()&1 == 1 }

// Chance is true with probability num/den.
func (r *Rand) Chance(num, den int) bool { return r.Intn(den) < num }

func (r *Rand) Float() float64 { return float64(r.Uint64()>>11) / (1 << 53) }

func (r *Rand) Bytes(n int) []byte {
	b := make([]byte, n)
	for i := range b {
		b[i] = byte(r.Uint64())
	}
	return b
}

func Pick[T any](r *Rand, xs []T) T { return xs[r.Intn(len(xs))] }

func Shuffle[T any](r *Rand, xs []T) {
	for i := len(xs) - 1; i > 0; i-- {
		j := r.Intn(i + 1)
		xs[i], xs[j] = xs[j], xs[i]
	}
}

package common

import (
	"fmt"
	"os"
	"path/filepath"
	"sync"
)

// Parallel runs fn(i) for i in [0,n) on up to workers goroutines.
func Parallel(n, workers int, fn func(i int)) {
	if workers < 1 {
		workers = 1
	}
	var wg sync.WaitGroup
	ch := make(chan int)
	for w := 0; w < workers; w++ {
		wg.Add(1)
		go func() {
			defer wg.Done()
			for i := range ch {
				fn(i)
			}
		}()
	}
	for i := 0; i < n; i++ {
		ch <- i
	}
	close(ch)
	wg.Wait()
}

// Journal records, before a case is executed, which case is about to run, so that a fatal runtime error
// (which no recover() can see) still leaves a replayable trace. ./check points the VIOLATION line at it.
type Journal struct {
	mu   sync.Mutex
	path string
	cur  map[int]string
}

func NewJournal(prop string) *Journal {
	dir := filepath.Join(Root(), ".build")
	_ = os.MkdirAll(dir, 0o777)
	j := &Journal{path: filepath.Join(dir, "journal-"+prop+".txt"), cur: map[int]string{}}
	_ = os.WriteFile(j.path, nil, 0o666)
	return j
}

// Begin notes that worker slot is about to run the described case.
func (j *Journal) Begin(slot int, desc string) {
	j.mu.Lock()
	defer j.mu.Unlock()
	j.cur[slot] = desc
	j.flush()
}

func (j *Journal) End(slot int) {
	j.mu.Lock()
	defer j.mu.Unlock()
	delete(j.cur, slot)
	j.flush()
}

func (j *Journal) flush() {
	s := ""
	for slot, d := range j.cur {
		s += fmt.Sprintf("in-flight[%d]: %s\n", slot, d)
	}
	_ = os.WriteFile(j.path, []byte(s), 0o666)
}

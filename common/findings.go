package common

import (
	"encoding/json"
	"os"
)

// Finding is one entry of /verif/known_findings.json. The file is committed and never written at run time.
type Finding struct {
	ID       string `json:"id"`
	Property string `json:"property"`
	Status   string `json:"status"` // "open" or "fixed"
	Commit   string `json:"commit,omitempty"`
	What     string `json:"what"`
	Repro    string `json:"reproducer,omitempty"` // the specific input / call site / history
	Excluded string `json:"excluded_class,omitempty"`
	Line     string `json:"line,omitempty"` // "fixed: property=<id> <commit> <what failed>"
}

type Findings struct {
	byID map[string]Finding
	All  []Finding
}

func LoadFindings(path string) (*Findings, error) {
	f := &Findings{byID: map[string]Finding{}}
	buf, err := os.ReadFile(path)
	if os.IsNotExist(err) {
		return f, nil
	}
	if err != nil {
		return nil, err
	}
	var doc struct {
		Findings []Finding `json:"findings"`
	}
	if err := json.Unmarshal(buf, &doc); err != nil {
		return nil, err
	}
	for _, e := range doc.Findings {
		f.byID[e.ID] = e
	}
	f.All = doc.Findings
	return f, nil
}

func (f *Findings) Open(id string) bool {
	e, ok := f.byID[id]
	return ok && e.Status == "open"
}

func (f *Findings) Get(id string) Finding { return f.byID[id] }

// Package model is an independent reference model of the Bigtable data model, written from the
// public API documentation and the property statements; it shares no code with the emulator.
package model

import (
	"fmt"
	"math"
	"sort"
	"strconv"
	"strings"
)

// Cell is one cell as the model (and the decoded chunk stream) sees it. Byte strings are Go strings.
type Cell struct {
	Fam    string
	Qual   string
	TS     int64
	Val    string
	Labels []string
}

func (c Cell) String() string {
	s := fmt.Sprintf("%s:%s@%d=%s", c.Fam, strconv.Quote(c.Qual), c.TS, strconv.Quote(c.Val))
	if len(c.Labels) > 0 {
		s += "#" + strings.Join(c.Labels, ",")
	}
	return s
}

// Row is a key plus its cells in some order.
type Row struct {
	Key   string
	Cells []Cell
}

func (r Row) String() string {
	parts := make([]string, len(r.Cells))
	for i, c := range r.Cells {
		parts[i] = c.String()
	}
	return strconv.Quote(r.Key) + "{" + strings.Join(parts, " ") + "}"
}

func RowsString(rows []Row) string {
	parts := make([]string, len(rows))
	for i, r := range rows {
		parts[i] = r.String()
	}
	return "[" + strings.Join(parts, "; ") + "]"
}

// Canon returns the cells sorted by (family, qualifier asc, timestamp desc, value, labels): the order-insensitive
// canonical form used to compare rows whose family order is unspecified.
func Canon(cells []Cell) []Cell {
	out := append([]Cell(nil), cells...)
	sort.SliceStable(out, func(i, j int) bool {
		a, b := out[i], out[j]
		if a.Fam != b.Fam {
			return a.Fam < b.Fam
		}
		if a.Qual != b.Qual {
			return a.Qual < b.Qual
		}
		if a.TS != b.TS {
			return a.TS > b.TS
		}
		if a.Val != b.Val {
			return a.Val < b.Val
		}
		return strings.Join(a.Labels, ",") < strings.Join(b.Labels, ",")
	})
	return out
}

func CellsEqual(a, b []Cell) bool {
	if len(a) != len(b) {
		return false
	}
	for i := range a {
		if a[i].Fam != b[i].Fam || a[i].Qual != b[i].Qual || a[i].TS != b[i].TS || a[i].Val != b[i].Val ||
			strings.Join(a[i].Labels, ",") != strings.Join(b[i].Labels, ",") {
			return false
		}
	}
	return true
}

// SameCells compares two cell lists ignoring family order (and any order among exact duplicates).
func SameCells(a, b []Cell) bool { return CellsEqual(Canon(a), Canon(b)) }

// CheckServedOrder verifies the ordering guarantees of an unfiltered (or filtered) row as served:
// each family in one contiguous run, qualifiers strictly ascending within a family, timestamps
// descending within a column (strictly unless allowDup).
func CheckServedOrder(cells []Cell, allowDup bool) string {
	seenFam := map[string]bool{}
	for i, c := range cells {
		if i == 0 || cells[i-1].Fam != c.Fam {
			if seenFam[c.Fam] {
				return fmt.Sprintf("family %q appears in two separate runs", c.Fam)
			}
			seenFam[c.Fam] = true
			continue
		}
		p := cells[i-1]
		if p.Qual > c.Qual {
			return fmt.Sprintf("qualifiers not ascending in family %q: %q before %q", c.Fam, p.Qual, c.Qual)
		}
		if p.Qual == c.Qual {
			if p.TS < c.TS || (p.TS == c.TS && !allowDup) {
				return fmt.Sprintf("timestamps not descending in %s:%q: %d before %d", c.Fam, c.Qual, p.TS, c.TS)
			}
		}
	}
	return ""
}

const (
	MaxValidTS = math.MaxInt64 - math.MaxInt64%1000
)

func ValidTS(ts int64) bool { return ts >= 0 && ts <= MaxValidTS && ts%1000 == 0 }

// TruncMs truncates a microsecond timestamp to whole milliseconds (server time granularity).
func TruncMs(us int64) int64 { return us - us%1000 }

// ---- table state ---------------------------------------------------------------------------

// Table is fam -> qual -> ts -> value per row key, plus the set of legal families.
type Table struct {
	Families map[string]*GcRule // nil rule = no GC
	Rows     map[string]map[string]map[string]map[int64]string
}

func NewTable(fams ...string) *Table {
	t := &Table{Families: map[string]*GcRule{}, Rows: map[string]map[string]map[string]map[int64]string{}}
	for _, f := range fams {
		t.Families[f] = nil
	}
	return t
}

func (t *Table) Clone() *Table {
	n := &Table{Families: map[string]*GcRule{}, Rows: map[string]map[string]map[string]map[int64]string{}}
	for f, r := range t.Families {
		n.Families[f] = r
	}
	for k, row := range t.Rows {
		n.Rows[k] = cloneRow(row)
	}
	return n
}

func cloneRow(row map[string]map[string]map[int64]string) map[string]map[string]map[int64]string {
	nr := map[string]map[string]map[int64]string{}
	for f, cols := range row {
		nf := map[string]map[int64]string{}
		for q, cells := range cols {
			nc := map[int64]string{}
			for ts, v := range cells {
				nc[ts] = v
			}
			nf[q] = nc
		}
		nr[f] = nf
	}
	return nr
}

// prune removes empty columns, families and the row itself.
func (t *Table) prune(key string) {
	row := t.Rows[key]
	for f, cols := range row {
		for q, cells := range cols {
			if len(cells) == 0 {
				delete(cols, q)
			}
		}
		if len(cols) == 0 {
			delete(row, f)
		}
	}
	if len(row) == 0 {
		delete(t.Rows, key)
	}
}

// RowCells returns the canonical cells of one row (nil if absent).
func (t *Table) RowCells(key string) []Cell { return rowCells(t.Rows[key]) }

func rowCells(row map[string]map[string]map[int64]string) []Cell {
	var out []Cell
	for f, cols := range row {
		for q, cells := range cols {
			for ts, v := range cells {
				out = append(out, Cell{Fam: f, Qual: q, TS: ts, Val: v})
			}
		}
	}
	return Canon(out)
}

// AllRows returns every row with at least one cell in ascending key order, cells canonical.
func (t *Table) AllRows() []Row {
	keys := make([]string, 0, len(t.Rows))
	for k := range t.Rows {
		keys = append(keys, k)
	}
	sort.Strings(keys)
	var out []Row
	for _, k := range keys {
		if cs := t.RowCells(k); len(cs) > 0 {
			out = append(out, Row{Key: k, Cells: cs})
		}
	}
	return out
}

func (t *Table) Keys() []string {
	var keys []string
	for _, r := range t.AllRows() {
		keys = append(keys, r.Key)
	}
	return keys
}

// ---- mutations -----------------------------------------------------------------------------

type MutKind int

const (
	SetCell MutKind = iota
	DelCol
	DelFam
	DelRow
)

// Mut is one mutation. TS == -1 on SetCell means server time. HasRange=false on DelCol means "all versions".
type Mut struct {
	Kind     MutKind
	Fam      string
	Qual     string
	TS       int64
	Val      string
	HasRange bool
	Start    int64
	End      int64
}

func (m Mut) String() string {
	switch m.Kind {
	case SetCell:
		return fmt.Sprintf("Set(%s:%s@%d=%s)", m.Fam, strconv.Quote(m.Qual), m.TS, strconv.Quote(m.Val))
	case DelCol:
		if m.HasRange {
			return fmt.Sprintf("DelCol(%s:%s[%d,%d))", m.Fam, strconv.Quote(m.Qual), m.Start, m.End)
		}
		return fmt.Sprintf("DelCol(%s:%s)", m.Fam, strconv.Quote(m.Qual))
	case DelFam:
		return fmt.Sprintf("DelFam(%s)", m.Fam)
	default:
		return "DelRow"
	}
}

func MutsString(ms []Mut) string {
	parts := make([]string, len(ms))
	for i, m := range ms {
		parts[i] = m.String()
	}
	return "[" + strings.Join(parts, ", ") + "]"
}

// Verdict says what the statement demands of the response to a request.
type Verdict int

const (
	MustOK  Verdict = iota // must be acknowledged and applied
	MayErr                 // an error or an acknowledgement are both admissible; if acknowledged, the computed effect applies
	MustErr                // must be answered with an error and change nothing
)

func (v Verdict) String() string { return [...]string{"MustOK", "MayErr", "MustErr"}[v] }

func worse(a, b Verdict) Verdict {
	if b > a {
		return b
	}
	return a
}

// Apply evaluates a mutation list against row key at server time now (microseconds).
// It returns the verdict and, for MustOK/MayErr, the row as it must look if the request is acknowledged.
// The table itself is not modified; use Commit.
func (t *Table) Apply(key string, muts []Mut, now int64) (Verdict, map[string]map[string]map[int64]string) {
	row := cloneRow(t.Rows[key])
	verdict := MustOK
	for _, m := range muts {
		switch m.Kind {
		case SetCell:
			if _, ok := t.Families[m.Fam]; !ok {
				return MustErr, nil
			}
			ts := m.TS
			if ts == -1 {
				ts = TruncMs(now)
			}
			if !ValidTS(ts) {
				return MustErr, nil
			}
			if row[m.Fam] == nil {
				row[m.Fam] = map[string]map[int64]string{}
			}
			if row[m.Fam][m.Qual] == nil {
				row[m.Fam][m.Qual] = map[int64]string{}
			}
			row[m.Fam][m.Qual][ts] = m.Val
		case DelCol:
			_, famKnown := t.Families[m.Fam]
			colExists := len(row[m.Fam][m.Qual]) > 0
			if m.HasRange {
				badBound := !ValidTS(m.Start) || (m.End != 0 && !ValidTS(m.End))
				inverted := m.End != 0 && m.Start > m.End
				empty := m.End != 0 && m.Start == m.End
				if !famKnown || badBound || inverted {
					// Nothing can be stored by such a request; an error is required when it targets an existing column.
					if colExists && famKnown {
						return MustErr, nil
					}
					verdict = worse(verdict, MayErr)
					continue
				}
				if empty {
					verdict = worse(verdict, MayErr)
					continue
				}
				for ts := range row[m.Fam][m.Qual] {
					if ts >= m.Start && (m.End == 0 || ts < m.End) {
						delete(row[m.Fam][m.Qual], ts)
					}
				}
			} else {
				if !famKnown {
					verdict = worse(verdict, MayErr)
					continue
				}
				delete(row[m.Fam], m.Qual)
			}
		case DelFam:
			if _, ok := t.Families[m.Fam]; !ok {
				verdict = worse(verdict, MayErr)
				continue
			}
			delete(row, m.Fam)
		case DelRow:
			row = map[string]map[string]map[int64]string{}
		}
	}
	return verdict, row
}

// Commit installs the row computed by Apply.
func (t *Table) Commit(key string, row map[string]map[string]map[int64]string) {
	t.Rows[key] = row
	t.prune(key)
}

// ---- GC rules ------------------------------------------------------------------------------

type GcKind int

const (
	GcMaxVersions GcKind = iota
	GcMaxAge
	GcUnion
	GcIntersection // unsupported by the emulator: must leave data untouched
)

type GcRule struct {
	Kind  GcKind
	N     int32 // max versions
	AgeUs int64 // max age in microseconds
	Subs  []*GcRule
}

func (g *GcRule) String() string {
	if g == nil {
		return "none"
	}
	switch g.Kind {
	case GcMaxVersions:
		return fmt.Sprintf("maxversions(%d)", g.N)
	case GcMaxAge:
		return fmt.Sprintf("maxage(%dus)", g.AgeUs)
	}
	parts := make([]string, len(g.Subs))
	for i, s := range g.Subs {
		parts[i] = s.String()
	}
	name := "union"
	if g.Kind == GcIntersection {
		name = "intersection"
	}
	return name + "(" + strings.Join(parts, ",") + ")"
}

// Supported reports whether the emulator claims to evaluate the rule (intersection anywhere => untouched).
func (g *GcRule) condemned(tsDesc []int64, now int64) map[int64]bool {
	out := map[int64]bool{}
	switch g.Kind {
	case GcMaxVersions:
		for i, ts := range tsDesc {
			if i >= int(g.N) {
				out[ts] = true
			}
		}
	case GcMaxAge:
		cutoff := now - g.AgeUs
		for _, ts := range tsDesc {
			if ts < cutoff {
				out[ts] = true
			}
		}
	case GcUnion:
		for _, s := range g.Subs {
			for ts := range s.condemned(tsDesc, now) {
				out[ts] = true
			}
		}
	}
	return out
}

func (g *GcRule) hasIntersection() bool {
	if g == nil {
		return false
	}
	if g.Kind == GcIntersection {
		return true
	}
	for _, s := range g.Subs {
		if s.hasIntersection() {
			return true
		}
	}
	return false
}

// GCRow applies the families' rules to one row (in place on a clone) and returns it.
func (t *Table) GCRow(row map[string]map[string]map[int64]string, now int64) map[string]map[string]map[int64]string {
	out := cloneRow(row)
	for f, cols := range out {
		rule := t.Families[f]
		if rule == nil || rule.Kind == GcIntersection {
			continue
		}
		for _, cells := range cols {
			var tss []int64
			for ts := range cells {
				tss = append(tss, ts)
			}
			sort.Slice(tss, func(i, j int) bool { return tss[i] > tss[j] })
			for ts := range rule.condemned(tss, now) {
				delete(cells, ts)
			}
		}
	}
	return out
}

// GC applies one full pass.
func (t *Table) GC(now int64) {
	for k, row := range t.Rows {
		t.Rows[k] = t.GCRow(row, now)
		t.prune(k)
	}
}

// RowToCells / exported helper for raw rows.
func RowToCells(row map[string]map[string]map[int64]string) []Cell { return rowCells(row) }

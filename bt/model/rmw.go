package model

import "encoding/binary"

// RMWRule is one read-modify-write rule.
type RMWRule struct {
	Fam    string
	Qual   string
	Append bool
	Val    string
	Inc    int64
}

// RMW evaluates a rule list against row key at server time now (microseconds). It returns the verdict, the row as
// it must look if the request is acknowledged, and the cells the response must contain (the newly written
// cell of each touched column).
func (t *Table) RMW(key string, rules []RMWRule, now int64) (Verdict, map[string]map[string]map[int64]string, []Cell) {
	row := cloneRow(t.Rows[key])
	verdict := MustOK
	type colKey struct{ f, q string }
	written := map[colKey]Cell{}
	var order []colKey
	for _, ru := range rules {
		if _, ok := t.Families[ru.Fam]; !ok {
			return MustErr, nil, nil
		}
		ts := TruncMs(now)
		prev, have := "", false
		var newest int64
		for cts := range row[ru.Fam][ru.Qual] {
			if !have || cts > newest {
				newest, have = cts, true
			}
		}
		if have {
			prev = row[ru.Fam][ru.Qual][newest]
			if newest > ts {
				ts = newest
			}
		}
		var nv string
		if ru.Append {
			nv = prev + ru.Val
		} else {
			var v int64
			if have {
				switch len(prev) {
				case 8:
					v = int64(binary.BigEndian.Uint64([]byte(prev)))
				case 0:
					// statement: "a missing cell counts as 0" and "an increment on a value that is not 8 bytes long fails":
					// an existing empty value is read either way; failing without change or counting it as 0 are both accepted.
					verdict = worse(verdict, MayErr)
				default:
					return MustErr, nil, nil
				}
			}
			v += ru.Inc
			var b [8]byte
			binary.BigEndian.PutUint64(b[:], uint64(v))
			nv = string(b[:])
		}
		if row[ru.Fam] == nil {
			row[ru.Fam] = map[string]map[int64]string{}
		}
		if row[ru.Fam][ru.Qual] == nil {
			row[ru.Fam][ru.Qual] = map[int64]string{}
		}
		row[ru.Fam][ru.Qual][ts] = nv
		ck := colKey{ru.Fam, ru.Qual}
		if _, ok := written[ck]; !ok {
			order = append(order, ck)
		}
		written[ck] = Cell{Fam: ru.Fam, Qual: ru.Qual, TS: ts, Val: nv}
	}
	var resp []Cell
	for _, ck := range order {
		resp = append(resp, written[ck])
	}
	return verdict, row, Canon(resp)
}

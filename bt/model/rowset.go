package model

import "sort"

// Bound is one end of a row range: Mode 0 = unbounded, 1 = closed, 2 = open.
type Bound struct {
	Mode int
	Key  string
}

type Range struct{ Start, End Bound }

// RowSet is explicit keys plus ranges. Absent=true means the request carries no RowSet at all.
type RowSet struct {
	Absent bool
	Keys   []string
	Ranges []Range
}

// Whole reports whether the set denotes the whole table (absent or empty).
func (rs RowSet) Whole() bool { return rs.Absent || (len(rs.Keys) == 0 && len(rs.Ranges) == 0) }

// Inverted reports whether some range has start > end as raw bytes (both set). Per the API an empty key
// in a bound counts as unset.
func (rs RowSet) Inverted() bool {
	for _, r := range rs.Ranges {
		if r.Start.Mode != 0 && r.End.Mode != 0 && r.Start.Key != "" && r.End.Key != "" && r.Start.Key > r.End.Key {
			return true
		}
	}
	return false
}

func (r Range) Contains(k string) bool {
	switch r.Start.Mode {
	case 1:
		if r.Start.Key != "" && k < r.Start.Key {
			return false
		}
	case 2:
		if r.Start.Key != "" && k <= r.Start.Key {
			return false
		}
	}
	switch r.End.Mode {
	case 1:
		if r.End.Key != "" && k > r.End.Key {
			return false
		}
	case 2:
		if r.End.Key != "" && k >= r.End.Key {
			return false
		}
	}
	return true
}

func (rs RowSet) Contains(k string) bool {
	if rs.Whole() {
		return true
	}
	for _, x := range rs.Keys {
		if x == k {
			return true
		}
	}
	for _, r := range rs.Ranges {
		if r.Contains(k) {
			return true
		}
	}
	return false
}

// Select returns the stored keys in the set, ascending.
func (rs RowSet) Select(keys []string) []string {
	var out []string
	for _, k := range keys {
		if rs.Contains(k) {
			out = append(out, k)
		}
	}
	sort.Strings(out)
	return out
}

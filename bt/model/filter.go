package model

import (
	"fmt"
	"strconv"
	"strings"
)

// Filter is a row filter tree. Kind is one of:
// pass block rowkey family qual value colrange valrange tsrange rowlimit rowoffset collimit strip label
// chain interleave cond sample  (+ "badregex-rowkey/family/qual/value" carry a raw invalid pattern)
type Filter struct {
	Kind string
	Flag bool   // pass / block / strip
	Re   *Re    // regex filters
	Raw  string // raw (invalid) pattern for bad-regex variants
	Fam  string // colrange
	// Range bounds: mode 0 = unset, 1 = closed, 2 = open
	SMode, EMode int
	Start, End   string
	TStart, TEnd int64 // tsrange
	N            int32 // limits / offset
	Label        string
	P            float64
	Subs         []*Filter // chain / interleave
	Pred, T, F   *Filter   // cond
}

func (f *Filter) String() string {
	if f == nil {
		return "nil"
	}
	b := func(mode int, v string, open, closed string) string {
		switch mode {
		case 1:
			return closed + strconv.Quote(v)
		case 2:
			return open + strconv.Quote(v)
		}
		return "-"
	}
	switch f.Kind {
	case "pass", "block", "strip":
		return fmt.Sprintf("%s(%v)", f.Kind, f.Flag)
	case "rowkey", "family", "qual", "value":
		if f.Re == nil {
			return fmt.Sprintf("%s~BAD%s", f.Kind, strconv.Quote(f.Raw))
		}
		return fmt.Sprintf("%s~%s", f.Kind, strconv.Quote(f.Re.Render()))
	case "colrange":
		return fmt.Sprintf("colrange(%s,%s,%s)", f.Fam, b(f.SMode, f.Start, "(", "["), b(f.EMode, f.End, ")", "]"))
	case "valrange":
		return fmt.Sprintf("valrange(%s,%s)", b(f.SMode, f.Start, "(", "["), b(f.EMode, f.End, ")", "]"))
	case "tsrange":
		return fmt.Sprintf("tsrange[%d,%d)", f.TStart, f.TEnd)
	case "rowlimit", "rowoffset", "collimit":
		return fmt.Sprintf("%s(%d)", f.Kind, f.N)
	case "label":
		return "label(" + f.Label + ")"
	case "sample":
		return fmt.Sprintf("sample(%g)", f.P)
	case "chain", "interleave":
		parts := make([]string, len(f.Subs))
		for i, s := range f.Subs {
			parts[i] = s.String()
		}
		return f.Kind + "(" + strings.Join(parts, ", ") + ")"
	case "cond":
		return fmt.Sprintf("cond(%s ? %s : %s)", f.Pred, f.T, f.F)
	}
	return "?" + f.Kind
}

// EvalResult is what the documented semantics say about one row.
type EvalResult struct {
	Cells     []Cell
	Merged    bool // cells came out of an interleave merge (family order then unspecified)
	MustErr   bool // an invalid argument was applied to at least one cell / non-empty row
	MayErr    bool // an invalid argument exists but was only reached with nothing to apply it to
	Ambiguous bool // see Evaluator.Ambiguous
}

// Evaluator carries the outcome chosen for each sample filter (in evaluation order).
type Evaluator struct {
	SampleChoices []bool
	sampleIdx     int
	SamplesSeen   int
	// Ambiguous is set when a cells-per-row limit/offset cut into a multi-family row whose family order
	// is unspecified because it came out of an interleave; the case is then not decidable from the statement.
	Ambiguous bool
}

// Eval applies f to the ordered cells of one row. A nil filter passes everything.
func (e *Evaluator) Eval(f *Filter, key string, in []Cell) EvalResult {
	return e.eval(f, key, in, false)
}

// distinctDup reports whether the list holds two cells of one (family, qualifier, timestamp) that differ in
// value or labels; their relative order after an interleave is unspecified.
func distinctDup(cs []Cell) bool {
	for i := 1; i < len(cs); i++ {
		a, b := cs[i-1], cs[i]
		if a.Fam == b.Fam && a.Qual == b.Qual && a.TS == b.TS && (a.Val != b.Val || strings.Join(a.Labels, ",") != strings.Join(b.Labels, ",")) {
			return true
		}
	}
	return false
}

func multiFam(cs []Cell) bool {
	for i := 1; i < len(cs); i++ {
		if cs[i].Fam != cs[0].Fam {
			return true
		}
	}
	return false
}

func (e *Evaluator) eval(f *Filter, key string, in []Cell, merged bool) EvalResult {
	r := e.eval1(f, key, in, merged)
	if merged {
		r.Merged = true
	}
	return r
}

func (e *Evaluator) eval1(f *Filter, key string, in []Cell, merged bool) EvalResult {
	if f == nil {
		return EvalResult{Cells: in}
	}
	invalid := func() EvalResult {
		if len(in) > 0 {
			return EvalResult{MustErr: true}
		}
		return EvalResult{MayErr: true}
	}
	perCell := func(keep func(c Cell) bool) EvalResult {
		var out []Cell
		for _, c := range in {
			if keep(c) {
				out = append(out, c)
			}
		}
		return EvalResult{Cells: out}
	}
	switch f.Kind {
	case "pass":
		if !f.Flag {
			return invalid()
		}
		return EvalResult{Cells: in}
	case "block":
		if !f.Flag {
			return invalid()
		}
		return EvalResult{}
	case "rowkey":
		if f.Re == nil {
			return invalid()
		}
		if f.Re.Match(key) {
			return EvalResult{Cells: in}
		}
		return EvalResult{}
	case "family":
		if f.Re == nil {
			return invalid()
		}
		return perCell(func(c Cell) bool { return f.Re.Match(c.Fam) })
	case "qual":
		if f.Re == nil {
			return invalid()
		}
		return perCell(func(c Cell) bool { return f.Re.Match(c.Qual) })
	case "value":
		if f.Re == nil {
			return invalid()
		}
		return perCell(func(c Cell) bool { return f.Re.Match(c.Val) })
	case "colrange":
		return perCell(func(c Cell) bool { return c.Fam == f.Fam && inRange(c.Qual, f) })
	case "valrange":
		return perCell(func(c Cell) bool { return inRange(c.Val, f) })
	case "tsrange":
		if f.TStart%1000 != 0 || f.TEnd%1000 != 0 {
			return invalid()
		}
		return perCell(func(c Cell) bool { return c.TS >= f.TStart && (f.TEnd == 0 || c.TS < f.TEnd) })
	case "rowlimit":
		if f.N < 0 {
			return invalid()
		}
		if f.N == 0 {
			// "first 0 cells": nothing can be returned; rejecting the argument is equally admissible.
			return EvalResult{MayErr: true}
		}
		if int(f.N) < len(in) {
			if merged && (multiFam(in) || distinctDup(in)) {
				e.Ambiguous = true
			}
			return EvalResult{Cells: in[:f.N]}
		}
		return EvalResult{Cells: in}
	case "rowoffset":
		if f.N < 0 {
			return invalid()
		}
		if int(f.N) < len(in) {
			if merged && (multiFam(in) || distinctDup(in)) && f.N > 0 {
				e.Ambiguous = true
			}
			return EvalResult{Cells: in[f.N:]}
		}
		return EvalResult{}
	case "collimit":
		if f.N < 0 {
			return invalid()
		}
		if f.N == 0 {
			return EvalResult{MayErr: true}
		}
		if merged && distinctDup(in) {
			e.Ambiguous = true
		}
		var out []Cell
		cnt := 0
		for i, c := range in {
			if i > 0 && (in[i-1].Fam != c.Fam || in[i-1].Qual != c.Qual) {
				cnt = 0
			}
			if cnt < int(f.N) {
				out = append(out, c)
			}
			cnt++
		}
		return EvalResult{Cells: out}
	case "strip":
		out := make([]Cell, len(in))
		for i, c := range in {
			c.Val = ""
			out[i] = c
		}
		return EvalResult{Cells: out}
	case "label":
		out := make([]Cell, len(in))
		for i, c := range in {
			c.Labels = []string{f.Label}
			out[i] = c
		}
		return EvalResult{Cells: out}
	case "sample":
		if !(f.P > 0 && f.P < 1) {
			return invalid()
		}
		e.SamplesSeen++
		choice := false
		if e.sampleIdx < len(e.SampleChoices) {
			choice = e.SampleChoices[e.sampleIdx]
		}
		e.sampleIdx++
		if choice {
			return EvalResult{Cells: in}
		}
		return EvalResult{}
	case "chain":
		if len(f.Subs) < 2 {
			return invalid()
		}
		cur := EvalResult{Cells: in}
		for _, s := range f.Subs {
			r := e.eval(s, key, cur.Cells, cur.Merged || merged)
			if r.MustErr {
				return EvalResult{MustErr: true}
			}
			cur = EvalResult{Cells: r.Cells, MayErr: cur.MayErr || r.MayErr, Merged: cur.Merged || r.Merged}
		}
		return cur
	case "interleave":
		if len(f.Subs) < 2 {
			return invalid()
		}
		var out []Cell
		may := false
		for _, s := range f.Subs {
			r := e.eval(s, key, in, merged)
			if r.MustErr {
				return EvalResult{MustErr: true}
			}
			may = may || r.MayErr
			out = append(out, r.Cells...)
		}
		return EvalResult{Cells: mergeInterleave(in, out), MayErr: may, Merged: true}
	case "cond":
		p := e.eval(f.Pred, key, in, merged)
		if p.MustErr {
			return EvalResult{MustErr: true}
		}
		br := f.F
		if len(p.Cells) > 0 {
			br = f.T
		}
		// the unselected branch is never applied: an invalid argument there may or may not be noticed
		other := f.T
		if len(p.Cells) > 0 {
			other = f.F
		}
		may := p.MayErr || hasInvalid(other)
		if br == nil {
			return EvalResult{MayErr: may}
		}
		r := e.eval(br, key, in, merged)
		if r.MustErr {
			return EvalResult{MustErr: true}
		}
		return EvalResult{Cells: r.Cells, MayErr: may || r.MayErr, Merged: r.Merged}
	}
	panic("unknown filter kind " + f.Kind)
}

// mergeInterleave orders the union of branch outputs: families in the order of the input row (then any
// new ones), qualifiers ascending, timestamps descending; duplicates are kept adjacent.
func mergeInterleave(in, out []Cell) []Cell {
	famOrder := map[string]int{}
	for _, c := range in {
		if _, ok := famOrder[c.Fam]; !ok {
			famOrder[c.Fam] = len(famOrder)
		}
	}
	res := Canon(out)
	// stable re-sort by family position
	sortStable(res, func(a, b Cell) bool { return famOrder[a.Fam] < famOrder[b.Fam] })
	return res
}

func sortStable(cs []Cell, less func(a, b Cell) bool) {
	for i := 1; i < len(cs); i++ {
		for j := i; j > 0 && less(cs[j], cs[j-1]); j-- {
			cs[j], cs[j-1] = cs[j-1], cs[j]
		}
	}
}

func inRange(v string, f *Filter) bool {
	switch f.SMode {
	case 1:
		if v < f.Start {
			return false
		}
	case 2:
		if v <= f.Start {
			return false
		}
	}
	switch f.EMode {
	case 1:
		if v > f.End {
			return false
		}
	case 2:
		if v >= f.End {
			return false
		}
	}
	return true
}

// hasInvalid reports whether any node of the tree carries an invalid argument.
func hasInvalid(f *Filter) bool {
	if f == nil {
		return false
	}
	switch f.Kind {
	case "pass", "block":
		return !f.Flag
	case "rowkey", "family", "qual", "value":
		return f.Re == nil
	case "tsrange":
		return f.TStart%1000 != 0 || f.TEnd%1000 != 0
	case "rowlimit", "rowoffset", "collimit":
		return f.N < 0 || (f.N == 0 && f.Kind != "rowoffset")
	case "sample":
		return !(f.P > 0 && f.P < 1)
	case "chain", "interleave":
		if len(f.Subs) < 2 {
			return true
		}
		for _, s := range f.Subs {
			if hasInvalid(s) {
				return true
			}
		}
	case "cond":
		return hasInvalid(f.Pred) || hasInvalid(f.T) || hasInvalid(f.F)
	}
	return false
}

func HasInvalid(f *Filter) bool { return hasInvalid(f) }

// CountSamples returns the number of sample nodes in the tree.
func CountSamples(f *Filter) int {
	if f == nil {
		return 0
	}
	n := 0
	if f.Kind == "sample" {
		n = 1
	}
	for _, s := range f.Subs {
		n += CountSamples(s)
	}
	return n + CountSamples(f.Pred) + CountSamples(f.T) + CountSamples(f.F)
}

// Outcomes evaluates f on a row for every assignment of its sample filters (at most 2^maxSamples) and
// returns the admissible results.
func Outcomes(f *Filter, key string, in []Cell) []EvalResult {
	n := CountSamples(f)
	if n > 6 {
		// too many independent coin flips to enumerate: not decided
		return []EvalResult{{Ambiguous: true}}
	}
	var res []EvalResult
	for mask := 0; mask < 1<<n; mask++ {
		ch := make([]bool, n)
		for i := range ch {
			ch[i] = mask&(1<<i) != 0
		}
		e := &Evaluator{SampleChoices: ch}
		r := e.Eval(f, key, in)
		if e.Ambiguous {
			r.Ambiguous = true
		}
		res = append(res, r)
	}
	return res
}

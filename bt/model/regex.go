package model

import (
	"fmt"
	"strings"
)

// Re is a regular expression AST over bytes for a restricted, unambiguous subset of RE2:
// literals, '.', byte classes, groups, alternation and the greedy quantifiers * + ?.
// Matching is whole-string (the Bigtable regex filters match the entire field).
type Re struct {
	Kind  string // "lit", "any", "class", "cat", "alt", "star", "plus", "opt", "empty"
	Lit   byte
	Neg   bool
	Set   []byte    // class members (single bytes)
	Rngs  [][2]byte // class ranges
	Subs  []*Re
	RawHi bool // render a byte >127 raw instead of as \xNN
}

// Render produces RE2 syntax for the AST.
func (r *Re) Render() string {
	var sb strings.Builder
	r.render(&sb, 0)
	return sb.String()
}

func litString(b byte, raw bool) string {
	switch {
	case b >= 'a' && b <= 'z', b >= 'A' && b <= 'Z', b >= '0' && b <= '9', b == '_', b == '/', b == ' ', b == ':', b == '#', b == '=', b == '@', b == '%', b == '&', b == ',', b == ';', b == '<', b == '>', b == '~', b == '!', b == '"', b == '\'':
		return string([]byte{b})
	case b > 127 && raw:
		return string([]byte{b})
	case b < 32 || b > 126:
		return fmt.Sprintf("\\x%02X", b)
	default:
		return "\\" + string([]byte{b})
	}
}

// prec: 0 = alternation context, 1 = concatenation, 2 = quantified operand
func (r *Re) render(sb *strings.Builder, prec int) {
	switch r.Kind {
	case "empty":
		if prec >= 2 {
			sb.WriteString("(?:)")
		}
	case "lit":
		sb.WriteString(litString(r.Lit, r.RawHi))
	case "any":
		sb.WriteString(".")
	case "class":
		sb.WriteString("[")
		if r.Neg {
			sb.WriteString("^")
		}
		for _, b := range r.Set {
			sb.WriteString(classLit(b))
		}
		for _, rg := range r.Rngs {
			sb.WriteString(classLit(rg[0]) + "-" + classLit(rg[1]))
		}
		sb.WriteString("]")
	case "cat":
		if prec >= 2 {
			sb.WriteString("(?:")
		}
		for _, s := range r.Subs {
			s.render(sb, 1)
		}
		if prec >= 2 {
			sb.WriteString(")")
		}
	case "alt":
		if prec >= 1 {
			sb.WriteString("(")
		}
		for i, s := range r.Subs {
			if i > 0 {
				sb.WriteString("|")
			}
			s.render(sb, 0)
		}
		if prec >= 1 {
			sb.WriteString(")")
		}
	case "star", "plus", "opt":
		sub := r.Subs[0]
		if sub.Kind == "star" || sub.Kind == "plus" || sub.Kind == "opt" {
			sb.WriteString("(?:")
			sub.render(sb, 0)
			sb.WriteString(")")
		} else {
			sub.render(sb, 2)
		}
		sb.WriteString(map[string]string{"star": "*", "plus": "+", "opt": "?"}[r.Kind])
	}
}

func classLit(b byte) string {
	switch {
	case b >= 'a' && b <= 'z', b >= 'A' && b <= 'Z', b >= '0' && b <= '9', b == '_', b == '/', b == ' ':
		return string([]byte{b})
	case b < 32 || b > 126:
		return fmt.Sprintf("\\x%02X", b)
	default:
		return "\\" + string([]byte{b})
	}
}

// Match reports whether the whole of s matches.
func (r *Re) Match(s string) bool {
	return r.m(s, 0, func(i int) bool { return i == len(s) }, 0)
}

// matchByte: does this single-byte node (lit / any / class) accept b?
func (r *Re) matchByte(b byte) bool {
	switch r.Kind {
	case "lit":
		return b == r.Lit
	case "any":
		return b != '\n'
	case "class":
		return r.classHas(b)
	}
	return false
}

func (r *Re) classHas(b byte) bool {
	in := false
	for _, x := range r.Set {
		if x == b {
			in = true
		}
	}
	for _, rg := range r.Rngs {
		if b >= rg[0] && b <= rg[1] {
			in = true
		}
	}
	return in != r.Neg
}

// m is a continuation-passing backtracking matcher; depth guards against runaway recursion on nested stars.
func (r *Re) m(s string, i int, k func(int) bool, depth int) bool {
	if depth > 4000 {
		return false
	}
	switch r.Kind {
	case "empty":
		return k(i)
	case "lit":
		return i < len(s) && s[i] == r.Lit && k(i+1)
	case "any":
		return i < len(s) && s[i] != '\n' && k(i+1)
	case "class":
		return i < len(s) && r.classHas(s[i]) && k(i+1)
	case "cat":
		var step func(j, pos int) bool
		step = func(j, pos int) bool {
			if j == len(r.Subs) {
				return k(pos)
			}
			return r.Subs[j].m(s, pos, func(p int) bool { return step(j+1, p) }, depth+1)
		}
		return step(0, i)
	case "alt":
		for _, sub := range r.Subs {
			if sub.m(s, i, k, depth+1) {
				return true
			}
		}
		return false
	case "opt":
		return r.Subs[0].m(s, i, k, depth+1) || k(i)
	case "star":
		if sub := r.Subs[0]; sub.Kind == "lit" || sub.Kind == "any" || sub.Kind == "class" {
			// single-byte operand: find the longest run iteratively (inputs can be tens of kilobytes), then back off
			n := 0
			for i+n < len(s) && sub.matchByte(s[i+n]) {
				n++
			}
			for j := n; j >= 0; j-- {
				if k(i + j) {
					return true
				}
			}
			return false
		}
		var loop func(pos int, d int) bool
		loop = func(pos int, d int) bool {
			if d > 4000 {
				return false
			}
			if r.Subs[0].m(s, pos, func(p int) bool { return p > pos && loop(p, d+1) }, depth+1) {
				return true
			}
			return k(pos)
		}
		return loop(i, depth)
	case "plus":
		star := &Re{Kind: "star", Subs: r.Subs}
		return r.Subs[0].m(s, i, func(p int) bool { return star.m(s, p, k, depth+1) }, depth+1)
	}
	return false
}

// HasNewlineSensitive reports whether the AST contains '.' or a negated class (whose treatment of '\n'
// depends on flags); used by generators to keep '\n' out of the matched data when present.
func Lit(s string) *Re {
	if len(s) == 0 {
		return &Re{Kind: "empty"}
	}
	subs := make([]*Re, len(s))
	for i := 0; i < len(s); i++ {
		subs[i] = &Re{Kind: "lit", Lit: s[i]}
	}
	if len(subs) == 1 {
		return subs[0]
	}
	return &Re{Kind: "cat", Subs: subs}
}

package main

import (
	"fmt"
	"sort"
	"strings"
	"sync"

	btapb "cloud.google.com/go/bigtable/admin/apiv2/adminpb"
	btpb "cloud.google.com/go/bigtable/apiv2/bigtablepb"
	"google.golang.org/grpc/codes"

	"verif/bt/drive"
	"verif/bt/model"
	"verif/common"
)

func init() { register("C03", "exploration", runC03) }

var c03U = []string{"a", "a\x00", "a\x00\x00", "ab", "b", "\x00", "\xff"}

// bound option i: 0 = unset, 1..7 = open(U[i-1]), 8..14 = closed(U[i-8]), 15 = open with an empty key, 16 = closed with
// an empty key (present on the wire but empty: means "no bound", like unset)
func c03Bound(i int) model.Bound {
	switch {
	case i == 0:
		return model.Bound{}
	case i <= 7:
		return model.Bound{Mode: 2, Key: c03U[i-1]}
	case i <= 14:
		return model.Bound{Mode: 1, Key: c03U[i-8]}
	case i == 15:
		return model.Bound{Mode: 2, Key: ""}
	default:
		return model.Bound{Mode: 1, Key: ""}
	}
}

const (
	c03NB = 17            // bound options
	c03NR = c03NB * c03NB // single ranges
)

func c03Range(i int) model.Range {
	return model.Range{Start: c03Bound(i / c03NB), End: c03Bound(i % c03NB)}
}

func rowSetString(rs model.RowSet) string {
	if rs.Absent {
		return "absent"
	}
	var parts []string
	for _, k := range rs.Keys {
		parts = append(parts, fmt.Sprintf("key %q", k))
	}
	for _, r := range rs.Ranges {
		s, e := "(-inf", "+inf)"
		switch r.Start.Mode {
		case 1:
			s = fmt.Sprintf("[%q", r.Start.Key)
		case 2:
			s = fmt.Sprintf("(%q", r.Start.Key)
		}
		switch r.End.Mode {
		case 1:
			e = fmt.Sprintf("%q]", r.End.Key)
		case 2:
			e = fmt.Sprintf("%q)", r.End.Key)
		}
		parts = append(parts, s+","+e)
	}
	return "{" + strings.Join(parts, " ") + "}"
}

type c03Table struct {
	name string
	keys []string // sorted stored keys
}

// c03ReadCheck performs one ReadRows and applies the set-union oracle.
func c03ReadCheck(cl btpb.BigtableClient, t c03Table, rs model.RowSet, limit int64) (string, int) {
	res := drive.ReadRows(cl, &btpb.ReadRowsRequest{TableName: t.name, Rows: drive.RowSetToProto(rs), RowsLimit: limit})
	if rs.Inverted() {
		if res.Code != codes.InvalidArgument {
			return fmt.Sprintf("inverted range must be rejected with InvalidArgument, got %s with %d rows", res.Code, len(res.Rows)), 0
		}
		if len(res.Rows) != 0 {
			return "rows returned together with InvalidArgument", 0
		}
		return "", 0
	}
	if !res.OK() {
		return fmt.Sprintf("valid RowSet rejected: %s: %s", res.Code, res.Msg), 0
	}
	if res.Malformed != "" {
		return "chunk stream malformed: " + res.Malformed, 0
	}
	got := keysOf(res.Rows)
	var first []string
	for ci, want := range c03Wants(rs, t.keys) {
		if limit > 0 && int64(len(want)) > limit {
			want = want[:limit]
		}
		if ci == 0 {
			first = want
		}
		if fmt.Sprintf("%q", got) == fmt.Sprintf("%q", want) {
			return "", len(got)
		}
	}
	return fmt.Sprintf("got keys %q want %q", got, first), 0
}

// c03Wants returns the admissible results. An END bound that is present with an empty key is not defined by the
// statement: it may mean "no upper bound" (what the client libraries rely on for an open end) or be taken literally
// (no key is below or equal to the empty key: the range selects nothing); either reading, per bound mode, is accepted.
// An empty START key selects everything under both readings.
func c03Wants(rs model.RowSet, keys []string) [][]string {
	hasEmptyEnd := false
	for _, r := range rs.Ranges {
		if r.End.Mode != 0 && r.End.Key == "" {
			hasEmptyEnd = true
		}
	}
	if !hasEmptyEnd || rs.Absent {
		return [][]string{rs.Select(keys)}
	}
	var out [][]string
	for combo := 0; combo < 4; combo++ {
		openUnbounded, closedUnbounded := combo&1 == 0, combo&2 == 0
		alt := model.RowSet{Keys: rs.Keys}
		for _, r := range rs.Ranges {
			if r.End.Mode != 0 && r.End.Key == "" {
				if (r.End.Mode == 2 && !openUnbounded) || (r.End.Mode == 1 && !closedUnbounded) {
					continue // literal reading: selects nothing
				}
			}
			alt.Ranges = append(alt.Ranges, r)
		}
		if len(alt.Keys) == 0 && len(alt.Ranges) == 0 {
			out = append(out, nil) // every range selected nothing: not the same as an empty RowSet
			continue
		}
		out = append(out, alt.Select(keys))
	}
	return out
}

func runC03(run *common.Run) {
	run.Rule = "case = one ReadRows with one RowSet (ranges with each bound unset/open/closed over the 7-key adversarial universe, optional explicit key, rows_limit) against one table content on one engine, result compared with the set-union model and the chunk-stream state machine. Enumerated sub-space: quick = all 289 single ranges (each bound unset / open / closed over the universe, or present with an empty key) x 8 key options x 4 limits x 4 tables (the fourth: the full universe after ~11 MB of rewrites, so that the leveldb engines serve it from table files), all 512 key-only row sets over the universe plus two absent keys (ascending and descending, with and without limit) x 3 tables, plus all ordered pairs of a 60-range stratified subset; thorough = ALL 289^2 range pairs x 8 key options (exhaustive for 'two ranges plus one key'). Non-trivial = result is a non-empty strict subset of the table, or an inverted range; distinct by (rowset, limit, table, engine). Further parts: duplicate/many-range sets, multi-message streams with limits at message boundaries and row-dropping filters, row sets of up to 1500 keys and 1100 ranges over a 3000-row table, a table of rows carrying 32 KiB - 1 MiB of values (byte thresholds crossed on the last cell of a row, mid-row and between rows), SampleRowKeys invariants on static tables and after every step of histories mixing SampleRowKeys with prefix drops, family drops, delete-all, row writes and row deletes."
	run.Assumptions = []string{"an END bound that is present with an empty key is not defined by the statement: 'no upper bound' and the literal reading (selects nothing) are both accepted, per bound mode; an empty START key selects everything under either reading", "inverted = start key > end key as raw bytes, both set"}
	j := common.NewJournal("C03")
	for ei, engine := range drive.Engines {
		if run.TooMany() {
			break
		}
		srv, err := drive.Start(engine, 1_700_000_000_000_000, "")
		if err != nil {
			run.Violation("setup", ei, "cannot start server: "+err.Error(), nil)
			return
		}
		// three table contents: full universe, and two subsets
		// ... and the full universe once more in a table whose rows were rewritten with 64 KiB values until ~11 MB had gone
		// through the storage engine: its rows sit in the engine's table files, not only in its write buffer
		contents := [][]string{c03U, {"a", "a\x00\x00", "b"}, {"a\x00", "ab", "\xff", "\x00"}, c03U}
		var tables []c03Table
		for ti, keys := range contents {
			name := drive.MustTable(srv.Admin, fmt.Sprintf("u%d", ti), "f", "g")
			for ki, k := range keys {
				// row shapes: the first column of the row / of a later family has the EMPTY qualifier (legal, and the
				// chunk stream must still name it), several columns, several versions, empty values
				muts := []model.Mut{{Kind: model.SetCell, Fam: "f", Qual: "q", TS: 1000, Val: "v" + k}}
				switch (ki + ti) % 3 {
				case 0:
					muts = append(muts, model.Mut{Kind: model.SetCell, Fam: "f", Qual: "", TS: 1000, Val: "e" + k}, model.Mut{Kind: model.SetCell, Fam: "f", Qual: "", TS: 2000, Val: ""})
				case 1:
					muts = append(muts, model.Mut{Kind: model.SetCell, Fam: "g", Qual: "", TS: 1000, Val: ""}, model.Mut{Kind: model.SetCell, Fam: "g", Qual: "q", TS: 1000, Val: "w"})
				}
				if ti == 3 {
					for rep := 0; rep < 24; rep++ {
						drive.MutateRow(srv.Data, name, k, []model.Mut{{Kind: model.SetCell, Fam: "g", Qual: "big", TS: 1000, Val: strings.Repeat(string(rune('a'+rep)), 64<<10)}})
					}
					muts = append(muts, model.Mut{Kind: model.DelCol, Fam: "g", Qual: "big"})
					run.Count("rows_rewritten_through_the_storage_engines_table_files", 1)
				}
				if st := drive.MutateRow(srv.Data, name, k, muts); !st.OK() {
					run.Violation("setup", ei, "set-up write failed: "+st.String(), nil)
					return
				}
			}
			sk := append([]string(nil), keys...)
			sort.Strings(sk)
			tables = append(tables, c03Table{name, sk})
		}
		// one client connection per worker
		nw := workers()
		clients := make([]btpb.BigtableClient, nw)
		for w := range clients {
			_, cl, _, err := srv.NewConn()
			if err != nil {
				run.Violation("setup", ei, "dial: "+err.Error(), nil)
				return
			}
			clients[w] = cl
		}
		doCase := func(sub string, idx int, w int, t c03Table, rs model.RowSet, limit int64) {
			if !run.Want(sub, idx) || run.TooMany() {
				return
			}
			msg, n := c03ReadCheck(clients[w], t, rs, limit)
			desc := fmt.Sprintf("engine=%s table=%s(keys %q) rowset=%s limit=%d", engine, t.name, t.keys, rowSetString(rs), limit)
			if msg != "" {
				run.Violation(sub, idx, msg+" | "+desc, map[string]any{"engine": engine, "table_keys": t.keys, "rowset": rowSetString(rs), "limit": limit})
			}
			nontrivial := rs.Inverted() || (n > 0 && n < len(t.keys))
			run.Case(common.Hash64(desc), nontrivial)
			if idx%5000 == 17 {
				run.Sample(desc)
			}
		}
		keyOpt := func(rs *model.RowSet, ko int) {
			if ko > 0 {
				rs.Keys = []string{c03U[ko-1]}
			}
		}
		// Part A1: all single ranges x key options x limits x tables
		if run.WantSub("single") {
			limits := []int64{0, 1, 2, 100}
			total := c03NR * 8 * len(limits) * len(tables)
			j.Begin(0, fmt.Sprintf("C03 single engine=%s", engine))
			parallelW(total, nw, func(i, w int) {
				c := i
				ri := c % c03NR
				c /= c03NR
				ko := c % 8
				c /= 8
				li := c % len(limits)
				c /= len(limits)
				ti := c
				rs := model.RowSet{Ranges: []model.Range{c03Range(ri)}}
				keyOpt(&rs, ko)
				doCase("single", ei*1_000_000+i, w, tables[ti], rs, limits[li])
			})
			run.Count("single_range_reads", int64(total))
		}
		// Part A3: key-only row sets: every subset of the universe plus two absent keys (one of them byte-adjacent to a
		// stored key), ascending and descending, with and without a limit, on every table [complete]
		if run.WantSub("keys") {
			pool := append(append([]string{}, c03U...), "zz", "a\x00\x00\x00")
			sort.Strings(pool)
			nsub := 1 << len(pool)
			total := nsub * 2 * 2 * len(tables)
			j.Begin(0, fmt.Sprintf("C03 keys engine=%s", engine))
			parallelW(total, nw, func(i, w int) {
				c := i
				mask := c % nsub
				c /= nsub
				desc := c%2 == 1
				c /= 2
				limit := int64(c%2) * 2
				c /= 2
				var rs model.RowSet
				for b, k := range pool {
					if mask&(1<<b) != 0 {
						rs.Keys = append(rs.Keys, k)
					}
				}
				if desc {
					for x, y := 0, len(rs.Keys)-1; x < y; x, y = x+1, y-1 {
						rs.Keys[x], rs.Keys[y] = rs.Keys[y], rs.Keys[x]
					}
				}
				doCase("keys", ei*1_000_000+i, w, tables[c], rs, limit)
			})
			run.Count("key_only_rowset_reads", int64(total))
		}
		// Part A2: pairs
		if run.WantSub("pair") {
			var subset []int
			if run.IsThorough() {
				for i := 0; i < c03NR; i++ {
					subset = append(subset, i)
				}
			} else {
				r := run.Rand("C03.subset", 0)
				perm := make([]int, c03NR)
				for i := range perm {
					perm[i] = i
				}
				common.Shuffle(r, perm)
				subset = perm[:60]
				sort.Ints(subset)
			}
			kos := []int{0}
			if run.IsThorough() {
				kos = []int{0, 1, 2, 3, 4, 5, 6, 7}
			}
			n := len(subset)
			total := n * n * len(kos)
			j.Begin(0, fmt.Sprintf("C03 pair engine=%s", engine))
			parallelW(total, nw, func(i, w int) {
				c := i
				a := subset[c%n]
				c /= n
				b := subset[c%n]
				c /= n
				ko := kos[c]
				rs := model.RowSet{Ranges: []model.Range{c03Range(a), c03Range(b)}}
				keyOpt(&rs, ko)
				var limit int64
				if i%7 == 3 {
					limit = 2
				}
				doCase("pair", ei*100_000_000+i, w, tables[0], rs, limit)
			})
			run.Count("range_pair_reads", int64(total))
			if run.IsThorough() && run.Replay == nil {
				run.Set("exhaustive_subspace", "all 289^2 ordered range pairs x 8 key options on the full-universe table, each engine")
				run.Exhaustive = true
			}
		}
		// Part B: duplicated / repeated keys and ranges, 3-8 ranges, empty RowSet vs absent
		if run.WantSub("multi") {
			nb := run.N(600, 20000)
			j.Begin(0, fmt.Sprintf("C03 multi engine=%s", engine))
			parallelW(nb, nw, func(i, w int) {
				r := run.Rand("C03.multi", i)
				var rs model.RowSet
				switch r.Intn(12) {
				case 0:
					rs.Absent = true
				case 1: // empty RowSet{} present
				default:
					nr := r.Range(0, 8)
					for k := 0; k < nr; k++ {
						rg := c03Range(r.Intn(c03NR))
						if !(model.RowSet{Ranges: []model.Range{rg}}).Inverted() || r.Chance(1, 20) {
							rs.Ranges = append(rs.Ranges, rg)
						}
					}
					nk := r.Range(0, 4)
					for k := 0; k < nk; k++ {
						rs.Keys = append(rs.Keys, common.Pick(r, append(append([]string{}, c03U...), "zz", "a\x00\x00\x00")))
					}
					if r.Chance(1, 3) && len(rs.Ranges) > 0 { // exact duplicates
						rs.Ranges = append(rs.Ranges, rs.Ranges[0])
					}
					if r.Chance(1, 3) && len(rs.Keys) > 0 {
						rs.Keys = append(rs.Keys, rs.Keys[0])
					}
				}
				limit := common.Pick(r, []int64{0, 0, 1, 3, 7})
				doCase("multi", ei*1_000_000+i, w, tables[r.Intn(len(tables))], rs, limit)
			})
		}
		// Part C: multi-message streams
		if run.WantSub("stream") && !run.TooMany() {
			j.Begin(0, fmt.Sprintf("C03 stream engine=%s", engine))
			c03Streams(run, srv, engine, ei)
		}
		// Part C2: heavy rows (values of 32 KiB ... 1 MiB): a server that bounds its responses by bytes splits rows
		// across messages; the stream must stay well formed and complete
		if run.WantSub("heavy") && !run.TooMany() {
			j.Begin(0, fmt.Sprintf("C03 heavy engine=%s", engine))
			c03Heavy(run, srv, engine, ei)
		}
		// Part D: SampleRowKeys
		if run.WantSub("sample") && !run.TooMany() {
			j.Begin(0, fmt.Sprintf("C03 sample engine=%s", engine))
			c03Sample(run, srv, engine, ei, tables)
		}
		j.End(0)
		srv.Close(true)
	}
}

// parallelW is common.Parallel with a stable worker index passed to fn.
func parallelW(n, nw int, fn func(i, w int)) {
	var wg sync.WaitGroup
	ch := make(chan int, 256)
	for w := 0; w < nw; w++ {
		wg.Add(1)
		go func(w int) {
			defer wg.Done()
			for i := range ch {
				fn(i, w)
			}
		}(w)
	}
	for i := 0; i < n; i++ {
		ch <- i
	}
	close(ch)
	wg.Wait()
}

func bigKey(i int) string { return fmt.Sprintf("row%05d", i) }

// c03Streams: a 3000-row table (1-3 cells per row) so that results span several response messages.
func c03Streams(run *common.Run, srv *drive.Srv, engine string, ei int) {
	const N = 3000
	name := drive.MustTable(srv.Admin, "big", "f")
	cellsOf := func(i int) int { return 1 + i%3 }
	var entries []drive.Entry
	flush := func() bool {
		if len(entries) == 0 {
			return true
		}
		st, per, _ := drive.MutateRows(srv.Data, name, entries)
		if !st.OK() {
			run.Violation("stream", ei, "set-up MutateRows failed: "+st.String(), nil)
			return false
		}
		for _, p := range per {
			if !p.OK() {
				run.Violation("stream", ei, "set-up MutateRows entry failed: "+p.String(), nil)
				return false
			}
		}
		entries = nil
		return true
	}
	for i := 0; i < N; i++ {
		var muts []model.Mut
		for c := 0; c < cellsOf(i); c++ {
			// value "odd"/"even" lets a value filter drop whole rows
			val := "even"
			if i%2 == 1 {
				val = "odd"
			}
			muts = append(muts, model.Mut{Kind: model.SetCell, Fam: "f", Qual: fmt.Sprint("q", c), TS: 1000, Val: val})
		}
		entries = append(entries, drive.Entry{Key: bigKey(i), Muts: muts})
		if len(entries) == 500 {
			if !flush() {
				return
			}
		}
	}
	if !flush() {
		return
	}
	allKeys := make([]string, N)
	for i := range allKeys {
		allKeys[i] = bigKey(i)
	}
	type sc struct {
		desc string
		req  *btpb.ReadRowsRequest
		want []string
	}
	var cases []sc
	sel := func(pred func(i int) bool, limit int) []string {
		var out []string
		for i := 0; i < N; i++ {
			if pred(i) {
				out = append(out, bigKey(i))
				if limit > 0 && len(out) == limit {
					break
				}
			}
		}
		return out
	}
	all := func(int) bool { return true }
	odd := func(i int) bool { return i%2 == 1 }
	valueOdd := drive.FilterToProto(&model.Filter{Kind: "value", Re: model.Lit("odd")})
	// a filter under which rows with a single cell produce no output although the row "matches": offset 1
	offset1 := drive.FilterToProto(&model.Filter{Kind: "rowoffset", N: 1})
	multi := func(i int) bool { return cellsOf(i) > 1 }
	// the first response message ends after the row that pushes the chunk count over 1024; limits are placed around it
	firstMsgRows := 0
	chunks := 0
	for i := 0; i < N && chunks <= 1024; i++ {
		chunks += cellsOf(i)
		firstMsgRows++
	}
	limits := []int{0, 1, firstMsgRows - 1, firstMsgRows, firstMsgRows + 1, 2 * firstMsgRows, N - 1, N, N + 1}
	for _, l := range limits {
		cases = append(cases, sc{fmt.Sprintf("full scan limit=%d", l), &btpb.ReadRowsRequest{TableName: name, RowsLimit: int64(l)}, sel(all, l)})
		cases = append(cases, sc{fmt.Sprintf("value=odd filter limit=%d", l), &btpb.ReadRowsRequest{TableName: name, RowsLimit: int64(l), Filter: valueOdd}, sel(odd, l)})
		cases = append(cases, sc{fmt.Sprintf("cells_per_row_offset(1) filter limit=%d", l), &btpb.ReadRowsRequest{TableName: name, RowsLimit: int64(l), Filter: offset1}, sel(multi, l)})
	}
	// ranges spanning message boundaries
	for _, b := range [][2]int{{0, 700}, {500, 1500}, {100, 2999}, {2999, 2999}} {
		lo, hi := b[0], b[1]
		rs := &btpb.RowSet{RowRanges: []*btpb.RowRange{{StartKey: &btpb.RowRange_StartKeyClosed{StartKeyClosed: []byte(bigKey(lo))}, EndKey: &btpb.RowRange_EndKeyClosed{EndKeyClosed: []byte(bigKey(hi))}}}}
		cases = append(cases, sc{fmt.Sprintf("range [%d,%d]", lo, hi), &btpb.ReadRowsRequest{TableName: name, Rows: rs}, sel(func(i int) bool { return i >= lo && i <= hi }, 0)})
		// two disjoint ranges + limit crossing from the first into the second
		rs2 := &btpb.RowSet{RowRanges: []*btpb.RowRange{
			{StartKey: &btpb.RowRange_StartKeyClosed{StartKeyClosed: []byte(bigKey(lo))}, EndKey: &btpb.RowRange_EndKeyOpen{EndKeyOpen: []byte(bigKey(lo + 10))}},
			{StartKey: &btpb.RowRange_StartKeyOpen{StartKeyOpen: []byte(bigKey(2000))}, EndKey: &btpb.RowRange_EndKeyClosed{EndKeyClosed: []byte(bigKey(2600))}}}}
		cases = append(cases, sc{fmt.Sprintf("ranges [%d,%d) (2000,2600] limit=15", lo, lo+10), &btpb.ReadRowsRequest{TableName: name, Rows: rs2, RowsLimit: 15},
			func() []string {
				w := sel(func(i int) bool { return (i >= lo && i < lo+10) || (i > 2000 && i <= 2600) }, 15)
				return w
			}()})
	}
	// large row sets: tens to thousands of explicit keys (unsorted, duplicated, some absent from the table) and of
	// small ranges (overlapping, adjacent, duplicated, every bound mode), with limits; expectation = set-union model
	nbig := run.N(24, 300)
	for b := 0; b < nbig; b++ {
		r := run.Rand("C03.bigset", b) // the same sets on every engine
		var rs model.RowSet
		nk := common.Pick(r, []int{0, 3, 50, 400, 1500})
		for k := 0; k < nk; k++ {
			i := r.Intn(N + 200) // keys beyond N do not exist
			key := bigKey(i)
			if r.Chance(1, 30) {
				key += "\x00" // between two stored keys
			}
			rs.Keys = append(rs.Keys, key)
		}
		nr := common.Pick(r, []int{0, 1, 40, 300, 1100})
		if nk == 0 && nr == 0 {
			nr = 40
		}
		for k := 0; k < nr; k++ {
			lo := r.Intn(N)
			hi := lo + r.Intn(12)
			rg := model.Range{Start: model.Bound{Mode: 1 + r.Intn(2), Key: bigKey(lo)}, End: model.Bound{Mode: 1 + r.Intn(2), Key: bigKey(hi)}}
			if r.Chance(1, 40) {
				rg.Start.Mode = 0
				rg.End.Key = bigKey(r.Intn(30))
			}
			if r.Chance(1, 40) {
				rg.End.Mode = 0
				rg.Start.Key = bigKey(N - 1 - r.Intn(30))
			}
			rs.Ranges = append(rs.Ranges, rg)
			if r.Chance(1, 10) {
				rs.Ranges = append(rs.Ranges, rg)
			}
		}
		want := rs.Select(allKeys)
		limit := common.Pick(r, []int{0, 0, 1, 17, len(want) - 1, len(want), len(want) + 1, 1025})
		if limit < 0 {
			limit = 0
		}
		if limit > 0 && len(want) > limit {
			want = want[:limit]
		}
		cases = append(cases, sc{fmt.Sprintf("big row set #%d: %d keys, %d ranges, limit=%d", b, len(rs.Keys), len(rs.Ranges), limit),
			&btpb.ReadRowsRequest{TableName: name, Rows: drive.RowSetToProto(rs), RowsLimit: int64(limit)}, want})
		run.Max("max_keys_in_one_row_set", int64(len(rs.Keys)))
		run.Max("max_ranges_in_one_row_set", int64(len(rs.Ranges)))
	}
	for ci, c := range cases {
		idx := ei*1000 + ci
		if !run.Want("stream", idx) {
			continue
		}
		res := drive.ReadRows(srv.Data, c.req)
		desc := fmt.Sprintf("engine=%s %s", engine, c.desc)
		bad := ""
		switch {
		case !res.OK():
			bad = fmt.Sprintf("scan failed: %s %s", res.Code, res.Msg)
		case res.Malformed != "":
			bad = "chunk stream malformed: " + res.Malformed
		default:
			got := keysOf(res.Rows)
			if len(got) != len(c.want) {
				bad = fmt.Sprintf("got %d rows want %d (first got %q, first want %q)", len(got), len(c.want), head(got), head(c.want))
			} else {
				for i := range got {
					if got[i] != c.want[i] {
						bad = fmt.Sprintf("row %d: got %q want %q", i, got[i], c.want[i])
						break
					}
				}
			}
			for _, r := range res.Rows {
				if len(r.Cells) == 0 {
					bad = fmt.Sprintf("row %q without cells", r.Key)
				}
			}
		}
		if bad != "" {
			run.Violation("stream", idx, bad+" | "+desc, map[string]any{"engine": engine, "case": c.desc})
		}
		run.Case(common.Hash64(desc), res.Messages > 1)
		run.Max("max_messages_in_one_scan", int64(res.Messages))
		run.Count("stream_scans", 1)
		if ci == 3 {
			run.Sample(fmt.Sprintf("%s -> %d rows in %d messages", desc, len(res.Rows), res.Messages))
		}
	}
}

// c03Heavy: a table whose rows carry 32 KiB ... 1 MiB of cell values in 1-4 cells, so that byte thresholds are
// crossed on the last cell of a row, in the middle of a row and between rows; scans with row sets and limits.
func c03Heavy(run *common.Run, srv *drive.Srv, engine string, ei int) {
	name := drive.MustTable(srv.Admin, "heavy", "f")
	type rowSpec struct{ cells, size int }
	var specs []rowSpec
	for i := 0; i < 18; i++ {
		specs = append(specs, rowSpec{1, 64 << 10}) // the 16th crosses 1 MiB on its only cell
	}
	for i := 0; i < 4; i++ {
		specs = append(specs, rowSpec{1, 600 << 10})
	}
	specs = append(specs, rowSpec{1, 1 << 20}, rowSpec{2, 512 << 10}, rowSpec{1, 1<<20 + 1}, rowSpec{3, 400 << 10})
	for i := 0; i < 10; i++ {
		specs = append(specs, rowSpec{4, 32 << 10}) // the 8th crosses 1 MiB on its last cell
	}
	var keys []string
	var total int64
	for i, sp := range specs {
		key := fmt.Sprintf("h%03d", i)
		keys = append(keys, key)
		var muts []model.Mut
		for c := 0; c < sp.cells; c++ {
			muts = append(muts, model.Mut{Kind: model.SetCell, Fam: "f", Qual: fmt.Sprint("q", c), TS: 1000, Val: strings.Repeat(string(rune('a'+c)), sp.size)})
			total += int64(sp.size)
		}
		if st := drive.MutateRow(srv.Data, name, key, muts); !st.OK() {
			run.Violation("heavy", ei, "set-up write failed: "+st.String(), nil)
			return
		}
	}
	t := c03Table{name, keys}
	_, cl, _, _ := srv.NewConn()
	n := len(keys)
	var sets []model.RowSet
	sets = append(sets, model.RowSet{Absent: true})
	for _, b := range [][2]int{{0, 17}, {10, 20}, {15, 16}, {18, 26}, {22, 23}, {26, n - 1}, {30, 34}} {
		sets = append(sets, model.RowSet{Ranges: []model.Range{{Start: model.Bound{Mode: 1, Key: keys[b[0]]}, End: model.Bound{Mode: 1, Key: keys[b[1]]}}}})
		sets = append(sets, model.RowSet{Keys: []string{keys[b[1]], keys[b[0]]}, Ranges: []model.Range{{Start: model.Bound{Mode: 2, Key: keys[b[0]]}, End: model.Bound{Mode: 2, Key: keys[b[1]]}}}})
	}
	for i := 0; i < n; i++ {
		sets = append(sets, model.RowSet{Keys: []string{keys[i]}})
	}
	// bounds that are present with an EMPTY key, against a table whose rows sit in the storage engine's table files
	// (not only in its write buffer): every mode of the other bound, alone and next to another range and a key
	for _, mode := range []int{1, 2} {
		for _, other := range []model.Bound{{}, {Mode: 1, Key: keys[10]}, {Mode: 2, Key: keys[10]}, {Mode: 1, Key: keys[n-1]}, {Mode: 2, Key: keys[n-1]}, {Mode: 1, Key: "\xff\xff"}} {
			sets = append(sets, model.RowSet{Ranges: []model.Range{{Start: other, End: model.Bound{Mode: mode, Key: ""}}}})
			sets = append(sets, model.RowSet{Ranges: []model.Range{{Start: model.Bound{Mode: mode, Key: ""}, End: other}}})
			sets = append(sets, model.RowSet{Keys: []string{keys[3]}, Ranges: []model.Range{{Start: other, End: model.Bound{Mode: mode, Key: ""}}, {Start: model.Bound{Mode: 1, Key: keys[20]}, End: model.Bound{Mode: 2, Key: keys[22]}}}})
		}
	}
	for si, rs := range sets {
		for _, limit := range []int64{0, 1, 16, 17} {
			idx := (ei*1000+si)*100 + int(limit)
			if !run.Want("heavy", idx) || run.TooMany() || (limit > 0 && len(rs.Keys) == 1 && len(rs.Ranges) == 0) {
				continue
			}
			msg, got := c03ReadCheck(cl, t, rs, limit)
			desc := fmt.Sprintf("engine=%s heavy table rowset=%s limit=%d", engine, rowSetString(rs), limit)
			if msg != "" {
				run.Violation("heavy", idx, msg+" | "+desc, map[string]any{"engine": engine, "rowset": rowSetString(rs), "limit": limit})
			}
			run.Case(common.Hash64(desc), got > 0)
			run.Count("heavy_scans", 1)
		}
	}
	run.Count("heavy_table_bytes", total)
}

func head(s []string) string {
	if len(s) == 0 {
		return ""
	}
	return s[0]
}

// c03Sample: SampleRowKeys invariants on tables of 0, 1, 3, 4, 7 and 3000 rows.
func c03Sample(run *common.Run, srv *drive.Srv, engine string, ei int, tables []c03Table) {
	empty := drive.MustTable(srv.Admin, "empty", "f")
	one := drive.MustTable(srv.Admin, "one", "f")
	drive.MutateRow(srv.Data, one, "only", []model.Mut{{Kind: model.SetCell, Fam: "f", Qual: "q", TS: 1000, Val: "v"}})
	names := []string{empty, one}
	// rows that lost all their cells (family dropped; a read-modify-write without rules) must not be reported as stored keys
	dropped := drive.MustTable(srv.Admin, "dropped", "f", "g")
	drive.MutateRow(srv.Data, dropped, "r1", []model.Mut{{Kind: model.SetCell, Fam: "f", Qual: "q", TS: 1000, Val: "v"}})
	drive.MutateRow(srv.Data, dropped, "r2", []model.Mut{{Kind: model.SetCell, Fam: "g", Qual: "q", TS: 1000, Val: "v"}})
	{
		ctx, cancel := drive.Ctx()
		_, err := srv.Admin.ModifyColumnFamilies(ctx, &btapb.ModifyColumnFamiliesRequest{Name: dropped, Modifications: []*btapb.ModifyColumnFamiliesRequest_Modification{{Id: "g", Mod: &btapb.ModifyColumnFamiliesRequest_Modification_Drop{Drop: true}}}})
		cancel()
		if err != nil {
			run.Violation("sample", ei, "set-up drop family failed: "+err.Error(), nil)
		}
	}
	norules := drive.MustTable(srv.Admin, "norules", "f")
	drive.MutateRow(srv.Data, norules, "k1", []model.Mut{{Kind: model.SetCell, Fam: "f", Qual: "q", TS: 1000, Val: "v"}})
	drive.ReadModifyWrite(srv.Data, norules, "zzz", nil) // either rejected or a no-op; it cannot create a row
	names = append(names, dropped, norules)
	for _, t := range tables {
		names = append(names, t.name)
	}
	names = append(names, drive.TableName(drive.Parent, "big"))
	reps := run.N(20, 300)
	for ti, name := range names {
		full := drive.ReadAll(srv.Data, name)
		if !full.OK() {
			continue
		}
		stored := keysOf(full.Rows)
		for rep := 0; rep < reps; rep++ {
			idx := ei*100000 + ti*1000 + rep
			if !run.Want("sample", idx) {
				continue
			}
			bad, keys := sampleInvariant(srv.Data, name, stored)
			if bad != "" {
				run.Violation("sample", idx, bad+fmt.Sprintf(" | engine=%s table=%s", engine, name), map[string]any{"engine": engine, "table": name, "keys": fmt.Sprintf("%q", keys)})
			}
			run.Case(common.Hash64("sample", engine, name, fmt.Sprint(keys)), len(keys) > 1)
			run.Count("sample_calls", 1)
		}
	}
	c03SampleHistory(run, srv, engine, ei)
}

// c03SampleHistory: SampleRowKeys interleaved with requests that add or remove rows WITHOUT being row writes (prefix
// drops, a family drop, delete-all) and with row writes and deletes: after every step the samples must describe the
// rows stored at that moment (a server that remembers an earlier answer must notice every kind of change).
func c03SampleHistory(run *common.Run, srv *drive.Srv, engine string, ei int) {
	for h := 0; h < run.N(6, 60); h++ {
		idx := ei*1000 + h
		if !run.Want("samplehist", idx) || run.TooMany() {
			continue
		}
		r := run.Rand("C03.samplehist", h)
		name := drive.MustTable(srv.Admin, fmt.Sprintf("sh%d", h), "f", "g")
		m := model.NewTable("f", "g")
		n := r.Range(5, 400)
		var entries []drive.Entry
		for i := 0; i < n; i++ {
			fam := common.Pick(r, []string{"f", "g"})
			muts := []model.Mut{{Kind: model.SetCell, Fam: fam, Qual: "q", TS: 1000, Val: "v"}}
			key := fmt.Sprintf("%c%04d", 'a'+i%5, i)
			_, nr := m.Apply(key, muts, 0)
			m.Commit(key, nr)
			entries = append(entries, drive.Entry{Key: key, Muts: muts})
		}
		drive.MutateRows(srv.Data, name, entries)
		var steps []string
		check := func() bool {
			if bad, keys := sampleInvariant(srv.Data, name, m.Keys()); bad != "" {
				run.Violation("samplehist", idx, bad+fmt.Sprintf(" | engine=%s after %v", engine, steps), map[string]any{"engine": engine, "steps": steps, "samples": fmt.Sprintf("%q", keys), "stored": len(m.Keys())})
				return false
			}
			run.Count("sample_calls_in_histories", 1)
			return true
		}
		ok := check()
		for s := 0; s < 8 && ok; s++ {
			switch r.Intn(6) {
			case 0:
				prefix := string(rune('a' + r.Intn(6)))
				ctx, cancel := drive.Ctx()
				_, err := srv.Admin.DropRowRange(ctx, &btapb.DropRowRangeRequest{Name: name, Target: &btapb.DropRowRangeRequest_RowKeyPrefix{RowKeyPrefix: []byte(prefix)}})
				cancel()
				steps = append(steps, fmt.Sprintf("DropRowRange(%q)->%v", prefix, err))
				for k := range m.Rows {
					if strings.HasPrefix(k, prefix) {
						delete(m.Rows, k)
					}
				}
			case 1:
				fam := common.Pick(r, []string{"f", "g"})
				if _, has := m.Families[fam]; !has {
					continue
				}
				ctx, cancel := drive.Ctx()
				_, err := srv.Admin.ModifyColumnFamilies(ctx, &btapb.ModifyColumnFamiliesRequest{Name: name, Modifications: []*btapb.ModifyColumnFamiliesRequest_Modification{{Id: fam, Mod: &btapb.ModifyColumnFamiliesRequest_Modification_Drop{Drop: true}}}})
				cancel()
				steps = append(steps, fmt.Sprintf("ModifyColumnFamilies(drop %s)->%v", fam, err))
				delete(m.Families, fam)
				for k, row := range m.Rows {
					delete(row, fam)
					m.Commit(k, row)
				}
			case 2:
				ctx, cancel := drive.Ctx()
				_, err := srv.Admin.DropRowRange(ctx, &btapb.DropRowRangeRequest{Name: name, Target: &btapb.DropRowRangeRequest_DeleteAllDataFromTable{DeleteAllDataFromTable: true}})
				cancel()
				steps = append(steps, fmt.Sprintf("DropRowRange(all)->%v", err))
				m.Rows = map[string]map[string]map[string]map[int64]string{}
			case 3:
				var fs []string
				for f := range m.Families {
					fs = append(fs, f)
				}
				if len(fs) == 0 {
					continue
				}
				sort.Strings(fs)
				key := fmt.Sprintf("%c%04d", 'a'+r.Intn(6), r.Intn(500))
				muts := []model.Mut{{Kind: model.SetCell, Fam: common.Pick(r, fs), Qual: "q", TS: 1000, Val: "w"}}
				st := drive.MutateRow(srv.Data, name, key, muts)
				steps = append(steps, fmt.Sprintf("MutateRow(%q)->%s", key, st))
				if st.OK() {
					_, nr := m.Apply(key, muts, 0)
					m.Commit(key, nr)
				}
			case 4:
				ks := m.Keys()
				if len(ks) == 0 {
					continue
				}
				key := ks[len(ks)-1] // delete the last stored key: the last sample must move
				if r.Bool() {
					key = common.Pick(r, ks)
				}
				st := drive.MutateRow(srv.Data, name, key, []model.Mut{{Kind: model.DelRow}})
				steps = append(steps, fmt.Sprintf("DeleteFromRow(%q)->%s", key, st))
				delete(m.Rows, key)
			default:
				steps = append(steps, "(no change)")
			}
			ok = check()
		}
		run.Case(common.Hash64("samplehist", engine, fmt.Sprint(steps)), len(steps) > 2)
	}
}

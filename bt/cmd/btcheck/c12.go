package main

import (
	"fmt"

	btapb "cloud.google.com/go/bigtable/admin/apiv2/adminpb"
	btpb "cloud.google.com/go/bigtable/apiv2/bigtablepb"

	"verif/bt/drive"
	"verif/bt/gen"
	"verif/bt/model"
	"verif/common"
)

func init() { register("C12", "exploration", runC12) }

var c12Ctx = gen.FilterCtx{Keys: gen.Keys, Fams: gen.Fams, Quals: gen.Quals, Vals: gen.Vals, TSs: []int64{0, 1000, 2000, 3000}, MaxCells: 6}

func runC12(run *common.Run) {
	run.Rule = "case = one program on one engine: 15-40 requests over the colliding key universe, two thirds CheckAndMutateRow (predicate = none or a generated filter tree to depth 3 incl. strip-everything, zero limits and erroring ones; true/false lists = generated mutation lists incl. empty lists and lists with an invalid k-th element), the rest plain MutateRow to move the row state, plus drops and re-creations of one family (rows left without cells by a drop). Before each request the row is read unfiltered and with filter=predicate; predicate_matched is compared with the independent evaluator AND with that filtered read, the row afterwards with the model applying exactly the selected list, and the whole table is re-read. Non-trivial = program saw both branches taken, a rejected request and a predicate that matched the row but left no cell; distinct by program x engine."
	run.Assumptions = []string{"filter evaluator and data model as in C05/C01", "row-sample predicates admit either outcome", "an invalid predicate argument that the semantics never apply to a cell may or may not be rejected"}
	j := common.NewJournal("C12")
	nprog := run.N(600, 8000)
	common.Parallel(nprog*3, workers(), func(i int) {
		prog, engine := i/3, drive.Engines[i%3]
		if !run.Want("prog", i) || run.TooMany() {
			return
		}
		j.Begin(i%64, fmt.Sprintf("C12 prog case=%d engine=%s", i, engine))
		c12Program(run, prog, engine, i)
		j.End(i % 64)
	})
}

func c12Program(run *common.Run, prog int, engine string, idx int) {
	r := run.Rand("C12.prog", prog)
	clock := gen.BaseClock
	srv, err := drive.Start(engine, clock, "")
	if err != nil {
		run.Violation("prog", idx, "cannot start server: "+err.Error(), nil)
		return
	}
	defer srv.Close(true)
	// family "g" is dropped and re-created during the program: rows can be left without cells by a family drop
	table := drive.MustTable(srv.Admin, "t", append(append([]string{}, gen.Fams...), "g")...)
	m := model.NewTable(append(append([]string{}, gen.Fams...), "g")...)
	remap := func(ms []model.Mut) []model.Mut {
		for i := range ms {
			if ms[i].Fam == "f2" && r.Chance(1, 2) {
				ms[i].Fam = "g"
			}
		}
		return ms
	}
	o := gen.Opts{InvalidPct: 5}
	var steps []string
	fail := func(what string) {
		run.Violation("prog", idx, what, map[string]any{"engine": engine, "steps": steps})
	}
	var sawTrue, sawFalse, sawReject, sawEmptyMatch bool
	keys := []string{"a", "a\x00", "a\nb", "ab"}
	n := r.Range(15, 40)
	// every second program is interleaved with unrelated requests (incl. CheckAndMutateRow with other predicates) for a
	// second, wide table of the same server
	var nz *noise
	nzr := run.Rand("C12.noise", prog)
	if prog%2 == 1 {
		nz = newNoise(srv)
		run.Count("programs_interleaved_with_traffic_for_another_table", 1)
	}
	branchMax := 3
	if prog%4 == 2 {
		// wide rows: every key starts with 20 columns in f1, and the mutation lists draw from a small pool of
		// qualifiers that sort between and before the stored ones and hold 2-6 mutations - a branch creates columns
		// out of order and addresses them (or stored ones) again within the same list
		var pool []string
		for _, key := range keys {
			var muts []model.Mut
			for c := 0; c < 20; c++ {
				muts = append(muts, model.Mut{Kind: model.SetCell, Fam: "f1", Qual: fmt.Sprintf("c%02d", 2*c), TS: 1000, Val: "w"})
			}
			_, nr := m.Apply(key, muts, clock)
			if st := drive.MutateRow(srv.Data, table, key, muts); !st.OK() {
				fail("set-up write failed: " + st.String())
				return
			}
			m.Commit(key, nr)
		}
		for c := 0; c < 6; c++ {
			pool = append(pool, fmt.Sprintf("c%02d", 2*c+1), fmt.Sprintf("c%02d", 6*c))
		}
		o.QualPool = append(pool, "", "zz")
		branchMax = 6
		run.Count("programs_on_rows_with_20_and_more_columns", 1)
	}
	for s := 0; s < n; s++ {
		if nz != nil && nzr.Chance(1, 2) {
			nz.send(nzr, srv)
		}
		key := common.Pick(r, keys)
		if r.Chance(1, 10) {
			// drop or re-create family g
			_, has := m.Families["g"]
			mod := &btapb.ModifyColumnFamiliesRequest_Modification{Id: "g", Mod: &btapb.ModifyColumnFamiliesRequest_Modification_Create{Create: &btapb.ColumnFamily{}}}
			if has {
				mod = &btapb.ModifyColumnFamiliesRequest_Modification{Id: "g", Mod: &btapb.ModifyColumnFamiliesRequest_Modification_Drop{Drop: true}}
			}
			ctx, cancel := drive.Ctx()
			_, err := srv.Admin.ModifyColumnFamilies(ctx, &btapb.ModifyColumnFamiliesRequest{Name: table, Modifications: []*btapb.ModifyColumnFamiliesRequest_Modification{mod}})
			cancel()
			steps = append(steps, fmt.Sprintf("ModifyColumnFamilies(g, drop=%v) -> %v", has, err))
			if err != nil {
				fail("ModifyColumnFamilies failed: " + err.Error())
				return
			}
			if has {
				delete(m.Families, "g")
				for k, row := range m.Rows {
					delete(row, "g")
					m.Commit(k, row)
				}
			} else {
				m.Families["g"] = nil
			}
			continue
		}
		if r.Chance(1, 6) {
			// a ReadModifyWriteRow (another write path of the server) on the families of the program, mostly the
			// droppable one
			rules := gen.Rules(r, 0, 1, 2)
			for i := range rules {
				if r.Chance(2, 3) {
					rules[i].Fam = "g"
				}
				rules[i].Append = true // appends never fail on the stored value
				rules[i].Val = fmt.Sprint("+", s)
			}
			v, nr, _ := m.RMW(key, toModelRules(rules), clock)
			st, _ := drive.ReadModifyWrite(srv.Data, table, key, rules)
			steps = append(steps, fmt.Sprintf("ReadModifyWriteRow(%q,%v) -> %s", key, rules, st))
			if (v == model.MustOK && !st.OK()) || (v == model.MustErr && st.OK()) {
				fail("ReadModifyWriteRow disagreement (see C13)")
				return
			}
			if st.OK() {
				m.Commit(key, nr)
				run.Count("rows_written_through_read_modify_write", 1)
			}
			continue
		}
		if r.Chance(1, 3) {
			muts := remap(gen.Mutations(r, gen.Opts{}, 1, 4))
			v, nr := m.Apply(key, muts, clock)
			st := drive.MutateRow(srv.Data, table, key, muts)
			steps = append(steps, fmt.Sprintf("MutateRow(%q,%s) -> %s", key, model.MutsString(muts), st))
			if (v == model.MustOK && !st.OK()) || (v == model.MustErr && st.OK()) {
				fail("MutateRow disagreement (see C01)")
				return
			}
			if st.OK() {
				m.Commit(key, nr)
			}
			continue
		}
		var pred *model.Filter
		if !r.Chance(1, 6) {
			pred = gen.Tree(r, c12Ctx, 3, 4)
			for model.CountSamples(pred) > 2 {
				pred = gen.Tree(r, c12Ctx, 3, 4)
			}
		}
		tm := remap(gen.Mutations(r, o, 0, branchMax))
		fm := remap(gen.Mutations(r, o, 0, branchMax))
		// the row as served right now (input of the evaluator; gives the family order)
		before := drive.ReadRow(srv.Data, table, key)
		if !before.OK() {
			fail("read before request failed: " + before.Code.String())
			return
		}
		var cells []model.Cell
		if len(before.Rows) == 1 {
			cells = before.Rows[0].Cells
		}
		// admissible predicate outcomes
		canTrue, canFalse, mustErr, mayErr, ambiguous := false, false, true, false, false
		if pred == nil {
			mustErr = false
			canTrue, canFalse = len(cells) > 0, len(cells) == 0
		} else {
			for _, o := range model.Outcomes(pred, key, cells) {
				if o.Ambiguous {
					ambiguous = true
				}
				if o.MustErr {
					continue
				}
				mustErr = false
				mayErr = mayErr || o.MayErr
				if len(o.Cells) > 0 {
					canTrue = true
				} else {
					canFalse = true
					if len(cells) > 0 && !model.HasInvalid(pred) {
						sawEmptyMatch = true
					}
				}
			}
		}
		// independent cross-check: a read of that row with filter=predicate
		var filtered drive.ReadResult
		if pred != nil && len(cells) > 0 {
			filtered = drive.ReadRows(srv.Data, &btpb.ReadRowsRequest{TableName: table, Rows: &btpb.RowSet{RowKeys: [][]byte{[]byte(key)}}, Filter: drive.FilterToProto(pred)})
		}
		st, matched := drive.CheckAndMutate(srv.Data, table, key, pred, tm, fm)
		steps = append(steps, fmt.Sprintf("CheckAndMutateRow(%q, pred=%s, true=%s, false=%s) row-before=%s -> %s matched=%v", key, pred, model.MutsString(tm), model.MutsString(fm), model.Row{Key: key, Cells: cells}, st, matched))
		run.Count("check_and_mutate_requests", 1)
		if ambiguous {
			run.Count("undecidable_predicates", 1)
			// resynchronise the model from the server: this request's outcome is not decided
			after := drive.ReadRow(srv.Data, table, key)
			nr := map[string]map[string]map[int64]string{}
			if len(after.Rows) == 1 {
				for _, c := range after.Rows[0].Cells {
					if nr[c.Fam] == nil {
						nr[c.Fam] = map[string]map[int64]string{}
					}
					if nr[c.Fam][c.Qual] == nil {
						nr[c.Fam][c.Qual] = map[int64]string{}
					}
					nr[c.Fam][c.Qual][c.TS] = c.Val
				}
			}
			m.Commit(key, nr)
			continue
		}
		if !st.OK() {
			sawReject = true
			// admissible only if the predicate may/must error, or the branch that would be selected is invalid
			tv, _ := m.Apply(key, tm, clock)
			fv, _ := m.Apply(key, fm, clock)
			okToFail := mustErr || mayErr || (canTrue && tv != model.MustOK) || (canFalse && fv != model.MustOK)
			if !okToFail {
				fail("valid CheckAndMutateRow rejected: " + st.String())
				return
			}
		} else {
			if mustErr {
				fail("CheckAndMutateRow with an invalid predicate (applied to the row's cells) was acknowledged")
				return
			}
			if (matched && !canTrue) || (!matched && !canFalse) {
				fail(fmt.Sprintf("predicate_matched=%v but the predicate yields %s on the current row", matched, map[bool]string{true: "no cell", false: "at least one cell"}[matched]))
				return
			}
			if pred != nil && len(cells) > 0 && model.CountSamples(pred) == 0 && filtered.OK() {
				if (len(filtered.Rows) > 0) != matched {
					fail(fmt.Sprintf("predicate_matched=%v disagrees with ReadRows(filter=predicate) taken just before, which returned %d rows", matched, len(filtered.Rows)))
					return
				}
				run.Count("cross_checked_with_filtered_read", 1)
			}
			sel := fm
			if matched {
				sel = tm
				sawTrue = true
			} else {
				sawFalse = true
			}
			v, nr := m.Apply(key, sel, clock)
			if v == model.MustErr {
				fail(fmt.Sprintf("selected branch (matched=%v) contains an invalid mutation but the request was acknowledged", matched))
				return
			}
			m.Commit(key, nr)
		}
		if msg := checkTable(srv.Data, table, m); msg != "" {
			fail("after step " + fmt.Sprint(s) + ": " + msg)
			return
		}
	}
	run.Case(common.Hash64(fmt.Sprint(steps), engine), sawTrue && sawFalse && sawReject && sawEmptyMatch)
	if prog < 1 && engine == "btree" {
		run.Sample(map[string]any{"engine": engine, "steps": steps[:min(len(steps), 5)]})
	}
}

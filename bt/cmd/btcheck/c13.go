package main

import (
	"fmt"
	"math"

	"verif/bt/drive"
	"verif/bt/gen"
	"verif/bt/model"
	"verif/common"
)

func init() { register("C13", "exploration", runC13) }

func toModelRules(rs []drive.Rule) []model.RMWRule {
	out := make([]model.RMWRule, len(rs))
	for i, r := range rs {
		out[i] = model.RMWRule{Fam: r.Fam, Qual: r.Qual, Append: r.Append, Val: r.Val, Inc: r.Inc}
	}
	return out
}

func runC13(run *common.Run) {
	run.Rule = "case = one program on one engine: a prior row state (cells at clock-1ms / clock / clock+1h / 0, values of length 0,1,7,8,9) followed by 2-6 ReadModifyWriteRow requests with 0-5 rules (repeated columns, mixed append/increment, extreme amounts, unknown family at any position; every third program starts from rows with 40 columns in one family and names new columns that sort between them, every third program uses families that are prefixes of one another with qualifiers whose concatenations collide) under a moving injected clock (non-millisecond values, backward steps); after each request the response row and a full re-read are compared with the RMW model. Part 'race': a ReadModifyWriteRow meets an admin request (drop of a family a rule names or of another one, DropRowRange all / by prefix) performed start to finish at the moment the request queues for the table lock; its answer (incl. the response cells) and the final table must be explained by one of the two serial orders. Non-trivial = at least one request hit a prior cell in the future of the clock and one request was rejected or wrapped around; distinct by program x engine."
	run.Assumptions = []string{"an increment on an existing cell whose value is empty may fail without change or count as 0", "family order in the response row is not compared", "a request with no rules may be rejected or be a no-op"}
	j := common.NewJournal("C13")
	nprog := run.N(1500, 30000)
	common.Parallel(nprog*3, workers(), func(i int) {
		prog, engine := i/3, drive.Engines[i%3]
		if !run.Want("prog", i) || run.TooMany() {
			return
		}
		j.Begin(i%64, fmt.Sprintf("C13 prog case=%d engine=%s", i, engine))
		c13Program(run, prog, engine, i)
		j.End(i % 64)
	})
	if run.WantSub("race") && !run.TooMany() {
		// a ReadModifyWriteRow meets a family drop / DropRowRange performed while it queues for the table lock
		runWriteVsAdmin(run, "race", []string{"RMW"}, run.N(120, 2000))
	}
}

func c13Program(run *common.Run, prog int, engine string, idx int) {
	r := run.Rand("C13.prog", prog)
	clock := gen.BaseClock + int64(r.Intn(100000))
	srv, err := drive.Start(engine, clock, "")
	if err != nil {
		run.Violation("prog", idx, "cannot start server: "+err.Error(), nil)
		return
	}
	defer srv.Close(true)
	fams := gen.Fams
	quals := gen.Quals[:3]
	if prog%3 == 2 {
		// families that are prefixes of one another and qualifiers that make (family, qualifier) pairs collide when
		// they are glued together without a separator: f+1q = f1+q = f1q+"", f+1 = f1+""
		fams = []string{"f", "f1", "f1q"}
		quals = []string{"", "q", "1q", "1"}
		run.Count("programs_with_prefix_related_families", 1)
	}
	wide := prog%3 == 1
	if wide {
		// rows whose first family already holds 40 columns c00..c39; the rules name (repeatedly) existing columns and
		// new columns that sort before, between and after them
		quals = []string{"a", "c05", "c20x", "zz", "c39"}
		run.Count("programs_with_40_column_rows", 1)
	}
	table := drive.MustTable(srv.Admin, "t", fams...)
	m := model.NewTable(fams...)
	var steps []string
	fail := func(what string) {
		run.Violation("prog", idx, what, map[string]any{"engine": engine, "steps": steps})
	}
	keys := []string{"k", "k\x00"}
	// prior state
	var future, rejectedOrWrapped bool
	for _, k := range keys {
		var muts []model.Mut
		n := r.Range(0, 5)
		for c := 0; c < n; c++ {
			ts := common.Pick(r, []int64{model.TruncMs(clock) - 1000, model.TruncMs(clock), model.TruncMs(clock) + 3_600_000_000, 0, model.MaxValidTS})
			var val string
			switch r.Intn(7) {
			case 0:
				val = ""
			case 1:
				val = "x"
			case 2:
				val = "1234567"
			case 3:
				val = "123456789"
			case 4:
				val = string([]byte{0x7f, 0xff, 0xff, 0xff, 0xff, 0xff, 0xff, 0xff}) // MaxInt64
			case 5:
				val = string([]byte{0x80, 0, 0, 0, 0, 0, 0, 0}) // MinInt64
			default:
				val = string([]byte{0, 0, 0, 0, 0, 0, 0, byte(r.Intn(200))})
			}
			muts = append(muts, model.Mut{Kind: model.SetCell, Fam: common.Pick(r, fams), Qual: common.Pick(r, quals), TS: ts, Val: val})
		}
		if wide {
			for c := 0; c < 40; c++ {
				muts = append(muts, model.Mut{Kind: model.SetCell, Fam: fams[0], Qual: fmt.Sprintf("c%02d", c), TS: model.TruncMs(clock) - 1000, Val: string([]byte{0, 0, 0, 0, 0, 0, 0, byte(c)})})
			}
		}
		if len(muts) == 0 {
			continue
		}
		v, nr := m.Apply(k, muts, clock)
		st := drive.MutateRow(srv.Data, table, k, muts)
		steps = append(steps, fmt.Sprintf("clock=%d MutateRow(%q,%s) -> %s", clock, k, model.MutsString(muts), st))
		if v != model.MustOK || !st.OK() {
			fail("set-up MutateRow failed: " + st.String())
			return
		}
		m.Commit(k, nr)
	}
	var nz *noise
	nzr := run.Rand("C13.noise", prog)
	if prog%2 == 1 {
		nz = newNoise(srv) // unrelated requests for a second, wide table between the requests of the program
	}
	nreq := r.Range(2, 6)
	for s := 0; s < nreq; s++ {
		if nz != nil && nzr.Chance(1, 2) {
			nz.send(nzr, srv)
		}
		switch r.Intn(5) {
		case 0:
			clock += int64(r.Intn(5000))
		case 1:
			clock -= int64(r.Intn(5000))
		case 2:
			clock += 1000
		}
		srv.SetClock(clock)
		k := common.Pick(r, keys)
		rules := gen.Rules(r, 8, 0, 5)
		if r.Chance(1, 12) {
			rules = nil
		}
		for i := range rules {
			rules[i].Qual = common.Pick(r, quals)
			if rules[i].Fam != gen.UnknownFam {
				rules[i].Fam = common.Pick(r, fams)
			}
		}
		if r.Chance(1, 10) {
			// a long request: 13-40 rules that name two append columns and a counter alternately, every append with
			// its own byte (rules on one column do not commute, and they are not adjacent in the request)
			rules = rules[:0]
			fam := common.Pick(r, fams)
			for i, n := 0, r.Range(13, 40); i < n; i++ {
				switch q := r.Intn(3); q {
				case 2:
					rules = append(rules, drive.Rule{Fam: fam, Qual: "lc", Inc: int64(i + 1)})
				default:
					rules = append(rules, drive.Rule{Fam: fam, Qual: []string{"la", "lb"}[q], Append: true, Val: string(rune('a' + i%26))})
				}
			}
			run.Count("requests_with_13_or_more_rules", 1)
		}
		for _, ru := range rules {
			for ts := range m.Rows[k][ru.Fam][ru.Qual] {
				if ts > model.TruncMs(clock) {
					future = true
				}
			}
		}
		verdict, newRow, wantResp := m.RMW(k, toModelRules(rules), clock)
		if len(rules) == 0 {
			verdict = model.MayErr
		}
		st, resp := drive.ReadModifyWrite(srv.Data, table, k, rules)
		steps = append(steps, fmt.Sprintf("clock=%d RMW(%q,%v) expect %s -> %s %s", clock, k, rules, verdict, st, resp))
		run.Count("rmw_requests", 1)
		if verdict == model.MustOK && !st.OK() {
			fail("valid ReadModifyWriteRow rejected: " + st.String())
			return
		}
		if verdict == model.MustErr && st.OK() {
			fail("invalid ReadModifyWriteRow acknowledged")
			return
		}
		if st.OK() {
			if resp.Key != k {
				fail(fmt.Sprintf("response row key %q, want %q", resp.Key, k))
				return
			}
			if !model.SameCells(resp.Cells, wantResp) {
				fail(fmt.Sprintf("response row: got %s want %s", resp, model.Row{Key: k, Cells: wantResp}))
				return
			}
			m.Commit(k, newRow)
			for _, ru := range rules {
				if !ru.Append && (ru.Inc == math.MaxInt64 || ru.Inc == math.MinInt64) {
					rejectedOrWrapped = true
				}
			}
		} else {
			rejectedOrWrapped = true
			run.Count("rmw_rejected", 1)
		}
		if msg := checkTable(srv.Data, table, m); msg != "" {
			fail("after request " + fmt.Sprint(s) + ": " + msg)
			return
		}
	}
	run.Case(common.Hash64(fmt.Sprint(steps), engine), future && rejectedOrWrapped)
	if future {
		run.Count("programs_with_cell_in_the_future_of_the_clock", 1)
	}
	if prog < 2 && engine == "ldbmem" {
		run.Sample(map[string]any{"engine": engine, "steps": steps})
	}
}

package main

import (
	btapb "cloud.google.com/go/bigtable/admin/apiv2/adminpb"
	"encoding/binary"
	"fmt"
	"sort"
	"strings"
	"sync"
	"sync/atomic"
	"time"

	"github.com/anishathalye/porcupine"
	"github.com/fullstorydev/emulators/bigtable/bttest"

	"verif/bt/drive"
	"verif/bt/gen"
	"verif/bt/model"
	"verif/common"
)

func init() { register("C06", "exploration", runC06) }

func runC06(run *common.Run) {
	run.Rule = "Part 'atomic' (sequential, enumerated): for MutateRow, a MutateRows entry, both CheckAndMutateRow branches and ReadModifyWriteRow, every list of length 1-4 whose k-th element is invalid (each invalid kind), on an empty and on a populated row: the request/entry must fail, the whole table must be unchanged, other MutateRows entries applied exactly. Part 'bigbatch': MutateRows requests of 1001-2600 entries with failing entries at positions below and beyond 1000: one status per entry, failing entries without effect, all others applied. Part 'lin' (concurrent): case = one history of 3-6 client goroutines x 6-10 operations (MutateRow writing one unique tag into two columns, MutateRows over both rows, CheckAndMutateRow 'if column==tag_i write tag_j' (half of the predicates also run strip_value over the row they test), ReadModifyWriteRow increment and append of unique tags, DeleteFromRow, whole-row reads) on 2 rows (every third history next to a schema-churn client that creates a scratch family, fills it in 250 other rows and in the rows under test, and drops it again, repeatedly), recorded at the gRPC client boundary with a logical clock, with bounded holds at the write RPCs' afterRead/beforeWrite yield points; checked per row with porcupine against a sequential row model plus conservation monitors (sum of acknowledged increments, each appended tag exactly once). Part 'round': multi-message scans on the btree engine under concurrent multi-column row writes, deletes and appends (the rounds of C18): every returned row is one of the states the row had during the scan, never half of a request. Part 'admin': a single-row write (each of the four RPCs) meets an admin request (drop of a family it names or of another one, DropRowRange all / by prefix, GC-rule update) performed start to finish at the moment the write queues for the table lock: the write's answer and the final table must be explained by one of the two serial orders. Non-trivial = history in which at least two operations on one row overlapped in logical time; distinct by history hash."
	run.Assumptions = []string{"porcupine v1.3.0 linearizability checker (per-row partitioning)", "sequential row model of ~60 lines", "holds are bounded sleeps inside the hooked points; they only widen interleavings and are never a verdict"}
	if run.WantSub("atomic") {
		c06Atomic(run)
	}
	if run.WantSub("bigbatch") && !run.TooMany() {
		c06BigBatch(run)
	}
	if run.WantSub("lin") {
		c06Lin(run)
	}
	if run.WantSub("round") && !run.TooMany() {
		// readers never observe half of a multi-mutation request - also not a multi-message scan on the btree engine
		// (its scans iterate a copy-on-write snapshot): the scan-under-writes rounds of C18, run on btree
		var seq uint64
		bttest.VerifSetHandler(func(point string, key []byte) {
			if point == "ReadRows.unlocked" && atomic.AddUint64(&seq, 1)%2 == 0 {
				time.Sleep(2 * time.Millisecond)
			}
		})
		for round := 0; round < run.N(3, 30) && !run.TooMany(); round++ {
			if run.Want("round", round) {
				c18Round(run, round, "btree", run.N(16, 24))
			}
		}
		bttest.VerifSetHandler(nil)
	}
	if run.WantSub("admin") && !run.TooMany() {
		runWriteVsAdmin(run, "admin", []string{"MutateRow", "MutateRows", "CAM", "RMW"}, run.N(180, 3000))
	}
	run.ScanRaceLogs("github.com/fullstorydev/emulators/bigtable")
}

// ---- part 1: failure atomicity -------------------------------------------------------------

func c06Atomic(run *common.Run) {
	invalidMuts := []model.Mut{
		{Kind: model.SetCell, Fam: gen.UnknownFam, Qual: "q", TS: 1000, Val: "x"},
		{Kind: model.SetCell, Fam: "f1", Qual: "q", TS: -2, Val: "x"},
		{Kind: model.SetCell, Fam: "f1", Qual: "q", TS: 1500, Val: "x"},
		{Kind: model.SetCell, Fam: "f1", Qual: "q", TS: 1<<63 - 1, Val: "x"},
		{Kind: model.DelCol, Fam: "f1", Qual: "q", HasRange: true, Start: 3000, End: 1000}, // inverted, on an existing column
		{Kind: model.DelCol, Fam: "f1", Qual: "q", HasRange: true, Start: 1500, End: 0},
	}
	caseNo := 0
	for ei, engine := range drive.Engines {
		srv, err := drive.Start(engine, gen.BaseClock, "")
		if err != nil {
			run.Violation("atomic", ei, "cannot start server: "+err.Error(), nil)
			return
		}
		table := drive.MustTable(srv.Admin, "t", gen.Fams...)
		m := model.NewTable(gen.Fams...)
		reset := func(populated bool) bool {
			for _, k := range []string{"other", "row"} { // "row" is written last: the failing request follows a successful write to the same row
				muts := []model.Mut{{Kind: model.DelRow}}
				if populated {
					muts = append(muts,
						model.Mut{Kind: model.SetCell, Fam: "f1", Qual: "q", TS: 1000, Val: "xyz"},
						model.Mut{Kind: model.SetCell, Fam: "f1", Qual: "q", TS: 2000, Val: "abc"},
						model.Mut{Kind: model.SetCell, Fam: "f2", Qual: "c8", TS: 1000, Val: "\x00\x00\x00\x00\x00\x00\x00\x05"})
				}
				_, nr := m.Apply(k, muts, gen.BaseClock)
				if st := drive.MutateRow(srv.Data, table, k, muts); !st.OK() {
					run.Violation("atomic", ei, "reset failed: "+st.String(), nil)
					return false
				}
				m.Commit(k, nr)
			}
			return true
		}
		for _, populated := range []bool{false, true} {
			for L := 1; L <= 4; L++ {
				for k := 0; k < L; k++ {
					for _, inv := range invalidMuts {
						if inv.Kind == model.DelCol && !populated {
							continue // on an absent column an invalid range may be accepted (nothing can be stored)
						}
						for _, rpc := range []string{"MutateRow", "MutateRows", "CAM-true", "CAM-false"} {
							idx := caseNo
							caseNo++
							if !run.Want("atomic", idx) || run.TooMany() {
								continue
							}
							if !reset(populated) {
								return
							}
							r := run.Rand("C06.atomic", idx)
							list := make([]model.Mut, L)
							for attempt := 0; attempt < 50; attempt++ {
								for i := range list {
									if i == k {
										list[i] = inv
									} else {
										// valid and visible: writes to fresh cells or deletes existing ones
										list[i] = common.Pick(r, []model.Mut{
											{Kind: model.SetCell, Fam: "f1", Qual: "n" + fmt.Sprint(i), TS: 3000, Val: "new"},
											{Kind: model.SetCell, Fam: "f2", Qual: "q", TS: -1, Val: "st"},
											{Kind: model.DelRow},
											{Kind: model.DelFam, Fam: "f1"},
											{Kind: model.SetCell, Fam: "f1", Qual: "q", TS: 1000, Val: "overwritten"},
										})
									}
								}
								// the statement demands a failure only if the invalid element is invalid where it stands
								// (an invalid range on a column that an earlier element of the list removed may be accepted)
								if v, _ := m.Apply("row", list, gen.BaseClock); v == model.MustErr {
									break
								}
							}
							if v, _ := m.Apply("row", list, gen.BaseClock); v != model.MustErr {
								continue
							}
							desc := fmt.Sprintf("engine=%s %s populated=%v list=%s (invalid at %d)", engine, rpc, populated, model.MutsString(list), k)
							failed := true
							switch rpc {
							case "MutateRow":
								failed = !drive.MutateRow(srv.Data, table, "row", list).OK()
							case "MutateRows":
								good := []model.Mut{{Kind: model.SetCell, Fam: "f2", Qual: "other", TS: 1000, Val: fmt.Sprint("v", idx)}}
								// the failing entry is followed by a valid entry for the SAME row and by entries for another row:
								// nothing of the failed entry may leak into what the later entries store
								after := []model.Mut{{Kind: model.SetCell, Fam: "f2", Qual: "after", TS: 1000, Val: fmt.Sprint("a", idx)}}
								// ... and (every second case) preceded by a valid entry for the same row, so that the failing entry sits
								// between two successful entries of its own row
								ents := []drive.Entry{{Key: "other", Muts: good}, {Key: "row", Muts: list}, {Key: "row", Muts: after}, {Key: "other", Muts: good[:1]}}
								at := 1
								var before []model.Mut
								if (idx/4)%2 == 1 {
									before = []model.Mut{{Kind: model.SetCell, Fam: "f2", Qual: "before", TS: 1000, Val: fmt.Sprint("b", idx)}}
									ents = append([]drive.Entry{ents[0], {Key: "row", Muts: before}}, ents[1:]...)
									at = 2
									desc += " [ok,FAIL,ok same-row entries]"
								}
								st, per, mal := drive.MutateRows(srv.Data, table, ents)
								sibOK := st.OK() && mal == ""
								for i := range per {
									if i != at && !per[i].OK() {
										sibOK = false
									}
								}
								if !sibOK {
									run.Violation("atomic", idx, fmt.Sprintf("valid sibling entries not acknowledged: %s %v %s | %s", st, per, mal, desc), desc)
									continue
								}
								_, nr := m.Apply("other", good, gen.BaseClock)
								m.Commit("other", nr)
								if before != nil {
									_, nr = m.Apply("row", before, gen.BaseClock)
									m.Commit("row", nr)
								}
								_, nr = m.Apply("row", after, gen.BaseClock)
								m.Commit("row", nr)
								failed = !per[at].OK()
							case "CAM-true", "CAM-false":
								want := rpc == "CAM-true"
								var pred *model.Filter
								if populated != want {
									// force the wanted branch regardless of the row content
									if want {
										continue // an empty row cannot select the true branch
									}
									pred = &model.Filter{Kind: "block", Flag: true}
								}
								var st drive.Status
								if want {
									st, _ = drive.CheckAndMutate(srv.Data, table, "row", pred, list, nil)
								} else {
									st, _ = drive.CheckAndMutate(srv.Data, table, "row", pred, nil, list)
								}
								failed = !st.OK()
							}
							if !failed {
								run.Violation("atomic", idx, "request with an invalid mutation was acknowledged | "+desc, desc)
							}
							if msg := checkTable(srv.Data, table, m); msg != "" {
								run.Violation("atomic", idx, "failed request changed the table: "+msg+" | "+desc, desc)
							}
							// a later successful write to the same row (nothing else written in between) must not bring back
							// anything of the rejected request
							follow := []model.Mut{{Kind: model.SetCell, Fam: "f2", Qual: "follow", TS: 2000, Val: fmt.Sprint("f", idx)}}
							if st := drive.MutateRow(srv.Data, table, "row", follow); !st.OK() {
								run.Violation("atomic", idx, "valid follow-up write rejected: "+st.String()+" | "+desc, desc)
							}
							_, fr := m.Apply("row", follow, gen.BaseClock)
							m.Commit("row", fr)
							if msg := checkTable(srv.Data, table, m); msg != "" {
								run.Violation("atomic", idx, "after a valid follow-up write to the same row, effects of the rejected request appeared: "+msg+" | "+desc, desc)
							}
							run.Case(common.Hash64(desc), L > 1)
							run.Count("failing_write_requests", 1)
							if idx%97 == 0 {
								run.Sample(desc)
							}
						}
					}
					// ReadModifyWriteRow: unknown family or increment on a non-8-byte value at position k
					for _, kind := range []string{"unknown-family", "non-8-byte"} {
						idx := caseNo
						caseNo++
						if !run.Want("atomic", idx) || run.TooMany() || (kind == "non-8-byte" && !populated) {
							continue
						}
						if !reset(populated) {
							return
						}
						rules := make([]drive.Rule, L)
						for i := range rules {
							if i == k {
								if kind == "unknown-family" {
									rules[i] = drive.Rule{Fam: gen.UnknownFam, Qual: "q", Append: true, Val: "x"}
								} else {
									rules[i] = drive.Rule{Fam: "f1", Qual: "q", Inc: 1} // newest value "abc" is 3 bytes
								}
							} else if i%2 == 0 {
								rules[i] = drive.Rule{Fam: "f2", Qual: "c8", Inc: 7}
							} else {
								rules[i] = drive.Rule{Fam: "f2", Qual: "log", Append: true, Val: "tag"}
							}
						}
						desc := fmt.Sprintf("engine=%s RMW populated=%v rules=%v (invalid at %d)", engine, populated, rules, k)
						st, _ := drive.ReadModifyWrite(srv.Data, table, "row", rules)
						if st.OK() {
							run.Violation("atomic", idx, "ReadModifyWriteRow with an invalid rule was acknowledged | "+desc, desc)
						}
						if msg := checkTable(srv.Data, table, m); msg != "" {
							run.Violation("atomic", idx, "failed ReadModifyWriteRow changed the table: "+msg+" | "+desc, desc)
						}
						follow := []model.Mut{{Kind: model.SetCell, Fam: "f2", Qual: "follow", TS: 2000, Val: fmt.Sprint("f", idx)}}
						drive.MutateRow(srv.Data, table, "row", follow)
						_, fr := m.Apply("row", follow, gen.BaseClock)
						m.Commit("row", fr)
						if msg := checkTable(srv.Data, table, m); msg != "" {
							run.Violation("atomic", idx, "after a valid follow-up write to the same row, effects of the rejected ReadModifyWriteRow appeared: "+msg+" | "+desc, desc)
						}
						run.Case(common.Hash64(desc), L > 1)
						run.Count("failing_write_requests", 1)
					}
				}
			}
		}
		srv.Close(true)
	}
}

// c06BigBatch: MutateRows requests of 1001-2600 entries (more than any per-response or per-batch size a server might
// use) with failing entries at PRNG positions, among them positions 1000, 1001 and the last one: exactly one status per
// entry, the failing entries (valid mutations before the invalid one) left their rows untouched, every other entry is
// applied.
func c06BigBatch(run *common.Run) { bigBatchPart(run, "bigbatch") }

// bigBatchPart is shared by C01 (per-entry status of invalid entries) and C06 (failing entries leave no trace).
func bigBatchPart(run *common.Run, sub string) {
	for ei, engine := range drive.Engines {
		for c := 0; c < run.N(1, 4); c++ {
			if idx := 1000 + ei*100 + c; run.Want(sub, idx) && !run.TooMany() {
				hugeBatchCase(run, sub, engine, idx)
			}
		}
		for c := 0; c < run.N(2, 12); c++ {
			idx := ei*100 + c
			if !run.Want(sub, idx) || run.TooMany() {
				continue
			}
			r := run.Rand("C06.bigbatch", c)
			srv, err := drive.Start(engine, gen.BaseClock, "")
			if err != nil {
				run.Violation(sub, idx, "cannot start server: "+err.Error(), nil)
				return
			}
			table := drive.MustTable(srv.Admin, "t", "f1", "f2")
			m := model.NewTable("f1", "f2")
			n := r.Range(1001, 2600)
			failAt := map[int]bool{1000: true, 1001: r.Bool(), n - 1: true, r.Intn(1000): true, 500: r.Bool(), 501 + r.Intn(400): true, 256: r.Bool()}
			for i := 0; i < 12; i++ {
				failAt[r.Intn(n)] = true
			}
			var entries []drive.Entry
			for i := 0; i < n; i++ {
				key := fmt.Sprintf("bb%05d", i)
				if r.Chance(1, 40) && i > 0 {
					key = fmt.Sprintf("bb%05d", r.Intn(i)) // an earlier row again
				}
				muts := []model.Mut{{Kind: model.SetCell, Fam: "f1", Qual: "q", TS: 1000, Val: fmt.Sprint("e", i)}}
				if failAt[i] {
					muts = append(muts, model.Mut{Kind: model.SetCell, Fam: gen.UnknownFam, Qual: "q", TS: 1000, Val: "x"})
				}
				entries = append(entries, drive.Entry{Key: key, Muts: muts})
			}
			st, per, mal := drive.MutateRows(srv.Data, table, entries)
			desc := fmt.Sprintf("engine=%s MutateRows of %d entries, failing entries at %v", engine, n, sortedKeys(failAt))
			bad := ""
			switch {
			case !st.OK():
				bad = "the request failed as a whole: " + st.String()
			case mal != "":
				bad = "response malformed: " + mal
			}
			for i := 0; bad == "" && i < n; i++ {
				v, nr := m.Apply(entries[i].Key, entries[i].Muts, gen.BaseClock)
				if (v == model.MustErr) == per[i].OK() {
					bad = fmt.Sprintf("entry %d (%s): status %s, expected %s", i, entries[i].Key, per[i], v)
				}
				if per[i].OK() {
					m.Commit(entries[i].Key, nr)
				}
			}
			if bad == "" {
				if msg := checkTable(srv.Data, table, m); msg != "" {
					bad = "table after the request: " + trunc(msg, 500)
				}
			}
			if bad != "" {
				run.Violation(sub, idx, bad+" | "+desc, map[string]any{"engine": engine, "case": desc})
			}
			run.Case(common.Hash64("bigbatch", desc), true)
			run.Count("big_batch_entries", int64(n))
			srv.Close(true)
		}
	}
}

// hugeBatchCase: one MutateRows request carrying more than 100000 mutations (1001-1100 entries of 100 SetCells; the
// service limit that client libraries split at). The emulator may apply it or refuse it as a whole - but a refused
// request must have changed nothing, and an accepted one must report every entry and have stored exactly the entries
// it reports as OK.
func hugeBatchCase(run *common.Run, sub string, engine string, idx int) {
	r := run.Rand("C06.hugebatch", idx)
	srv, err := drive.Start(engine, gen.BaseClock, "")
	if err != nil {
		run.Violation(sub, idx, "cannot start server: "+err.Error(), nil)
		return
	}
	defer srv.Close(true)
	table := drive.MustTable(srv.Admin, "t", "f1", "f2")
	m := model.NewTable("f1", "f2")
	pre := []model.Mut{{Kind: model.SetCell, Fam: "f2", Qual: "old", TS: 1000, Val: "before"}}
	for _, k := range []string{"hb00000", "hb00500", "hb01000"} {
		_, nr := m.Apply(k, pre, gen.BaseClock)
		drive.MutateRow(srv.Data, table, k, pre)
		m.Commit(k, nr)
	}
	n := r.Range(1001, 1100)
	var entries []drive.Entry
	for i := 0; i < n; i++ {
		var muts []model.Mut
		for c := 0; c < 100; c++ {
			muts = append(muts, model.Mut{Kind: model.SetCell, Fam: "f1", Qual: fmt.Sprint("q", c), TS: 1000, Val: "v"})
		}
		entries = append(entries, drive.Entry{Key: fmt.Sprintf("hb%05d", i), Muts: muts})
	}
	st, per, mal := drive.MutateRows(srv.Data, table, entries)
	desc := fmt.Sprintf("engine=%s MutateRows of %d entries x 100 mutations (%d mutations)", engine, n, n*100)
	bad := ""
	switch {
	case !st.OK():
		run.Count("huge_requests_refused_as_a_whole", 1)
		if msg := checkTable(srv.Data, table, m); msg != "" {
			bad = "the request failed as a whole (" + st.String() + ") but had already changed the table: " + trunc(msg, 500)
		}
	case mal != "":
		bad = "response malformed: " + mal
	default:
		run.Count("huge_requests_accepted", 1)
		for i := 0; i < n; i++ {
			if per[i].OK() {
				_, nr := m.Apply(entries[i].Key, entries[i].Muts, gen.BaseClock)
				m.Commit(entries[i].Key, nr)
			}
		}
		if msg := checkTable(srv.Data, table, m); msg != "" {
			bad = "table after the request differs from the entries reported as OK: " + trunc(msg, 500)
		}
	}
	if bad != "" {
		run.Violation(sub, idx, bad+" | "+desc, map[string]any{"engine": engine, "case": desc})
	}
	run.Case(common.Hash64("hugebatch", desc), true)
}

func sortedKeys(m map[int]bool) []int {
	var out []int
	for k, v := range m {
		if v {
			out = append(out, k)
		}
	}
	sort.Ints(out)
	return out
}

// ---- part 2: linearizability ---------------------------------------------------------------

type c06State struct {
	A, B   string // the two columns written together by MutateRow / CheckAndMutateRow
	HasCnt bool
	Cnt    int64
	Log    string
}

type c06In struct {
	Kind   string // W, CAM, INC, APP, READ, DEL
	Tag    string
	Expect string
	N      int64
}

type c06Out struct {
	Err     string
	Matched bool
	St      c06State // READ: observed row; INC: Cnt; APP: Log
}

func (i c06In) String() string {
	switch i.Kind {
	case "W":
		return "W(" + i.Tag + ")"
	case "CAM":
		return "CAM(" + i.Expect + "->" + i.Tag + ")"
	case "INC":
		return fmt.Sprintf("INC(%d)", i.N)
	case "APP":
		return "APP(" + i.Tag + ")"
	}
	return i.Kind
}

var c06Model = porcupine.Model{
	Init: func() interface{} { return c06State{} },
	Step: func(state, input, output interface{}) (bool, interface{}) {
		s := state.(c06State)
		in := input.(c06In)
		out := output.(c06Out)
		if out.Err != "" {
			return false, s // every operation generated here is valid and must succeed
		}
		switch in.Kind {
		case "W":
			s.A, s.B = in.Tag, in.Tag
			return true, s
		case "DEL":
			return true, c06State{}
		case "CAM":
			m := s.A == in.Expect
			if m {
				s.A, s.B = in.Tag, in.Tag
			}
			return out.Matched == m, s
		case "INC":
			s.Cnt += in.N
			s.HasCnt = true
			return out.St.Cnt == s.Cnt, s
		case "APP":
			s.Log += in.Tag
			return out.St.Log == s.Log, s
		case "READ":
			return out.St == s, s
		}
		return false, s
	},
	DescribeOperation: func(input, output interface{}) string {
		return fmt.Sprintf("%v -> %+v", input, output)
	},
}

// c06Decode turns a served row into the model's state; anything that cannot be a state is reported.
func c06Decode(cells []model.Cell) (c06State, string) {
	var s c06State
	seen := map[string]bool{}
	for _, c := range cells {
		id := c.Fam + ":" + c.Qual
		if seen[id] {
			return s, "column " + id + " has more than one version"
		}
		seen[id] = true
		if c.Fam == "tmp" {
			continue // scratch family of the schema-churn client; not part of the row model
		}
		switch id {
		case "f1:a":
			s.A = c.Val
		case "f1:b":
			s.B = c.Val
		case "f2:cnt":
			if len(c.Val) != 8 {
				return s, "counter is not 8 bytes"
			}
			s.HasCnt, s.Cnt = true, int64(binary.BigEndian.Uint64([]byte(c.Val)))
		case "f2:log":
			s.Log = c.Val
		default:
			return s, "unexpected column " + id
		}
	}
	return s, ""
}

type c06Hold struct {
	hits     sync.Map // point -> *int64
	holds    int64
	arrivals int64 // requests that reached a .beforeLock while another request was being held
	holding  int64
	pairs    sync.Map // "heldRPC.point<-arrivingRPC" -> *int64
	curHeld  atomic.Value
}

func (h *c06Hold) bump(m *sync.Map, k string) {
	v, _ := m.LoadOrStore(k, new(int64))
	atomic.AddInt64(v.(*int64), 1)
}

func c06Lin(run *common.Run) {
	nhist := run.N(300, 6000)
	var hold c06Hold
	hold.curHeld.Store("")
	holdMs := 2
	if run.IsThorough() {
		holdMs = 3
	}
	var seq uint64
	bttest.VerifSetHandler(func(point string, key []byte) {
		hold.bump(&hold.hits, point)
		if strings.HasSuffix(point, ".beforeLock") {
			if atomic.LoadInt64(&hold.holding) > 0 {
				atomic.AddInt64(&hold.arrivals, 1)
				if held, _ := hold.curHeld.Load().(string); held != "" {
					hold.bump(&hold.pairs, held+"<-"+strings.TrimSuffix(point, ".beforeLock"))
				}
			}
			return
		}
		if !strings.HasSuffix(point, ".afterRead") && !strings.HasSuffix(point, ".beforeWrite") {
			return
		}
		// hold a deterministic ~1/3 of the passages (by arrival sequence number)
		n := atomic.AddUint64(&seq, 1)
		if common.Hash64(fmt.Sprint(run.Seed), fmt.Sprint(n))%3 != 0 {
			return
		}
		atomic.AddInt64(&hold.holds, 1)
		atomic.AddInt64(&hold.holding, 1)
		hold.curHeld.Store(point)
		time.Sleep(time.Duration(holdMs) * time.Millisecond)
		atomic.AddInt64(&hold.holding, -1)
	})
	defer bttest.VerifSetHandler(nil)
	j := common.NewJournal("C06")
	engines := []string{"ldbmem", "btree", "ldbdisk"}
	// histories run a few at a time: the hold handler is process-wide, and more parallelism only dilutes overlap
	common.Parallel(nhist, 6, func(i int) {
		if !run.Want("lin", i) || run.TooMany() {
			return
		}
		j.Begin(i%8, fmt.Sprintf("C06 lin case=%d", i))
		c06History(run, i, engines[i%3])
		j.End(i % 8)
	})
	var hits []string
	hold.hits.Range(func(k, v any) bool {
		hits = append(hits, fmt.Sprintf("%s=%d", k, atomic.LoadInt64(v.(*int64))))
		run.Count("hook_hits."+k.(string), atomic.LoadInt64(v.(*int64)))
		return true
	})
	npairs := 0
	hold.pairs.Range(func(k, v any) bool {
		npairs++
		run.Count("pair."+k.(string), atomic.LoadInt64(v.(*int64)))
		return true
	})
	run.Count("holds", atomic.LoadInt64(&hold.holds))
	run.Count("requests_arriving_during_a_hold", atomic.LoadInt64(&hold.arrivals))
	run.Count("distinct_held_point_x_arriving_rpc_pairs", int64(npairs))
	if run.Replay == nil && len(hits) == 0 {
		run.Blind("no write-RPC yield point was ever reached although requests succeeded (built without -tags verif, or hooks removed)")
	}
	if run.Replay == nil && run.Counter("histories_with_overlap") == 0 {
		run.Blind("no history had two overlapping operations on one row")
	}
}

type c06Op struct {
	client int
	row    int
	in     c06In
	out    c06Out
	call   int64
	ret    int64
}

func c06History(run *common.Run, idx int, engine string) {
	r := run.Rand("C06.lin", idx)
	srv, err := drive.Start(engine, gen.BaseClock, "")
	if err != nil {
		run.Violation("lin", idx, "cannot start server: "+err.Error(), nil)
		return
	}
	defer srv.Close(true)
	table := drive.MustTable(srv.Admin, "t", "f1", "f2")
	rows := []string{fmt.Sprintf("h%d-r0", idx), fmt.Sprintf("h%d-r1", idx)}
	nclients := r.Range(3, 6)
	var clock common.LogicalClock
	var mu sync.Mutex
	var ops []c06Op
	var churnErr atomic.Value
	// every client has a scripted list of inputs, generated up front (so the history is determined by the seed up to scheduling)
	type scripted struct {
		rows  []int // 1 or 2 rows (MutateRows over both)
		in    c06In
		both  bool
		strip bool // CAM: the predicate ends in strip_value (same truth value; a predicate must not touch the row)
	}
	scripts := make([][]scripted, nclients)
	tagN := 0
	newTag := func(c int) string { tagN++; return fmt.Sprintf("c%d.%d;", c, tagN) }
	var knownTags []string
	for c := range scripts {
		n := r.Range(6, 10)
		for k := 0; k < n; k++ {
			row := r.Intn(2)
			switch x := r.Intn(16); {
			case x < 3:
				t := newTag(c)
				knownTags = append(knownTags, t)
				scripts[c] = append(scripts[c], scripted{rows: []int{row}, in: c06In{Kind: "W", Tag: t}})
			case x < 5:
				t := newTag(c)
				knownTags = append(knownTags, t)
				scripts[c] = append(scripts[c], scripted{rows: []int{0, 1}, in: c06In{Kind: "W", Tag: t}, both: true})
			case x < 8:
				exp := ""
				if len(knownTags) > 0 && r.Chance(4, 5) {
					exp = common.Pick(r, knownTags)
				}
				t := newTag(c)
				knownTags = append(knownTags, t)
				scripts[c] = append(scripts[c], scripted{rows: []int{row}, in: c06In{Kind: "CAM", Expect: exp, Tag: t}, strip: r.Bool()})
			case x < 10:
				scripts[c] = append(scripts[c], scripted{rows: []int{row}, in: c06In{Kind: "INC", N: int64(r.Range(1, 9))}})
			case x < 12:
				scripts[c] = append(scripts[c], scripted{rows: []int{row}, in: c06In{Kind: "APP", Tag: newTag(c)}})
			case x < 13:
				scripts[c] = append(scripts[c], scripted{rows: []int{row}, in: c06In{Kind: "DEL"}})
			default:
				scripts[c] = append(scripts[c], scripted{rows: []int{row}, in: c06In{Kind: "READ"}})
			}
		}
	}
	// every third history runs next to a schema-churn client: it creates family "tmp", writes a tmp cell into 250
	// filler rows (which sort before the rows under test) and into the rows under test, and drops the family again,
	// over and over. None of this is visible in the row model; the writes of the other clients must be unaffected.
	churnDone := make(chan struct{})
	var churnWg sync.WaitGroup
	if idx%3 == 1 {
		churnWg.Add(1)
		go func() {
			defer churnWg.Done()
			conn, data, admin, err := srv.NewConn()
			if err != nil {
				return
			}
			defer conn.Close()
			tmpCell := []model.Mut{{Kind: model.SetCell, Fam: "tmp", Qual: "x", TS: 1000, Val: "scratch"}}
			var filler []drive.Entry
			for i := 0; i < 250; i++ {
				filler = append(filler, drive.Entry{Key: fmt.Sprintf("a%04d", i), Muts: tmpCell})
			}
			for cycle := 0; cycle < 40; cycle++ {
				select {
				case <-churnDone:
					return
				default:
				}
				ctx, cancel := drive.Ctx()
				_, err := admin.ModifyColumnFamilies(ctx, &btapb.ModifyColumnFamiliesRequest{Name: table, Modifications: []*btapb.ModifyColumnFamiliesRequest_Modification{{Id: "tmp", Mod: &btapb.ModifyColumnFamiliesRequest_Modification_Create{Create: &btapb.ColumnFamily{}}}}})
				cancel()
				if err != nil {
					churnErr.Store("ModifyColumnFamilies(create tmp): " + err.Error())
					return
				}
				drive.MutateRows(data, table, filler)
				for _, k := range rows {
					drive.MutateRow(data, table, k, tmpCell)
				}
				ctx, cancel = drive.Ctx()
				_, err = admin.ModifyColumnFamilies(ctx, &btapb.ModifyColumnFamiliesRequest{Name: table, Modifications: []*btapb.ModifyColumnFamiliesRequest_Modification{{Id: "tmp", Mod: &btapb.ModifyColumnFamiliesRequest_Modification_Drop{Drop: true}}}})
				cancel()
				if err != nil {
					churnErr.Store("ModifyColumnFamilies(drop tmp): " + err.Error())
					return
				}
				run.Count("family_drops_concurrent_with_row_writes", 1)
			}
		}()
	}
	var wg sync.WaitGroup
	for c := 0; c < nclients; c++ {
		wg.Add(1)
		go func(c int) {
			defer wg.Done()
			conn, data, _, err := srv.NewConn()
			if err != nil {
				return
			}
			defer conn.Close()
			for _, sc := range scripts[c] {
				call := clock.Tick()
				outs := make([]c06Out, len(sc.rows))
				switch sc.in.Kind {
				case "W":
					muts := []model.Mut{{Kind: model.SetCell, Fam: "f1", Qual: "a", TS: 1000, Val: sc.in.Tag}, {Kind: model.SetCell, Fam: "f1", Qual: "b", TS: 1000, Val: sc.in.Tag}}
					if sc.both {
						st, per, mal := drive.MutateRows(data, table, []drive.Entry{{Key: rows[0], Muts: muts}, {Key: rows[1], Muts: muts}})
						for i := range outs {
							switch {
							case !st.OK():
								outs[i].Err = st.String()
							case mal != "":
								outs[i].Err = mal
							case !per[i].OK():
								outs[i].Err = per[i].String()
							}
						}
					} else if st := drive.MutateRow(data, table, rows[sc.rows[0]], muts); !st.OK() {
						outs[0].Err = st.String()
					}
				case "DEL":
					if st := drive.MutateRow(data, table, rows[sc.rows[0]], []model.Mut{{Kind: model.DelRow}}); !st.OK() {
						outs[0].Err = st.String()
					}
				case "CAM":
					muts := []model.Mut{{Kind: model.SetCell, Fam: "f1", Qual: "a", TS: 1000, Val: sc.in.Tag}, {Kind: model.SetCell, Fam: "f1", Qual: "b", TS: 1000, Val: sc.in.Tag}}
					var st drive.Status
					var matched bool
					if sc.in.Expect == "" {
						// "if column a is absent": predicate = qualifier a has any cell; act in the FALSE branch
						pred := &model.Filter{Kind: "colrange", Fam: "f1", SMode: 1, Start: "a", EMode: 1, End: "a"}
						if sc.strip {
							// the whole row, values stripped, then the column: same truth value
							pred = &model.Filter{Kind: "chain", Subs: []*model.Filter{{Kind: "strip", Flag: true}, pred}}
						}
						st, matched = drive.CheckAndMutate(data, table, rows[sc.rows[0]], pred, nil, muts)
						matched = !matched
					} else {
						pred := &model.Filter{Kind: "chain", Subs: []*model.Filter{{Kind: "colrange", Fam: "f1", SMode: 1, Start: "a", EMode: 1, End: "a"}, {Kind: "value", Re: model.Lit(sc.in.Expect)}}}
						if sc.strip {
							// interleave(the test above with its value stripped, a branch that strips the whole row and then blocks it)
							pred = &model.Filter{Kind: "interleave", Subs: []*model.Filter{
								{Kind: "chain", Subs: append(append([]*model.Filter{}, pred.Subs...), &model.Filter{Kind: "strip", Flag: true})},
								{Kind: "chain", Subs: []*model.Filter{{Kind: "strip", Flag: true}, {Kind: "block", Flag: true}}}}}
						}
						st, matched = drive.CheckAndMutate(data, table, rows[sc.rows[0]], pred, muts, nil)
					}
					outs[0].Matched = matched
					if !st.OK() {
						outs[0].Err = st.String()
					}
				case "INC", "APP":
					rule := drive.Rule{Fam: "f2", Qual: "cnt", Inc: sc.in.N}
					if sc.in.Kind == "APP" {
						rule = drive.Rule{Fam: "f2", Qual: "log", Append: true, Val: sc.in.Tag}
					}
					st, row := drive.ReadModifyWrite(data, table, rows[sc.rows[0]], []drive.Rule{rule})
					if !st.OK() {
						outs[0].Err = st.String()
					} else if len(row.Cells) != 1 {
						outs[0].Err = fmt.Sprintf("RMW response has %d cells", len(row.Cells))
					} else if sc.in.Kind == "INC" {
						if len(row.Cells[0].Val) != 8 {
							outs[0].Err = "RMW counter not 8 bytes"
						} else {
							outs[0].St.Cnt = int64(binary.BigEndian.Uint64([]byte(row.Cells[0].Val)))
						}
					} else {
						outs[0].St.Log = row.Cells[0].Val
					}
				case "READ":
					res := drive.ReadRow(data, table, rows[sc.rows[0]])
					if !res.OK() {
						outs[0].Err = res.Code.String()
					} else if res.Malformed != "" {
						outs[0].Err = res.Malformed
					} else if len(res.Rows) == 1 {
						st, bad := c06Decode(res.Rows[0].Cells)
						outs[0].St = st
						if bad != "" {
							outs[0].Err = bad
						}
					}
				}
				ret := clock.Tick()
				mu.Lock()
				for i, row := range sc.rows {
					ops = append(ops, c06Op{client: c, row: row, in: sc.in, out: outs[i], call: call, ret: ret})
				}
				mu.Unlock()
			}
		}(c)
	}
	wg.Wait()
	close(churnDone)
	churnWg.Wait()
	if e, _ := churnErr.Load().(string); e != "" {
		run.Violation("lin", idx, "schema-churn client: "+e, map[string]any{"engine": engine})
		return
	}
	// final read of each row closes the history
	for row := range rows {
		call := clock.Tick()
		res := drive.ReadRow(srv.Data, table, rows[row])
		var out c06Out
		if len(res.Rows) == 1 {
			out.St, out.Err = c06Decode(res.Rows[0].Cells)
		}
		if !res.OK() {
			out.Err = res.Code.String()
		}
		ops = append(ops, c06Op{client: nclients, row: row, in: c06In{Kind: "READ"}, out: out, call: call, ret: clock.Tick()})
	}
	run.Count("operations", int64(len(ops)))
	// overlap statistics + conservation monitors + porcupine per row
	overlap := false
	var hist []string
	for row := range rows {
		var pops []porcupine.Operation
		var rowOps []c06Op
		for _, o := range ops {
			if o.row == row {
				rowOps = append(rowOps, o)
				pops = append(pops, porcupine.Operation{ClientId: o.client, Input: o.in, Output: o.out, Call: o.call, Return: o.ret})
			}
		}
		for i := range rowOps {
			for k := i + 1; k < len(rowOps); k++ {
				if rowOps[i].client != rowOps[k].client && rowOps[i].call < rowOps[k].ret && rowOps[k].call < rowOps[i].ret {
					overlap = true
				}
			}
		}
		for _, o := range rowOps {
			hist = append(hist, fmt.Sprintf("row%d c%d [%d,%d] %v -> %+v", row, o.client, o.call, o.ret, o.in, o.out))
			if o.out.Err != "" {
				run.Violation("lin", idx, fmt.Sprintf("operation failed or returned an impossible row: %v -> %s", o.in, o.out.Err), map[string]any{"engine": engine, "history": hist})
				return
			}
		}
		// conservation (only meaningful when the row was never deleted)
		deleted := false
		var sum int64
		var tags []string
		for _, o := range rowOps {
			switch o.in.Kind {
			case "DEL":
				deleted = true
			case "INC":
				sum += o.in.N
			case "APP":
				tags = append(tags, o.in.Tag)
			}
		}
		final := rowOps[len(rowOps)-1].out.St
		if !deleted {
			if final.Cnt != sum {
				run.Violation("lin", idx, fmt.Sprintf("lost update: acknowledged increments sum to %d but the final counter of row %d is %d", sum, row, final.Cnt), map[string]any{"engine": engine, "history": hist})
				return
			}
			for _, t := range tags {
				if strings.Count(final.Log, t) != 1 {
					run.Violation("lin", idx, fmt.Sprintf("acknowledged append %q appears %d times in the final log %q of row %d", t, strings.Count(final.Log, t), final.Log, row), map[string]any{"engine": engine, "history": hist})
					return
				}
			}
			run.Count("conservation_checks", 1)
		}
		res, info := porcupine.CheckOperationsVerbose(c06Model, pops, 60*time.Second)
		run.Count("porcupine_partitions_checked", 1)
		switch res {
		case porcupine.Unknown:
			run.Inconclusive("porcupine timeout")
		case porcupine.Illegal:
			_ = info
			run.Violation("lin", idx, fmt.Sprintf("history of row %d is not linearizable (engine %s, %d operations)", row, engine, len(pops)), map[string]any{"engine": engine, "history": hist})
			return
		}
	}
	if overlap {
		run.Count("histories_with_overlap", 1)
	}
	run.Case(common.Hash64(fmt.Sprint(hist)), overlap)
	if idx < 2 {
		run.Sample(map[string]any{"engine": engine, "history": hist[:min(len(hist), 12)]})
	}
}

package main

import (
	"fmt"
	"os"
	"runtime"
	"sort"
	"strings"
	"time"

	btpb "cloud.google.com/go/bigtable/apiv2/bigtablepb"

	"verif/bt/drive"
	"verif/bt/gen"
	"verif/bt/model"
	"verif/common"
)

func workers() int {
	n := runtime.NumCPU()
	if n > 16 {
		n = 16
	}
	if n < 2 {
		n = 2
	}
	return n
}

// diffRows compares served rows with model rows: same keys in the same (ascending) order, each row's cells
// equal up to family order, and the served order within each row obeying the data-model ordering.
func diffRows(got []model.Row, want []model.Row) string {
	for _, r := range got {
		if len(r.Cells) == 0 {
			return fmt.Sprintf("row %q served without cells", r.Key)
		}
		if msg := model.CheckServedOrder(r.Cells, false); msg != "" {
			return fmt.Sprintf("row %q: %s", r.Key, msg)
		}
	}
	if len(got) != len(want) {
		return fmt.Sprintf("row count: got %d want %d; got keys %q want keys %q", len(got), len(want), keysOf(got), keysOf(want))
	}
	for i := range got {
		if got[i].Key != want[i].Key {
			return fmt.Sprintf("row %d: got key %q want %q", i, got[i].Key, want[i].Key)
		}
		if !model.SameCells(got[i].Cells, want[i].Cells) {
			return fmt.Sprintf("row %q differs: got %s want %s", got[i].Key, got[i], want[i])
		}
	}
	return ""
}

func keysOf(rows []model.Row) []string {
	out := make([]string, len(rows))
	for i, r := range rows {
		out[i] = r.Key
	}
	return out
}

// checkTable scans the whole table unfiltered and compares it with the model.
func checkTable(cl btpb.BigtableClient, table string, m *model.Table) string {
	res := drive.ReadAll(cl, table)
	if !res.OK() {
		return "full scan failed: " + res.Code.String() + ": " + res.Msg
	}
	if res.Malformed != "" {
		return "full scan chunk stream malformed: " + res.Malformed
	}
	return diffRows(res.Rows, m.AllRows())
}

// checkRow point-reads one row and compares it with the model.
func checkRow(cl btpb.BigtableClient, table, key string, m *model.Table) string {
	res := drive.ReadRow(cl, table, key)
	if !res.OK() {
		return fmt.Sprintf("point read of %q failed: %s: %s", key, res.Code, res.Msg)
	}
	if res.Malformed != "" {
		return "point read chunk stream malformed: " + res.Malformed
	}
	var want []model.Row
	if cs := m.RowCells(key); len(cs) > 0 {
		want = []model.Row{{Key: key, Cells: cs}}
	}
	return diffRows(res.Rows, want)
}

func joinLines(ss []string) string { return strings.Join(ss, "\n") }

// noise sends one unrelated request to a second, wide table ("noise": 3 rows x 40 columns) of the same server. Its
// results are ignored: the point is that whatever the server remembers from one request (compiled patterns, scratch
// rows, decoded-row or column caches, iterators) is filled by traffic for ANOTHER table between two requests of the
// program under test.
type noise struct {
	table string
	ctx   gen.FilterCtx
}

func newNoise(srv *drive.Srv) *noise {
	n := &noise{table: drive.MustTable(srv.Admin, "noise", "f1", "f2", "g"), ctx: gen.FilterCtx{Keys: gen.Keys, Fams: []string{"f1", "f2", "g"}, Quals: gen.Quals, Vals: gen.Vals, TSs: []int64{0, 1000, 2000, 3000}, MaxCells: 6}}
	for _, k := range []string{"a", "ab", "n"} {
		var muts []model.Mut
		for c := 0; c < 40; c++ {
			muts = append(muts, model.Mut{Kind: model.SetCell, Fam: "f1", Qual: fmt.Sprintf("c%02d", c), TS: 1000, Val: "noise"})
		}
		muts = append(muts, model.Mut{Kind: model.SetCell, Fam: "f2", Qual: "q", TS: 2000, Val: "\x00\x00\x00\x00\x00\x00\x00\x07"})
		drive.MutateRow(srv.Data, n.table, k, muts)
	}
	return n
}

func (n *noise) send(r *common.Rand, srv *drive.Srv) {
	key := common.Pick(r, []string{"a", "ab", "n", "zz"})
	switch r.Intn(5) {
	case 0:
		drive.MutateRow(srv.Data, n.table, key, gen.Mutations(r, gen.Opts{InvalidPct: 10}, 1, 4))
	case 1:
		drive.CheckAndMutate(srv.Data, n.table, key, gen.Tree(r, n.ctx, 3, 4), gen.Mutations(r, gen.Opts{}, 0, 2), gen.Mutations(r, gen.Opts{}, 0, 2))
	case 2:
		drive.ReadModifyWrite(srv.Data, n.table, key, gen.Rules(r, 10, 1, 3))
	case 3:
		drive.ReadRows(srv.Data, &btpb.ReadRowsRequest{TableName: n.table, Filter: drive.FilterToProto(gen.Tree(r, n.ctx, 3, 4)), RowsLimit: int64(r.Intn(3))})
	default:
		drive.ReadRow(srv.Data, n.table, key)
	}
}

// sampleInvariant calls SampleRowKeys and checks it against the keys currently stored (rows that have at least one
// cell, ascending): an ascending subsequence of them ending with the last one, non-decreasing non-negative offsets,
// nothing for an empty table.
func sampleInvariant(cl btpb.BigtableClient, name string, stored []string) (string, []string) {
	st, keys, offs := drive.SampleRowKeys(cl, name)
	isStored := map[string]bool{}
	for _, k := range stored {
		isStored[k] = true
	}
	switch {
	case !st.OK():
		return "SampleRowKeys failed: " + st.String(), keys
	case len(stored) == 0 && len(keys) != 0:
		return fmt.Sprintf("empty table sampled keys %q", keys), keys
	case len(stored) > 0 && len(keys) == 0:
		return "no sample for a non-empty table (the last key must be returned)", keys
	case len(stored) > 0 && keys[len(keys)-1] != stored[len(stored)-1]:
		return fmt.Sprintf("last sample %q is not the last stored key %q", keys[len(keys)-1], stored[len(stored)-1]), keys
	}
	for i := 0; i < len(keys); i++ {
		if !isStored[keys[i]] {
			return fmt.Sprintf("sampled key %q is not a stored row", keys[i]), keys
		} else if i > 0 && keys[i] <= keys[i-1] {
			return fmt.Sprintf("sampled keys not strictly ascending: %q then %q", keys[i-1], keys[i]), keys
		} else if i > 0 && offs[i] < offs[i-1] {
			return fmt.Sprintf("offsets decrease: %d then %d", offs[i-1], offs[i]), keys
		} else if offs[i] < 0 {
			return fmt.Sprintf("negative offset %d", offs[i]), keys
		}
	}
	return "", keys
}

// hangVerdict is called when a request has been outstanding for the whole request watchdog. In-process checks: the
// goroutine dump of this process is taken; if it shows a handler of the emulator that has been blocked on a mutex,
// channel or select for minutes, the run reports a violation (the requests of the property must be answered) with those
// stacks and ends - every further request to a stuck server would only wait for the same watchdog. If no such handler is
// in the dump (a slow machine, or the emulator runs in a child process), the run ends INCONCLUSIVE. Never returns.
func hangVerdict(run *common.Run) {
	// handler goroutines of the emulator that are not runnable, by goroutine id -> (state, stack head)
	snapshot := func() map[string][2]string {
		buf := make([]byte, 16<<20)
		buf = buf[:runtime.Stack(buf, true)]
		if f := os.Getenv("VERIF_HANGDUMP"); f != "" {
			_ = os.WriteFile(f, buf, 0o666)
		}
		out := map[string][2]string{}
		for _, g := range strings.Split(string(buf), "\n\n") {
			head, _, _ := strings.Cut(g, "\n")
			id, state, ok := strings.Cut(strings.TrimPrefix(head, "goroutine "), " [")
			if !ok || !strings.Contains(g, "bttest.(*server).") {
				continue
			}
			if strings.HasPrefix(state, "running") || strings.HasPrefix(state, "runnable") || strings.HasPrefix(state, "syscall") || strings.HasPrefix(state, "IO wait") {
				continue
			}
			lines := strings.Split(g, "\n")
			state, _, _ = strings.Cut(state, ",")
			state = strings.TrimSuffix(state, "]:")
			// (the header line carries the waiting time, which moves on between two dumps)
			out[id] = [2]string{state, "goroutine " + id + " [" + state + "]\n" + strings.Join(lines[1:min(len(lines), 14)], "\n")}
		}
		return out
	}
	first := snapshot()
	time.Sleep(3 * time.Second)
	second := snapshot()
	var blocked []string
	for id, a := range first {
		if b, ok := second[id]; ok && a[0] == b[0] && a[1] == b[1] {
			blocked = append(blocked, a[1])
		}
	}
	sort.Strings(blocked)
	run.Count("emulator_handlers_blocked_when_the_request_watchdog_fired", int64(len(blocked)))
	if len(blocked) > 0 {
		head, _, _ := strings.Cut(blocked[0], "\n")
		run.Violation("hang", 0, fmt.Sprintf("a request was not answered within %s; %d handler goroutine(s) of the emulator are blocked (same state and stack in two dumps taken 3 s apart; first: %s); their stacks are in the detail", drive.RPCTimeout, len(blocked), head),
			map[string]any{"emulator_handlers_blocked": blocked[:min(len(blocked), 8)]})
	} else {
		run.Blind(fmt.Sprintf("a request was outstanding for %s but no handler of the emulator in this process is blocked: machine too slow, or the emulator under test runs in a child process", drive.RPCTimeout))
	}
	run.Finish()
	os.Exit(4)
}

// btcheck: runtime-monitoring checks for the Bigtable emulator properties. One sub-command per property.
package main

import (
	"fmt"
	"os"

	"verif/bt/drive"
	"verif/common"
)

var checks = map[string]struct {
	level string
	fn    func(*common.Run)
}{}

func register(id, level string, fn func(*common.Run)) {
	checks[id] = struct {
		level string
		fn    func(*common.Run)
	}{level, fn}
}

func main() {
	if len(os.Args) < 2 {
		fmt.Fprintln(os.Stderr, "usage: btcheck <ID> <quick|thorough|--replay file> | btcheck child ...")
		os.Exit(3)
	}
	if os.Args[1] == "child" {
		childMain(os.Args[2:])
		return
	}
	c, ok := checks[os.Args[1]]
	if !ok {
		fmt.Fprintln(os.Stderr, "unknown check", os.Args[1])
		os.Exit(3)
	}
	run := common.NewRun(os.Args[1], c.level, os.Args[2:])
	if id := os.Args[1]; id != "C08" && id != "C20B" {
		// (C08 and C20B run the emulator in child processes and judge unanswered requests themselves)
		drive.OnHang = func() { hangVerdict(run) }
	}
	c.fn(run)
	run.Finish()
}

package main

import (
	"fmt"
	"sync"
	"sync/atomic"
	"time"

	btpb "cloud.google.com/go/bigtable/apiv2/bigtablepb"
	"github.com/fullstorydev/emulators/bigtable/bttest"

	"verif/bt/drive"
	"verif/bt/gen"
	"verif/bt/model"
	"verif/common"
)

func init() { register("C18", "exploration", runC18) }

// c18RowState is one state in the life of a row. Present=false: the row does not exist.
type c18RowState struct {
	Present bool
	Tag     string // value of the three data columns (always written together)
	Log     string // value of the append column ("" = column absent)
	call    int64  // logical stamps of the write that produced this state
	ret     int64
}

func (s c18RowState) same(o c18RowState) bool {
	return s.Present == o.Present && s.Tag == o.Tag && s.Log == o.Log
}

func runC18(run *common.Run) {
	run.Rule = "case = one ReadRows scan (full table or a key range; several response messages, so the table lock is released several times) running concurrently with 6 writer goroutines (three quarters of their writes aimed just ahead of a scan's current position) that each own a disjoint set of rows and rewrite all columns with one version tag, delete, re-create and read-modify-write-append them; 10% of rows are never written. Every row state and every scan carries logical call/return stamps from one atomic counter. Oracle per scan: status OK, keys strictly ascending without duplicates, every returned row is exactly one of the states that row had between scan start and scan end, a missing row must have had an 'absent' state in that window, unwritten rows exact. A PRNG-chosen subset of the scan's lock releases is held for a bounded time (hook ReadRows.unlocked). Non-trivial = scan during which at least one row had more than one admissible state; distinct by scan."
	run.Assumptions = []string{"leveldb-mem and leveldb-disk engines only (the btree engine documents that it does not offer this)", "per-row single-writer ownership makes each row's state sequence exactly known"}
	rounds := run.N(4, 60)
	scansPerRound := run.N(10, 25)
	var holds, unlocked int64
	var seq uint64
	bttest.VerifSetHandler(func(point string, key []byte) {
		if point != "ReadRows.unlocked" {
			return
		}
		atomic.AddInt64(&unlocked, 1)
		n := atomic.AddUint64(&seq, 1)
		if common.Hash64("c18", fmt.Sprint(run.Seed), fmt.Sprint(n))%2 == 0 {
			atomic.AddInt64(&holds, 1)
			time.Sleep(time.Duration(2+n%4) * time.Millisecond)
		}
	})
	defer bttest.VerifSetHandler(nil)
	j := common.NewJournal("C18")
	for round := 0; round < rounds && !run.TooMany(); round++ {
		if !run.Want("round", round) {
			continue
		}
		engine := []string{"ldbmem", "ldbdisk"}[round%2]
		j.Begin(0, fmt.Sprintf("C18 round=%d engine=%s", round, engine))
		c18Round(run, round, engine, scansPerRound)
	}
	j.End(0)
	run.ScanRaceLogs("github.com/fullstorydev/emulators/bigtable")
	run.Count("scan_lock_releases_seen", atomic.LoadInt64(&unlocked))
	run.Count("scan_lock_releases_held", atomic.LoadInt64(&holds))
	if run.Replay == nil && atomic.LoadInt64(&unlocked) == 0 {
		run.Blind("hook ReadRows.unlocked never fired although multi-message scans succeeded (built without -tags verif?)")
	}
	if run.Replay == nil && run.Counter("writes_acknowledged_inside_scans") == 0 {
		run.Blind("no write was acknowledged while a scan was in progress")
	}
}

func c18Round(run *common.Run, round int, engine string, nscans int) {
	r := run.Rand("C18.round", round)
	N := 3000
	if run.IsThorough() && round%3 == 0 {
		N = 6000
	}
	srv, err := drive.Start(engine, gen.BaseClock, "")
	if err != nil {
		run.Violation("round", round, "cannot start server: "+err.Error(), nil)
		return
	}
	defer srv.Close(true)
	table := drive.MustTable(srv.Admin, "t", "f")
	key := func(i int) string { return fmt.Sprintf("row%05d", i) }
	dataMuts := func(tag string) []model.Mut {
		return []model.Mut{{Kind: model.DelRow},
			{Kind: model.SetCell, Fam: "f", Qual: "c0", TS: 1000, Val: tag}, {Kind: model.SetCell, Fam: "f", Qual: "c1", TS: 1000, Val: tag}, {Kind: model.SetCell, Fam: "f", Qual: "c2", TS: 1000, Val: tag}}
	}
	var clock common.LogicalClock
	// history[i] = states of row i in order; guarded by the owner (single writer), read after all goroutines finished
	history := make([][]c18RowState, N)
	var entries []drive.Entry
	for i := 0; i < N; i++ {
		history[i] = []c18RowState{{Present: true, Tag: "init", call: 0, ret: 0}}
		entries = append(entries, drive.Entry{Key: key(i), Muts: dataMuts("init")})
		if len(entries) == 500 || i == N-1 {
			st, per, _ := drive.MutateRows(srv.Data, table, entries)
			if !st.OK() {
				run.Violation("round", round, "set-up failed: "+st.String(), nil)
				return
			}
			for _, p := range per {
				if !p.OK() {
					run.Violation("round", round, "set-up entry failed: "+p.String(), nil)
					return
				}
			}
			entries = nil
		}
	}
	const W = 6
	// scanners publish the index of the last row they received; writers aim most of their writes just ahead of a scan
	var scanPos [3]int64
	stop := make(chan struct{})
	var wg sync.WaitGroup
	var writeErr atomic.Value
	for w := 0; w < W; w++ {
		wg.Add(1)
		go func(w int) {
			defer wg.Done()
			wr := common.NewRand(run.Seed, fmt.Sprintf("C18.writer.%d", round), w)
			conn, data, _, err := srv.NewConn()
			if err != nil {
				return
			}
			defer conn.Close()
			n := 0
			for {
				select {
				case <-stop:
					return
				default:
				}
				// own rows: i % 10 != 9 (10% never written) and (i/10) % W == w
				i := wr.Intn(N)
				if wr.Chance(3, 4) {
					i = (int(atomic.LoadInt64(&scanPos[wr.Intn(3)])) + 1 + wr.Intn(700)) % N
				}
				i = i - i%10 + wr.Intn(9)
				forceDelete := false
				if wr.Chance(1, 4) {
					// the row a scan received last (the scan is probably parked right behind it): delete exactly that one
					if p := int(atomic.LoadInt64(&scanPos[wr.Intn(3)])); p%10 != 9 && (p/10)%W == w {
						i, forceDelete = p, true
					}
				}
				if (i/10)%W != w {
					continue
				}
				cur := history[i][len(history[i])-1]
				n++
				next := cur
				var st drive.Status
				call := clock.Tick()
				x := wr.Intn(10)
				if forceDelete && cur.Present {
					x = 5
				}
				switch {
				case x < 4 || !cur.Present:
					tag := fmt.Sprintf("w%d.%d", w, n)
					next = c18RowState{Present: true, Tag: tag}
					st = drive.MutateRow(data, table, key(i), dataMuts(tag))
				case x < 8:
					next = c18RowState{}
					st = drive.MutateRow(data, table, key(i), []model.Mut{{Kind: model.DelRow}})
				default:
					add := fmt.Sprintf("a%d.%d;", w, n)
					next.Log = cur.Log + add
					st, _ = drive.ReadModifyWrite(data, table, key(i), []drive.Rule{{Fam: "f", Qual: "log", Append: true, Val: add}})
				}
				next.call, next.ret = call, clock.Tick()
				if !st.OK() {
					writeErr.Store(fmt.Sprintf("write to %s failed: %s", key(i), st))
					return
				}
				history[i] = append(history[i], next)
			}
		}(w)
	}
	type scan struct {
		lo, hi int // row index range [lo,hi]
		S, E   int64
		res    drive.ReadResult
	}
	scans := make([]scan, nscans)
	var swg sync.WaitGroup
	const S = 3
	var next int64 = -1
	for sc := 0; sc < S; sc++ {
		swg.Add(1)
		go func(sc int) {
			defer swg.Done()
			conn, data, _, err := srv.NewConn()
			if err != nil {
				return
			}
			defer conn.Close()
			for {
				k := int(atomic.AddInt64(&next, 1))
				if k >= nscans {
					return
				}
				sr := common.NewRand(run.Seed, fmt.Sprintf("C18.scan.%d", round), k)
				lo, hi := 0, N-1
				if sr.Chance(1, 3) {
					lo = sr.Intn(N / 2)
					hi = lo + 800 + sr.Intn(N/2-800)
				}
				req := &btpb.ReadRowsRequest{TableName: table}
				if lo != 0 || hi != N-1 {
					req.Rows = &btpb.RowSet{RowRanges: []*btpb.RowRange{{StartKey: &btpb.RowRange_StartKeyClosed{StartKeyClosed: []byte(key(lo))}, EndKey: &btpb.RowRange_EndKeyClosed{EndKeyClosed: []byte(key(hi))}}}}
				}
				s := clock.Tick()
				ctx, cancel := drive.Ctx()
				res := drive.ReadRowsCtx(ctx, data, req, func(_ int, lastKey string) {
					var at int
					if _, err := fmt.Sscanf(lastKey, "row%05d", &at); err == nil {
						atomic.StoreInt64(&scanPos[sc], int64(at))
					}
				})
				cancel()
				scans[k] = scan{lo: lo, hi: hi, S: s, E: clock.Tick(), res: res}
			}
		}(sc)
	}
	swg.Wait()
	close(stop)
	wg.Wait()
	if e, _ := writeErr.Load().(string); e != "" {
		run.Violation("round", round, e, nil)
		return
	}
	_ = r
	totalWrites := 0
	for i := range history {
		totalWrites += len(history[i]) - 1
	}
	run.Count("writes_acknowledged", int64(totalWrites))
	for k, sc := range scans {
		idx := round*1000 + k
		desc := fmt.Sprintf("engine=%s round=%d scan=%d rows[%d,%d] stamps[%d,%d] messages=%d", engine, round, k, sc.lo, sc.hi, sc.S, sc.E, sc.res.Messages)
		fail := func(what string) {
			run.Violation("round", round, what+" | "+desc, map[string]any{"scan": desc})
		}
		if !sc.res.OK() {
			fail(fmt.Sprintf("scan ended with %s: %s", sc.res.Code, sc.res.Msg))
			continue
		}
		if sc.res.Malformed != "" {
			fail("scan stream: " + sc.res.Malformed)
			continue
		}
		got := map[string]model.Row{}
		for _, row := range sc.res.Rows {
			got[row.Key] = row
		}
		multi, inside := 0, 0
		bad := false
		for i := sc.lo; i <= sc.hi && !bad; i++ {
			h := history[i]
			// admissible states: produced by a write called before the scan ended, and not replaced by a write that returned before the scan started
			var adm []c18RowState
			for x, st := range h {
				if st.call > sc.E {
					break
				}
				if x+1 < len(h) && h[x+1].ret < sc.S {
					continue
				}
				adm = append(adm, st)
				if st.call > sc.S && st.ret < sc.E {
					inside++
				}
			}
			if len(adm) > 1 {
				multi++
			}
			row, present := got[key(i)]
			var obs c18RowState
			if present {
				obs.Present = true
				cols := map[string]string{}
				for _, c := range row.Cells {
					if _, dup := cols[c.Qual]; dup || c.Fam != "f" || c.TS != 1000 && c.Qual != "log" {
						fail(fmt.Sprintf("row %q has an impossible cell %s", row.Key, c))
						bad = true
					}
					cols[c.Qual] = c.Val
				}
				obs.Tag, obs.Log = cols["c0"], cols["log"]
				_, hasData := cols["c0"]
				if hasData && (cols["c1"] != obs.Tag || cols["c2"] != obs.Tag) {
					fail(fmt.Sprintf("torn row %s: the three columns written by one request differ", row))
					bad = true
				}
				if !hasData {
					obs.Tag = ""
				}
			}
			if bad {
				break
			}
			ok := false
			for _, st := range adm {
				if st.same(obs) {
					ok = true
				}
				// a row deleted and then appended-to exists with only its log column
				if st.Present == obs.Present && st.Tag == obs.Tag && st.Log == obs.Log {
					ok = true
				}
			}
			if !ok {
				fail(fmt.Sprintf("row %q: scan returned %+v, but its states that could be current during the scan are %+v (full history %+v)", key(i), obs, adm, h))
				bad = true
			}
		}
		for k := range got {
			var i int
			fmt.Sscanf(k, "row%05d", &i)
			if i < sc.lo || i > sc.hi {
				fail(fmt.Sprintf("row %q outside the requested range", k))
			}
		}
		run.Count("scans", 1)
		run.Count("writes_acknowledged_inside_scans", int64(inside))
		run.Count("rows_with_more_than_one_admissible_state", int64(multi))
		run.Max("max_messages_per_scan", int64(sc.res.Messages))
		run.Case(common.Hash64(desc), multi > 0)
		if k == 0 && round < 3 {
			run.Sample(desc + fmt.Sprintf(" rows_returned=%d rows_with_several_admissible_states=%d", len(sc.res.Rows), multi))
		}
		_ = idx
	}
}

package main

import (
	"context"
	"fmt"
	"runtime"
	"strings"
	"sync"
	"sync/atomic"
	"time"

	btapb "cloud.google.com/go/bigtable/admin/apiv2/adminpb"
	btpb "cloud.google.com/go/bigtable/apiv2/bigtablepb"
	"github.com/fullstorydev/emulators/bigtable/bttest"

	"google.golang.org/grpc/codes"
	"google.golang.org/grpc/status"

	"verif/bt/drive"
	"verif/bt/gen"
	"verif/bt/model"
	"verif/common"
)

func init() { register("C18", "exploration", runC18) }

// c18RowState is one state in the life of a row. Present=false: the row does not exist.
type c18RowState struct {
	Present bool
	Tag     string // value of the three data columns (always written together)
	Log     string // value of the append column ("" = column absent)
	G       string // "" or the family (g0, g1, ... created while the round is running) in which the write also set c0 = Tag
	call    int64  // logical stamps of the write that produced this state
	ret     int64
}

var c18Pad = strings.Repeat("p", 1500)

func (s c18RowState) same(o c18RowState) bool {
	return s.Present == o.Present && s.Tag == o.Tag && s.Log == o.Log && s.G == o.G
}

func runC18(run *common.Run) {
	run.Rule = "case = one ReadRows scan (full table or a key range; several response messages, so the table lock is released several times) running concurrently with 6 writer goroutines (three quarters of their writes aimed just ahead of a scan's current position) that each own a disjoint set of rows and rewrite all columns with one version tag, delete, re-create and read-modify-write-append them; 10% of rows are never written. A third of the scans (half in rounds with family creation) ask for three disjoint ranges plus explicit keys; in every second round new column families are created one after the other while the scans run, and every write sets a cell in the newest one together with its cells in the old family. One of the three scanning clients is a scan-and-update client: fixed 64 KiB flow-control windows, and between two messages of its scan it sends a row write and waits for the answer (a scan whose client is not reading must not keep the table locked). Every row state and every scan carries logical call/return stamps from one atomic counter. Oracle per scan: status OK, keys strictly ascending without duplicates, every returned row is exactly one of the states that row had between scan start and scan end, a missing row must have had an 'absent' state in that window, unwritten rows exact. A PRNG-chosen subset of the scan's lock releases is held for a bounded time (hook ReadRows.unlocked). Non-trivial = scan during which at least one row had more than one admissible state; distinct by scan."
	run.Assumptions = []string{"leveldb-mem and leveldb-disk engines only (the btree engine documents that it does not offer this)", "per-row single-writer ownership makes each row's state sequence exactly known"}
	rounds := run.N(4, 60)
	scansPerRound := run.N(10, 25)
	var holds, unlocked int64
	var seq uint64
	bttest.VerifSetHandler(func(point string, key []byte) {
		if point != "ReadRows.unlocked" {
			return
		}
		atomic.AddInt64(&unlocked, 1)
		n := atomic.AddUint64(&seq, 1)
		if common.Hash64("c18", fmt.Sprint(run.Seed), fmt.Sprint(n))%2 == 0 {
			atomic.AddInt64(&holds, 1)
			time.Sleep(time.Duration(2+n%4) * time.Millisecond)
		}
	})
	defer bttest.VerifSetHandler(nil)
	j := common.NewJournal("C18")
	for round := 0; round < rounds && !run.TooMany(); round++ {
		if !run.Want("round", round) {
			continue
		}
		engine := []string{"ldbmem", "ldbdisk"}[round%2]
		j.Begin(0, fmt.Sprintf("C18 round=%d engine=%s", round, engine))
		c18Round(run, round, engine, scansPerRound)
	}
	j.End(0)
	run.ScanRaceLogs("github.com/fullstorydev/emulators/bigtable")
	run.Count("scan_lock_releases_seen", atomic.LoadInt64(&unlocked))
	run.Count("scan_lock_releases_held", atomic.LoadInt64(&holds))
	if run.Replay == nil && atomic.LoadInt64(&unlocked) == 0 {
		run.Blind("hook ReadRows.unlocked never fired although multi-message scans succeeded (built without -tags verif?)")
	}
	if run.Replay == nil && run.Counter("writes_acknowledged_inside_scans") == 0 {
		run.Blind("no write was acknowledged while a scan was in progress")
	}
}

// c18Hung is set when a scan was not finished within the request watchdog (drive.RPCTimeout): the server is then taken
// to be stuck, the finding is reported once, and the remaining scans and rounds are skipped (every further request would
// only wait for the same watchdog).
var c18Hung atomic.Bool

// c18Abort reports a request that was not answered within the watchdog, with the goroutine dump of this process (the
// emulator runs in it: the dump shows where its handlers are blocked), writes the evidence and ends the process: every
// further request to a stuck server would only wait for the same watchdog again.
func c18Abort(run *common.Run, round int, what string) {
	if !c18Hung.CompareAndSwap(false, true) {
		select {} // another goroutine is already reporting
	}
	run.Count("requests_of_scan_rounds_that_hit_the_watchdog", 1)
	run.Set("first_request_that_hit_the_watchdog", what)
	hangVerdict(run)
}

func c18Round(run *common.Run, round int, engine string, nscans int) {
	if c18Hung.Load() {
		run.Count("rounds_skipped_after_a_scan_hung", 1)
		return
	}
	r := run.Rand("C18.round", round)
	N := 3000
	if run.IsThorough() && round%3 == 0 {
		N = 6000
	}
	srv, err := drive.Start(engine, gen.BaseClock, "")
	if err != nil {
		run.Violation("round", round, "cannot start server: "+err.Error(), nil)
		return
	}
	defer srv.Close(true)
	table := drive.MustTable(srv.Admin, "t", "f")
	key := func(i int) string { return fmt.Sprintf("row%05d", i) }
	dataMutsG := func(tag string, withG string) []model.Mut {
		// "pad" (constant, ignored by the oracle) makes a response message larger than a 64 KiB flow-control window
		m := []model.Mut{{Kind: model.DelRow},
			{Kind: model.SetCell, Fam: "f", Qual: "c0", TS: 1000, Val: tag}, {Kind: model.SetCell, Fam: "f", Qual: "c1", TS: 1000, Val: tag}, {Kind: model.SetCell, Fam: "f", Qual: "c2", TS: 1000, Val: tag},
			{Kind: model.SetCell, Fam: "f", Qual: "pad", TS: 1000, Val: c18Pad}}
		if withG != "" {
			m = append(m, model.Mut{Kind: model.SetCell, Fam: withG, Qual: "c0", TS: 1000, Val: tag})
		}
		return m
	}
	dataMuts := func(tag string) []model.Mut { return dataMutsG(tag, "") }
	// every second round column families g0, g1, ... are created one after the other while scans are running; a write
	// issued after the creation of g<k> was acknowledged sets a cell in the newest family together with its three
	// cells in f (one request: all four or none are visible)
	var gCur int32 = -1
	createG := (round/2)%2 == 1
	var clock common.LogicalClock
	// history[i] = states of row i in order; guarded by the owner (single writer), read after all goroutines finished
	history := make([][]c18RowState, N)
	var entries []drive.Entry
	for i := 0; i < N; i++ {
		history[i] = []c18RowState{{Present: true, Tag: "init", call: 0, ret: 0}}
		entries = append(entries, drive.Entry{Key: key(i), Muts: dataMuts("init")})
		if len(entries) == 500 || i == N-1 {
			st, per, _ := drive.MutateRows(srv.Data, table, entries)
			if !st.OK() {
				run.Violation("round", round, "set-up failed: "+st.String(), nil)
				return
			}
			for _, p := range per {
				if !p.OK() {
					run.Violation("round", round, "set-up entry failed: "+p.String(), nil)
					return
				}
			}
			entries = nil
		}
	}
	const W = 6
	var updates int64
	// scanners publish the index of the last row they received; writers aim most of their writes just ahead of a scan
	var scanPos [3]int64
	stop := make(chan struct{})
	var wg sync.WaitGroup
	var writeErr atomic.Value
	for w := 0; w < W; w++ {
		wg.Add(1)
		go func(w int) {
			defer wg.Done()
			wr := common.NewRand(run.Seed, fmt.Sprintf("C18.writer.%d", round), w)
			conn, data, _, err := srv.NewConn()
			if err != nil {
				return
			}
			defer conn.Close()
			n := 0
			for {
				select {
				case <-stop:
					return
				default:
				}
				// own rows: i % 10 != 9 (10% never written) and (i/10) % W == w
				i := wr.Intn(N)
				if wr.Chance(3, 4) {
					i = (int(atomic.LoadInt64(&scanPos[wr.Intn(3)])) + 1 + wr.Intn(700)) % N
				}
				i = i - i%10 + wr.Intn(9)
				forceDelete := false
				if wr.Chance(1, 4) {
					// the row a scan received last (the scan is probably parked right behind it): delete exactly that one
					if p := int(atomic.LoadInt64(&scanPos[wr.Intn(3)])); p%10 != 9 && (p/10)%W == w {
						i, forceDelete = p, true
					}
				}
				if (i/10)%W != w {
					continue
				}
				cur := history[i][len(history[i])-1]
				n++
				next := cur
				var st drive.Status
				call := clock.Tick()
				x := wr.Intn(10)
				if forceDelete && cur.Present {
					x = 5
				}
				switch {
				case x < 4 || !cur.Present:
					tag := fmt.Sprintf("w%d.%d", w, n)
					withG := ""
					if g := atomic.LoadInt32(&gCur); g >= 0 {
						withG = fmt.Sprint("g", g)
					}
					next = c18RowState{Present: true, Tag: tag, G: withG}
					st = drive.MutateRow(data, table, key(i), dataMutsG(tag, withG))
				case x < 8:
					next = c18RowState{}
					st = drive.MutateRow(data, table, key(i), []model.Mut{{Kind: model.DelRow}})
				default:
					add := fmt.Sprintf("a%d.%d;", w, n)
					next.Log = cur.Log + add
					st, _ = drive.ReadModifyWrite(data, table, key(i), []drive.Rule{{Fam: "f", Qual: "log", Append: true, Val: add}})
				}
				next.call, next.ret = call, clock.Tick()
				if !st.OK() {
					if st.Code == codes.DeadlineExceeded {
						c18Abort(run, round, fmt.Sprintf("engine=%s round=%d: a write to %s was not answered within %s while scans were running", engine, round, key(i), drive.RPCTimeout))
					}
					writeErr.Store(fmt.Sprintf("write to %s failed: %s", key(i), st))
					return
				}
				history[i] = append(history[i], next)
			}
		}(w)
	}
	if createG {
		wg.Add(1)
		go func() {
			defer wg.Done()
			// a new family every time the scans have advanced by a few hundred rows
			var last int64
			for g := int32(0); g < 12; g++ {
				for {
					select {
					case <-stop:
						return
					default:
					}
					pos := atomic.LoadInt64(&scanPos[0]) + atomic.LoadInt64(&scanPos[1]) + atomic.LoadInt64(&scanPos[2])
					if pos-last > 400 || last-pos > 400 {
						last = pos
						break
					}
					runtime.Gosched()
				}
				ctx, cancel := drive.Ctx()
				_, err := srv.Admin.ModifyColumnFamilies(ctx, &btapb.ModifyColumnFamiliesRequest{Name: table, Modifications: []*btapb.ModifyColumnFamiliesRequest_Modification{{Id: fmt.Sprint("g", g), Mod: &btapb.ModifyColumnFamiliesRequest_Modification_Create{Create: &btapb.ColumnFamily{}}}}})
				cancel()
				if err != nil {
					writeErr.Store("ModifyColumnFamilies(create g) failed: " + err.Error())
					return
				}
				atomic.StoreInt32(&gCur, g)
				run.Count("families_created_during_scans", 1)
			}
			run.Count("rounds_with_a_family_created_during_the_scans", 1)
		}()
	}
	type scan struct {
		lo, hi int      // row index range [lo,hi]
		gaps   [][2]int // index intervals inside [lo,hi] that were not requested
		S, E   int64
		res    drive.ReadResult
		ran    bool
	}
	scans := make([]scan, nscans)
	var swg sync.WaitGroup
	const S = 3
	var next int64 = -1
	for sc := 0; sc < S; sc++ {
		swg.Add(1)
		go func(sc int) {
			defer swg.Done()
			conn, data, _, err := srv.NewConn()
			if err != nil {
				return
			}
			defer conn.Close()
			wdata := data
			if sc == 0 {
				// scanner 0 is a "scan and update" client: its scans come over a connection with fixed 64 KiB
				// flow-control windows, and between two messages it performs a (no-op) row write on the table and
				// waits for the answer before it reads on
				if c2, d2, err := srv.NewSmallWindowConn(); err == nil {
					defer c2.Close()
					data = d2
				}
			}
			for {
				k := int(atomic.AddInt64(&next, 1))
				if k >= nscans || c18Hung.Load() {
					return
				}
				sr := common.NewRand(run.Seed, fmt.Sprintf("C18.scan.%d", round), k)
				lo, hi := 0, N-1
				if sr.Chance(1, 3) {
					lo = sr.Intn(N / 2)
					hi = lo + 800 + sr.Intn(N/2-800)
				}
				req := &btpb.ReadRowsRequest{TableName: table}
				if lo != 0 || hi != N-1 {
					req.Rows = &btpb.RowSet{RowRanges: []*btpb.RowRange{{StartKey: &btpb.RowRange_StartKeyClosed{StartKeyClosed: []byte(key(lo))}, EndKey: &btpb.RowRange_EndKeyClosed{EndKeyClosed: []byte(key(hi))}}}}
				} else if sr.Chance(1, 3) || (engine == "btree" && sr.Bool()) {
					// a range with only one bound (the storage engines have a separate iteration entry point for each
					// combination of bounds)
					if sr.Chance(2, 3) {
						hi = N/2 + sr.Intn(N/2)
						req.Rows = &btpb.RowSet{RowRanges: []*btpb.RowRange{{EndKey: &btpb.RowRange_EndKeyClosed{EndKeyClosed: []byte(key(hi))}}}}
						run.Count("scans_with_only_an_end_bound", 1)
					} else {
						lo = sr.Intn(N / 2)
						req.Rows = &btpb.RowSet{RowRanges: []*btpb.RowRange{{StartKey: &btpb.RowRange_StartKeyClosed{StartKeyClosed: []byte(key(lo))}}}}
						run.Count("scans_with_only_a_start_bound", 1)
					}
				}
				var gaps [][2]int
				if sr.Chance(1, 3) || (createG && sr.Chance(1, 2)) {
					// three disjoint ranges (five rows left out between them, so that the server cannot merge them into
					// one) plus two explicit keys: one request, several iterations over the store
					a := lo + (hi-lo)/3
					b := lo + 2*(hi-lo)/3
					rg := func(x, y int) *btpb.RowRange {
						return &btpb.RowRange{StartKey: &btpb.RowRange_StartKeyClosed{StartKeyClosed: []byte(key(x))}, EndKey: &btpb.RowRange_EndKeyOpen{EndKeyOpen: []byte(key(y))}}
					}
					req.Rows = &btpb.RowSet{RowKeys: [][]byte{[]byte(key(hi)), []byte(key(b))}, RowRanges: []*btpb.RowRange{rg(b, hi), rg(lo, a-5), rg(a, b-5)}}
					gaps = [][2]int{{a - 5, a - 1}, {b - 5, b - 1}}
					run.Count("multi_range_scans", 1)
				}
				s := clock.Tick()
				ctx, cancel := drive.Ctx()
				res := drive.ReadRowsCtx(ctx, data, req, func(_ int, lastKey string) {
					var at int
					if _, err := fmt.Sscanf(lastKey, "row%05d", &at); err == nil {
						atomic.StoreInt64(&scanPos[sc], int64(at))
					}
					if sc == 0 {
						wctx, wcancel := context.WithTimeout(context.Background(), 30*time.Second)
						var werr error
						if n := atomic.AddInt64(&updates, 0); n%3 == 2 {
							// ... or the administrative way of deleting rows, with a prefix that no row has
							_, werr = srv.Admin.DropRowRange(wctx, &btapb.DropRowRangeRequest{Name: table, Target: &btapb.DropRowRangeRequest_RowKeyPrefix{RowKeyPrefix: []byte("zzz-no-such-row")}})
							run.Count("prefix_drops_matching_no_row_between_two_messages_of_a_scan", 1)
						} else {
							_, werr = wdata.MutateRow(wctx, &btpb.MutateRowRequest{TableName: table, RowKey: []byte("zzz-no-such-row"), Mutations: drive.MutsToProto([]model.Mut{{Kind: model.DelRow}})})
						}
						wcancel()
						if status.Code(werr) == codes.DeadlineExceeded {
							writeErr.Store("a client that writes a row between reading two messages of its own scan got no answer to the write within 30 s (the scan it had not finished reading kept the table locked)")
						}
						atomic.AddInt64(&updates, 1)
					}
				})
				cancel()
				scans[k] = scan{lo: lo, hi: hi, gaps: gaps, S: s, E: clock.Tick(), res: res, ran: true}
				if res.Code == codes.DeadlineExceeded {
					c18Abort(run, round, fmt.Sprintf("engine=%s round=%d scan=%d: the scan did not end within %s (%d messages received) while writers were running", engine, round, k, drive.RPCTimeout, res.Messages))
				}
			}
		}(sc)
	}
	swg.Wait()
	run.Count("writes_by_a_scanning_client_between_two_messages", atomic.LoadInt64(&updates))
	close(stop)
	wg.Wait()
	if e, _ := writeErr.Load().(string); e != "" {
		run.Violation("round", round, e, nil)
		return
	}
	_ = r
	totalWrites := 0
	for i := range history {
		totalWrites += len(history[i]) - 1
	}
	run.Count("writes_acknowledged", int64(totalWrites))
	for k, sc := range scans {
		idx := round*1000 + k
		desc := fmt.Sprintf("engine=%s round=%d scan=%d rows[%d,%d] stamps[%d,%d] messages=%d", engine, round, k, sc.lo, sc.hi, sc.S, sc.E, sc.res.Messages)
		fail := func(what string) {
			run.Violation("round", round, what+" | "+desc, map[string]any{"scan": desc})
		}
		if !sc.ran {
			continue
		}
		if !sc.res.OK() {
			if sc.res.Code == codes.DeadlineExceeded {
				fail(fmt.Sprintf("scan did not end within %s (%d messages received; the requests of the other clients of this round: see detail); the rest of the run is skipped", drive.RPCTimeout, sc.res.Messages))
				continue
			}
			fail(fmt.Sprintf("scan ended with %s: %s", sc.res.Code, sc.res.Msg))
			continue
		}
		if sc.res.Malformed != "" {
			fail("scan stream: " + sc.res.Malformed)
			continue
		}
		got := map[string]model.Row{}
		for _, row := range sc.res.Rows {
			got[row.Key] = row
		}
		multi, inside := 0, 0
		bad := false
		inGap := func(i int) bool {
			for _, g := range sc.gaps {
				if i >= g[0] && i <= g[1] {
					return true
				}
			}
			return false
		}
		for i := sc.lo; i <= sc.hi && !bad; i++ {
			if inGap(i) {
				if _, present := got[key(i)]; present {
					fail(fmt.Sprintf("row %q was not requested", key(i)))
					bad = true
				}
				continue
			}
			h := history[i]
			// admissible states: produced by a write called before the scan ended, and not replaced by a write that returned before the scan started
			var adm []c18RowState
			for x, st := range h {
				if st.call > sc.E {
					break
				}
				if x+1 < len(h) && h[x+1].ret < sc.S {
					continue
				}
				adm = append(adm, st)
				if st.call > sc.S && st.ret < sc.E {
					inside++
				}
			}
			if len(adm) > 1 {
				multi++
			}
			row, present := got[key(i)]
			var obs c18RowState
			if present {
				obs.Present = true
				cols := map[string]string{}
				gval := ""
				for _, c := range row.Cells {
					if c.Fam == "f" && c.Qual == "pad" && c.TS == 1000 && c.Val == c18Pad {
						continue
					}
					if strings.HasPrefix(c.Fam, "g") && c.Qual == "c0" && c.TS == 1000 {
						if obs.G != "" {
							fail(fmt.Sprintf("row %q has cells in two of the families created during the round (each write deletes the row first)", row.Key))
							bad = true
						}
						obs.G = c.Fam
						gval = c.Val
						continue
					}
					if _, dup := cols[c.Qual]; dup || c.Fam != "f" || c.TS != 1000 && c.Qual != "log" {
						fail(fmt.Sprintf("row %q has an impossible cell %s", row.Key, c))
						bad = true
					}
					cols[c.Qual] = c.Val
				}
				if obs.G != "" && gval != cols["c0"] {
					fail(fmt.Sprintf("torn row %s: the cell in family g and the cells in family f were written by one request but differ", row))
					bad = true
				}
				obs.Tag, obs.Log = cols["c0"], cols["log"]
				_, hasData := cols["c0"]
				if hasData && (cols["c1"] != obs.Tag || cols["c2"] != obs.Tag) {
					fail(fmt.Sprintf("torn row %s: the three columns written by one request differ", row))
					bad = true
				}
				if !hasData {
					obs.Tag = ""
				}
			}
			if bad {
				break
			}
			ok := false
			for _, st := range adm {
				if st.same(obs) {
					ok = true
				}
				// a row deleted and then appended-to exists with only its log column
				if st.Present == obs.Present && st.Tag == obs.Tag && st.Log == obs.Log && st.G == obs.G {
					ok = true
				}
			}
			if !ok {
				fail(fmt.Sprintf("row %q: scan returned %+v, but its states that could be current during the scan are %+v (full history %+v)", key(i), obs, adm, h))
				bad = true
			}
		}
		for k := range got {
			var i int
			fmt.Sscanf(k, "row%05d", &i)
			if i < sc.lo || i > sc.hi {
				fail(fmt.Sprintf("row %q outside the requested range", k))
			}
		}
		run.Count("scans", 1)
		run.Count("writes_acknowledged_inside_scans", int64(inside))
		run.Count("rows_with_more_than_one_admissible_state", int64(multi))
		run.Max("max_messages_per_scan", int64(sc.res.Messages))
		run.Case(common.Hash64(desc), multi > 0)
		if k == 0 && round < 3 {
			run.Sample(desc + fmt.Sprintf(" rows_returned=%d rows_with_several_admissible_states=%d", len(sc.res.Rows), multi))
		}
		_ = idx
	}
}

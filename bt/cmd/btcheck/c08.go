package main

import (
	"bufio"
	"context"
	"fmt"
	"net"
	"os"
	"os/exec"
	"path/filepath"
	"sort"
	"strconv"
	"strings"
	"sync"
	"sync/atomic"
	"syscall"
	"time"

	btapb "cloud.google.com/go/bigtable/admin/apiv2/adminpb"
	"github.com/fullstorydev/emulators/bigtable/bttest"

	"verif/bt/drive"
	"verif/bt/gen"
	"verif/bt/model"
	"verif/common"
)

func init() {
	register("C08", "fault_enumeration", runC08)
	childModes["server"] = childServer
}

// ---- child: emulator host with a control channel -------------------------------------------------------------
// stdin commands:  arm <point> <n> | disarm | hold <point> | release | gc <table> | quit
// stdout: "ADDR <addr>", "STOPPED <point>", "HOLDING <point>", "HELD <point>" (a request is parked there), "BYE"

func childServer(args []string) {
	engine, dir := args[0], args[1]
	if dir == "-" {
		dir = ""
	}
	clock, _ := strconv.ParseInt(args[2], 10, 64)
	var armed atomic.Value // string point
	var armedN int64
	armed.Store("")
	out := bufio.NewWriter(os.Stdout)
	var outMu sync.Mutex
	say := func(s string) {
		outMu.Lock()
		out.WriteString(s + "\n")
		out.Flush()
		outMu.Unlock()
	}
	var held atomic.Value // string point: the next request passing it is parked (only that request) until "release"
	held.Store("")
	var gate atomic.Value // chan struct{}
	bttest.VerifSetHandler(func(point string, key []byte) {
		if p, _ := held.Load().(string); p != "" && p == point && held.CompareAndSwap(p, "") {
			g := gate.Load().(chan struct{})
			say("HELD " + point)
			<-g
		}
		if p, _ := armed.Load().(string); p != "" && p == point {
			if atomic.AddInt64(&armedN, -1) == 0 {
				say("STOPPED " + point)
				// freeze the whole process exactly here: what is on disk now is what a kill -9 at this point would leave
				_ = syscall.Kill(os.Getpid(), syscall.SIGSTOP)
				// A process-directed SIGSTOP does not stop the calling thread synchronously: park this goroutine for good
				// (the process is killed after the image is taken), so that nothing past the crash point ever executes.
				select {}
			}
		}
	})
	srv, err := drive.Start(engine, clock, dir)
	if err != nil {
		fmt.Fprintln(os.Stderr, "start:", err)
		os.Exit(3)
	}
	say("ADDR " + srv.S.Addr)
	in := bufio.NewScanner(os.Stdin)
	for in.Scan() {
		f := strings.Fields(in.Text())
		if len(f) == 0 {
			continue
		}
		switch f[0] {
		case "arm":
			n, _ := strconv.ParseInt(f[2], 10, 64)
			atomic.StoreInt64(&armedN, n)
			armed.Store(f[1])
			say("ARMED")
		case "disarm":
			armed.Store("")
			say("DISARMED")
		case "hold":
			gate.Store(make(chan struct{}))
			held.Store(f[1])
			say("HOLDING " + f[1])
		case "release":
			held.Store("")
			if g, _ := gate.Load().(chan struct{}); g != nil {
				select {
				case <-g:
				default:
					close(g)
				}
			}
			say("RELEASED")
		case "gc":
			// force one real garbage-collection pass over the named table (the scheduler loop is bypassed)
			bttest.VerifRunGC(srv.S, f[1], true)
			say("GCDONE")
		case "quit":
			srv.S.Close()
			say("BYE")
			os.Exit(0)
		}
	}
	// parent went away
	os.Exit(0)
}

// ---- parent ------------------------------------------------------------------------------------------------------

// allThreadsStopped reports whether every thread of the process is in a stopped state.
func allThreadsStopped(pid int) bool {
	tasks, err := os.ReadDir(fmt.Sprintf("/proc/%d/task", pid))
	if err != nil || len(tasks) == 0 {
		return false
	}
	for _, t := range tasks {
		buf, err := os.ReadFile(fmt.Sprintf("/proc/%d/task/%s/stat", pid, t.Name()))
		if err != nil {
			continue // thread exited meanwhile
		}
		s := string(buf)
		i := strings.LastIndex(s, ")")
		if i < 0 || i+2 >= len(s) {
			return false
		}
		if st := s[i+2]; st != 'T' && st != 't' {
			return false
		}
	}
	return true
}

func waitStopped(pid int, timeout time.Duration) bool {
	deadline := time.Now().Add(timeout)
	for time.Now().Before(deadline) {
		if allThreadsStopped(pid) {
			return true
		}
		time.Sleep(200 * time.Microsecond)
	}
	return false
}

func copyDir(src, dst string) error {
	return exec.Command("cp", "-a", src, dst).Run()
}

type c08Server struct {
	child *childProc
	srv   *drive.Srv
	dir   string
}

func c08Start(tag, dir string) (*c08Server, string) {
	c, err := spawnChild(tag, "server", "ldbdisk", dir, fmt.Sprint(gen.BaseClock))
	if err != nil {
		return nil, "spawn: " + err.Error()
	}
	line, err := c.readLine(60 * time.Second)
	if err != nil || !strings.HasPrefix(line, "ADDR ") {
		werr, _ := c.wait(5 * time.Second)
		msg := fmt.Sprintf("emulator did not come up on the directory (%v, exit %v); stderr: %s", err, werr, c.stderrTail(15))
		c.cleanup()
		return nil, msg
	}
	srv, err := drive.Connect(strings.TrimPrefix(line, "ADDR "))
	if err != nil {
		c.kill()
		return nil, "connect: " + err.Error()
	}
	return &c08Server{child: c, srv: srv, dir: dir}, ""
}

func (s *c08Server) stop() {
	if s.srv != nil && s.srv.Conn != nil {
		s.srv.Conn.Close()
	}
	s.child.kill()
	s.child.cleanup()
}

// c08Req is one request of a program: how to send it and what it does to the acknowledged model.
type c08Req struct {
	desc        string
	send        func(s *drive.Srv) drive.Status
	apply       func(reg c14Registry) // effect if wholly applied (on a clone)
	valid       bool                  // expected to be acknowledged
	mustFail    bool                  // invalid by the data model: must be rejected without effect
	crashPoints []string              // instrumented points this request passes through
}

func c08CloneReg(reg c14Registry) c14Registry {
	out := c14Registry{}
	for k, v := range reg {
		out[k] = v.Clone()
	}
	return out
}

// c08Gen generates the next request given the current acknowledged registry.
var c08LongId = "t" + strings.Repeat("y", 244)

func c08Gen(r *common.Rand, reg c14Registry, kf03Open bool, realClock bool, firstDef map[string]map[string]*model.GcRule, valPool ...string) c08Req {
	if len(valPool) == 0 {
		valPool = gen.Vals
	}
	parent := c14Parents[0]
	id := common.Pick(r, c14Ids[:2])
	if r.Chance(1, 12) {
		// a table id of 245 bytes: fine as a directory name, too long once a storage layer appends a suffix to it.
		// Creating it may be refused; if it is acknowledged, it has to survive restarts like any other table.
		id = c08LongId
	}
	name := drive.TableName(parent, id)
	m, live := reg[name]
	metaPoints := []string{"disk.meta.enter", "disk.meta.afterMkdir", "disk.meta.afterTmp", "disk.meta.afterRename"}
	if !live {
		fams := map[string]*model.GcRule{}
		for _, f := range c14FamPool[:3] {
			if r.Chance(3, 4) {
				fams[f] = c14RandGc(r)
			}
		}
		switch r.Intn(8) {
		case 0:
			fams = map[string]*model.GcRule{} // a table without any family
		case 1, 2:
			// a table with a single family: dropping it leaves a table without families whose rows still hold
			// cells until the purge is through
			f := common.Pick(r, c14FamPool[:3])
			fams = map[string]*model.GcRule{f: c14RandGc(r)}
		}
		// half of the re-creations use exactly the definition the table had when it was deleted
		if prev, ok := firstDef[name]; ok && r.Bool() {
			fams = prev // the definition the table had when it was deleted
		}
		return c08Req{desc: fmt.Sprintf("CreateTable(%s,%s)", truncStr(id, 20), famString(fams)), valid: id != c08LongId,
			send: func(s *drive.Srv) drive.Status { return drive.CreateTable(s.Admin, parent, id, fams) },
			apply: func(reg c14Registry) {
				nm := model.NewTable()
				for f, g := range fams {
					nm.Families[f] = g
				}
				reg[name] = nm
			},
			crashPoints: append(append([]string{}, metaPoints...), "disk.create.afterMeta", "disk.nuke.afterRemove", "disk.open.afterOpen")}
	}
	switch k := r.Intn(20); {
	case k < 2:
		last := map[string]*model.GcRule{}
		for f, g := range m.Families {
			last[f] = g
		}
		firstDef[name] = last
		return c08Req{desc: fmt.Sprintf("DeleteTable(%s)", id), valid: true,
			send: func(s *drive.Srv) drive.Status {
				ctx, cancel := drive.Ctx()
				defer cancel()
				_, err := s.Admin.DeleteTable(ctx, &btapb.DeleteTableRequest{Name: name})
				return drive.StatusOf(err)
			},
			apply: func(reg c14Registry) { delete(reg, name) }}
	case k < 4:
		f := common.Pick(r, c14FamPool[:3])
		if len(m.Families) == 1 && r.Bool() {
			for only := range m.Families {
				f = only
			}
		}
		_, has := m.Families[f]
		g := c14RandGc(r)
		switch {
		case !has:
			return c08Req{desc: fmt.Sprintf("ModifyColumnFamilies(%s, create %s=%s)", id, f, g), valid: true, crashPoints: metaPoints,
				send: func(s *drive.Srv) drive.Status {
					ctx, cancel := drive.Ctx()
					defer cancel()
					_, err := s.Admin.ModifyColumnFamilies(ctx, &btapb.ModifyColumnFamiliesRequest{Name: name, Modifications: []*btapb.ModifyColumnFamiliesRequest_Modification{{Id: f, Mod: &btapb.ModifyColumnFamiliesRequest_Modification_Create{Create: &btapb.ColumnFamily{GcRule: drive.GcToProto(g)}}}}})
					return drive.StatusOf(err)
				},
				apply: func(reg c14Registry) { reg[name].Families[f] = g }}
		case r.Bool():
			return c08Req{desc: fmt.Sprintf("ModifyColumnFamilies(%s, update %s=%s)", id, f, g), valid: true, crashPoints: metaPoints,
				send: func(s *drive.Srv) drive.Status {
					ctx, cancel := drive.Ctx()
					defer cancel()
					_, err := s.Admin.ModifyColumnFamilies(ctx, &btapb.ModifyColumnFamiliesRequest{Name: name, Modifications: []*btapb.ModifyColumnFamiliesRequest_Modification{{Id: f, Mod: &btapb.ModifyColumnFamiliesRequest_Modification_Update{Update: &btapb.ColumnFamily{GcRule: drive.GcToProto(g)}}}}})
					return drive.StatusOf(err)
				},
				apply: func(reg c14Registry) { reg[name].Families[f] = g }}
		case r.Bool():
			// the definition is persisted first, then the cells are purged row by row: kill inside either step
			dropPoints := append(append([]string{}, metaPoints...), "purge.afterRow")
			return c08Req{desc: fmt.Sprintf("ModifyColumnFamilies(%s, drop %s)", id, f), valid: true, crashPoints: dropPoints,
				send: func(s *drive.Srv) drive.Status {
					ctx, cancel := drive.Ctx()
					defer cancel()
					_, err := s.Admin.ModifyColumnFamilies(ctx, &btapb.ModifyColumnFamiliesRequest{Name: name, Modifications: []*btapb.ModifyColumnFamiliesRequest_Modification{{Id: f, Mod: &btapb.ModifyColumnFamiliesRequest_Modification_Drop{Drop: true}}}})
					return drive.StatusOf(err)
				},
				apply: func(reg c14Registry) {
					t := reg[name]
					delete(t.Families, f)
					for key, row := range t.Rows {
						delete(row, f)
						t.Commit(key, row)
					}
				}}
		default:
			// one request with 2-3 modifications (valid as a whole): all of them or none must survive a kill
			type mod struct {
				kind string
				f    string
				g    *model.GcRule
			}
			have := map[string]bool{}
			for fam := range m.Families {
				have[fam] = true
			}
			var mods []mod
			droppedIds := map[string]bool{}
			recreate := false
			var pmods []*btapb.ModifyColumnFamiliesRequest_Modification
			desc := fmt.Sprintf("ModifyColumnFamilies(%s,", id)
			for i, n := 0, r.Range(2, 3); i < n; i++ {
				fam := common.Pick(r, c14FamPool[:3])
				rule := c14RandGc(r)
				switch {
				case !have[fam] && droppedIds[fam] && kf03Open:
					// known finding KF03: a request that drops a family and creates it again purges the old cells before
					// the definition is persisted; such requests are kept out of the crash programs, the canary
					// reproduces the finding
					continue
				case !have[fam]:
					mods = append(mods, mod{"create", fam, rule})
					have[fam] = true
					recreate = recreate || droppedIds[fam]
					pmods = append(pmods, &btapb.ModifyColumnFamiliesRequest_Modification{Id: fam, Mod: &btapb.ModifyColumnFamiliesRequest_Modification_Create{Create: &btapb.ColumnFamily{GcRule: drive.GcToProto(rule)}}})
					desc += fmt.Sprintf(" create %s=%s", fam, rule)
				case r.Chance(2, 3):
					mods = append(mods, mod{"drop", fam, nil})
					delete(have, fam)
					droppedIds[fam] = true
					pmods = append(pmods, &btapb.ModifyColumnFamiliesRequest_Modification{Id: fam, Mod: &btapb.ModifyColumnFamiliesRequest_Modification_Drop{Drop: true}})
					desc += fmt.Sprintf(" drop %s", fam)
				default:
					mods = append(mods, mod{"update", fam, rule})
					pmods = append(pmods, &btapb.ModifyColumnFamiliesRequest_Modification{Id: fam, Mod: &btapb.ModifyColumnFamiliesRequest_Modification_Update{Update: &btapb.ColumnFamily{GcRule: drive.GcToProto(rule)}}})
					desc += fmt.Sprintf(" update %s=%s", fam, rule)
				}
			}
			points := append(append([]string{}, metaPoints...), "purge.afterRow")
			_ = recreate
			return c08Req{desc: desc + ")", valid: true, crashPoints: points,
				send: func(s *drive.Srv) drive.Status {
					ctx, cancel := drive.Ctx()
					defer cancel()
					_, err := s.Admin.ModifyColumnFamilies(ctx, &btapb.ModifyColumnFamiliesRequest{Name: name, Modifications: pmods})
					return drive.StatusOf(err)
				},
				apply: func(reg c14Registry) {
					t := reg[name]
					for _, mo := range mods {
						if mo.kind == "drop" {
							delete(t.Families, mo.f)
							for key, row := range t.Rows {
								delete(row, mo.f)
								t.Commit(key, row)
							}
						} else {
							t.Families[mo.f] = mo.g
						}
					}
				}}
		}
	case k < 6:
		all := r.Chance(1, 2)
		prefix := common.Pick(r, []string{"a", "a\xff", "b", "\xff"})
		req := c08Req{desc: fmt.Sprintf("DropRowRange(%s, all=%v, %q)", id, all, prefix), valid: true,
			send: func(s *drive.Srv) drive.Status {
				rq := &btapb.DropRowRangeRequest{Name: name}
				if all {
					rq.Target = &btapb.DropRowRangeRequest_DeleteAllDataFromTable{DeleteAllDataFromTable: true}
				} else {
					rq.Target = &btapb.DropRowRangeRequest_RowKeyPrefix{RowKeyPrefix: []byte(prefix)}
				}
				ctx, cancel := drive.Ctx()
				defer cancel()
				_, err := s.Admin.DropRowRange(ctx, rq)
				return drive.StatusOf(err)
			},
			apply: func(reg c14Registry) {
				for key := range reg[name].Rows {
					if all || strings.HasPrefix(key, prefix) {
						delete(reg[name].Rows, key)
					}
				}
			}}
		if all {
			req.crashPoints = []string{"rows.clear.beforeWrite", "rows.clear.afterWrite"}
		}
		return req
	default:
		key := common.Pick(r, c14Keys)
		var fs []string
		for f := range m.Families {
			fs = append(fs, f)
		}
		if len(fs) == 0 {
			fs = []string{"f1"}
		}
		sortStrings(fs)
		var muts []model.Mut
		n := r.Range(1, 3)
		for i := 0; i < n; i++ {
			// (one mutation in eight is deliberately invalid - a timestamp that is not a whole millisecond, an unknown
			// family, ...: what a table accepts must not change with a restart)
			mu := gen.Mutation(r, gen.Opts{InvalidPct: 12})
			if r.Chance(3, 5) {
				mu = model.Mut{Kind: model.SetCell, Qual: common.Pick(r, gen.Quals), TS: common.Pick(r, gen.GoodTS), Val: common.Pick(r, valPool)}
			}
			if mu.Kind != model.DelRow {
				mu.Fam = common.Pick(r, fs)
			}
			if realClock && mu.Kind == model.SetCell && mu.TS == -1 {
				mu.TS = 3000 // the real binary runs on the real clock: no server-assigned timestamps in this part
			}
			muts = append(muts, mu)
		}
		v, _ := m.Apply(key, muts, gen.BaseClock)
		return c08Req{desc: fmt.Sprintf("MutateRow(%s,%q,%s)", id, key, truncStr(model.MutsString(muts), 300)), valid: v == model.MustOK, mustFail: v == model.MustErr,
			send: func(s *drive.Srv) drive.Status { return drive.MutateRow(s.Data, name, key, muts) },
			apply: func(reg c14Registry) {
				if v, nr := reg[name].Apply(key, muts, gen.BaseClock); v != model.MustErr {
					reg[name].Commit(key, nr)
				}
			}}
	}
}

func sortStrings(s []string) {
	for i := 1; i < len(s); i++ {
		for j := i; j > 0 && s[j] < s[j-1]; j-- {
			s[j], s[j-1] = s[j-1], s[j]
		}
	}
}

// c08VerifyImage starts a fresh emulator on a private copy of the image and compares what it serves with the
// candidate states (acknowledged state; or, with a request in flight, also the state after it).
func c08VerifyImage(tag, image string, candidates []c14Registry) string {
	s, msg := c08Start(tag, image)
	if s == nil {
		return "restart on the image failed: " + msg
	}
	defer s.stop()
	var msgs []string
	for _, reg := range candidates {
		m := c14CheckAll(s.srv, reg)
		if m == "" {
			return c08HiddenStateProbe(s, reg)
		}
		msgs = append(msgs, m)
	}
	if len(msgs) == 1 {
		return "state after restart differs from the acknowledged state: " + msgs[0]
	}
	return "state after restart is neither the state before the in-flight request (" + msgs[0] + ") nor the state after it (" + msgs[1] + ")"
}

// c08HiddenStateProbe: what a restarted server SHOWS can equal the acknowledged state while it still HOLDS remains of
// what was removed (cells of a dropped family that are merely not displayed, a half-initialised definition). The image
// is a throw-away copy, so the probe may write: on every table each family of the pool that the table does not have is
// created (a valid request: it must succeed, and the server must survive it), and afterwards the whole observable state
// must be the acknowledged state plus those empty families - no cell may surface in them.
func c08HiddenStateProbe(s *c08Server, reg c14Registry) string {
	srv := s.srv
	probe := c08CloneReg(reg)
	var names []string
	for name := range probe {
		names = append(names, name)
	}
	sort.Strings(names)
	// First the garbage-collection rules that came back from disk must be in force (before any admin request touches the
	// tables again): one forced pass per table in the restarted process must remove exactly what the model's GC removes
	// (clock of the child = gen.BaseClock).
	for _, name := range names {
		s.child.send("gc " + name)
		if l, err := s.child.readLine(120 * time.Second); err != nil || l != "GCDONE" {
			return fmt.Sprintf("after the restart, a forced garbage-collection pass over %s did not finish: %v %q; stderr: %s", name, err, l, s.child.stderrTail(10))
		}
		probe[name].GC(gen.BaseClock)
	}
	if m := c14CheckAll(srv, probe); m != "" {
		return "after the restart, a garbage-collection pass did not remove exactly what the (persisted) rules condemn: " + m
	}
	// Then: on every table each family of the pool that the table does not have is created (a valid request: it must
	// succeed, and the server must survive it); nothing may surface in the new families.
	for _, name := range names {
		for _, fam := range []string{"f1", "f", "g", "f12", "f2"} {
			if _, has := probe[name].Families[fam]; has {
				continue
			}
			ctx, cancel := drive.Ctx()
			_, err := srv.Admin.ModifyColumnFamilies(ctx, &btapb.ModifyColumnFamiliesRequest{Name: name, Modifications: []*btapb.ModifyColumnFamiliesRequest_Modification{{Id: fam, Mod: &btapb.ModifyColumnFamiliesRequest_Modification_Create{Create: &btapb.ColumnFamily{}}}}})
			cancel()
			if err != nil {
				return fmt.Sprintf("after the restart, creating family %q on %s (a valid request) failed: %v", fam, name, err)
			}
			probe[name].Families[fam] = nil
		}
	}
	if m := c14CheckAll(srv, probe); m != "" {
		return "after the restart the served state equalled the acknowledged one, but creating the families the tables do not have brought something back: " + m
	}
	return ""
}

func runC08(run *common.Run) {
	run.Rule = "case = one crash image of the on-disk storage directory of a child emulator process driven by a generated admin+data program (CreateTable with GC rules, MutateRow, DropRowRange prefix/all, ModifyColumnFamilies create/update/drop and multi-modification requests, DeleteTable, re-create): (boundary) the process is frozen with SIGSTOP between two requests and the directory copied; (point) the process freezes itself at an instrumented point inside SetTableMeta / Create / Clear / the row-by-row purge of a dropped family while a request is in flight, the directory is copied and the process killed; (cycle) after such a kill the live directory is restarted and the program continues, up to 5 times; (clean) clean Server.Close stop; (real) the real cbtemulator -dir binary killed with SIGKILL between requests and restarted; (syskill) the child runs under strace and is killed at its N-th unlinkat / rename / mkdir system call, N = 1, 2, ..., over one program in which every fourth request clears a table, and at its N-th write / pwrite64 system call over a program that stores 33-100 KiB values (journal records spanning several write calls) and over a directed program of small rows with prefix drops of 8 and 4 rows and a delete-all, then restarted; (bigclear) tables of 5000 / 9000 rows emptied by delete-all, frozen at the clear's instrumented points. One mutation in eight of the generated programs is deliberately invalid (must be rejected before and after every restart) and one request in twelve addresses a 245-byte table id (creation may be refused; an acknowledged table must survive restarts). (dropgrid) the complete grid {1, 2, 3 families} x {family dropped} x {every crash point of a family drop incl. the 1st-3rd purged row}, and the same points for a request that drops and re-creates one family (known finding KF03 is recognised by its exact state - old definition, old cells gone - and only that state is tolerated); (adminrace) a ModifyColumnFamilies request is parked inside its metadata write while DeleteTable (and a re-creation) is acknowledged, then released; running process and a restart must agree with a serial order. Each image is verified by starting a fresh emulator process on a private copy: it must come up, and ListTables/GetTable/full scans/NotFound probes must equal the acknowledged model, the in-flight request being wholly applied or wholly absent; then, on that throw-away copy, every pool family a table lacks is created and nothing may surface in it (remains of dropped families that are merely not displayed), and a forced garbage-collection pass in the restarted process must remove exactly what the persisted rules condemn. Non-trivial = image taken when the model held at least one table with rows and either a request was in flight or an earlier request had removed something (rows, family, table); distinct by image."
	run.Assumptions = []string{"process death only (SIGSTOP image = what kill -9 leaves: completed syscalls persist); power loss / unsynced page cache is out of scope", "crash points = request boundaries + the instrumented points; kills inside leveldb's own write path are not enumerated"}
	nprog := run.N(12, 300)
	scratch, err := os.MkdirTemp("", "verif-c08-")
	if err != nil {
		run.Violation("setup", 0, "mkdtemp: "+err.Error(), nil)
		return
	}
	defer os.RemoveAll(scratch)
	if run.WantSub("adminrace") {
		common.Parallel(run.N(12, 120), 6, func(p int) {
			if run.Want("adminrace", p) && !run.TooMany() {
				c08AdminRace(run, p, filepath.Join(scratch, fmt.Sprintf("ar%d", p)))
			}
		})
	}
	if run.WantSub("dropgrid") {
		c08DropGrid(run, filepath.Join(scratch, "dropgrid"))
	}
	run.Canary("KF03", func() (bool, string) { return c08DropFamilyCanary(filepath.Join(scratch, "kf03")) })
	j := common.NewJournal("C08")
	if run.WantSub("real") {
		nreal := run.N(3, 40)
		common.Parallel(nreal, 4, func(p int) {
			if !run.Want("real", p) || run.TooMany() {
				return
			}
			c08RealBinary(run, p, filepath.Join(scratch, fmt.Sprintf("real%d", p)))
		})
	}
	if run.WantSub("bigclear") && !run.TooMany() {
		c08BigClear(run, filepath.Join(scratch, "bigclear"))
	}
	if run.WantSub("syskill") && !run.TooMany() {
		c08SyscallKills(run, filepath.Join(scratch, "syskill"))
	}
	if !run.WantSub("prog") {
		return
	}
	common.Parallel(nprog, workers(), func(p int) {
		if !run.Want("prog", p) || run.TooMany() {
			return
		}
		j.Begin(p%64, fmt.Sprintf("C08 prog case=%d", p))
		c08Program(run, p, filepath.Join(scratch, fmt.Sprintf("p%d", p)))
		j.End(p % 64)
	})
}

func c08Program(run *common.Run, p int, base string) {
	r := run.Rand("C08.prog", p)
	_ = os.MkdirAll(base, 0o777)
	defer os.RemoveAll(base)
	live := filepath.Join(base, "live")
	_ = os.MkdirAll(live, 0o777)
	s, msg := c08Start(fmt.Sprintf("c08-%d", p), live)
	if s == nil {
		run.Violation("prog", p, "cannot start child: "+msg, nil)
		return
	}
	defer func() { s.stop() }()
	reg := c14Registry{}
	firstDef := map[string]map[string]*model.GcRule{}
	var steps []string
	removedSomething := false
	imgNo := 0
	fail := func(what string) {
		run.Violation("prog", p, what, map[string]any{"steps": steps})
	}
	verify := func(kind string, candidates []c14Registry, inflight bool) bool {
		imgNo++
		img := filepath.Join(base, fmt.Sprintf("img%d", imgNo))
		if err := copyDir(live, img); err != nil {
			fail("copy of the storage directory failed: " + err.Error())
			return false
		}
		listing, _ := exec.Command("sh", "-c", "cd "+img+" && find . -type f -printf '%P %s\n' && find . -name LOG | xargs tail -n 50").CombinedOutput()
		msg := c08VerifyImage(fmt.Sprintf("c08v-%d-%d", p, imgNo), img, candidates)
		if msg != "" {
			msg += "\nfiles in the image before the restart:\n" + string(listing)
		}
		if msg != "" && os.Getenv("VERIF_KEEP") != "" {
			_ = exec.Command("cp", "-a", img, filepath.Join(os.Getenv("VERIF_KEEP"), fmt.Sprintf("kept-p%d-img%d", p, imgNo))).Run()
		}
		_ = os.RemoveAll(img)
		run.Count("images_"+kind, 1)
		hasRows := false
		for _, t := range candidates[0] {
			if len(t.Rows) > 0 {
				hasRows = true
			}
		}
		run.Case(common.Hash64(fmt.Sprint(p, imgNo, steps)), hasRows && (inflight || removedSomething))
		if msg != "" {
			fail(fmt.Sprintf("%s image #%d: %s", kind, imgNo, msg))
			return false
		}
		return true
	}
	n := r.Range(20, 40)
	cycles := 0
	pointTurn := r.Intn(3)
	for step := 0; step < n; step++ {
		req := c08Gen(r, reg, run.KnownOpen("KF03"), false, firstDef)
		// (ii) crash at an instrumented point inside this request?
		if len(req.crashPoints) > 0 && req.valid && (step+pointTurn)%2 == 0 && cycles < 5 {
			point := common.Pick(r, req.crashPoints)
			nth := 1
			if point == "purge.afterRow" {
				nth = r.Range(1, 3) // after the first, second or third purged row
			}
			s.child.send(fmt.Sprintf("arm %s %d", point, nth))
			if l, err := s.child.readLine(30 * time.Second); err != nil || l != "ARMED" {
				fail("control channel: " + fmt.Sprint(l, err))
				return
			}
			steps = append(steps, fmt.Sprintf("%s  [in flight; process frozen at %s]", req.desc, point))
			done := make(chan drive.Status, 1)
			go func() { done <- req.send(s.srv) }()
			stopped := make(chan string, 1)
			go func() {
				l, _ := s.child.readLine(60 * time.Second)
				stopped <- l
			}()
			select {
			case st := <-done:
				// the request completed without passing the armed point: treat as acknowledged
				s.child.send("disarm")
				steps[len(steps)-1] = req.desc + " -> " + st.String() + " (armed point " + point + " not reached)"
				if st.OK() {
					req.apply(reg)
				}
				run.Count("armed_point_not_reached", 1)
				// drain a possible late DISARMED/STOPPED line
				<-stopped
				continue
			case l := <-stopped:
				if !strings.HasPrefix(l, "STOPPED ") {
					fail("control channel: expected STOPPED, got " + l)
					return
				}
			}
			if !waitStopped(s.child.cmd.Process.Pid, 30*time.Second) {
				fail("child did not stop at the crash point")
				return
			}
			post := c08CloneReg(reg)
			req.apply(post)
			run.Count("crash_point."+point, 1)
			ok := verify("point", []c14Registry{reg, post}, true)
			// kill -9 at that point, then (iii) restart on the live directory and go on
			s.stop()
			<-done
			if !ok {
				return
			}
			cycles++
			s2, msg := c08Start(fmt.Sprintf("c08-%d-r%d", p, cycles), live)
			if s2 == nil {
				fail("restart on the live directory after a kill at " + point + " failed: " + msg)
				s = &c08Server{child: s.child, dir: live} // for the deferred stop
				return
			}
			s = s2
			// which of the two states did the restarted server adopt?
			if m := c14CheckAll(s.srv, reg); m != "" {
				if m2 := c14CheckAll(s.srv, post); m2 != "" {
					fail("restarted server serves neither pre- nor post-state: " + m + " / " + m2)
					return
				}
				reg = post
			}
			run.Count("crash_restart_cycles", 1)
			continue
		}
		st := req.send(s.srv)
		steps = append(steps, req.desc+" -> "+st.String())
		run.Count("requests", 1)
		if req.valid && !st.OK() {
			fail("valid request failed: " + st.String())
			return
		}
		if req.mustFail && st.OK() {
			fail(fmt.Sprintf("an invalid request was accepted (after %d restarts of this program)", cycles))
			return
		}
		if req.mustFail {
			run.Count("invalid_writes_rejected", 1)
		}
		if st.OK() {
			before := c08Size(reg)
			req.apply(reg)
			if c08Size(reg) < before {
				removedSomething = true
			}
		}
		// (i) request boundary image
		if err := syscall.Kill(s.child.cmd.Process.Pid, syscall.SIGSTOP); err != nil || !waitStopped(s.child.cmd.Process.Pid, 30*time.Second) {
			fail("could not freeze the child at a request boundary")
			return
		}
		ok := verify("boundary", []c14Registry{reg}, false)
		_ = syscall.Kill(s.child.cmd.Process.Pid, syscall.SIGCONT)
		if !ok {
			return
		}
	}
	// (iv) clean stop
	s.child.send("quit")
	if l, err := s.child.readLine(60 * time.Second); err != nil || l != "BYE" {
		fail(fmt.Sprintf("clean stop failed: %q %v", l, err))
		return
	}
	s.child.wait(30 * time.Second)
	verify("clean", []c14Registry{reg}, false)
	if p < 2 {
		run.Sample(map[string]any{"steps": steps[:min(len(steps), 10)]})
	}
}

func c08Size(reg c14Registry) int {
	n := 0
	for _, t := range reg {
		n += 1000 + 100*len(t.Families)
		for _, row := range t.Rows {
			n += len(model.RowToCells(row))
		}
	}
	return n
}

// c08DropFamilyCanary: fixed reproducer of KF03 (drop and re-create of one family in one request, killed inside the
// metadata write).
func c08DropFamilyCanary(base string) (bool, string) {
	live := filepath.Join(base, "live")
	_ = os.MkdirAll(live, 0o777)
	defer os.RemoveAll(base)
	s, msg := c08Start("kf03", live)
	if s == nil {
		return false, "cannot start child: " + msg
	}
	defer func() { s.stop() }()
	name := drive.TableName(c14Parents[0], "t")
	drive.CreateTable(s.srv.Admin, c14Parents[0], "t", map[string]*model.GcRule{"f1": nil, "f2": nil})
	pre := c14Registry{name: model.NewTable("f1", "f2")}
	muts := []model.Mut{{Kind: model.SetCell, Fam: "f1", Qual: "q", TS: 1000, Val: "one"}, {Kind: model.SetCell, Fam: "f2", Qual: "q", TS: 1000, Val: "two"}}
	drive.MutateRow(s.srv.Data, name, "a", muts)
	_, nr := pre[name].Apply("a", muts, gen.BaseClock)
	pre[name].Commit("a", nr)
	post := c08CloneReg(pre)
	newRule := &model.GcRule{Kind: model.GcMaxVersions, N: 2}
	post[name].Families["f1"] = newRule
	delete(post[name].Rows["a"], "f1")
	s.child.send("arm disk.meta.enter 1")
	s.child.readLine(30 * time.Second)
	go func() {
		ctx, cancel := drive.Ctx()
		defer cancel()
		s.srv.Admin.ModifyColumnFamilies(ctx, &btapb.ModifyColumnFamiliesRequest{Name: name, Modifications: []*btapb.ModifyColumnFamiliesRequest_Modification{
			{Id: "f1", Mod: &btapb.ModifyColumnFamiliesRequest_Modification_Drop{Drop: true}},
			{Id: "f1", Mod: &btapb.ModifyColumnFamiliesRequest_Modification_Create{Create: &btapb.ColumnFamily{GcRule: drive.GcToProto(newRule)}}}}})
	}()
	if l, _ := s.child.readLine(60 * time.Second); !strings.HasPrefix(l, "STOPPED") {
		return false, "crash point not reached: " + l
	}
	if !waitStopped(s.child.cmd.Process.Pid, 30*time.Second) {
		return false, "child did not stop"
	}
	img := filepath.Join(base, "img")
	if err := copyDir(live, img); err != nil {
		return false, "copy failed"
	}
	msg = c08VerifyImage("kf03v", img, []c14Registry{pre, post})
	return msg != "", msg
}

// c08AdminRace: one admin request (ModifyColumnFamilies) is parked inside its metadata write - it holds the table's
// own lock there, nothing else - while DeleteTable (and, in half of the cases, a CreateTable of the same name with
// other families) is sent and acknowledged; then the parked request goes on. Whatever serial order explains the three
// answers, the table the DeleteTable removed must not be served afterwards, neither by the running process nor by a
// fresh process started on the directory.
func c08AdminRace(run *common.Run, p int, dir string) {
	_ = os.MkdirAll(dir, 0o777)
	defer os.RemoveAll(dir)
	r := run.Rand("C08.adminrace", p)
	live := filepath.Join(dir, "live")
	_ = os.MkdirAll(live, 0o777)
	s, msg := c08Start(fmt.Sprintf("ar%d", p), live)
	if s == nil {
		run.Violation("adminrace", p, "cannot start child: "+msg, nil)
		return
	}
	defer func() { s.stop() }()
	name := drive.TableName(c14Parents[0], "t")
	drive.CreateTable(s.srv.Admin, c14Parents[0], "t", map[string]*model.GcRule{"f1": nil, "f2": nil})
	muts := []model.Mut{{Kind: model.SetCell, Fam: "f1", Qual: "q", TS: 1000, Val: "one"}, {Kind: model.SetCell, Fam: "f2", Qual: "q", TS: 1000, Val: "two"}}
	drive.MutateRow(s.srv.Data, name, "a", muts)
	var mod *btapb.ModifyColumnFamiliesRequest_Modification
	var modDesc string
	var applyMod func(t *model.Table) bool // false: invalid on that table
	switch r.Intn(3) {
	case 0:
		mod = &btapb.ModifyColumnFamiliesRequest_Modification{Id: "x", Mod: &btapb.ModifyColumnFamiliesRequest_Modification_Create{Create: &btapb.ColumnFamily{}}}
		modDesc = "create x"
		applyMod = func(t *model.Table) bool {
			if _, ok := t.Families["x"]; ok {
				return false
			}
			t.Families["x"] = nil
			return true
		}
	case 1:
		rule := &model.GcRule{Kind: model.GcMaxVersions, N: 2}
		mod = &btapb.ModifyColumnFamiliesRequest_Modification{Id: "f1", Mod: &btapb.ModifyColumnFamiliesRequest_Modification_Update{Update: &btapb.ColumnFamily{GcRule: drive.GcToProto(rule)}}}
		modDesc = "update f1=maxversions(2)"
		applyMod = func(t *model.Table) bool {
			if _, ok := t.Families["f1"]; !ok {
				return false
			}
			t.Families["f1"] = rule
			return true
		}
	default:
		mod = &btapb.ModifyColumnFamiliesRequest_Modification{Id: "f2", Mod: &btapb.ModifyColumnFamiliesRequest_Modification_Drop{Drop: true}}
		modDesc = "drop f2"
		applyMod = func(t *model.Table) bool {
			if _, ok := t.Families["f2"]; !ok {
				return false
			}
			delete(t.Families, "f2")
			for k, row := range t.Rows {
				delete(row, "f2")
				t.Commit(k, row)
			}
			return true
		}
	}
	recreate := r.Bool()
	newFams := map[string]*model.GcRule{"g": nil}
	if r.Bool() {
		newFams["f1"] = &model.GcRule{Kind: model.GcMaxVersions, N: 5}
	}
	steps := []string{"CreateTable(t,{f1,f2}); MutateRow(a)"}
	fail := func(what string) {
		run.Violation("adminrace", p, what, map[string]any{"steps": steps})
	}
	s.child.send("hold disk.meta.enter")
	if l, err := s.child.readLine(30 * time.Second); err != nil || !strings.HasPrefix(l, "HOLDING") {
		fail("control channel: " + fmt.Sprint(l, err))
		return
	}
	modDone := make(chan drive.Status, 1)
	go func() {
		ctx, cancel := drive.Ctx()
		defer cancel()
		_, err := s.srv.Admin.ModifyColumnFamilies(ctx, &btapb.ModifyColumnFamiliesRequest{Name: name, Modifications: []*btapb.ModifyColumnFamiliesRequest_Modification{mod}})
		modDone <- drive.StatusOf(err)
	}()
	if l, err := s.child.readLine(60 * time.Second); err != nil || !strings.HasPrefix(l, "HELD") {
		fail("the ModifyColumnFamilies request never reached its metadata write: " + fmt.Sprint(l, err))
		return
	}
	steps = append(steps, "ModifyColumnFamilies(t, "+modDesc+")  [parked inside its metadata write]")
	// DeleteTable may be answered while the other request is parked, or wait for it: both are legal
	delDone := make(chan drive.Status, 1)
	go func() {
		ctx, cancel := drive.Ctx()
		defer cancel()
		_, err := s.srv.Admin.DeleteTable(ctx, &btapb.DeleteTableRequest{Name: name})
		delDone <- drive.StatusOf(err)
	}()
	var delSt, createSt drive.Status
	delWaited := false
	select {
	case delSt = <-delDone:
	case <-time.After(1500 * time.Millisecond): // scheduling choice, not a verdict
		delWaited = true
	}
	create := func() {
		if recreate && delSt.OK() {
			createSt = drive.CreateTable(s.srv.Admin, c14Parents[0], "t", newFams)
			steps = append(steps, fmt.Sprintf("CreateTable(t,%s) -> %s", famString(newFams), createSt))
		}
	}
	createDone := make(chan drive.Status, 1)
	createConcurrent := false
	if !delWaited {
		steps = append(steps, "DeleteTable(t) -> "+delSt.String()+"  [answered while the other request was parked]")
		create()
	} else if recreate {
		// DeleteTable is waiting: a CreateTable of the same name sent now overlaps both other requests
		createConcurrent = true
		go func() { createDone <- drive.CreateTable(s.srv.Admin, c14Parents[0], "t", newFams) }()
		select {
		case st := <-createDone:
			createDone <- st
			steps = append(steps, fmt.Sprintf("CreateTable(t,%s) -> %s  [answered while DeleteTable was still waiting]", famString(newFams), st))
			run.Count("adminrace_create_answered_while_delete_waited", 1)
		case <-time.After(700 * time.Millisecond): // scheduling choice, not a verdict
		}
	}
	s.child.send("release")
	s.child.readLine(30 * time.Second)
	var modSt drive.Status
	select {
	case modSt = <-modDone:
	case <-time.After(150 * time.Second):
		fail("the parked ModifyColumnFamilies request was never answered after its release")
		return
	}
	steps = append(steps, "released: ModifyColumnFamilies -> "+modSt.String())
	if delWaited {
		select {
		case delSt = <-delDone:
		case <-time.After(150 * time.Second):
			fail("DeleteTable was never answered although the request it waited for has finished")
			return
		}
		steps = append(steps, "DeleteTable(t) -> "+delSt.String()+"  [waited for the parked request]")
		if createConcurrent {
			select {
			case createSt = <-createDone:
			case <-time.After(150 * time.Second):
				fail("CreateTable was never answered")
				return
			}
			steps = append(steps, fmt.Sprintf("CreateTable(t,%s) -> %s", famString(newFams), createSt))
		} else {
			create()
		}
		run.Count("adminrace_delete_waited_for_the_parked_request", 1)
	}
	if !delSt.OK() {
		fail("DeleteTable of an existing table failed: " + delSt.String())
		return
	}
	// admissible final states
	var cands []c14Registry
	if !recreate || !createSt.OK() {
		cands = append(cands, c14Registry{}) // the table is gone, whatever the modification answered
	} else {
		fresh := func() *model.Table {
			t := model.NewTable()
			for f, g := range newFams {
				t.Families[f] = g
			}
			return t
		}
		cands = append(cands, c14Registry{name: fresh()}) // modification ordered before the delete (or failed)
		if modSt.OK() && (!delWaited || createConcurrent) {
			if t := fresh(); applyMod(t) {
				cands = append(cands, c14Registry{name: t}) // modification ordered after the re-creation
			}
		}
	}
	check := func(srv *drive.Srv) string {
		var msgs []string
		for _, reg := range cands {
			m := c14CheckAll(srv, reg)
			if m == "" {
				return ""
			}
			msgs = append(msgs, m)
		}
		return strings.Join(msgs, " / ")
	}
	if m := check(s.srv); m != "" {
		fail("running process after DeleteTable raced with a parked ModifyColumnFamilies: " + m)
		return
	}
	s.stop()
	if m := c08VerifyImage(fmt.Sprintf("arv%d", p), live, cands); m != "" {
		fail("after a restart on the directory: " + m)
		return
	}
	run.Case(common.Hash64("adminrace", fmt.Sprint(steps)), true)
	run.Count("admin_races", 1)
}

// c08DropGrid: the complete grid {table with 1, 2, 3 families} x {family to drop} x {every crash point of a family drop,
// purge.afterRow at the 1st, 2nd and 3rd purged row} on a table whose rows all hold cells in every family: the image is
// verified (wholly applied or wholly absent) and then probed for hidden remains (c08HiddenStateProbe).
func c08DropGrid(run *common.Run, base string) {
	type pt struct {
		point string
		nth   int
	}
	points := []pt{{"disk.meta.enter", 1}, {"disk.meta.afterMkdir", 1}, {"disk.meta.afterTmp", 1}, {"disk.meta.afterRename", 1}, {"purge.afterRow", 1}, {"purge.afterRow", 2}, {"purge.afterRow", 3}}
	famSets := [][]string{{"f1"}, {"f1", "f"}, {"f1", "f", "g"}}
	type job struct {
		fams     []string
		drop     string
		p        pt
		recreate bool // the request is [drop f, create f=maxversions(2)]
	}
	var jobs []job
	for _, fs := range famSets {
		for _, d := range fs {
			for _, p := range points {
				jobs = append(jobs, job{fs, d, p, false})
			}
		}
	}
	for _, fs := range famSets[:2] {
		for _, p := range points {
			jobs = append(jobs, job{fs, "f1", p, true})
		}
	}
	kf03 := run.KnownOpen("KF03")
	common.Parallel(len(jobs), 6, func(i int) {
		if !run.Want("dropgrid", i) || run.TooMany() {
			return
		}
		jb := jobs[i]
		dir := filepath.Join(base, fmt.Sprintf("dg%d", i))
		live := filepath.Join(dir, "live")
		_ = os.MkdirAll(live, 0o777)
		defer os.RemoveAll(dir)
		s, msg := c08Start(fmt.Sprintf("dg%d", i), live)
		if s == nil {
			run.Violation("dropgrid", i, "cannot start child: "+msg, nil)
			return
		}
		defer func() { s.stop() }()
		name := drive.TableName(c14Parents[0], "t")
		fams := map[string]*model.GcRule{}
		for _, f := range jb.fams {
			fams[f] = nil
		}
		drive.CreateTable(s.srv.Admin, c14Parents[0], "t", fams)
		pre := c14Registry{name: model.NewTable(jb.fams...)}
		for _, k := range []string{"a", "b", "c", "d"} {
			var muts []model.Mut
			for _, f := range jb.fams {
				muts = append(muts, model.Mut{Kind: model.SetCell, Fam: f, Qual: "q", TS: 1000, Val: "cell-" + f + "-" + k})
			}
			drive.MutateRow(s.srv.Data, name, k, muts)
			_, nr := pre[name].Apply(k, muts, gen.BaseClock)
			pre[name].Commit(k, nr)
		}
		post := c08CloneReg(pre)
		delete(post[name].Families, jb.drop)
		for k, row := range post[name].Rows {
			delete(row, jb.drop)
			post[name].Commit(k, row)
		}
		mods := []*btapb.ModifyColumnFamiliesRequest_Modification{{Id: jb.drop, Mod: &btapb.ModifyColumnFamiliesRequest_Modification_Drop{Drop: true}}}
		desc := fmt.Sprintf("table with families %v and 4 rows; ModifyColumnFamilies(drop %s) killed at %s #%d", jb.fams, jb.drop, jb.p.point, jb.p.nth)
		cands := []c14Registry{pre, post}
		if jb.recreate {
			newRule := &model.GcRule{Kind: model.GcMaxVersions, N: 2}
			post[name].Families[jb.drop] = newRule
			mods = append(mods, &btapb.ModifyColumnFamiliesRequest_Modification{Id: jb.drop, Mod: &btapb.ModifyColumnFamiliesRequest_Modification_Create{Create: &btapb.ColumnFamily{GcRule: drive.GcToProto(newRule)}}})
			desc = fmt.Sprintf("table with families %v and 4 rows; ModifyColumnFamilies(drop %s, create %s=maxversions(2)) killed at %s #%d", jb.fams, jb.drop, jb.drop, jb.p.point, jb.p.nth)
		}
		s.child.send(fmt.Sprintf("arm %s %d", jb.p.point, jb.p.nth))
		s.child.readLine(30 * time.Second)
		go func() {
			ctx, cancel := drive.Ctx()
			defer cancel()
			s.srv.Admin.ModifyColumnFamilies(ctx, &btapb.ModifyColumnFamiliesRequest{Name: name, Modifications: mods})
		}()
		if l, _ := s.child.readLine(60 * time.Second); !strings.HasPrefix(l, "STOPPED") {
			run.Count("dropgrid_point_not_reached", 1)
			return
		}
		if !waitStopped(s.child.cmd.Process.Pid, 30*time.Second) {
			run.Inconclusive("child did not stop")
			return
		}
		img := filepath.Join(dir, "img")
		if err := copyDir(live, img); err != nil {
			run.Inconclusive("copy failed: " + err.Error())
			return
		}
		m := c08VerifyImage(fmt.Sprintf("dgv%d", i), img, cands)
		if m != "" && jb.recreate && kf03 {
			// known finding KF03, and only that: the OLD definition is served and old cells of the re-created family
			// (and nothing else) are gone. Anything else (e.g. the new definition with the old cells) is reported.
			// (the purge of the re-created family runs row by row before the definition is persisted: the old cells
			// may be gone from any subset of the rows)
			var sigs []c14Registry
			rowKeys := pre[name].Keys()
			for mask := 1; mask < 1<<len(rowKeys); mask++ {
				sig := c08CloneReg(pre)
				for bi, k := range rowKeys {
					if mask&(1<<bi) != 0 {
						row := sig[name].Rows[k]
						delete(row, jb.drop)
						sig[name].Commit(k, row)
					}
				}
				sigs = append(sigs, sig)
			}
			img2 := filepath.Join(dir, "img2")
			if err := copyDir(live, img2); err == nil && c08VerifyImage(fmt.Sprintf("dgk%d", i), img2, sigs) == "" {
				run.Count("dropgrid_images_showing_known_finding_KF03", 1)
				m = ""
			}
		}
		if m != "" {
			run.Violation("dropgrid", i, m+" | "+desc, map[string]any{"case": desc})
		}
		run.Case(common.Hash64("dropgrid", desc), true)
		run.Count("drop_grid_images", 1)
	})
}

// c08RealBinary drives the real `cbtemulator -dir` binary (built from /repo by ./check, no hooks): SIGKILL between
// requests, restart on the same directory, compare with the acknowledged model. Covers the command-line wiring.
func c08RealBinary(run *common.Run, p int, dir string) {
	bin := filepath.Join(common.Root(), ".build", "cbtemulator")
	if _, err := os.Stat(bin); err != nil {
		run.Inconclusive("cbtemulator binary not built")
		return
	}
	_ = os.MkdirAll(dir, 0o777)
	defer os.RemoveAll(dir)
	r := run.Rand("C08.real", p)
	reg := c14Registry{}
	firstDef := map[string]map[string]*model.GcRule{}
	var steps []string
	start := func() (*exec.Cmd, *drive.Srv, string) {
		l, err := net.Listen("tcp", "127.0.0.1:0")
		if err != nil {
			return nil, nil, err.Error()
		}
		port := l.Addr().(*net.TCPAddr).Port
		l.Close()
		cmd := exec.Command(bin, "-host", "127.0.0.1", "-port", fmt.Sprint(port), "-dir", dir)
		errf, _ := os.Create(filepath.Join(dir, "..", fmt.Sprintf("real%d.err", p)))
		cmd.Stderr = errf
		cmd.SysProcAttr = &syscall.SysProcAttr{Pdeathsig: syscall.SIGKILL}
		if err := cmd.Start(); err != nil {
			return nil, nil, err.Error()
		}
		srv, err := drive.Connect(fmt.Sprintf("127.0.0.1:%d", port))
		if err != nil {
			cmd.Process.Kill()
			return nil, nil, err.Error()
		}
		// wait until it serves
		for i := 0; i < 400; i++ {
			ctx, cancel := context.WithTimeout(context.Background(), 500*time.Millisecond)
			_, err = srv.Admin.ListTables(ctx, &btapb.ListTablesRequest{Parent: c14Parents[0]})
			cancel()
			if err == nil {
				return cmd, srv, ""
			}
			if cmd.ProcessState != nil {
				break
			}
			time.Sleep(25 * time.Millisecond)
		}
		cmd.Process.Kill()
		cmd.Wait()
		buf, _ := os.ReadFile(filepath.Join(dir, "..", fmt.Sprintf("real%d.err", p)))
		return nil, nil, "cbtemulator did not come up on the directory: " + fmt.Sprint(err) + " stderr: " + truncStr(string(buf), 600)
	}
	cmd, srv, msg := start()
	if cmd == nil {
		run.Violation("real", p, "cannot start cbtemulator: "+msg, nil)
		return
	}
	defer func() {
		if cmd != nil {
			cmd.Process.Kill()
			cmd.Wait()
		}
		os.Remove(filepath.Join(dir, "..", fmt.Sprintf("real%d.err", p)))
	}()
	n := r.Range(25, 50)
	kills := 0
	for step := 0; step < n; step++ {
		req := c08Gen(r, reg, false, true, firstDef)
		st := req.send(srv)
		steps = append(steps, req.desc+" -> "+st.String())
		if req.valid && !st.OK() {
			run.Violation("real", p, "valid request failed: "+st.String(), map[string]any{"steps": steps})
			return
		}
		if req.mustFail && st.OK() {
			run.Violation("real", p, fmt.Sprintf("an invalid request was accepted (after %d kills of this program)", kills), map[string]any{"steps": steps})
			return
		}
		if st.OK() {
			req.apply(reg)
		}
		if r.Chance(1, 3) {
			// kill -9 between requests and restart the binary on the same directory
			srv.Conn.Close()
			cmd.Process.Kill()
			cmd.Wait()
			kills++
			cmd, srv, msg = start()
			if cmd == nil {
				run.Violation("real", p, fmt.Sprintf("restart #%d after kill -9 failed: %s", kills, msg), map[string]any{"steps": steps})
				return
			}
			steps = append(steps, "[kill -9, restart]")
			if m := c14CheckAll(srv, reg); m != "" {
				run.Violation("real", p, fmt.Sprintf("after kill -9 and restart #%d: %s", kills, m), map[string]any{"steps": steps})
				return
			}
			run.Count("real_binary_kill_restart_cycles", 1)
			run.Case(common.Hash64("real", fmt.Sprint(p, kills, steps)), len(reg) > 0)
		}
	}
}

// c08SyscallKills: crash points INSIDE requests without knowing the implementation: the child emulator runs under
// `strace -f -e inject=<syscall>:signal=SIGKILL:when=N`, which kills it at the N-th unlinkat / renameat / mkdirat /
// openat(O_CREAT) ... that one of its threads makes. The same generated program is run from scratch for N = 1, 2, ...
// until a run completes without the injection firing; after each death the directory is restarted without strace
// and must serve the acknowledged state, the request that was in flight being wholly applied or wholly absent.
// c08DirectedDropStep is the program of the fifth syscall-kill group (see c08SyscallKills).
func c08DirectedDropStep(step int) c08Req {
	name := drive.TableName(c14Parents[0], "t")
	put := func(key string) c08Req {
		muts := []model.Mut{{Kind: model.SetCell, Fam: "f1", Qual: "q", TS: 1000, Val: "v-" + key}}
		return c08Req{desc: fmt.Sprintf("MutateRow(t,%q)", key), valid: true,
			send: func(s *drive.Srv) drive.Status { return drive.MutateRow(s.Data, name, key, muts) },
			apply: func(reg c14Registry) {
				_, nr := reg[name].Apply(key, muts, gen.BaseClock)
				reg[name].Commit(key, nr)
			}}
	}
	drop := func(prefix string, all bool) c08Req {
		return c08Req{desc: fmt.Sprintf("DropRowRange(t, all=%v, %q)", all, prefix), valid: true,
			send: func(s *drive.Srv) drive.Status {
				rq := &btapb.DropRowRangeRequest{Name: name, Target: &btapb.DropRowRangeRequest_RowKeyPrefix{RowKeyPrefix: []byte(prefix)}}
				if all {
					rq.Target = &btapb.DropRowRangeRequest_DeleteAllDataFromTable{DeleteAllDataFromTable: true}
				}
				ctx, cancel := drive.Ctx()
				defer cancel()
				_, err := s.Admin.DropRowRange(ctx, rq)
				return drive.StatusOf(err)
			},
			apply: func(reg c14Registry) {
				for key := range reg[name].Rows {
					if all || strings.HasPrefix(key, prefix) {
						delete(reg[name].Rows, key)
					}
				}
			}}
	}
	keys := []string{"a1", "a2", "a3", "a4", "a5", "a6", "a7", "a8", "b1", "b2"}
	switch {
	case step == 0:
		return c08Req{desc: "CreateTable(t,{f1})", valid: true,
			send: func(s *drive.Srv) drive.Status {
				return drive.CreateTable(s.Admin, c14Parents[0], "t", map[string]*model.GcRule{"f1": nil})
			},
			apply: func(reg c14Registry) { reg[name] = model.NewTable("f1") }}
	case step <= 10:
		return put(keys[step-1])
	case step == 11:
		return drop("a", false)
	case step <= 15:
		return put([]string{"a9", "b3", "b4", "c1"}[step-12])
	case step == 16:
		return drop("b", false)
	case step == 17:
		return put("b9")
	case step == 18:
		return drop("", true)
	}
	return c08Req{}
}

// c08BigClear (part bigclear): a table of 5000 / 9000 rows (more than any batch-size constant of the storage layer) is
// emptied by DropRowRange(delete_all_data_from_table) and the process is frozen at the instrumented points of the
// clear - before its (last) write to the database and after it; the image must restart as the table before the request
// or as the emptied table, never with a part of its rows.
func c08BigClear(run *common.Run, base string) {
	type job struct {
		rows  int
		point string
	}
	var jobs []job
	for _, n := range []int{5000, 9000} {
		for _, p := range []string{"rows.clear.beforeWrite", "rows.clear.afterWrite"} {
			jobs = append(jobs, job{n, p})
		}
	}
	common.Parallel(len(jobs), 4, func(i int) {
		if !run.Want("bigclear", i) || run.TooMany() {
			return
		}
		jb := jobs[i]
		dir := filepath.Join(base, fmt.Sprintf("bc%d", i))
		live := filepath.Join(dir, "live")
		_ = os.MkdirAll(live, 0o777)
		defer os.RemoveAll(dir)
		s, msg := c08Start(fmt.Sprintf("bc%d", i), live)
		if s == nil {
			run.Violation("bigclear", i, "cannot start child: "+msg, nil)
			return
		}
		defer func() { s.stop() }()
		name := drive.TableName(c14Parents[0], "t")
		drive.CreateTable(s.srv.Admin, c14Parents[0], "t", map[string]*model.GcRule{"f1": nil})
		pre := c14Registry{name: model.NewTable("f1")}
		for b := 0; b*2500 < jb.rows; b++ {
			var entries []drive.Entry
			for k := b * 2500; k < (b+1)*2500 && k < jb.rows; k++ {
				entries = append(entries, drive.Entry{Key: fmt.Sprintf("k%05d", k), Muts: []model.Mut{{Kind: model.SetCell, Fam: "f1", Qual: "q", TS: 1000, Val: "b"}}})
			}
			st, per, _ := drive.MutateRows(s.srv.Data, name, entries)
			if !st.OK() {
				run.Inconclusive("bigclear preload failed: " + st.String())
				return
			}
			for k, e := range entries {
				if per[k].OK() {
					_, nr := pre[name].Apply(e.Key, e.Muts, gen.BaseClock)
					pre[name].Commit(e.Key, nr)
				}
			}
		}
		post := c14Registry{name: model.NewTable("f1")}
		s.child.send(fmt.Sprintf("arm %s 1", jb.point))
		s.child.readLine(30 * time.Second)
		go func() {
			ctx, cancel := drive.Ctx()
			defer cancel()
			s.srv.Admin.DropRowRange(ctx, &btapb.DropRowRangeRequest{Name: name, Target: &btapb.DropRowRangeRequest_DeleteAllDataFromTable{DeleteAllDataFromTable: true}})
		}()
		if l, _ := s.child.readLine(60 * time.Second); !strings.HasPrefix(l, "STOPPED") {
			run.Count("bigclear_point_not_reached", 1)
			return
		}
		if !waitStopped(s.child.cmd.Process.Pid, 30*time.Second) {
			run.Inconclusive("child did not stop")
			return
		}
		img := filepath.Join(dir, "img")
		if err := copyDir(live, img); err != nil {
			run.Inconclusive("copy failed: " + err.Error())
			return
		}
		run.Count("bigclear_images", 1)
		run.Case(common.Hash64("bigclear", fmt.Sprint(i)), true)
		if m := c08VerifyImage(fmt.Sprintf("bcv%d", i), img, []c14Registry{pre, post}); m != "" {
			run.Violation("bigclear", i, fmt.Sprintf("table of %d rows; DropRowRange(delete all) killed at %s: %s", jb.rows, jb.point, trunc(m, 1500)), nil)
		}
	})
}

func c08SyscallKills(run *common.Run, base string) {
	if _, err := exec.LookPath("strace"); err != nil {
		run.Inconclusive("strace not available")
		return
	}
	self, _ := os.Executable()
	kf03 := run.KnownOpen("KF03")
	// (the fifth group kills at write calls again, over a directed program: rows a1..a8, b1, b2 with small values, then
	// DropRowRange by prefix "a", more rows, prefix "b", delete-all: a drop of several rows is one request and must be
	// wholly applied or wholly absent wherever the process dies inside it)
	syscalls := []string{"unlinkat", "renameat,renameat2,rename", "mkdirat,mkdir", "write,pwrite64", "write,pwrite64"}
	// the program of the write group stores values of 40 and 100 KiB: one journal record then spans several 32 KiB
	// journal blocks, i.e. several write(2) calls, and the process is killed between them
	hugeVals := []string{strings.Repeat("J", 100<<10), strings.Repeat("k", 40<<10), "v", strings.Repeat("m", 33<<10)}
	nprog := run.N(1, 6)
	maxN := run.N(30, 120)
	type job struct{ prog, sc, n int }
	var jobs []job
	for p := 0; p < nprog; p++ {
		for sc := range syscalls {
			top := maxN
			if sc >= 4 {
				top = run.N(40, 120) // the directed programs are the same for every program index
				if p > 0 {
					continue
				}
			}
			for n := 1; n <= top; n++ {
				jobs = append(jobs, job{p, sc, n})
			}
		}
	}
	// exhausted[prog][sc] = smallest N for which the injection did not fire (larger N are skipped)
	var mu sync.Mutex
	exhausted := map[[2]int]int{}
	common.Parallel(len(jobs), workers(), func(ji int) {
		jb := jobs[ji]
		idx := (jb.prog*10+jb.sc)*1000 + jb.n
		if !run.Want("syskill", idx) || run.TooMany() {
			return
		}
		mu.Lock()
		lim, ok := exhausted[[2]int{jb.prog, jb.sc}]
		mu.Unlock()
		if ok && jb.n > lim {
			return
		}
		dir := filepath.Join(base, fmt.Sprintf("p%d-s%d-n%d", jb.prog, jb.sc, jb.n))
		_ = os.MkdirAll(dir, 0o777)
		defer os.RemoveAll(dir)
		live := filepath.Join(dir, "live")
		_ = os.MkdirAll(live, 0o777)
		reg := c14Registry{}
		// child under strace
		errPath := filepath.Join(dir, "child.err")
		ef, _ := os.Create(errPath)
		cmd := exec.Command("strace", "-f", "-o", "/dev/null", "-e", "trace="+syscalls[jb.sc], "-e", fmt.Sprintf("inject=%s:signal=SIGKILL:when=%d", syscalls[jb.sc], jb.n),
			self, "child", "server", "ldbdisk", live, fmt.Sprint(gen.BaseClock))
		cmd.Stderr = ef
		outR, outW, _ := os.Pipe()
		cmd.Stdout = outW
		in, _ := cmd.StdinPipe()
		cmd.SysProcAttr = &syscall.SysProcAttr{Setpgid: true, Pdeathsig: syscall.SIGKILL}
		if err := cmd.Start(); err != nil {
			run.Inconclusive("cannot start strace: " + err.Error())
			return
		}
		ef.Close()
		outW.Close()
		done := make(chan struct{})
		go func() { cmd.Wait(); close(done) }()
		defer func() {
			_ = syscall.Kill(-cmd.Process.Pid, syscall.SIGKILL)
			<-done
			outR.Close()
			in.Close()
		}()
		lineCh := make(chan string, 1)
		go func() {
			l, _ := bufio.NewReader(outR).ReadString('\n')
			lineCh <- strings.TrimSpace(l)
		}()
		firstDef := map[string]map[string]*model.GcRule{}
		var steps []string
		var srv *drive.Srv
		died := false
		var pre, post c14Registry
		select {
		case l := <-lineCh:
			if !strings.HasPrefix(l, "ADDR ") {
				died = true // killed during start-up: nothing beyond the preloaded state (empty but for the sixth group) is acknowledged
				pre, post = c08CloneReg(reg), c08CloneReg(reg)
			} else {
				var err error
				srv, err = drive.Connect(strings.TrimPrefix(l, "ADDR "))
				if err != nil {
					run.Inconclusive("connect: " + err.Error())
					return
				}
				defer srv.Conn.Close()
			}
		case <-time.After(90 * time.Second):
			run.Inconclusive("child under strace did not come up")
			return
		}
		r := run.Rand("C08.syskill", jb.prog) // the same program for every N
		for step := 0; step < 40 && !died; step++ {
			var pool []string
			if jb.sc == 3 {
				pool = hugeVals
			}
			req := c08Gen(r, reg, kf03, false, firstDef, pool...)
			if step%4 == 3 && jb.sc != 3 {
				// every fourth request clears a table (close database, remove directory, re-open)
				for tries := 0; tries < 200 && !strings.Contains(req.desc, "all=true"); tries++ {
					req = c08Gen(r, reg, kf03, false, firstDef)
				}
			}
			if jb.sc == 3 && step%2 == 1 {
				// every second request of the write group is a data write
				for tries := 0; tries < 200 && !strings.HasPrefix(req.desc, "MutateRow"); tries++ {
					req = c08Gen(r, reg, kf03, false, firstDef, pool...)
				}
			}
			if jb.sc == 4 {
				req = c08DirectedDropStep(step)
			}
			if req.send == nil {
				break
			}
			st := req.send(srv)
			steps = append(steps, req.desc+" -> "+st.String())
			if st.OK() {
				req.apply(reg)
				continue
			}
			select {
			case <-done:
				died = true
			case <-time.After(300 * time.Millisecond):
			}
			if died || st.Code.String() == "Unavailable" {
				died = true
				pre = reg
				post = c08CloneReg(reg)
				req.apply(post)
				steps[len(steps)-1] = req.desc + "  [in flight when the process was killed at its " + fmt.Sprint(jb.n) + "-th " + syscalls[jb.sc] + "]"
				run.Count("syskill_in_flight."+strings.SplitN(req.desc, "(", 2)[0], 1)
			} else if req.valid {
				run.Violation("syskill", idx, "valid request failed: "+st.String(), map[string]any{"steps": steps})
				return
			}
		}
		if !died {
			mu.Lock()
			if cur, ok := exhausted[[2]int{jb.prog, jb.sc}]; !ok || jb.n < cur {
				exhausted[[2]int{jb.prog, jb.sc}] = jb.n
			}
			mu.Unlock()
			run.Count("syskill_runs_without_injection", 1)
			return
		}
		_ = syscall.Kill(-cmd.Process.Pid, syscall.SIGKILL)
		<-done
		m := c08VerifyImage(fmt.Sprintf("c08sk-%d", idx), live, []c14Registry{pre, post})
		run.Count("syskill_images."+syscalls[jb.sc], 1)
		run.Case(common.Hash64("syskill", fmt.Sprint(idx)), len(pre) > 0)
		if m != "" {
			run.Violation("syskill", idx, fmt.Sprintf("process killed at its %d-th %s: %s", jb.n, syscalls[jb.sc], m), map[string]any{"steps": steps})
		}
	})
}

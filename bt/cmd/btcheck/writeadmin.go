package main

import (
	"fmt"
	"strings"
	"sync/atomic"

	btapb "cloud.google.com/go/bigtable/admin/apiv2/adminpb"
	"github.com/fullstorydev/emulators/bigtable/bttest"

	"verif/bt/drive"
	"verif/bt/gen"
	"verif/bt/model"
	"verif/common"
)

// A single-row write meets an admin request: the admin request (drop a family the write names, drop another family,
// DropRowRange all / by a prefix of the row, a GC-rule update) is performed, start to finish, at the moment the write
// request is about to queue for the table lock (hook <RPC>.beforeLock, outside every lock). The two requests overlap, so
// either serial order is admissible - but exactly one of them must explain the write's answer AND the final table:
//
//	order A  write, then admin:  the write is valid on the old schema, must be acknowledged with the response computed
//	                             on the old state; final = admin(write(S))
//	order B  admin, then write:  the write is judged on the new schema/state (an unknown family fails the whole
//	                             request or entry and changes nothing); final = write(admin(S)) or admin(S)
//
// A write acknowledged although its family was gone, an acknowledged read-modify-write whose response lacks the cells
// it wrote, or a final table that matches neither order is a violation.
var wvaRPCs = map[string]string{"MutateRow": "MutateRow.beforeLock", "MutateRows": "MutateRows.beforeLock", "CAM": "CheckAndMutateRow.beforeLock", "RMW": "ReadModifyWriteRow.beforeLock"}

func runWriteVsAdmin(run *common.Run, sub string, rpcs []string, n int) {
	var fired int64
	for i := 0; i < n && !run.TooMany(); i++ {
		if !run.Want(sub, i) {
			continue
		}
		r := run.Rand("writeVsAdmin."+sub, i)
		engine := drive.Engines[i%3]
		rpc := rpcs[(i/3)%len(rpcs)]
		bad, desc, hit := wvaCase(r, engine, rpc)
		if hit {
			fired++
		}
		if bad != "" {
			run.Violation(sub, i, bad+" | "+desc, map[string]any{"engine": engine, "case": desc})
		}
		run.Case(common.Hash64(sub, desc), hit)
		run.Count("write_vs_admin_cases."+rpc, 1)
	}
	run.Count("admin_requests_performed_at_a_write_rpcs_lock_queue", fired)
	if run.Replay == nil && n > 0 && fired == 0 {
		run.Blind("hook <RPC>.beforeLock never fired (built without -tags verif?)")
	}
}

type wvaOutcome struct {
	ok      bool   // request-level status OK
	per     []bool // MutateRows: per-entry OK
	resp    string // RMW: response cells; CAM: predicate_matched
	final   *model.Table
	explain string
}

func wvaCase(r *common.Rand, engine, rpc string) (bad, desc string, hit bool) {
	srv, err := drive.Start(engine, gen.BaseClock, "")
	if err != nil {
		return "cannot start server: " + err.Error(), "", false
	}
	defer srv.Close(true)
	table := drive.MustTable(srv.Admin, "t", "f1", "f2")
	S := model.NewTable("f1", "f2")
	now := gen.BaseClock
	// prior state: the target row, a neighbour with the same prefix, an unrelated row
	for _, k := range []string{"k", "k2", "zz"} {
		var muts []model.Mut
		for _, f := range []string{"f1", "f2"} {
			if k == "k" && r.Chance(1, 4) {
				continue
			}
			muts = append(muts, model.Mut{Kind: model.SetCell, Fam: f, Qual: "q", TS: 1000, Val: "old-" + f}, model.Mut{Kind: model.SetCell, Fam: f, Qual: "cnt", TS: 1000, Val: "\x00\x00\x00\x00\x00\x00\x00\x05"})
		}
		if len(muts) == 0 {
			continue
		}
		_, nr := S.Apply(k, muts, now)
		S.Commit(k, nr)
		if st := drive.MutateRow(srv.Data, table, k, muts); !st.OK() {
			return "set-up write failed: " + st.String(), "", false
		}
	}
	// the write request
	fams := []string{"f1", "f2"}
	common.Shuffle(r, fams)
	muts := []model.Mut{{Kind: model.SetCell, Fam: fams[0], Qual: "q", TS: 2000, Val: "new-a"}, {Kind: model.SetCell, Fam: fams[1], Qual: "w", TS: 2000, Val: "new-b"}}
	if r.Chance(1, 3) {
		muts = muts[:1]
	}
	other := []model.Mut{{Kind: model.SetCell, Fam: fams[1], Qual: "else", TS: 2000, Val: "false-branch"}}
	rules := []drive.Rule{{Fam: fams[0], Qual: "q", Append: true, Val: "+x"}, {Fam: fams[1], Qual: "cnt", Inc: 3}}
	if r.Chance(1, 3) {
		rules = rules[:1]
	}
	entries := []drive.Entry{{Key: "k", Muts: muts}, {Key: "k2", Muts: []model.Mut{{Kind: model.SetCell, Fam: "f1", Qual: "e", TS: 2000, Val: "entry2"}}}}
	// the admin request
	type adminOp struct {
		desc  string
		send  func() error
		apply func(t *model.Table)
	}
	dropFam := func(f string) adminOp {
		return adminOp{"ModifyColumnFamilies(drop " + f + ")", func() error {
			ctx, cancel := drive.Ctx()
			defer cancel()
			_, err := srv.Admin.ModifyColumnFamilies(ctx, &btapb.ModifyColumnFamiliesRequest{Name: table, Modifications: []*btapb.ModifyColumnFamiliesRequest_Modification{{Id: f, Mod: &btapb.ModifyColumnFamiliesRequest_Modification_Drop{Drop: true}}}})
			return err
		}, func(t *model.Table) {
			delete(t.Families, f)
			for k, row := range t.Rows {
				delete(row, f)
				t.Commit(k, row)
			}
		}}
	}
	dropRange := func(all bool, prefix string) adminOp {
		return adminOp{fmt.Sprintf("DropRowRange(all=%v,%q)", all, prefix), func() error {
			rq := &btapb.DropRowRangeRequest{Name: table, Target: &btapb.DropRowRangeRequest_RowKeyPrefix{RowKeyPrefix: []byte(prefix)}}
			if all {
				rq.Target = &btapb.DropRowRangeRequest_DeleteAllDataFromTable{DeleteAllDataFromTable: true}
			}
			ctx, cancel := drive.Ctx()
			defer cancel()
			_, err := srv.Admin.DropRowRange(ctx, rq)
			return err
		}, func(t *model.Table) {
			for k := range t.Rows {
				if all || strings.HasPrefix(k, prefix) {
					delete(t.Rows, k)
				}
			}
		}}
	}
	ops := []adminOp{dropFam("f1"), dropFam("f2"), dropRange(true, ""), dropRange(false, "k"), dropRange(false, "k2"),
		{"ModifyColumnFamilies(update f1=maxversions(1))", func() error {
			ctx, cancel := drive.Ctx()
			defer cancel()
			_, err := srv.Admin.ModifyColumnFamilies(ctx, &btapb.ModifyColumnFamiliesRequest{Name: table, Modifications: []*btapb.ModifyColumnFamiliesRequest_Modification{{Id: "f1", Mod: &btapb.ModifyColumnFamiliesRequest_Modification_Update{Update: &btapb.ColumnFamily{GcRule: drive.GcToProto(&model.GcRule{Kind: model.GcMaxVersions, N: 1})}}}}})
			return err
		}, func(t *model.Table) { t.Families["f1"] = &model.GcRule{Kind: model.GcMaxVersions, N: 1} }}}
	op := ops[r.Intn(len(ops))]
	desc = fmt.Sprintf("engine=%s %s(%s) meets %s", engine, rpc, map[string]string{"MutateRow": model.MutsString(muts), "MutateRows": "k:" + model.MutsString(muts) + " k2:[Set(f1:e)]", "CAM": "true=" + model.MutsString(muts) + " false=" + model.MutsString(other), "RMW": fmt.Sprint(rules)}[rpc], op.desc)

	// the write under the model, on a given state
	write := func(t *model.Table) wvaOutcome {
		o := wvaOutcome{final: t}
		switch rpc {
		case "MutateRow":
			v, nr := t.Apply("k", muts, now)
			if o.ok = v != model.MustErr; o.ok {
				t.Commit("k", nr)
			}
		case "MutateRows":
			o.ok = true
			for _, e := range entries {
				v, nr := t.Apply(e.Key, e.Muts, now)
				o.per = append(o.per, v != model.MustErr)
				if v != model.MustErr {
					t.Commit(e.Key, nr)
				}
			}
		case "CAM":
			matched := len(t.RowCells("k")) > 0
			branch := other
			if matched {
				branch = muts
			}
			v, nr := t.Apply("k", branch, now)
			if o.ok = v != model.MustErr; o.ok {
				t.Commit("k", nr)
				o.resp = fmt.Sprint("matched=", matched)
			}
		case "RMW":
			v, nr, cells := t.RMW("k", toModelRules(rules), now)
			if o.ok = v != model.MustErr; o.ok {
				t.Commit("k", nr)
				o.resp = model.Row{Key: "k", Cells: cells}.String()
			}
		}
		return o
	}
	a := write(S.Clone())
	op.apply(a.final)
	a.explain = "write then admin"
	sb := S.Clone()
	op.apply(sb)
	b := write(sb)
	b.explain = "admin then write"

	var adminErr error
	var firedHere int32
	bttest.VerifSetHandler(func(point string, key []byte) {
		if point == wvaRPCs[rpc] && atomic.CompareAndSwapInt32(&firedHere, 0, 1) {
			adminErr = op.send()
		}
	})
	var got wvaOutcome
	switch rpc {
	case "MutateRow":
		got.ok = drive.MutateRow(srv.Data, table, "k", muts).OK()
	case "MutateRows":
		st, per, mal := drive.MutateRows(srv.Data, table, entries)
		got.ok = st.OK() && mal == ""
		for _, p := range per {
			got.per = append(got.per, p.OK())
		}
	case "CAM":
		st, matched := drive.CheckAndMutate(srv.Data, table, "k", nil, muts, other)
		if got.ok = st.OK(); got.ok {
			got.resp = fmt.Sprint("matched=", matched)
		}
	case "RMW":
		st, row := drive.ReadModifyWrite(srv.Data, table, "k", rules)
		if got.ok = st.OK(); got.ok {
			got.resp = model.Row{Key: "k", Cells: row.Cells}.String()
		}
	}
	bttest.VerifSetHandler(nil)
	hit = atomic.LoadInt32(&firedHere) == 1
	if !hit {
		return "", desc, false
	}
	if adminErr != nil {
		return "the admin request failed: " + adminErr.Error(), desc, hit
	}
	var why []string
	for _, cand := range []wvaOutcome{a, b} {
		if cand.ok != got.ok || fmt.Sprint(cand.per) != fmt.Sprint(got.per) {
			why = append(why, fmt.Sprintf("[%s: status ok=%v per-entry=%v expected, got ok=%v per-entry=%v]", cand.explain, cand.ok, cand.per, got.ok, got.per))
			continue
		}
		if rpc == "RMW" && cand.ok {
			// compare as cell sets (family order in the response is not specified)
			if !sameCellText(cand.resp, got.resp) {
				why = append(why, fmt.Sprintf("[%s: response %s expected, got %s]", cand.explain, cand.resp, got.resp))
				continue
			}
		} else if cand.resp != got.resp {
			why = append(why, fmt.Sprintf("[%s: response %s expected, got %s]", cand.explain, cand.resp, got.resp))
			continue
		}
		if msg := checkTable(srv.Data, table, cand.final); msg != "" {
			why = append(why, fmt.Sprintf("[%s: final table: %s]", cand.explain, trunc(msg, 400)))
			continue
		}
		return "", desc, hit
	}
	return "neither serial order of the write and the admin request explains the answer and the final table: " + strings.Join(why, " "), desc, hit
}

// sameCellText compares two model.Row renderings up to the order of their cells.
func sameCellText(a, b string) bool {
	norm := func(s string) string {
		i, j := strings.Index(s, "{"), strings.LastIndex(s, "}")
		if i < 0 || j < i {
			return s
		}
		parts := strings.Split(s[i+1:j], " ")
		for x := 1; x < len(parts); x++ {
			for y := x; y > 0 && parts[y] < parts[y-1]; y-- {
				parts[y], parts[y-1] = parts[y-1], parts[y]
			}
		}
		return s[:i] + strings.Join(parts, " ")
	}
	return norm(a) == norm(b)
}

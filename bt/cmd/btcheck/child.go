package main

func childMain(args []string) {
	panic("child mode not built yet")
}

package main

import (
	"bufio"
	"fmt"
	"os"
	"os/exec"
	"path/filepath"
	"strings"
	"syscall"
	"time"

	"verif/common"
)

// Child processes: anything that can take the process down by design or by hypothesis runs the emulator in a child
// (the same binary with the "child" sub-command). The parent journals what it sends and keeps the child's stderr.

var childModes = map[string]func(args []string){}

func childMain(args []string) {
	if len(args) == 0 {
		fmt.Fprintln(os.Stderr, "child: mode missing")
		os.Exit(3)
	}
	fn, ok := childModes[args[0]]
	if !ok {
		fmt.Fprintln(os.Stderr, "child: unknown mode", args[0])
		os.Exit(3)
	}
	fn(args[1:])
}

type childProc struct {
	cmd     *exec.Cmd
	stdin   *bufio.Writer
	stdout  *bufio.Reader
	outFile *os.File
	errPath string
	done    chan error
}

// spawnChild starts `<self> child <mode> args...`; stderr goes to a file under .build (kept for replay files).
func spawnChild(tag string, mode string, args ...string) (*childProc, error) {
	self, err := os.Executable()
	if err != nil {
		return nil, err
	}
	dir := filepath.Join(common.Root(), ".build")
	_ = os.MkdirAll(dir, 0o777)
	errPath := filepath.Join(dir, fmt.Sprintf("child-%s-%d-%d.err", tag, os.Getpid(), time.Now().UnixNano()))
	ef, err := os.Create(errPath)
	if err != nil {
		return nil, err
	}
	cmd := exec.Command(self, append([]string{"child", mode}, args...)...)
	cmd.Stderr = ef
	in, _ := cmd.StdinPipe()
	// own pipe for stdout: cmd.Wait() closes a StdoutPipe as soon as the child exits, which can lose its last line
	outR, outW, err := os.Pipe()
	if err != nil {
		ef.Close()
		return nil, err
	}
	cmd.Stdout = outW
	cmd.SysProcAttr = &syscall.SysProcAttr{Pdeathsig: syscall.SIGKILL}
	if err := cmd.Start(); err != nil {
		ef.Close()
		outR.Close()
		outW.Close()
		return nil, err
	}
	ef.Close()
	outW.Close()
	c := &childProc{cmd: cmd, stdin: bufio.NewWriter(in), stdout: bufio.NewReader(outR), outFile: outR, errPath: errPath, done: make(chan error, 1)}
	go func() { c.done <- cmd.Wait() }()
	return c, nil
}

// readLine reads one line of the child's stdout with a watchdog.
func (c *childProc) readLine(timeout time.Duration) (string, error) {
	type res struct {
		s   string
		err error
	}
	ch := make(chan res, 1)
	go func() {
		s, err := c.stdout.ReadString('\n')
		ch <- res{strings.TrimRight(s, "\n"), err}
	}()
	select {
	case r := <-ch:
		return r.s, r.err
	case <-time.After(timeout):
		return "", fmt.Errorf("child did not answer within %s", timeout)
	}
}

func (c *childProc) send(line string) error {
	if _, err := c.stdin.WriteString(line + "\n"); err != nil {
		return err
	}
	return c.stdin.Flush()
}

// wait waits for exit (or kills after timeout); returns the exit error (nil = status 0).
func (c *childProc) wait(timeout time.Duration) (error, bool) {
	select {
	case err := <-c.done:
		return err, true
	case <-time.After(timeout):
		_ = c.cmd.Process.Signal(syscall.SIGQUIT)
		select {
		case err := <-c.done:
			return err, false
		case <-time.After(10 * time.Second):
			_ = c.cmd.Process.Kill()
			return <-c.done, false
		}
	}
}

func (c *childProc) kill() {
	_ = c.cmd.Process.Kill()
	select {
	case <-c.done:
	case <-time.After(10 * time.Second):
	}
}

func (c *childProc) stderrTail(n int) string {
	buf, _ := os.ReadFile(c.errPath)
	s := string(buf)
	lines := strings.Split(s, "\n")
	var keep []string
	for _, l := range lines {
		if !strings.Contains(l, "bttest: GC MaxAge") {
			keep = append(keep, l)
		}
	}
	if len(keep) > n {
		keep = keep[:n]
	}
	return strings.Join(keep, "\n")
}

func (c *childProc) cleanup() {
	_ = os.Remove(c.errPath)
	if c.outFile != nil {
		_ = c.outFile.Close()
	}
}

// ---- canary for KF02 (btree iterator invalidated by a deletion while a GC pass has released the lock) --------

func init() {
	childModes["c16-btree-canary"] = func(args []string) {
		// fixed reproducer: the raced passes of seed 1 on the btree engine with DeleteFromRow among the injected writes
		for p := 1; p < 200; p += 4 {
			res := c16RacePass(common.NewRand(1, "C16.race", p), "btree", true)
			if res.bad != "" {
				fmt.Fprintln(os.Stderr, "canary oracle:", res.bad)
			}
		}
		fmt.Println("no panic in 50 passes")
		os.Exit(0)
	}
}

// c16BtreeCanary runs the reproducer in a child; returns (still fails, description).
func c16BtreeCanary() (bool, string) {
	c, err := spawnChild("kf02", "c16-btree-canary")
	if err != nil {
		return false, "cannot spawn canary child: " + err.Error()
	}
	defer c.cleanup()
	werr, _ := c.wait(120 * time.Second)
	tail := c.stderrTail(12)
	if werr != nil && strings.Contains(tail, "panic:") {
		first := tail
		if i := strings.Index(tail, "panic:"); i >= 0 {
			first = tail[i:]
			if j := strings.Index(first, "\n"); j > 0 {
				first = first[:j]
			}
		}
		return true, "child emulator died: " + first
	}
	return false, fmt.Sprintf("child exit=%v", werr)
}

package main

import (
	"fmt"
	"math"
	"sort"

	btpb "cloud.google.com/go/bigtable/apiv2/bigtablepb"
	"google.golang.org/grpc/codes"

	"verif/bt/drive"
	"verif/bt/gen"
	"verif/bt/model"
	"verif/common"
)

func init() { register("C05", "exploration", runC05) }

var (
	c05Keys  = []string{"r1", "r2\x00", "k/3", "\xffz", "r1\nx"}
	c05Fams  = []string{"f1", "f2", "g", "f"}
	c05Quals = []string{"", "a", "b\x00", "c", "\xfe", "a\nb", "1a", "2"}
	c05Vals  = []string{"", "v", "val1", "\x00\x01", "zz\xff", "val2", "val\n1"}
	c05TSs   = []int64{0, 1000, 2000, 3000}
)

// c05BuildTable fills table "t<i>" with PRNG-chosen content and returns the unfiltered rows as the server serves them.
// single: every row has exactly one family with 3-5 columns, so that the cell order of a row is fully specified
// (qualifier order, then newest first) and row-cell limits/offsets after an interleave are decidable.
func c05BuildTable(run *common.Run, srv *drive.Srv, ti int, single bool) (string, []model.Row, gen.FilterCtx, bool) {
	r := run.Rand("C05.table", ti)
	name := drive.MustTable(srv.Admin, fmt.Sprintf("t%d", ti), c05Fams...)
	for _, k := range c05Keys {
		var muts []model.Mut
		nf := r.Range(2, 3)
		if single {
			nf = 1
		}
		fams := append([]string(nil), c05Fams...)
		common.Shuffle(r, fams)
		for _, f := range fams[:nf] {
			nq := r.Range(0, 3)
			if ti == 0 && f == fams[0] {
				nq = 3
			}
			if single {
				nq = r.Range(3, 5)
			}
			qs := append([]string(nil), c05Quals...)
			common.Shuffle(r, qs)
			for _, q := range qs[:nq] {
				nv := r.Range(1, 3)
				tss := append([]int64(nil), c05TSs...)
				common.Shuffle(r, tss)
				for _, ts := range tss[:nv] {
					muts = append(muts, model.Mut{Kind: model.SetCell, Fam: f, Qual: q, TS: ts, Val: common.Pick(r, c05Vals)})
				}
			}
		}
		if len(muts) == 0 {
			muts = append(muts, model.Mut{Kind: model.SetCell, Fam: "f1", Qual: "a", TS: 1000, Val: "v"})
		}
		if k == c05Keys[1] && !single {
			// columns of different families whose family name + qualifier are the same string ("f"+"1a" = "f1"+"a",
			// "f"+"2" = "f2"+""): whatever merges or indexes columns must keep them apart
			for _, fq := range [][2]string{{"f", "1a"}, {"f1", "a"}, {"f", "2"}, {"f2", ""}} {
				muts = append(muts, model.Mut{Kind: model.SetCell, Fam: fq[0], Qual: fq[1], TS: 2000, Val: "in-" + fq[0]})
			}
		}
		if k == c05Keys[0] {
			// one long column: 40 versions at 0, 1000, ..., 39000 (the boundary timestamps of the leaf list fall on cells)
			for v := 0; v < 40; v++ {
				muts = append(muts, model.Mut{Kind: model.SetCell, Fam: muts[0].Fam, Qual: "long", TS: int64(v) * 1000, Val: common.Pick(r, c05Vals)})
			}
		}
		if st := drive.MutateRow(srv.Data, name, k, muts); !st.OK() {
			run.Violation("setup", ti, "set-up write failed: "+st.String(), nil)
			return "", nil, gen.FilterCtx{}, false
		}
		// half of the rows then get one or two more columns through ReadModifyWriteRow (another write path of the
		// server), with qualifiers the row does not have yet - in particular ones that sort before the existing ones
		if r.Chance(1, 2) {
			used := map[string]bool{}
			for _, mu := range muts {
				used[mu.Fam+"\x00"+mu.Qual] = true
			}
			var rules []drive.Rule
			for _, q := range c05Quals {
				f := muts[0].Fam
				if !used[f+"\x00"+q] && len(rules) < 2 && r.Chance(2, 3) {
					rules = append(rules, drive.Rule{Fam: f, Qual: q, Append: true, Val: common.Pick(r, c05Vals)})
				}
			}
			if len(rules) > 0 {
				if st, _ := drive.ReadModifyWrite(srv.Data, name, k, rules); !st.OK() {
					run.Violation("setup", ti, "set-up read-modify-write failed: "+st.String(), nil)
					return "", nil, gen.FilterCtx{}, false
				}
				run.Count("table_columns_created_through_read_modify_write", int64(len(rules)))
			}
		}
	}
	res := drive.ReadAll(srv.Data, name)
	if !res.OK() || res.Malformed != "" {
		run.Violation("setup", ti, "unfiltered read failed: "+res.Code.String()+" "+res.Malformed, nil)
		return "", nil, gen.FilterCtx{}, false
	}
	ctx := gen.FilterCtx{Keys: c05Keys, Fams: c05Fams, Quals: c05Quals, Vals: c05Vals, TSs: c05TSs}
	for _, row := range res.Rows {
		if len(row.Cells) > ctx.MaxCells {
			ctx.MaxCells = len(row.Cells)
		}
	}
	return name, res.Rows, ctx, true
}

// c05Check sends ReadRows(filter) and compares with the evaluator applied to the unfiltered rows.
// It returns ("", stats) or a description of the disagreement. skip=true: not decidable from the statement.
func c05Check(cl btpb.BigtableClient, table string, unfiltered []model.Row, f *model.Filter) (msg string, skip bool, errExpected bool, outRows int) {
	type rowOutcome struct {
		outs []model.EvalResult
	}
	outcomes := make([]rowOutcome, len(unfiltered))
	anyMust, allRowsCanSucceed, anyMay := false, true, false
	for i, row := range unfiltered {
		outs := model.Outcomes(f, row.Key, row.Cells)
		outcomes[i] = rowOutcome{outs}
		canSucceed := false
		for _, o := range outs {
			if o.Ambiguous {
				return "", true, false, 0
			}
			if o.MustErr {
				anyMust = true
			} else {
				canSucceed = true
			}
			if o.MayErr {
				anyMay = true
			}
		}
		if !canSucceed {
			allRowsCanSucceed = false
		}
	}
	res := drive.ReadRows(cl, &btpb.ReadRowsRequest{TableName: table, Filter: drive.FilterToProto(f)})
	if !res.OK() {
		if res.Code != codes.InvalidArgument {
			return fmt.Sprintf("unexpected status %s: %s", res.Code, res.Msg), false, true, 0
		}
		if !anyMust && !anyMay {
			return fmt.Sprintf("valid filter rejected with InvalidArgument: %s", res.Msg), false, false, 0
		}
		if len(res.Rows) != 0 {
			return "rows returned together with InvalidArgument", false, true, 0
		}
		return "", false, true, 0
	}
	if !allRowsCanSucceed {
		return "invalid filter argument was applied to data but the request succeeded (must be InvalidArgument)", false, true, len(res.Rows)
	}
	if res.Malformed != "" {
		return "chunk stream malformed: " + res.Malformed, false, false, 0
	}
	got := map[string][]model.Cell{}
	for _, r := range res.Rows {
		if len(r.Cells) == 0 {
			return fmt.Sprintf("row %q served without cells", r.Key), false, false, 0
		}
		if m := model.CheckServedOrder(r.Cells, true); m != "" {
			return fmt.Sprintf("row %q: %s: %s", r.Key, m, r), false, false, 0
		}
		got[r.Key] = r.Cells
	}
	for i, row := range unfiltered {
		ok := false
		var firstWant []model.Cell
		for _, o := range outcomes[i].outs {
			if o.MustErr {
				continue
			}
			if firstWant == nil {
				firstWant = o.Cells
			}
			if model.SameCells(o.Cells, got[row.Key]) {
				ok = true
				break
			}
		}
		if !ok {
			return fmt.Sprintf("row %q: got %s want %s", row.Key, model.Row{Key: row.Key, Cells: got[row.Key]}, model.Row{Key: row.Key, Cells: firstWant}), false, false, 0
		}
	}
	if len(got) > len(unfiltered) {
		return "rows returned that are not in the table", false, false, 0
	}
	return "", false, false, len(res.Rows)
}

// c05Boundary enumerates every leaf kind over its boundary arguments for the given table.
func c05Boundary(ctx gen.FilterCtx, rows []model.Row) []*model.Filter {
	var out []*model.Filter
	add := func(f *model.Filter) { out = append(out, f) }
	for _, b := range []bool{true, false} {
		add(&model.Filter{Kind: "pass", Flag: b})
		add(&model.Filter{Kind: "block", Flag: b})
	}
	add(&model.Filter{Kind: "strip", Flag: true})
	// cell counts that cut inside a column, at column and family boundaries: every count 0..max+1 and -1
	for n := -1; n <= ctx.MaxCells+1; n++ {
		add(&model.Filter{Kind: "rowlimit", N: int32(n)})
		add(&model.Filter{Kind: "rowoffset", N: int32(n)})
	}
	for n := -1; n <= 4; n++ {
		add(&model.Filter{Kind: "collimit", N: int32(n)})
	}
	// ranges: each end unset/open/closed at existing and neighbouring values
	var qb, vb []string
	for _, q := range ctx.Quals {
		qb = append(qb, q, q+"\x00")
	}
	for _, v := range ctx.Vals {
		vb = append(vb, v, v+"\x00")
	}
	sort.Strings(qb)
	sort.Strings(vb)
	for _, fam := range append(append([]string{}, ctx.Fams...), "nofam") {
		for sm := 0; sm < 3; sm++ {
			for em := 0; em < 3; em++ {
				for si, s := range qb {
					for ei, e := range qb {
						if (sm == 0 && si > 0) || (em == 0 && ei > 0) || (fam != "f1" && (si+ei)%3 != 0) {
							continue
						}
						add(&model.Filter{Kind: "colrange", Fam: fam, SMode: sm, Start: s, EMode: em, End: e})
					}
				}
			}
		}
	}
	for sm := 0; sm < 3; sm++ {
		for em := 0; em < 3; em++ {
			for si, s := range vb {
				for ei, e := range vb {
					if (sm == 0 && si > 0) || (em == 0 && ei > 0) {
						continue
					}
					add(&model.Filter{Kind: "valrange", SMode: sm, Start: s, EMode: em, End: e})
				}
			}
		}
	}
	// (negative bounds too: -1 is the "server time" sentinel of the write path and must be no exception here)
	tsb := []int64{0, 1, 999, 1000, 1001, 2000, 3000, 4000, 2500, 20000, 39000, 40000, -1, -2, -999, -1000, math.MinInt64, math.MaxInt64}
	for _, s := range tsb {
		for _, e := range tsb {
			add(&model.Filter{Kind: "tsrange", TStart: s, TEnd: e})
		}
	}
	for _, p := range []float64{0, 0.5, 1, -0.1, 1.5} {
		add(&model.Filter{Kind: "sample", P: p})
	}
	for _, kind := range []string{"rowkey", "family", "qual", "value"} {
		for _, bad := range gen.BadPatterns {
			add(&model.Filter{Kind: kind, Raw: bad})
		}
	}
	for _, l := range []string{"x", "lbl-1", "abcdefghijklmno", "0"} {
		add(&model.Filter{Kind: "label", Label: l})
	}
	// whole-field, bytewise regex matching: exact, strict prefix, strict suffix, and superstring of every value
	pools := map[string][]string{"rowkey": ctx.Keys, "family": ctx.Fams, "qual": ctx.Quals, "value": ctx.Vals}
	for _, kind := range []string{"rowkey", "family", "qual", "value"} {
		for _, s := range pools[kind] {
			add(&model.Filter{Kind: kind, Re: model.Lit(s)})
			if len(s) > 1 {
				add(&model.Filter{Kind: kind, Re: model.Lit(s[:len(s)-1])})
				add(&model.Filter{Kind: kind, Re: model.Lit(s[1:])})
			}
			add(&model.Filter{Kind: kind, Re: model.Lit(s + "x")})
			// <prefix>.* and .*<suffix> for every split point ('.' does not match a newline byte)
			anyStar := &model.Re{Kind: "star", Subs: []*model.Re{{Kind: "any"}}}
			for k := 0; k <= len(s); k++ {
				add(&model.Filter{Kind: kind, Re: &model.Re{Kind: "cat", Subs: []*model.Re{model.Lit(s[:k]), anyStar}}})
				add(&model.Filter{Kind: kind, Re: &model.Re{Kind: "cat", Subs: []*model.Re{anyStar, model.Lit(s[k:])}}})
			}
			if kind != "family" {
				raw := model.Lit(s)
				markRawHi(raw)
				add(&model.Filter{Kind: kind, Re: raw})
			}
		}
	}
	// degenerate structure
	add(&model.Filter{Kind: "chain"})
	add(&model.Filter{Kind: "interleave"})
	add(&model.Filter{Kind: "chain", Subs: []*model.Filter{{Kind: "pass", Flag: true}}})
	add(&model.Filter{Kind: "interleave", Subs: []*model.Filter{{Kind: "pass", Flag: true}}})
	return out
}

func markRawHi(re *model.Re) {
	if re.Kind == "lit" {
		re.RawHi = true
	}
	for _, s := range re.Subs {
		markRawHi(s)
	}
}

// c05Basis is the leaf basis for the complete depth-2 compositions.
func c05Basis(ctx gen.FilterCtx) []*model.Filter {
	star := &model.Re{Kind: "star", Subs: []*model.Re{{Kind: "any"}}}
	return []*model.Filter{
		{Kind: "pass", Flag: true},
		{Kind: "block", Flag: true},
		{Kind: "rowkey", Re: model.Lit("r1")},
		{Kind: "rowkey", Re: star},
		{Kind: "family", Re: model.Lit("f1")},
		{Kind: "family", Re: &model.Re{Kind: "alt", Subs: []*model.Re{model.Lit("f2"), model.Lit("g")}}},
		{Kind: "qual", Re: &model.Re{Kind: "cat", Subs: []*model.Re{model.Lit("b"), star}}},
		{Kind: "value", Re: &model.Re{Kind: "cat", Subs: []*model.Re{model.Lit("val"), {Kind: "any"}}}},
		{Kind: "colrange", Fam: "f1", SMode: 1, Start: "a", EMode: 2, End: "c"},
		{Kind: "valrange", SMode: 2, Start: "", EMode: 1, End: "val1"},
		{Kind: "tsrange", TStart: 1000, TEnd: 3000},
		{Kind: "tsrange", TStart: 2000, TEnd: 0},
		{Kind: "rowlimit", N: 1},
		{Kind: "rowlimit", N: 3},
		{Kind: "rowoffset", N: 1},
		{Kind: "rowoffset", N: 2},
		{Kind: "collimit", N: 1},
		{Kind: "collimit", N: 2},
		{Kind: "strip", Flag: true},
		{Kind: "label", Label: "x"},
		{Kind: "pass", Flag: false},
		{Kind: "rowlimit", N: -1},
		{Kind: "value", Raw: "("},
		{Kind: "tsrange", TStart: 1500, TEnd: 0},
	}
}

func runC05(run *common.Run) {
	run.Rule = "case = one ReadRows(filter) over a 5-row multi-column/multi-version table (binary and newline-containing keys, qualifiers and values; rows with 2-3 families, and one table whose rows have a single family with 3-5 columns; half of the rows got further columns through ReadModifyWriteRow; one row has a column with 40 versions; one row has columns of different families whose family+qualifier concatenations coincide) on one engine, compared row by row with an independent filter evaluator applied to the unfiltered rows as served. Parts: (leaf) every leaf filter over its boundary arguments [complete list]; (pair) ALL chains and interleaves of ordered pairs and (cond) ALL conditions of ordered triples incl. nil branches over a 24-leaf basis [complete]; (merge) ALL chain(interleave(X,Y), cut) over the basis and six positional cuts on the single-family table [complete]; (tree) PRNG trees to depth 4. Non-trivial = the filter changed at least one row without emptying the whole result, or was rejected; distinct by (filter, table, engine)."
	run.Assumptions = []string{"evaluator written from the Bigtable filter documentation, own byte-regex matcher for a restricted RE2 subset", "an invalid argument must be rejected only if the documented semantics apply it to at least one cell / non-empty row; otherwise either outcome is accepted", "cells-per-row limit/offset cutting into a multi-family row that came out of an interleave is not decided (family order unspecified)", "a zero cells-per-row/column limit may be rejected or return nothing"}
	j := common.NewJournal("C05")
	ntables := run.N(2, 4)
	ntrees := run.N(10000, 200000)
	var ambiguous, errExpectedN, requests int64
	for ei, engine := range drive.Engines {
		if run.TooMany() {
			break
		}
		srv, err := drive.Start(engine, gen.BaseClock, "")
		if err != nil {
			run.Violation("setup", ei, "cannot start server: "+err.Error(), nil)
			return
		}
		nw := workers()
		clients := make([]btpb.BigtableClient, nw)
		for w := range clients {
			_, cl, _, _ := srv.NewConn()
			clients[w] = cl
		}
		for ti := 0; ti <= ntables; ti++ {
			single := ti == ntables // the last table has single-family rows
			name, rows, ctx, ok := c05BuildTable(run, srv, ti, single)
			if !ok {
				return
			}
			totalIn := 0
			for _, r := range rows {
				totalIn += len(r.Cells)
			}
			do := func(sub string, idx int, w int, f *model.Filter) {
				if !run.Want(sub, idx) || run.TooMany() {
					return
				}
				msg, skip, errExp, nrows := c05Check(clients[w], name, rows, f)
				run.Count("filtered_reads", 1)
				_ = requests
				if skip {
					run.Count("undecidable_family_order_cases", 1)
					_ = ambiguous
					return
				}
				if errExp {
					run.Count("rejections_observed_or_required", 1)
					_ = errExpectedN
				}
				desc := fmt.Sprintf("engine=%s table=%d filter=%s", engine, ti, f)
				if msg != "" {
					run.Violation(sub, idx, msg+" | "+desc, map[string]any{"engine": engine, "table": ti, "filter": f.String(), "unfiltered": model.RowsString(rows)})
				}
				run.Case(common.Hash64(desc), errExp || (nrows > 0))
				if idx%4001 == 7 {
					run.Sample(desc)
				}
			}
			base := (ei*8 + ti) * 10_000_000
			if run.WantSub("leaf") {
				leaves := c05Boundary(ctx, rows)
				j.Begin(0, fmt.Sprintf("C05 leaf engine=%s table=%d", engine, ti))
				parallelW(len(leaves), nw, func(i, w int) { do("leaf", base+i, w, leaves[i]) })
				run.Count("leaf_boundary_filters", int64(len(leaves)))
			}
			basis := c05Basis(ctx)
			nb := len(basis)
			if run.WantSub("pair") {
				j.Begin(0, fmt.Sprintf("C05 pair engine=%s table=%d", engine, ti))
				parallelW(2*nb*nb, nw, func(i, w int) {
					kind := "chain"
					c := i
					if c >= nb*nb {
						kind = "interleave"
						c -= nb * nb
					}
					do("pair", base+i, w, &model.Filter{Kind: kind, Subs: []*model.Filter{basis[c/nb], basis[c%nb]}})
				})
			}
			if run.WantSub("cond") && (ti == 0 || run.IsThorough()) {
				n1 := nb + 1 // index nb = nil branch
				j.Begin(0, fmt.Sprintf("C05 cond engine=%s table=%d", engine, ti))
				parallelW(nb*n1*n1, nw, func(i, w int) {
					p := basis[i/(n1*n1)]
					var t, f *model.Filter
					if x := (i / n1) % n1; x < nb {
						t = basis[x]
					}
					if x := i % n1; x < nb {
						f = basis[x]
					}
					do("cond", base+i, w, &model.Filter{Kind: "cond", Pred: p, T: t, F: f})
				})
			}
			if run.WantSub("merge") && single {
				// chain(interleave(X, Y), cut): the order in which an interleave merges its branches, made visible by
				// a positional cut; complete over the basis and six cuts
				cuts := []*model.Filter{{Kind: "rowlimit", N: 1}, {Kind: "rowlimit", N: 2}, {Kind: "rowlimit", N: 3}, {Kind: "rowoffset", N: 1}, {Kind: "rowoffset", N: 2}, {Kind: "collimit", N: 1}}
				j.Begin(0, fmt.Sprintf("C05 merge engine=%s table=%d", engine, ti))
				parallelW(nb*nb*len(cuts), nw, func(i, w int) {
					x, y, c := basis[i/(nb*len(cuts))], basis[(i/len(cuts))%nb], cuts[i%len(cuts)]
					do("merge", base+i, w, &model.Filter{Kind: "chain", Subs: []*model.Filter{{Kind: "interleave", Subs: []*model.Filter{x, y}}, c}})
				})
				run.Count("interleave_then_cut_filters", int64(nb*nb*len(cuts)))
			}
			if run.WantSub("tree") {
				j.Begin(0, fmt.Sprintf("C05 tree engine=%s table=%d", engine, ti))
				parallelW(ntrees/(ntables+1), nw, func(i, w int) {
					r := run.Rand(fmt.Sprintf("C05.tree.%d", ti), i) // same trees on every engine
					f := gen.Tree(r, ctx, 4, 4)
					for model.CountSamples(f) > 3 {
						f = gen.Tree(r, ctx, 4, 4)
					}
					do("tree", base+i, w, f)
				})
			}
		}
		j.End(0)
		srv.Close(true)
	}
	if run.Replay == nil {
		run.Set("complete_subspaces", "leaf boundary list; all ordered pairs (chain, interleave) and all condition triples with nil branches over the 24-leaf basis; all interleave-then-cut triples on the single-family table")
	}
}

package main

import (
	"fmt"
	"sort"
	"strings"
	"syscall"

	btapb "cloud.google.com/go/bigtable/admin/apiv2/adminpb"
	btpb "cloud.google.com/go/bigtable/apiv2/bigtablepb"
	"google.golang.org/grpc/codes"

	"verif/bt/drive"
	"verif/bt/gen"
	"verif/bt/model"
	"verif/common"
)

func init() { register("C14", "exploration", runC14) }

var (
	c14Parents = []string{"projects/p/instances/i", "projects/p/instances/i2"} // one is a string prefix of the other
	c14Ids     = []string{"t", "t.v2", "u"}                                    // t.v2 continues t with a dotted suffix (sibling files of an on-disk table)
	c14FamPool = []string{"f1", "f", "g", "f12"}                               // f < f1 < f12 are string prefixes of one another
	c14Keys    = []string{"a", "a\x00", "ab", "a\xff", "a\xff\xff", "b", "\xff", "\xff\xff", "\x00"}
	c14Prefix  = []string{"", "a", "a\x00", "ab", "a\xff", "a\xff\xff", "\xff", "\xff\xff", "b", "c", "\x00", "a\xff\xff\xff"}
)

type c14Registry map[string]*model.Table

func c14RandGc(r *common.Rand) *model.GcRule {
	switch r.Intn(5) {
	case 0:
		return nil
	case 1:
		return &model.GcRule{Kind: model.GcMaxVersions, N: int32(r.Range(1, 3))}
	case 2:
		return &model.GcRule{Kind: model.GcMaxAge, AgeUs: int64(r.Range(1, 100)) * 3_600_000_000}
	case 3:
		return &model.GcRule{Kind: model.GcUnion, Subs: []*model.GcRule{{Kind: model.GcMaxVersions, N: 2}, {Kind: model.GcMaxAge, AgeUs: 86_400_000_000}}}
	default:
		return &model.GcRule{Kind: model.GcIntersection, Subs: []*model.GcRule{{Kind: model.GcMaxVersions, N: 1}, {Kind: model.GcMaxAge, AgeUs: 3_600_000_000}}}
	}
}

func famString(fams map[string]*model.GcRule) string {
	var names []string
	for f, g := range fams {
		names = append(names, f+"="+g.String())
	}
	sort.Strings(names)
	return "{" + strings.Join(names, " ") + "}"
}

func famsFromProto(t *btapb.Table) map[string]*model.GcRule {
	out := map[string]*model.GcRule{}
	for f, cf := range t.GetColumnFamilies() {
		out[f] = drive.GcFromProto(cf.GetGcRule())
	}
	return out
}

// c14CheckAll re-reads the whole registry and every table and compares with the model.
func c14CheckAll(srv *drive.Srv, reg c14Registry) string {
	for _, parent := range c14Parents {
		ctx, cancel := drive.Ctx()
		res, err := srv.Admin.ListTables(ctx, &btapb.ListTablesRequest{Parent: parent})
		cancel()
		if err != nil {
			return "ListTables failed: " + err.Error()
		}
		var got, want []string
		for _, t := range res.Tables {
			got = append(got, t.Name)
		}
		for name := range reg {
			if strings.HasPrefix(name, parent+"/tables/") {
				want = append(want, name)
			}
		}
		sort.Strings(got)
		sort.Strings(want)
		if fmt.Sprint(got) != fmt.Sprint(want) {
			return fmt.Sprintf("ListTables(%s): got %v want %v", parent, got, want)
		}
	}
	for _, parent := range c14Parents {
		for _, id := range c14Ids {
			name := drive.TableName(parent, id)
			ctx, cancel := drive.Ctx()
			tbl, err := srv.Admin.GetTable(ctx, &btapb.GetTableRequest{Name: name})
			cancel()
			m, live := reg[name]
			if !live {
				if drive.StatusOf(err).Code != codes.NotFound {
					return fmt.Sprintf("GetTable(%s) on a non-existent table: got %v want NotFound", name, drive.StatusOf(err))
				}
				// a deleted / never created table must be unreachable for data requests too
				if st := drive.MutateRow(srv.Data, name, "probe", []model.Mut{{Kind: model.SetCell, Fam: "f1", Qual: "q", TS: 1000, Val: "x"}}); st.Code != codes.NotFound {
					return fmt.Sprintf("MutateRow on non-existent table %s: got %s want NotFound", name, st)
				}
				if res := drive.ReadAll(srv.Data, name); res.Code != codes.NotFound {
					return fmt.Sprintf("ReadRows on non-existent table %s: got %s want NotFound", name, res.Code)
				}
				continue
			}
			if err != nil {
				return fmt.Sprintf("GetTable(%s) failed: %v", name, err)
			}
			if tbl.Name != name {
				return fmt.Sprintf("GetTable(%s) returned name %q", name, tbl.Name)
			}
			if g, w := famString(famsFromProto(tbl)), famString(m.Families); g != w {
				return fmt.Sprintf("GetTable(%s) families: got %s want %s", name, g, w)
			}
			if msg := checkTable(srv.Data, name, m); msg != "" {
				return fmt.Sprintf("table %s: %s", name, msg)
			}
		}
	}
	return ""
}

func runC14(run *common.Run) {
	run.Rule = "case = one program on one engine: 40-120 admin and data requests over 2 parents (one a string prefix of the other) x 3 table ids: CreateTable with families and GC rules, DeleteTable, re-create, ModifyColumnFamilies with 1-4 modifications (create/update/drop, a failing one at any position, create-then-drop and drop-then-create of one id), DropRowRange (12 prefixes incl. empty, whole keys, ...\\xff, no match; delete-all), MutateRow and ReadModifyWriteRow appends. After EVERY request: ListTables per parent, GetTable + full scan of every live table, NotFound probes (GetTable, MutateRow, ReadRows) on every non-existent name, all compared with a registry + data model. Part 'churn': 1500 (thorough 20000) create / write / read / delete cycles of a table on one long-lived server per engine under a descriptor limit of 2048: every request succeeds, every re-created table starts empty. Part 'big': prefix drops of 1 / 10 / 100 / 1000+ rows (incl. prefixes made of 0xff bytes), a family drop, a drop-and-re-create of one family in one request and a delete-all on a table of 1500-3000 rows, whole table compared after every request. Non-trivial = program contained at least three of: a failed multi-modification request, a family drop that removed cells, a prefix drop that removed some but not all rows, a delete-and-re-create of a table (each counted separately in 'observed'); distinct by program x engine."
	run.Assumptions = []string{"DropRowRange with an empty prefix may be rejected or remove every row", "ModifyColumnFamilies error codes are not compared (any non-OK), CreateTable on an existing table must be AlreadyExists, requests on missing tables NotFound"}
	j := common.NewJournal("C14")
	nprog := run.N(150, 1500)
	common.Parallel(nprog*3, workers(), func(i int) {
		prog, engine := i/3, drive.Engines[i%3]
		if !run.Want("prog", i) || run.TooMany() {
			return
		}
		if engine == "ldbdisk" && !drive.DiskEngineAvailable() {
			// the emulator leaks the descriptors of every deleted on-disk table until the process exits
			run.Count("disk_programs_skipped_for_descriptor_budget", 1)
			return
		}
		j.Begin(i%64, fmt.Sprintf("C14 prog case=%d engine=%s", i, engine))
		c14Program(run, prog, engine, i)
		j.End(i % 64)
	})
	if run.WantSub("churn") && !run.TooMany() {
		c14Churn(run)
	}
	if run.WantSub("big") {
		nbig := run.N(4, 40)
		common.Parallel(nbig*3, workers(), func(i int) {
			prog, engine := i/3, drive.Engines[i%3]
			if !run.Want("big", i) || run.TooMany() || (engine == "ldbdisk" && !drive.DiskEngineAvailable()) {
				return
			}
			j.Begin(i%64, fmt.Sprintf("C14 big case=%d engine=%s", i, engine))
			c14Big(run, prog, engine, i)
			j.End(i % 64)
		})
	}
}

// c14Churn: one long-lived server per engine on which a table is created, written, read, deleted and created again
// 1500 (thorough: 20000) times. The process's file-descriptor limit is lowered to 2048 for the duration: a server that
// keeps something open per deleted table stops serving valid requests after a few hundred cycles. Every request of
// every cycle must succeed and every re-created table must start empty.
func c14Churn(run *common.Run) {
	var old syscall.Rlimit
	if err := syscall.Getrlimit(syscall.RLIMIT_NOFILE, &old); err == nil && old.Cur > 2048 {
		lim := old
		lim.Cur = 2048
		if syscall.Setrlimit(syscall.RLIMIT_NOFILE, &lim) == nil {
			defer syscall.Setrlimit(syscall.RLIMIT_NOFILE, &old)
		}
	}
	cycles := run.N(1500, 20000)
	for ei, engine := range drive.Engines {
		if !run.Want("churn", ei) || run.TooMany() {
			continue
		}
		srv, err := drive.Start(engine, gen.BaseClock, "")
		if err != nil {
			run.Violation("churn", ei, "cannot start server: "+err.Error(), nil)
			return
		}
		bad := ""
		c := 0
		for ; c < cycles && bad == ""; c++ {
			id := fmt.Sprintf("churn%d", c%3)
			name := drive.TableName(drive.Parent, id)
			if st := drive.CreateTable(srv.Admin, drive.Parent, id, map[string]*model.GcRule{"f": nil}); !st.OK() {
				bad = "CreateTable failed: " + st.String()
				break
			}
			if res := drive.ReadAll(srv.Data, name); !res.OK() || len(res.Rows) != 0 {
				bad = fmt.Sprintf("a re-created table does not start empty: %s, %d rows", res.Code, len(res.Rows))
				break
			}
			if st := drive.MutateRow(srv.Data, name, "k", []model.Mut{{Kind: model.SetCell, Fam: "f", Qual: "q", TS: 1000, Val: fmt.Sprint("v", c)}}); !st.OK() {
				bad = "MutateRow failed: " + st.String()
				break
			}
			if res := drive.ReadAll(srv.Data, name); !res.OK() || len(res.Rows) != 1 {
				bad = fmt.Sprintf("read after write: %s, %d rows", res.Code, len(res.Rows))
				break
			}
			ctx, cancel := drive.Ctx()
			_, err := srv.Admin.DeleteTable(ctx, &btapb.DeleteTableRequest{Name: name})
			cancel()
			if err != nil {
				bad = "DeleteTable failed: " + err.Error()
			}
		}
		if bad != "" {
			run.Violation("churn", ei, fmt.Sprintf("in cycle %d of create / write / read / delete on one server (engine %s, descriptor limit 2048): %s", c, engine, bad), map[string]any{"engine": engine, "cycle": c})
		}
		run.Case(common.Hash64("churn", engine), true)
		run.Count("table_create_delete_cycles", int64(c))
		srv.Close(true)
	}
}

// c14Big: the same admin requests on a table of 1500-3000 rows (several response messages, several iterator
// batches): prefix drops of 1, 10, 100 and 1000+ rows, prefixes made of 0xff bytes, a family drop and a
// drop-and-re-create of a family in one request, a delete-all; after every request the whole table is compared.
func c14Big(run *common.Run, prog int, engine string, idx int) {
	r := run.Rand("C14.big", prog)
	srv, err := drive.Start(engine, gen.BaseClock, "")
	if err != nil {
		run.Violation("big", idx, "cannot start server: "+err.Error(), nil)
		return
	}
	defer srv.Close(true)
	name := drive.MustTable(srv.Admin, "big", "f", "f1", "g")
	m := model.NewTable("f", "f1", "g")
	var steps []string
	fail := func(what string) {
		run.Violation("big", idx, what, map[string]any{"engine": engine, "steps": steps})
	}
	N := r.Range(1500, 3000)
	keyOf := func(i int) string {
		switch {
		case i%97 == 0:
			return fmt.Sprintf("\xff\xff%04d", i)
		case i%31 == 0:
			return fmt.Sprintf("\xff%04d", i)
		}
		return fmt.Sprintf("r%04d", i)
	}
	var entries []drive.Entry
	for i := 0; i < N; i++ {
		muts := []model.Mut{{Kind: model.SetCell, Fam: common.Pick(r, []string{"f", "f1", "g"}), Qual: "q", TS: 1000, Val: fmt.Sprint("v", i)}}
		if i%3 == 0 {
			muts = append(muts, model.Mut{Kind: model.SetCell, Fam: "g", Qual: "only-g", TS: 2000, Val: "g"})
		}
		_, nr := m.Apply(keyOf(i), muts, gen.BaseClock)
		m.Commit(keyOf(i), nr)
		entries = append(entries, drive.Entry{Key: keyOf(i), Muts: muts})
		if len(entries) == 500 || i == N-1 {
			if st, _, _ := drive.MutateRows(srv.Data, name, entries); !st.OK() {
				fail("set-up failed: " + st.String())
				return
			}
			entries = nil
		}
	}
	dropPrefix := func(prefix string) bool {
		ctx, cancel := drive.Ctx()
		_, err := srv.Admin.DropRowRange(ctx, &btapb.DropRowRangeRequest{Name: name, Target: &btapb.DropRowRangeRequest_RowKeyPrefix{RowKeyPrefix: []byte(prefix)}})
		cancel()
		steps = append(steps, fmt.Sprintf("DropRowRange(%q) -> %v", prefix, err))
		if err != nil {
			fail("DropRowRange failed: " + err.Error())
			return false
		}
		removed := 0
		for k := range m.Rows {
			if strings.HasPrefix(k, prefix) {
				delete(m.Rows, k)
				removed++
			}
		}
		run.Max("max_rows_removed_by_one_prefix_drop", int64(removed))
		if msg := checkTable(srv.Data, name, m); msg != "" {
			fail("after " + steps[len(steps)-1] + ": " + trunc(msg, 500))
			return false
		}
		return true
	}
	modify := func(desc string, mods []*btapb.ModifyColumnFamiliesRequest_Modification, apply func()) bool {
		ctx, cancel := drive.Ctx()
		_, err := srv.Admin.ModifyColumnFamilies(ctx, &btapb.ModifyColumnFamiliesRequest{Name: name, Modifications: mods})
		cancel()
		steps = append(steps, fmt.Sprintf("ModifyColumnFamilies(%s) -> %v", desc, err))
		if err != nil {
			fail("ModifyColumnFamilies failed: " + err.Error())
			return false
		}
		apply()
		if msg := checkTable(srv.Data, name, m); msg != "" {
			fail("after " + steps[len(steps)-1] + ": " + trunc(msg, 500))
			return false
		}
		return true
	}
	dropFam := func(f string) {
		delete(m.Families, f)
		for key, row := range m.Rows {
			delete(row, f)
			m.Commit(key, row)
		}
	}
	ops := []func() bool{
		func() bool { return dropPrefix(fmt.Sprintf("r%04d", r.Intn(N))) },
		func() bool { return dropPrefix(fmt.Sprintf("r%03d", r.Intn(N/10))) },
		func() bool { return dropPrefix(fmt.Sprintf("r%02d", r.Intn(N/100))) },
		func() bool { return dropPrefix("r1") },
		func() bool { return dropPrefix("\xff\xff") },
		func() bool { return dropPrefix("\xff") },
		func() bool { return dropPrefix("nomatch") },
		func() bool {
			return modify("drop f1", []*btapb.ModifyColumnFamiliesRequest_Modification{{Id: "f1", Mod: &btapb.ModifyColumnFamiliesRequest_Modification_Drop{Drop: true}}}, func() { dropFam("f1") })
		},
		func() bool {
			return modify("drop g, create g", []*btapb.ModifyColumnFamiliesRequest_Modification{{Id: "g", Mod: &btapb.ModifyColumnFamiliesRequest_Modification_Drop{Drop: true}}, {Id: "g", Mod: &btapb.ModifyColumnFamiliesRequest_Modification_Create{Create: &btapb.ColumnFamily{}}}}, func() { dropFam("g"); m.Families["g"] = nil })
		},
	}
	common.Shuffle(r, ops)
	for _, op := range ops {
		if !op() {
			return
		}
	}
	// SampleRowKeys must still describe the table, and a delete-all empties it
	ctx, cancel := drive.Ctx()
	_, err = srv.Admin.DropRowRange(ctx, &btapb.DropRowRangeRequest{Name: name, Target: &btapb.DropRowRangeRequest_DeleteAllDataFromTable{DeleteAllDataFromTable: true}})
	cancel()
	if err != nil {
		fail("DropRowRange(all) failed: " + err.Error())
		return
	}
	m.Rows = map[string]map[string]map[string]map[int64]string{}
	if msg := checkTable(srv.Data, name, m); msg != "" {
		fail("after DropRowRange(all): " + trunc(msg, 500))
		return
	}
	run.Case(common.Hash64("big", engine, fmt.Sprint(steps)), true)
	run.Count("big_table_programs", 1)
	run.Max("max_rows_in_big_table", int64(N))
}

func m0Families(m *model.Table) map[string]*model.GcRule {
	if m == nil {
		return nil
	}
	return m.Families
}

func c14Program(run *common.Run, prog int, engine string, idx int) {
	r := run.Rand("C14.prog", prog)
	srv, err := drive.Start(engine, gen.BaseClock, "")
	if err != nil {
		run.Violation("prog", idx, "cannot start server: "+err.Error(), nil)
		return
	}
	defer srv.Close(true)
	reg := c14Registry{}
	var steps []string
	fail := func(what string) {
		run.Violation("prog", idx, what, map[string]any{"engine": engine, "steps": steps})
	}
	var sawFailedMulti, sawDropRemoved, sawPartialPrefix, sawRecreate bool
	deleted := map[string]bool{}
	n := r.Range(40, 120)
	for s := 0; s < n; s++ {
		parent := common.Pick(r, c14Parents)
		id := common.Pick(r, c14Ids)
		if r.Chance(1, 2) {
			parent, id = c14Parents[0], c14Ids[0] // concentrate half of the traffic on one table so that it accumulates data
		}
		name := drive.TableName(parent, id)
		m, live := reg[name]
		step := ""
		switch k := r.Intn(20); {
		case k < 3 || (len(reg) == 0): // CreateTable
			fams := map[string]*model.GcRule{}
			for _, f := range c14FamPool {
				if r.Chance(3, 5) {
					fams[f] = c14RandGc(r)
				}
			}
			st := drive.CreateTable(srv.Admin, parent, id, fams)
			step = fmt.Sprintf("CreateTable(%s,%s) -> %s", name, famString(fams), st)
			steps = append(steps, step)
			if live {
				if st.Code != codes.AlreadyExists {
					fail("CreateTable on an existing table: got " + st.String() + " want AlreadyExists")
					return
				}
			} else {
				if !st.OK() {
					fail("CreateTable failed: " + st.String())
					return
				}
				nm := model.NewTable()
				for f, g := range fams {
					nm.Families[f] = g
				}
				reg[name] = nm
				if deleted[name] {
					sawRecreate = true
				}
				if engine == "ldbdisk" {
					drive.NoteDiskTables(1)
				}
			}
		case k < 5: // DeleteTable
			ctx, cancel := drive.Ctx()
			_, err := srv.Admin.DeleteTable(ctx, &btapb.DeleteTableRequest{Name: name})
			cancel()
			st := drive.StatusOf(err)
			steps = append(steps, fmt.Sprintf("DeleteTable(%s) -> %s", name, st))
			if live {
				if !st.OK() {
					fail("DeleteTable failed: " + st.String())
					return
				}
				delete(reg, name)
				deleted[name] = true
			} else if st.Code != codes.NotFound {
				fail("DeleteTable on a non-existent table: got " + st.String() + " want NotFound")
				return
			}
		case k < 9: // ModifyColumnFamilies
			nm := r.Range(1, 4)
			var mods []*btapb.ModifyColumnFamiliesRequest_Modification
			var desc []string
			var after *model.Table
			if live {
				after = m.Clone()
			}
			valid := live
			removedCells := false
			for i := 0; i < nm; i++ {
				f := common.Pick(r, c14FamPool)
				switch r.Intn(3) {
				case 0:
					g := c14RandGc(r)
					mods = append(mods, &btapb.ModifyColumnFamiliesRequest_Modification{Id: f, Mod: &btapb.ModifyColumnFamiliesRequest_Modification_Create{Create: &btapb.ColumnFamily{GcRule: drive.GcToProto(g)}}})
					desc = append(desc, "create "+f+"="+g.String())
					if after != nil && valid {
						if _, ok := after.Families[f]; ok {
							valid = false
						} else {
							after.Families[f] = g
						}
					}
				case 1:
					g := c14RandGc(r)
					mods = append(mods, &btapb.ModifyColumnFamiliesRequest_Modification{Id: f, Mod: &btapb.ModifyColumnFamiliesRequest_Modification_Update{Update: &btapb.ColumnFamily{GcRule: drive.GcToProto(g)}}})
					desc = append(desc, "update "+f+"="+g.String())
					if after != nil && valid {
						if _, ok := after.Families[f]; !ok {
							valid = false
						} else {
							after.Families[f] = g
						}
					}
				default:
					mods = append(mods, &btapb.ModifyColumnFamiliesRequest_Modification{Id: f, Mod: &btapb.ModifyColumnFamiliesRequest_Modification_Drop{Drop: true}})
					desc = append(desc, "drop "+f)
					if after != nil && valid {
						if _, ok := after.Families[f]; !ok {
							valid = false
						} else {
							delete(after.Families, f)
							for key, row := range after.Rows {
								if len(row[f]) > 0 {
									removedCells = true
								}
								delete(row, f)
								after.Commit(key, row)
							}
						}
					}
				}
			}
			ctx, cancel := drive.Ctx()
			res, err := srv.Admin.ModifyColumnFamilies(ctx, &btapb.ModifyColumnFamiliesRequest{Name: name, Modifications: mods})
			cancel()
			st := drive.StatusOf(err)
			steps = append(steps, fmt.Sprintf("ModifyColumnFamilies(%s,%v) -> %s", name, desc, st))
			switch {
			case !live:
				if st.Code != codes.NotFound {
					fail("ModifyColumnFamilies on a non-existent table: got " + st.String() + " want NotFound")
					return
				}
			case valid:
				if !st.OK() {
					fail("valid ModifyColumnFamilies rejected: " + st.String())
					return
				}
				if g, w := famString(famsFromProto(res)), famString(after.Families); g != w {
					fail("ModifyColumnFamilies response families: got " + g + " want " + w)
					return
				}
				reg[name] = after
				if removedCells {
					sawDropRemoved = true
				}
			default:
				if st.OK() {
					fail("ModifyColumnFamilies with a failing modification was acknowledged")
					return
				}
				if nm > 1 {
					sawFailedMulti = true
				}
				// all-or-nothing: model unchanged; checked below
			}
		case k < 12: // DropRowRange
			req := &btapb.DropRowRangeRequest{Name: name}
			all := r.Chance(1, 5)
			prefix := common.Pick(r, c14Prefix)
			if all {
				req.Target = &btapb.DropRowRangeRequest_DeleteAllDataFromTable{DeleteAllDataFromTable: true}
			} else {
				req.Target = &btapb.DropRowRangeRequest_RowKeyPrefix{RowKeyPrefix: []byte(prefix)}
			}
			ctx, cancel := drive.Ctx()
			_, err := srv.Admin.DropRowRange(ctx, req)
			cancel()
			st := drive.StatusOf(err)
			steps = append(steps, fmt.Sprintf("DropRowRange(%s, all=%v prefix=%q) -> %s", name, all, prefix, st))
			switch {
			case !live:
				if st.Code != codes.NotFound {
					fail("DropRowRange on a non-existent table: got " + st.String() + " want NotFound")
					return
				}
			case !all && prefix == "":
				if st.OK() {
					m.Rows = map[string]map[string]map[string]map[int64]string{}
				}
			default:
				if !st.OK() {
					fail("DropRowRange failed: " + st.String())
					return
				}
				before := len(m.Rows)
				for key := range m.Rows {
					if all || strings.HasPrefix(key, prefix) {
						delete(m.Rows, key)
					}
				}
				if !all && len(m.Rows) < before && len(m.Rows) > 0 {
					sawPartialPrefix = true
				}
			}
		default: // data: MutateRow, or ReadModifyWriteRow appends (a different write path in the server)
			for rep := 0; rep < 3; rep++ {
				key := common.Pick(r, c14Keys)
				if r.Chance(1, 3) {
					var fs []string
					for f := range m0Families(m) {
						fs = append(fs, f)
					}
					sort.Strings(fs)
					var rules []drive.Rule
					for i, n := 0, r.Range(1, 2); i < n; i++ {
						fam := common.Pick(r, c14FamPool)
						if len(fs) > 0 && r.Chance(3, 4) {
							fam = common.Pick(r, fs)
						}
						rules = append(rules, drive.Rule{Fam: fam, Qual: common.Pick(r, []string{"q", "log"}), Append: true, Val: fmt.Sprint("+", s)})
					}
					st, _ := drive.ReadModifyWrite(srv.Data, name, key, rules)
					steps = append(steps, fmt.Sprintf("ReadModifyWriteRow(%s,%q,%v) -> %s", name, key, rules, st))
					if !live {
						if st.Code != codes.NotFound {
							fail("ReadModifyWriteRow on a non-existent table: got " + st.String() + " want NotFound")
							return
						}
						continue
					}
					v, nr, _ := m.RMW(key, toModelRules(rules), gen.BaseClock)
					if (v == model.MustOK && !st.OK()) || (v == model.MustErr && st.OK()) {
						fail(fmt.Sprintf("ReadModifyWriteRow: expected %s got %s", v, st))
						return
					}
					if st.OK() {
						m.Commit(key, nr)
						run.Count("rows_written_through_read_modify_write", 1)
					}
					continue
				}
				var muts []model.Mut
				nmu := r.Range(1, 4)
				for i := 0; i < nmu; i++ {
					mu := gen.Mutation(r, gen.Opts{})
					if r.Chance(2, 3) {
						mu = model.Mut{Kind: model.SetCell, Qual: common.Pick(r, gen.Quals), TS: common.Pick(r, gen.GoodTS), Val: common.Pick(r, gen.Vals)}
					}
					if mu.Kind != model.DelRow {
						mu.Fam = common.Pick(r, c14FamPool)
						if live && r.Chance(3, 4) {
							for f := range m.Families { // any existing family (map order is irrelevant: the choice is re-made below)
								_ = f
							}
							var fs []string
							for f := range m.Families {
								fs = append(fs, f)
							}
							sort.Strings(fs)
							if len(fs) > 0 {
								mu.Fam = common.Pick(r, fs)
							}
						}
					}
					muts = append(muts, mu)
				}
				st := drive.MutateRow(srv.Data, name, key, muts)
				steps = append(steps, fmt.Sprintf("MutateRow(%s,%q,%s) -> %s", name, key, model.MutsString(muts), st))
				if !live {
					if st.Code != codes.NotFound {
						fail("MutateRow on a non-existent table: got " + st.String() + " want NotFound")
						return
					}
				} else {
					v, nr := m.Apply(key, muts, gen.BaseClock)
					if (v == model.MustOK && !st.OK()) || (v == model.MustErr && st.OK()) {
						fail(fmt.Sprintf("MutateRow: expected %s got %s", v, st))
						return
					}
					if st.OK() {
						m.Commit(key, nr)
					}
				}
			}
		}
		run.Count("requests", 1)
		if msg := c14CheckAll(srv, reg); msg != "" {
			fail("after step " + fmt.Sprint(s) + ": " + msg)
			return
		}
	}
	score := 0
	for _, b := range []bool{sawFailedMulti, sawDropRemoved, sawPartialPrefix, sawRecreate} {
		if b {
			score++
		}
	}
	run.Case(common.Hash64(fmt.Sprint(steps), engine), score >= 3)
	for name, b := range map[string]bool{"programs_with_failed_multi_modification": sawFailedMulti, "programs_with_family_drop_removing_cells": sawDropRemoved, "programs_with_partial_prefix_drop": sawPartialPrefix, "programs_with_delete_and_recreate": sawRecreate} {
		if b {
			run.Count(name, 1)
		}
	}
	if prog < 1 && engine == "btree" {
		run.Sample(map[string]any{"engine": engine, "steps": steps[:min(len(steps), 8)]})
	}
	_ = btpb.ReadRowsRequest{}
}

package main

import (
	"fmt"
	"sort"
	"strings"

	btapb "cloud.google.com/go/bigtable/admin/apiv2/adminpb"
	btpb "cloud.google.com/go/bigtable/apiv2/bigtablepb"

	"verif/bt/drive"
	"verif/bt/gen"
	"verif/bt/model"
	"verif/common"
)

func init() { register("C17", "exploration", runC17) }

func runC17(run *common.Run) {
	run.Rule = "case = one generated sequential program (60-150 requests: MutateRow, MutateRows, ReadRows with row sets, limits and filter trees incl. ones that fail only on some rows, CheckAndMutateRow, ReadModifyWriteRow, SampleRowKeys, CreateTable/DeleteTable/re-create, ModifyColumnFamilies, DropRowRange prefix/all) sent request by request to three servers (btree, leveldb-mem, leveldb-disk) under the same injected clock; every response is canonicalised (status code + message, rows and cells in served order, per-entry statuses, predicate result, RMW row, table definitions; SampleRowKeys reduced to 'last key') and compared pairwise. No reference model is involved. Non-trivial = the program contained a scan that failed part-way, a limit-truncated scan, a drop/clear and a re-created table; distinct by program."
	run.Assumptions = []string{"row-sample filters are excluded (random by design)", "SampleRowKeys picks are random by design: only the final key is compared"}
	j := common.NewJournal("C17")
	nprog := run.N(400, 6000)
	common.Parallel(nprog, workers(), func(i int) {
		if !run.Want("prog", i) || run.TooMany() {
			return
		}
		j.Begin(i%64, fmt.Sprintf("C17 prog case=%d", i))
		c17Program(run, i)
		j.End(i % 64)
	})
	nbig := run.N(12, 200)
	common.Parallel(nbig, workers(), func(i int) {
		if !run.Want("big", i) || run.TooMany() {
			return
		}
		j.Begin(i%64, fmt.Sprintf("C17 big case=%d", i))
		c17Big(run, i)
		j.End(i % 64)
	})
}

// c17Big: the same comparison on tables of several hundred rows, so that engine-specific batching, early stop,
// limit and range handling over long iterations are exercised (scans that fail on one early row, limits deep in the
// table, ranges, prefix drops, sampling).
func c17Big(run *common.Run, idx int) {
	r := run.Rand("C17.big", idx)
	var srvs []*drive.Srv
	for _, e := range drive.Engines {
		s, err := drive.Start(e, gen.BaseClock, "")
		if err != nil {
			run.Violation("big", idx, "cannot start server: "+err.Error(), nil)
			return
		}
		defer s.Close(true)
		srvs = append(srvs, s)
	}
	N := r.Range(300, 1500)
	key := func(i int) string { return fmt.Sprintf("row-%04d", i) }
	var steps []string
	compare := func(desc string, do func(sv *drive.Srv) string) bool {
		var outs []string
		for _, sv := range srvs {
			outs = append(outs, do(sv))
		}
		steps = append(steps, desc+" -> "+truncStr(outs[0], 200))
		run.Count("requests_compared", 1)
		for i := 1; i < len(outs); i++ {
			if outs[i] != outs[0] {
				run.Violation("big", idx, fmt.Sprintf("engines disagree on %s (table of %d rows): %s answered %s but %s answered %s", desc, N, drive.Engines[0], truncStr(outs[0], 500), drive.Engines[i], truncStr(outs[i], 500)), map[string]any{"steps": steps})
				return false
			}
		}
		return true
	}
	name := drive.TableName(drive.Parent, "big")
	if !compare("CreateTable", func(sv *drive.Srv) string {
		return drive.CreateTable(sv.Admin, drive.Parent, "big", map[string]*model.GcRule{"f1": nil, "f2": nil}).String()
	}) {
		return
	}
	for lo := 0; lo < N; lo += 400 {
		var entries []drive.Entry
		for i := lo; i < lo+400 && i < N; i++ {
			muts := []model.Mut{{Kind: model.SetCell, Fam: "f1", Qual: "q", TS: 1000, Val: fmt.Sprint("v", i%7)}}
			if i%3 == 0 {
				muts = append(muts, model.Mut{Kind: model.SetCell, Fam: "f2", Qual: "", TS: 2000, Val: "x"})
			}
			entries = append(entries, drive.Entry{Key: key(i), Muts: muts})
		}
		if !compare("MutateRows(load)", func(sv *drive.Srv) string {
			st, per, mal := drive.MutateRows(sv.Data, name, entries)
			bad := 0
			for _, p := range per {
				if !p.OK() {
					bad++
				}
			}
			return fmt.Sprintf("%s bad=%d %s", st, bad, mal)
		}) {
			return
		}
	}
	summarize := func(res drive.ReadResult) string {
		// long results are compared by status, count, hash of all cells, and the first/last keys
		if !res.OK() {
			return fmt.Sprintf("%s|%s|rows=%d", res.Code, res.Msg, 0)
		}
		first, last := "", ""
		if len(res.Rows) > 0 {
			first, last = res.Rows[0].Key, res.Rows[len(res.Rows)-1].Key
		}
		return fmt.Sprintf("OK|%s|rows=%d first=%q last=%q hash=%x", res.Malformed, len(res.Rows), first, last, common.Hash64(model.RowsString(res.Rows)))
	}
	nsteps := r.Range(15, 30)
	for s := 0; s < nsteps; s++ {
		var req *btpb.ReadRowsRequest
		desc := ""
		switch r.Intn(8) {
		case 0, 1: // a filter that fails only on one row somewhere in the table
			bad := gen.Leaf(r, c12Ctx, 100)
			for bad.Kind == "sample" {
				bad = gen.Leaf(r, c12Ctx, 100)
			}
			at := r.Intn(N)
			f := &model.Filter{Kind: "cond", Pred: &model.Filter{Kind: "rowkey", Re: model.Lit(key(at))}, T: bad, F: &model.Filter{Kind: "pass", Flag: true}}
			req = &btpb.ReadRowsRequest{TableName: name, Filter: drive.FilterToProto(f)}
			if r.Bool() {
				lo := r.Intn(N)
				req.Rows = &btpb.RowSet{RowRanges: []*btpb.RowRange{{StartKey: &btpb.RowRange_StartKeyClosed{StartKeyClosed: []byte(key(lo))}}}}
			}
			desc = fmt.Sprintf("ReadRows(filter failing only on %s: %s)", key(at), f)
		case 2, 3:
			limit := int64(common.Pick(r, []int{1, 2, 100, 255, 256, 257, 300, 512, 1024, 1025, N - 1, N}))
			req = &btpb.ReadRowsRequest{TableName: name, RowsLimit: limit}
			if r.Bool() {
				req.Filter = drive.FilterToProto(&model.Filter{Kind: "value", Re: model.Lit(fmt.Sprint("v", r.Intn(7)))})
			}
			desc = fmt.Sprintf("ReadRows(limit=%d filter=%v)", limit, req.Filter != nil)
		case 4, 5:
			lo, hi := r.Intn(N), r.Intn(N)
			if lo > hi {
				lo, hi = hi, lo
			}
			req = &btpb.ReadRowsRequest{TableName: name, Rows: &btpb.RowSet{RowRanges: []*btpb.RowRange{{StartKey: &btpb.RowRange_StartKeyOpen{StartKeyOpen: []byte(key(lo))}, EndKey: &btpb.RowRange_EndKeyClosed{EndKeyClosed: []byte(key(hi))}}}, RowKeys: [][]byte{[]byte(key(r.Intn(N)))}}}
			desc = fmt.Sprintf("ReadRows(range (%d,%d] + key)", lo, hi)
		case 6:
			prefix := fmt.Sprintf("row-%02d", r.Intn(N/100+1))
			if !compare(fmt.Sprintf("DropRowRange(%q)", prefix), func(sv *drive.Srv) string {
				c, cancel := drive.Ctx()
				defer cancel()
				_, err := sv.Admin.DropRowRange(c, &btapb.DropRowRangeRequest{Name: name, Target: &btapb.DropRowRangeRequest_RowKeyPrefix{RowKeyPrefix: []byte(prefix)}})
				return drive.StatusOf(err).String()
			}) {
				return
			}
			req = &btpb.ReadRowsRequest{TableName: name}
			desc = "ReadRows(all, after prefix drop)"
		default:
			if !compare("SampleRowKeys", func(sv *drive.Srv) string {
				st, keys, _ := drive.SampleRowKeys(sv.Data, name)
				last := ""
				if len(keys) > 0 {
					last = keys[len(keys)-1]
				}
				return fmt.Sprintf("%s last=%q", st, last)
			}) {
				return
			}
			continue
		}
		if !compare(desc, func(sv *drive.Srv) string { return summarize(drive.ReadRows(sv.Data, req)) }) {
			return
		}
	}
	run.Case(common.Hash64("big", fmt.Sprint(steps)), true)
	run.Count("big_table_programs", 1)
	if idx < 1 {
		run.Sample(steps[len(steps)-min(len(steps), 6):])
	}
}

func canonRows(res drive.ReadResult) string {
	s := fmt.Sprintf("%s|%s|%s|", res.Code, res.Msg, res.Malformed)
	if !res.OK() {
		return s // rows streamed before a failure are not part of the comparison (none are, with small tables)
	}
	return s + model.RowsString(res.Rows)
}

func c17Program(run *common.Run, prog int) {
	r := run.Rand("C17.prog", prog)
	clock := gen.BaseClock
	var srvs []*drive.Srv
	engines := drive.Engines
	if !drive.DiskEngineAvailable() {
		// the emulator leaks the descriptors of every deleted on-disk table until the process exits
		engines = engines[:2]
		run.Count("programs_without_disk_engine_for_descriptor_budget", 1)
	}
	for _, e := range engines {
		s, err := drive.Start(e, clock, "")
		if err != nil {
			run.Violation("prog", prog, "cannot start server: "+err.Error(), nil)
			return
		}
		defer s.Close(true)
		srvs = append(srvs, s)
	}
	ids := []string{"t", "u"}
	famPool := []string{"f1", "f2", "g"}
	ctx := gen.FilterCtx{Keys: gen.Keys, Fams: famPool, Quals: gen.Quals, Vals: gen.Vals, TSs: []int64{0, 1000, 2000, 3000}, MaxCells: 6}
	// data shape of the program: colliding small universe (default), wide columns (64 timestamps in 4 columns) or
	// many columns (54 qualifiers)
	shape := gen.Opts{}
	switch prog % 8 {
	case 3, 7:
		shape.Wide = 64
		run.Count("wide_column_programs", 1)
	case 5:
		pool := []string{""}
		for c := 0; c < 50; c++ {
			pool = append(pool, fmt.Sprintf("c%02d", c*2))
		}
		shape = gen.Opts{Wide: 4, QualPool: append(pool, "c31", "c33", "c35")}
		run.Count("many_column_programs", 1)
	}
	opts := func(invalidPct int) gen.Opts { o := shape; o.InvalidPct = invalidPct; return o }
	var steps []string
	var sawPartialFail, sawLimit, sawDrop, sawRecreate bool
	created := map[string]int{}
	// each step is a function from server to canonical response
	n := r.Range(60, 150)
	for s := 0; s < n; s++ {
		id := common.Pick(r, ids)
		name := drive.TableName(drive.Parent, id)
		var desc string
		var do func(sv *drive.Srv) string
		switch k := r.Intn(43); {
		case k >= 40 && s >= 2:
			// hammer: a run of consecutive writes to ONE row of one table through all four write RPCs, the stored row
			// growing across the size thresholds of the engines' buffers and caches (values of 8 B - 40 KB), or a
			// long run of increments (hundreds of versions); every sub-response and the row read back are compared
			key := common.Pick(r, gen.Keys)
			fam := common.Pick(r, famPool)
			type sub struct {
				kind int
				size int
				ts   int64
			}
			var subs []sub
			if r.Chance(1, 4) {
				for i, n := 0, r.Range(260, 420); i < n; i++ {
					subs = append(subs, sub{kind: 3})
				}
			} else {
				for i, n := 0, r.Range(3, 8); i < n; i++ {
					subs = append(subs, sub{kind: r.Intn(5), size: common.Pick(r, []int{8, 1000, 3000, 4200, 9000, 40000}), ts: common.Pick(r, []int64{-1, 1000, 2000, int64(i) * 1000})})
				}
			}
			desc = fmt.Sprintf("Hammer(%s,%q,%s,%v)", id, key, fam, subs[:min(len(subs), 8)])
			run.Count("hammer_steps", 1)
			do = func(sv *drive.Srv) string {
				var out []string
				for i, sb := range subs {
					val := strings.Repeat(string(rune('a'+i%26)), sb.size)
					switch sb.kind {
					case 0:
						out = append(out, drive.MutateRow(sv.Data, name, key, []model.Mut{{Kind: model.SetCell, Fam: fam, Qual: "h", TS: sb.ts, Val: val}}).String())
					case 1:
						st, per, mal := drive.MutateRows(sv.Data, name, []drive.Entry{{Key: key, Muts: []model.Mut{{Kind: model.SetCell, Fam: fam, Qual: "h2", TS: sb.ts, Val: val}}}})
						out = append(out, fmt.Sprintf("%s %v %s", st, per, mal))
					case 2:
						st, m := drive.CheckAndMutate(sv.Data, name, key, nil, []model.Mut{{Kind: model.SetCell, Fam: fam, Qual: "h", TS: sb.ts, Val: val}}, []model.Mut{{Kind: model.SetCell, Fam: fam, Qual: "h3", TS: sb.ts, Val: val}})
						out = append(out, fmt.Sprintf("%s matched=%v", st, m))
					case 3:
						st, row := drive.ReadModifyWrite(sv.Data, name, key, []drive.Rule{{Fam: fam, Qual: "ctr", Inc: 1}})
						out = append(out, fmt.Sprintf("%s %s", st, row))
					default:
						st, row := drive.ReadModifyWrite(sv.Data, name, key, []drive.Rule{{Fam: fam, Qual: "app", Append: true, Val: val}})
						out = append(out, fmt.Sprintf("%s %x", st, common.Hash64(fmt.Sprint(row))))
					}
				}
				res := drive.ReadRows(sv.Data, &btpb.ReadRowsRequest{TableName: name, Rows: drive.RowSetToProto(model.RowSet{Keys: []string{key}})})
				return strings.Join(out, " | ") + " || " + canonRows(res)
			}
		case k < 2 || (s < 2):
			fams := map[string]*model.GcRule{}
			for _, f := range famPool {
				if r.Chance(4, 5) {
					fams[f] = nil
				}
			}
			if s < 2 {
				id = ids[s]
				name = drive.TableName(drive.Parent, id)
			}
			desc = fmt.Sprintf("CreateTable(%s,%s)", id, famString(fams))
			created[id]++
			if created[id] > 1 {
				sawRecreate = true
			}
			if len(srvs) == 3 {
				drive.NoteDiskTables(1)
			}
			pid := id
			do = func(sv *drive.Srv) string { return drive.CreateTable(sv.Admin, drive.Parent, pid, fams).String() }
		case k < 3:
			desc = fmt.Sprintf("DeleteTable(%s)", id)
			do = func(sv *drive.Srv) string {
				c, cancel := drive.Ctx()
				defer cancel()
				_, err := sv.Admin.DeleteTable(c, &btapb.DeleteTableRequest{Name: name})
				return drive.StatusOf(err).String()
			}
		case k < 5:
			var mods []*btapb.ModifyColumnFamiliesRequest_Modification
			nm := r.Range(1, 3)
			for i := 0; i < nm; i++ {
				f := common.Pick(r, famPool)
				switch r.Intn(3) {
				case 0:
					mods = append(mods, &btapb.ModifyColumnFamiliesRequest_Modification{Id: f, Mod: &btapb.ModifyColumnFamiliesRequest_Modification_Create{Create: &btapb.ColumnFamily{}}})
				case 1:
					mods = append(mods, &btapb.ModifyColumnFamiliesRequest_Modification{Id: f, Mod: &btapb.ModifyColumnFamiliesRequest_Modification_Update{Update: &btapb.ColumnFamily{GcRule: drive.GcToProto(&model.GcRule{Kind: model.GcMaxVersions, N: 2})}}})
				default:
					mods = append(mods, &btapb.ModifyColumnFamiliesRequest_Modification{Id: f, Mod: &btapb.ModifyColumnFamiliesRequest_Modification_Drop{Drop: true}})
				}
			}
			desc = fmt.Sprintf("ModifyColumnFamilies(%s,%v)", id, mods)
			do = func(sv *drive.Srv) string {
				c, cancel := drive.Ctx()
				defer cancel()
				t, err := sv.Admin.ModifyColumnFamilies(c, &btapb.ModifyColumnFamiliesRequest{Name: name, Modifications: mods})
				if err != nil {
					return drive.StatusOf(err).String()
				}
				return "OK " + famString(famsFromProto(t))
			}
		case k < 8:
			all := r.Chance(1, 3)
			prefix := common.Pick(r, []string{"a", "a\x00", "ab", "b", "\xff", "zz", "a\xff", "L", gen.LongKey1[:150], gen.LongKey3})
			desc = fmt.Sprintf("DropRowRange(%s,all=%v,%q)", id, all, prefix)
			sawDrop = true
			do = func(sv *drive.Srv) string {
				req := &btapb.DropRowRangeRequest{Name: name}
				if all {
					req.Target = &btapb.DropRowRangeRequest_DeleteAllDataFromTable{DeleteAllDataFromTable: true}
				} else {
					req.Target = &btapb.DropRowRangeRequest_RowKeyPrefix{RowKeyPrefix: []byte(prefix)}
				}
				c, cancel := drive.Ctx()
				defer cancel()
				_, err := sv.Admin.DropRowRange(c, req)
				return drive.StatusOf(err).String()
			}
		case k < 18:
			key := common.Pick(r, gen.Keys)
			muts := gen.Mutations(r, opts(5), 1, 4+shape.Wide/8)
			for i := range muts {
				if muts[i].Fam != "" && r.Chance(1, 4) {
					muts[i].Fam = "g"
				}
			}
			desc = fmt.Sprintf("MutateRow(%s,%q,%s)", id, key, model.MutsString(muts))
			do = func(sv *drive.Srv) string { return drive.MutateRow(sv.Data, name, key, muts).String() }
		case k < 22:
			var entries []drive.Entry
			ne := r.Range(1, 4)
			for i := 0; i < ne; i++ {
				entries = append(entries, drive.Entry{Key: common.Pick(r, gen.Keys), Muts: gen.Mutations(r, opts(8), 1, 3+shape.Wide/16)})
			}
			desc = fmt.Sprintf("MutateRows(%s,%d entries)", id, ne)
			for _, e := range entries {
				desc += fmt.Sprintf(" %q:%s", e.Key, model.MutsString(e.Muts))
			}
			do = func(sv *drive.Srv) string {
				st, per, mal := drive.MutateRows(sv.Data, name, entries)
				return fmt.Sprintf("%s %v %s", st, per, mal)
			}
		case k < 25:
			key := common.Pick(r, gen.Keys)
			var pred *model.Filter
			if r.Chance(4, 5) {
				pred = c17Tree(r, ctx, 3)
			}
			tm, fm := gen.Mutations(r, opts(5), 0, 3), gen.Mutations(r, opts(5), 0, 3)
			desc = fmt.Sprintf("CheckAndMutateRow(%s,%q,%s,%s,%s)", id, key, pred, model.MutsString(tm), model.MutsString(fm))
			do = func(sv *drive.Srv) string {
				st, m := drive.CheckAndMutate(sv.Data, name, key, pred, tm, fm)
				return fmt.Sprintf("%s matched=%v", st, m)
			}
		case k < 28:
			key := common.Pick(r, gen.Keys)
			rules := gen.Rules(r, 8, 0, 4)
			desc = fmt.Sprintf("ReadModifyWriteRow(%s,%q,%v)", id, key, rules)
			do = func(sv *drive.Srv) string {
				st, row := drive.ReadModifyWrite(sv.Data, name, key, rules)
				return fmt.Sprintf("%s %s", st, row)
			}
		case k < 29:
			desc = fmt.Sprintf("SampleRowKeys(%s)", id)
			do = func(sv *drive.Srv) string {
				st, keys, _ := drive.SampleRowKeys(sv.Data, name)
				last := ""
				if len(keys) > 0 {
					last = keys[len(keys)-1]
				}
				return fmt.Sprintf("%s last=%q any=%v", st, last, len(keys) > 0)
			}
		case k < 30:
			desc = fmt.Sprintf("GetTable(%s)+ListTables", id)
			do = func(sv *drive.Srv) string {
				c, cancel := drive.Ctx()
				defer cancel()
				t, err := sv.Admin.GetTable(c, &btapb.GetTableRequest{Name: name})
				l, err2 := sv.Admin.ListTables(c, &btapb.ListTablesRequest{Parent: drive.Parent})
				var names []string
				for _, x := range l.GetTables() {
					names = append(names, x.Name)
				}
				sort.Strings(names)
				out := drive.StatusOf(err).String() + " " + drive.StatusOf(err2).String() + " " + strings.Join(names, ",")
				if err == nil {
					out += " " + famString(famsFromProto(t))
				}
				return out
			}
		default: // ReadRows
			var rs model.RowSet
			switch r.Intn(4) {
			case 0:
				rs.Absent = true
			default:
				nr := r.Range(0, 3)
				for i := 0; i < nr; i++ {
					rs.Ranges = append(rs.Ranges, c03Range(r.Intn(c03NR)))
				}
				nk := r.Range(0, 2)
				for i := 0; i < nk; i++ {
					rs.Keys = append(rs.Keys, common.Pick(r, gen.Keys))
				}
			}
			var f *model.Filter
			if r.Chance(2, 3) {
				f = c17Tree(r, ctx, 3)
			}
			limit := common.Pick(r, []int64{0, 0, 1, 2, 5})
			desc = fmt.Sprintf("ReadRows(%s,%s,filter=%s,limit=%d)", id, rowSetString(rs), f, limit)
			do = func(sv *drive.Srv) string {
				res := drive.ReadRows(sv.Data, &btpb.ReadRowsRequest{TableName: name, Rows: drive.RowSetToProto(rs), Filter: drive.FilterToProto(f), RowsLimit: limit})
				if limit > 0 && res.OK() && int64(len(res.Rows)) == limit {
					sawLimit = true
				}
				if !res.OK() && model.HasInvalid(f) && !rs.Inverted() {
					sawPartialFail = true
				}
				return canonRows(res)
			}
		}
		var outs []string
		for _, sv := range srvs {
			outs = append(outs, do(sv))
		}
		steps = append(steps, desc+" -> "+truncStr(outs[0], 300))
		run.Count("requests_compared", 1)
		for i := 1; i < len(outs); i++ {
			if outs[i] != outs[0] {
				run.Violation("prog", prog, fmt.Sprintf("engines disagree on step %d %s: %s answered %s but %s answered %s", s, desc, drive.Engines[0], truncStr(outs[0], 600), drive.Engines[i], truncStr(outs[i], 600)),
					map[string]any{"steps": steps, "responses": outs})
				return
			}
		}
	}
	score := 0
	for _, b := range []bool{sawPartialFail, sawLimit, sawDrop, sawRecreate} {
		if b {
			score++
		}
	}
	run.Case(common.Hash64(fmt.Sprint(steps)), score >= 3)
	if sawPartialFail {
		run.Count("programs_with_part_way_scan_failure", 1)
	}
	if prog < 2 {
		run.Sample(steps[:min(len(steps), 8)])
	}
}

func truncStr(s string, n int) string {
	if len(s) > n {
		return s[:n] + "..."
	}
	return s
}

// c17Tree generates a filter tree without row-sample filters, with a bias towards filters that fail only on some rows.
func c17Tree(r *common.Rand, ctx gen.FilterCtx, depth int) *model.Filter {
	if r.Chance(1, 6) {
		bad := gen.Leaf(r, ctx, 100)
		for bad.Kind == "sample" {
			bad = gen.Leaf(r, ctx, 100)
		}
		// fails only on the rows whose key matches
		return &model.Filter{Kind: "cond", Pred: &model.Filter{Kind: "rowkey", Re: gen.Regex(r, ctx.Keys, true)}, T: bad, F: &model.Filter{Kind: "pass", Flag: true}}
	}
	for {
		f := gen.Tree(r, ctx, depth, 3)
		if model.CountSamples(f) == 0 && !hasKind(f, "sample") {
			return f
		}
	}
}

func hasKind(f *model.Filter, kind string) bool {
	if f == nil {
		return false
	}
	if f.Kind == kind {
		return true
	}
	for _, s := range f.Subs {
		if hasKind(s, kind) {
			return true
		}
	}
	return hasKind(f.Pred, kind) || hasKind(f.T, kind) || hasKind(f.F, kind)
}

package main

import (
	"fmt"
	"strings"

	"verif/bt/drive"
	"verif/bt/gen"
	"verif/bt/model"
	"verif/common"
)

func init() { register("C01", "exploration", runC01) }

// C01: differential monitor: generated mutation programs against the reference data model, full re-read after every request.
func runC01(run *common.Run) {
	run.Rule = "case = one generated mutation program (20-60 MutateRow/MutateRows requests over 8 colliding row keys, 2+1 families, 5 qualifiers, boundary/invalid timestamps, moving injected clock; every fourth program is a wide-column program: 2 rows x 4 columns, 64 timestamps, up to 12 mutations per request, so columns hold dozens of versions that are overwritten in place and cut by narrow delete ranges; every eighth is a many-column program over 54 qualifiers, so families hold dozens of columns) run on one engine; after every request the whole table and the touched rows are re-read and compared cell-for-cell with the reference model. Part 'bigbatch': MutateRows requests of 1001-2600 entries with invalid entries at PRNG positions (among them 256, 500, 1000, 1001, the last one): one status per entry under its own index, invalid entries rejected and not stored, table equal to the model. Part 'heavy': rows whose cells hold values of 256 KiB ... 1 MiB + 1 in every position, re-read alone and in scans after each write. Non-trivial = the program had at least one delete that removed a cell, one rejected request and one server-time write; distinct by program hash x engine."
	run.Assumptions = []string{"reference model written from the data-model documentation", "family order within a row is unspecified and not compared", "error codes are not compared, only OK vs not-OK"}
	j := common.NewJournal("C01")
	nprog := run.N(600, 6000)
	type job struct {
		prog   int
		engine string
	}
	var jobs []job
	for p := 0; p < nprog; p++ {
		for _, e := range drive.Engines {
			jobs = append(jobs, job{p, e})
		}
	}
	if run.WantSub("prog") {
		common.Parallel(len(jobs), workers(), func(i int) {
			jb := jobs[i]
			idx := jb.prog*3 + engineIndex(jb.engine)
			if !run.Want("prog", idx) || run.TooMany() {
				return
			}
			j.Begin(i%64, fmt.Sprintf("C01 prog case=%d engine=%s seed=%d", idx, jb.engine, run.Seed))
			c01Program(run, jb.prog, jb.engine, idx)
			j.End(i % 64)
		})
	}
	if run.WantSub("heavy") {
		nheavy := run.N(4, 30)
		common.Parallel(nheavy*3, 3, func(i int) {
			if !run.Want("heavy", i) || run.TooMany() {
				return
			}
			j.Begin(i%64, fmt.Sprintf("C01 heavy case=%d seed=%d", i, run.Seed))
			c01Heavy(run, i/3, drive.Engines[i%3], i)
			j.End(i % 64)
		})
	}
	if run.WantSub("bigbatch") && !run.TooMany() {
		// MutateRows requests of 1001-2600 entries with invalid entries at positions below and beyond 256 / 500 / 1000:
		// exactly one status per entry, under the entry's own index; invalid ones rejected and not stored
		bigBatchPart(run, "bigbatch")
	}
	if run.IsThorough() && run.WantSub("exh") {
		c01Exhaustive(run)
	}
}

// c01Heavy: rows whose cells hold values around the sizes at which a server might split or flush a response
// (256 KiB ... 1 MiB + 1), in every position of the row; each row is re-read alone and in scans.
func c01Heavy(run *common.Run, prog int, engine string, idx int) {
	r := run.Rand("C01.heavy", prog)
	srv, err := drive.Start(engine, gen.BaseClock, "")
	if err != nil {
		run.Violation("heavy", idx, "cannot start server: "+err.Error(), nil)
		return
	}
	defer srv.Close(true)
	table := drive.MustTable(srv.Admin, "t", gen.Fams...)
	m := model.NewTable(gen.Fams...)
	sizes := []int{1, 100, 256 << 10, 512 << 10, 1<<20 - 1, 1 << 20, 1<<20 + 1, 700 << 10}
	var steps []string
	fail := func(what string) {
		run.Violation("heavy", idx, what, map[string]any{"engine": engine, "steps": steps})
	}
	nrows := r.Range(3, 6)
	var total int64
	for ri := 0; ri < nrows; ri++ {
		key := fmt.Sprintf("h%d", ri)
		ncells := r.Range(1, 3)
		for c := 0; c < ncells; c++ {
			size := common.Pick(r, sizes)
			if ri == 0 && prog%2 == 0 {
				size = []int{1 << 20, 512 << 10, 512 << 10}[c] // a row that reaches exactly 1 MiB on a cell boundary
			}
			val := strings.Repeat(fmt.Sprintf("%c%c", 'A'+ri, 'a'+c), size/2+1)[:size]
			mu := model.Mut{Kind: model.SetCell, Fam: common.Pick(r, gen.Fams), Qual: common.Pick(r, []string{"", "q", "z"}), TS: int64(r.Intn(3)) * 1000, Val: val}
			verdict, newRow := m.Apply(key, []model.Mut{mu}, gen.BaseClock)
			st := drive.MutateRow(srv.Data, table, key, []model.Mut{mu})
			steps = append(steps, fmt.Sprintf("MutateRow(%q, Set(%s:%q@%d = %d bytes)) -> %s", key, mu.Fam, mu.Qual, mu.TS, size, st))
			if verdict != model.MustOK || !st.OK() {
				fail("valid MutateRow with a large value rejected: " + st.String())
				return
			}
			m.Commit(key, newRow)
			total += int64(size)
			if msg := checkRow(srv.Data, table, key, m); msg != "" {
				fail("after " + steps[len(steps)-1] + ": " + trunc(msg, 600))
				return
			}
		}
		if msg := checkTable(srv.Data, table, m); msg != "" {
			fail(fmt.Sprintf("scan after writing row %q: %s", key, trunc(msg, 600)))
			return
		}
	}
	for _, k := range m.Keys() {
		if msg := checkRow(srv.Data, table, k, m); msg != "" {
			fail("final single-row read: " + trunc(msg, 600))
			return
		}
	}
	run.Case(common.Hash64("heavy", engine, fmt.Sprint(steps)), true)
	run.Count("heavy_value_bytes_written_and_read_back", total)
	run.Count("heavy_programs", 1)
}

func trunc(s string, n int) string {
	if len(s) > n {
		return s[:n] + "..."
	}
	return s
}

func engineIndex(e string) int {
	for i, x := range drive.Engines {
		if x == e {
			return i
		}
	}
	return 0
}

type c01Step struct {
	Req      string `json:"request"`
	Clock    int64  `json:"clock_us"`
	Expect   string `json:"expect"`
	Observed string `json:"observed"`
}

func c01Program(run *common.Run, prog int, engine string, idx int) {
	r := run.Rand("C01.prog", prog) // the same program on every engine
	clock := gen.BaseClock + int64(r.Intn(1000))*1000
	srv, err := drive.Start(engine, clock, "")
	if err != nil {
		run.Violation("prog", idx, "cannot start server: "+err.Error(), nil)
		return
	}
	defer srv.Close(true)
	table := drive.MustTable(srv.Admin, "t", gen.Fams...)
	m := model.NewTable(gen.Fams...)
	o := gen.Opts{InvalidPct: 6}
	nsteps := r.Range(20, 60)
	keys := gen.Keys
	maxMuts := 4
	wide := prog%4 == 3
	if wide {
		// wide-column programs: two rows, 2x2 columns, 64 timestamps, up to 12 mutations per request
		o = gen.Opts{InvalidPct: 1, Wide: 64}
		keys = gen.Keys[:2]
		maxMuts = 12
	}
	if prog%8 == 5 {
		// many-column programs: 2 rows, 50 qualifiers (plus the empty one), mostly SetCells, several per request
		pool := []string{""}
		for c := 0; c < 50; c++ {
			pool = append(pool, fmt.Sprintf("c%02d", c*2))
		}
		pool = append(pool, "c31", "c33", "c35") // odd ones: created late, sort between existing columns
		o = gen.Opts{InvalidPct: 1, Wide: 4, QualPool: pool}
		keys = gen.Keys[:2]
		maxMuts = 16
		run.Count("many_column_programs", 1)
	}
	var steps []c01Step
	var deletesThatRemoved, rejected, serverTime, overwrites int
	fail := func(what string) {
		run.Violation("prog", idx, what, map[string]any{"engine": engine, "steps": steps})
	}
	// every second program is interleaved with unrelated requests for a second, wide table of the same server
	var nz *noise
	nzr := run.Rand("C01.noise", prog)
	if prog%2 == 1 {
		nz = newNoise(srv)
		run.Count("programs_interleaved_with_traffic_for_another_table", 1)
	}
	for s := 0; s < nsteps; s++ {
		if nz != nil && nzr.Chance(1, 2) {
			nz.send(nzr, srv)
		}
		// move the injected clock: forwards, backwards, to non-millisecond values
		switch r.Intn(6) {
		case 0:
			clock += int64(r.Intn(5000))
		case 1:
			clock -= int64(r.Intn(3000))
		case 2:
			clock += 1000 * int64(r.Intn(4))
		}
		srv.SetClock(clock)
		touched := map[string]bool{}
		if r.Chance(2, 3) {
			key := common.Pick(r, keys)
			muts := gen.Mutations(r, o, 1, maxMuts)
			overwrites += countOverwrites(m, key, muts)
			verdict, newRow := m.Apply(key, muts, clock)
			st := drive.MutateRow(srv.Data, table, key, muts)
			step := c01Step{Req: fmt.Sprintf("MutateRow(%q, %s)", key, model.MutsString(muts)), Clock: clock, Expect: verdict.String(), Observed: st.String()}
			steps = append(steps, step)
			touched[key] = true
			if verdict == model.MustOK && !st.OK() {
				fail("valid MutateRow rejected: " + step.Req + " -> " + st.String())
				return
			}
			if verdict == model.MustErr && st.OK() {
				fail("invalid MutateRow acknowledged: " + step.Req)
				return
			}
			if st.OK() {
				before := len(m.RowCells(key))
				m.Commit(key, newRow)
				if hasDelete(muts) && len(m.RowCells(key)) < before {
					deletesThatRemoved++
				}
			} else {
				rejected++
			}
			serverTime += countServerTime(muts)
		} else {
			n := r.Range(1, 5)
			var entries []drive.Entry
			for e := 0; e < n; e++ {
				entries = append(entries, drive.Entry{Key: common.Pick(r, keys), Muts: gen.Mutations(r, o, 1, max(3, maxMuts/2))})
			}
			st, per, malformed := drive.MutateRows(srv.Data, table, entries)
			desc := "MutateRows("
			for _, e := range entries {
				desc += fmt.Sprintf("%q:%s ", e.Key, model.MutsString(e.Muts))
			}
			desc += ")"
			step := c01Step{Req: desc, Clock: clock, Observed: fmt.Sprintf("%s %v", st, per)}
			if !st.OK() {
				steps = append(steps, step)
				fail("MutateRows failed as a whole: " + st.String())
				return
			}
			if malformed != "" {
				steps = append(steps, step)
				fail("MutateRows response malformed: " + malformed)
				return
			}
			// entries are applied in request order, each atomically
			for e, ent := range entries {
				overwrites += countOverwrites(m, ent.Key, ent.Muts)
				verdict, newRow := m.Apply(ent.Key, ent.Muts, clock)
				step.Expect += verdict.String() + " "
				touched[ent.Key] = true
				if verdict == model.MustOK && !per[e].OK() {
					steps = append(steps, step)
					fail(fmt.Sprintf("valid MutateRows entry %d rejected: %s", e, per[e]))
					return
				}
				if verdict == model.MustErr && per[e].OK() {
					steps = append(steps, step)
					fail(fmt.Sprintf("invalid MutateRows entry %d acknowledged", e))
					return
				}
				if per[e].OK() {
					before := len(m.RowCells(ent.Key))
					m.Commit(ent.Key, newRow)
					if hasDelete(ent.Muts) && len(m.RowCells(ent.Key)) < before {
						deletesThatRemoved++
					}
				} else {
					rejected++
				}
				serverTime += countServerTime(ent.Muts)
			}
			steps = append(steps, step)
		}
		run.Count("requests", 1)
		if msg := checkTable(srv.Data, table, m); msg != "" {
			fail("after step " + fmt.Sprint(s) + ": " + msg)
			return
		}
		for k := range touched {
			if msg := checkRow(srv.Data, table, k, m); msg != "" {
				fail("after step " + fmt.Sprint(s) + ": " + msg)
				return
			}
		}
		run.Count("reads_compared", int64(1+len(touched)))
	}
	h := common.Hash64(fmt.Sprint(steps), engine)
	run.Case(h, deletesThatRemoved > 0 && rejected > 0 && serverTime > 0)
	run.Max("max_columns_in_one_family", int64(maxColumns(m)))
	if wide {
		run.Count("wide_programs", 1)
		run.Max("max_versions_in_one_column", int64(maxVersions(m)))
		run.Count("overwrites_of_existing_timestamp", int64(overwrites))
	}
	run.Count("rejected_requests", int64(rejected))
	run.Count("deletes_that_removed_cells", int64(deletesThatRemoved))
	run.Count("server_time_writes", int64(serverTime))
	if prog < 2 && engine == "btree" {
		run.Sample(map[string]any{"engine": engine, "steps": steps[:min(len(steps), 6)]})
	}
}

// countOverwrites: SetCells of the request that hit a (column, timestamp) already stored before the request.
func countOverwrites(m *model.Table, key string, muts []model.Mut) int {
	n := 0
	for _, mu := range muts {
		if mu.Kind == model.SetCell && mu.TS >= 0 {
			if _, ok := m.Rows[key][mu.Fam][mu.Qual][mu.TS]; ok {
				n++
			}
		}
	}
	return n
}

func maxColumns(m *model.Table) int {
	n := 0
	for _, row := range m.Rows {
		for _, fam := range row {
			n = max(n, len(fam))
		}
	}
	return n
}

func maxVersions(m *model.Table) int {
	n := 0
	for _, row := range m.Rows {
		for _, fam := range row {
			for _, col := range fam {
				n = max(n, len(col))
			}
		}
	}
	return n
}

func hasDelete(ms []model.Mut) bool {
	for _, m := range ms {
		if m.Kind != model.SetCell {
			return true
		}
	}
	return false
}

func countServerTime(ms []model.Mut) int {
	n := 0
	for _, m := range ms {
		if m.Kind == model.SetCell && m.TS == -1 {
			n++
		}
	}
	return n
}

// c01Exhaustive: every mutation list of length <= 3 over a tiny alphabet on a one-column row (delete-range arithmetic).
func c01Exhaustive(run *common.Run) {
	tss := []int64{0, 1000, 2000, 3000}
	var alphabet []model.Mut
	for _, ts := range []int64{1000, 2000, 3000} {
		alphabet = append(alphabet, model.Mut{Kind: model.SetCell, Fam: "f1", Qual: "q", TS: ts, Val: fmt.Sprint("v", ts)})
	}
	for _, s := range tss {
		for _, e := range tss {
			alphabet = append(alphabet, model.Mut{Kind: model.DelCol, Fam: "f1", Qual: "q", HasRange: true, Start: s, End: e})
		}
	}
	alphabet = append(alphabet, model.Mut{Kind: model.DelCol, Fam: "f1", Qual: "q"})
	n := len(alphabet)
	total := n + n*n + n*n*n
	for ei, engine := range drive.Engines {
		if !run.Want("exh", ei) {
			continue
		}
		srv, err := drive.Start(engine, gen.BaseClock, "")
		if err != nil {
			run.Violation("exh", ei, "cannot start server: "+err.Error(), nil)
			return
		}
		table := drive.MustTable(srv.Admin, "t", gen.Fams...)
		bad := false
		for code := 0; code < total && !bad; code++ {
			var list []model.Mut
			c := code
			switch {
			case c < n:
				list = []model.Mut{alphabet[c]}
			case c < n+n*n:
				c -= n
				list = []model.Mut{alphabet[c/n], alphabet[c%n]}
			default:
				c -= n + n*n
				list = []model.Mut{alphabet[c/(n*n)], alphabet[(c/n)%n], alphabet[c%n]}
			}
			m := model.NewTable(gen.Fams...)
			// each mutation sent as its own request so that errors are per mutation; start from an empty row
			drive.MutateRow(srv.Data, table, "k", []model.Mut{{Kind: model.DelRow}})
			for _, mu := range list {
				verdict, newRow := m.Apply("k", []model.Mut{mu}, gen.BaseClock)
				st := drive.MutateRow(srv.Data, table, "k", []model.Mut{mu})
				if (verdict == model.MustOK && !st.OK()) || (verdict == model.MustErr && st.OK()) {
					run.Violation("exh", ei, fmt.Sprintf("list %s: %s answered %s, expected %s", model.MutsString(list), mu, st, verdict), map[string]any{"engine": engine, "list": model.MutsString(list)})
					bad = true
					break
				}
				if st.OK() {
					m.Commit("k", newRow)
				}
			}
			if bad {
				break
			}
			if msg := checkRow(srv.Data, table, "k", m); msg != "" {
				run.Violation("exh", ei, fmt.Sprintf("list %s: %s", model.MutsString(list), msg), map[string]any{"engine": engine, "list": model.MutsString(list)})
				bad = true
			}
			run.Case(common.Hash64("exh", engine, fmt.Sprint(code)), len(list) >= 2)
		}
		run.Count("exhaustive_lists", int64(total))
		srv.Close(true)
	}
}

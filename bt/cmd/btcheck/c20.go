package main

import (
	"context"
	"fmt"
	"io"
	"math"
	"os"
	"path/filepath"
	"strings"
	"sync"
	"sync/atomic"
	"time"

	btapb "cloud.google.com/go/bigtable/admin/apiv2/adminpb"
	btpb "cloud.google.com/go/bigtable/apiv2/bigtablepb"
	"google.golang.org/grpc"
	"google.golang.org/grpc/codes"
	"google.golang.org/grpc/encoding"
	"google.golang.org/grpc/status"
	"google.golang.org/protobuf/proto"
	"google.golang.org/protobuf/types/known/durationpb"

	"verif/bt/drive"
	"verif/bt/gen"
	"verif/bt/model"
	"verif/common"
)

func init() { register("C20B", "exploration", runC20B) }

// rawCodec sends and receives pre-serialized bytes, so that byte-level mutations of a request reach the server.
type rawCodec struct{}

func (rawCodec) Marshal(v interface{}) ([]byte, error) { return *(v.(*[]byte)), nil }
func (rawCodec) Unmarshal(data []byte, v interface{}) error {
	*(v.(*[]byte)) = append([]byte(nil), data...)
	return nil
}
func (rawCodec) Name() string { return "proto" } // must look like the proto codec to the server

var _ encoding.Codec = rawCodec{}

var c20DirSeq int64

// c20LongID is a table id longer than a file name may be; replaced by a harmless one while known finding KF05 is open.
var c20LongID = strings.Repeat("n", 300)

type c20Child struct {
	s       *c08Server
	engine  string
	journal string
	probeT  string
	probe   *model.Table
}

func c20Start(tag, engine string, scratch string) (*c20Child, string) {
	dir := ""
	if engine == "ldbdisk" {
		dir = filepath.Join(scratch, fmt.Sprintf("%s-data-%d", tag, atomic.AddInt64(&c20DirSeq, 1)))
		_ = os.MkdirAll(dir, 0o777)
	}
	c, err := spawnChild(tag, "server", engine, dirOrDash(dir), fmt.Sprint(gen.BaseClock))
	if err != nil {
		return nil, err.Error()
	}
	line, err := c.readLine(60 * time.Second)
	if err != nil || !strings.HasPrefix(line, "ADDR ") {
		c.kill()
		return nil, fmt.Sprintf("child did not come up: %v %s", err, c.stderrTail(10))
	}
	srv, err := drive.Connect(strings.TrimPrefix(line, "ADDR "))
	if err != nil {
		c.kill()
		return nil, err.Error()
	}
	ch := &c20Child{s: &c08Server{child: c, srv: srv, dir: dir}, engine: engine, journal: filepath.Join(common.Root(), ".build", "journal-C20B-"+tag+".txt")}
	// probe data: a fixed table that must read back exactly after every case
	ch.probeT = drive.MustTable(srv.Admin, "probe", "f1", "f2")
	ch.probe = model.NewTable("f1", "f2")
	for i := 0; i < 5; i++ {
		muts := []model.Mut{{Kind: model.SetCell, Fam: "f1", Qual: "q", TS: 1000, Val: fmt.Sprint("p", i)}, {Kind: model.SetCell, Fam: "f2", Qual: "", TS: 2000, Val: "\x00\xff"}}
		key := fmt.Sprint("probe", i)
		_, nr := ch.probe.Apply(key, muts, gen.BaseClock)
		if st := drive.MutateRow(srv.Data, ch.probeT, key, muts); !st.OK() {
			ch.stop()
			return nil, "probe set-up failed: " + st.String()
		}
		ch.probe.Commit(key, nr)
	}
	return ch, ""
}

func dirOrDash(d string) string {
	if d == "" {
		return "-"
	}
	return d
}

func (c *c20Child) stop() { c.s.stop() }

// aliveSettled is alive(), but gives a dying child up to 3 s to be reaped (a transport error is usually seen first).
func (c *c20Child) aliveSettled() bool {
	for i := 0; i < 300; i++ {
		if !c.alive() {
			return false
		}
		time.Sleep(10 * time.Millisecond)
	}
	return true
}

func (c *c20Child) alive() bool {
	select {
	case err := <-c.s.child.done:
		c.s.child.done <- err
		return false
	default:
		return true
	}
}

// probeCheck: previously stored data intact and a new valid write + read succeed.
func (c *c20Child) probeCheck(n int) string {
	if msg := checkTable(c.s.srv.Data, c.probeT, c.probe); msg != "" {
		return "probe table changed or unreadable: " + msg
	}
	key := "probe0"
	muts := []model.Mut{{Kind: model.SetCell, Fam: "f2", Qual: "w", TS: 3000, Val: fmt.Sprint("n", n)}}
	_, nr := c.probe.Apply(key, muts, gen.BaseClock)
	if st := drive.MutateRow(c.s.srv.Data, c.probeT, key, muts); !st.OK() {
		return "valid write after the case failed: " + st.String()
	}
	c.probe.Commit(key, nr)
	return ""
}

// c20Case is one hostile request: a description and a function sending it and returning the gRPC code observed.
type c20Case struct {
	desc string
	send func(ctx context.Context, s *drive.Srv) error
}

// c20ThenGC marks a case after whose requests the emulator's own garbage-collection pass is run once over table fz4 (the
// pass the emulator starts by itself every minute on idle tables; here through the hook entry point in the child).
const c20ThenGC = "[then a garbage-collection pass over fz4] "

func drainRows(st btpb.Bigtable_ReadRowsClient, err error) error {
	if err != nil {
		return err
	}
	for {
		_, err := st.Recv()
		if err != nil {
			if err.Error() == "EOF" {
				return nil
			}
			return err
		}
	}
}

func hostileBytes(r *common.Rand) []byte {
	switch r.Intn(8) {
	case 0:
		return nil
	case 1:
		return []byte{}
	case 2:
		return []byte("(")
	case 3:
		return []byte("[\xff-\x00]")
	case 4:
		return r.Bytes(r.Intn(40))
	case 5:
		return []byte(strings.Repeat("(a*)*", 20))
	case 6:
		return []byte("\\C*")
	default:
		return []byte(common.Pick(r, gen.Keys))
	}
}

func hostileInt32(r *common.Rand) int32 {
	return common.Pick(r, []int32{0, 1, -1, math.MaxInt32, math.MinInt32, 2, 1 << 30, -1 << 30})
}

func hostileInt64(r *common.Rand) int64 {
	return common.Pick(r, []int64{0, 1, -1, math.MaxInt64, math.MinInt64, 1000, 999, -1000, 1 << 62})
}

// hostileFilter builds filter trees with nil sub-messages, nil elements and extreme arguments.
func hostileFilter(r *common.Rand, depth int) *btpb.RowFilter {
	if depth <= 0 || r.Chance(1, 3) {
		switch r.Intn(22) {
		case 0:
			return nil
		case 1:
			return &btpb.RowFilter{}
		case 2:
			return &btpb.RowFilter{Filter: &btpb.RowFilter_Chain_{}}
		case 3:
			return &btpb.RowFilter{Filter: &btpb.RowFilter_Interleave_{}}
		case 4:
			return &btpb.RowFilter{Filter: &btpb.RowFilter_Condition_{}}
		case 5:
			return &btpb.RowFilter{Filter: &btpb.RowFilter_ColumnRangeFilter{}}
		case 6:
			return &btpb.RowFilter{Filter: &btpb.RowFilter_TimestampRangeFilter{}}
		case 7:
			return &btpb.RowFilter{Filter: &btpb.RowFilter_ValueRangeFilter{}}
		case 8:
			return &btpb.RowFilter{Filter: &btpb.RowFilter_CellsPerRowLimitFilter{CellsPerRowLimitFilter: hostileInt32(r)}}
		case 9:
			return &btpb.RowFilter{Filter: &btpb.RowFilter_CellsPerRowOffsetFilter{CellsPerRowOffsetFilter: hostileInt32(r)}}
		case 10:
			return &btpb.RowFilter{Filter: &btpb.RowFilter_CellsPerColumnLimitFilter{CellsPerColumnLimitFilter: hostileInt32(r)}}
		case 11:
			return &btpb.RowFilter{Filter: &btpb.RowFilter_RowSampleFilter{RowSampleFilter: common.Pick(r, []float64{0, 1, -1, math.NaN(), math.Inf(1), math.Inf(-1), 0.5, 1e-300})}}
		case 12:
			return &btpb.RowFilter{Filter: &btpb.RowFilter_RowKeyRegexFilter{RowKeyRegexFilter: hostileBytes(r)}}
		case 13:
			return &btpb.RowFilter{Filter: &btpb.RowFilter_ValueRegexFilter{ValueRegexFilter: hostileBytes(r)}}
		case 14:
			return &btpb.RowFilter{Filter: &btpb.RowFilter_ColumnQualifierRegexFilter{ColumnQualifierRegexFilter: hostileBytes(r)}}
		case 15:
			return &btpb.RowFilter{Filter: &btpb.RowFilter_FamilyNameRegexFilter{FamilyNameRegexFilter: common.Pick(r, []string{"", "(", "f1", "[", "f.*", "\\"})}}
		case 16:
			return &btpb.RowFilter{Filter: &btpb.RowFilter_ApplyLabelTransformer{ApplyLabelTransformer: common.Pick(r, []string{"", "UPPER", "a b", strings.Repeat("x", 100), "ok"})}}
		case 17:
			return &btpb.RowFilter{Filter: &btpb.RowFilter_TimestampRangeFilter{TimestampRangeFilter: &btpb.TimestampRange{StartTimestampMicros: hostileInt64(r), EndTimestampMicros: hostileInt64(r)}}}
		case 18:
			return &btpb.RowFilter{Filter: &btpb.RowFilter_Sink{Sink: r.Bool()}}
		case 19:
			return &btpb.RowFilter{Filter: &btpb.RowFilter_StripValueTransformer{StripValueTransformer: r.Bool()}}
		case 20:
			return &btpb.RowFilter{Filter: &btpb.RowFilter_ColumnRangeFilter{ColumnRangeFilter: &btpb.ColumnRange{FamilyName: common.Pick(r, []string{"", "f1", "zz"})}}}
		default:
			return &btpb.RowFilter{Filter: &btpb.RowFilter_PassAllFilter{PassAllFilter: r.Bool()}}
		}
	}
	switch r.Intn(3) {
	case 0:
		c := &btpb.RowFilter_Chain{}
		for i, n := 0, r.Intn(4); i < n; i++ {
			c.Filters = append(c.Filters, hostileFilter(r, depth-1))
		}
		return &btpb.RowFilter{Filter: &btpb.RowFilter_Chain_{Chain: c}}
	case 1:
		c := &btpb.RowFilter_Interleave{}
		for i, n := 0, r.Intn(4); i < n; i++ {
			c.Filters = append(c.Filters, hostileFilter(r, depth-1))
		}
		return &btpb.RowFilter{Filter: &btpb.RowFilter_Interleave_{Interleave: c}}
	default:
		return &btpb.RowFilter{Filter: &btpb.RowFilter_Condition_{Condition: &btpb.RowFilter_Condition{PredicateFilter: hostileFilter(r, depth-1), TrueFilter: hostileFilter(r, depth-1), FalseFilter: hostileFilter(r, depth-1)}}}
	}
}

func hostileMutation(r *common.Rand) *btpb.Mutation {
	switch r.Intn(12) {
	case 0:
		return nil
	case 1:
		return &btpb.Mutation{}
	case 2:
		return &btpb.Mutation{Mutation: &btpb.Mutation_SetCell_{}}
	case 3:
		return &btpb.Mutation{Mutation: &btpb.Mutation_DeleteFromColumn_{}}
	case 4:
		return &btpb.Mutation{Mutation: &btpb.Mutation_DeleteFromFamily_{}}
	case 5:
		return &btpb.Mutation{Mutation: &btpb.Mutation_DeleteFromRow_{}}
	case 6:
		return &btpb.Mutation{Mutation: &btpb.Mutation_SetCell_{SetCell: &btpb.Mutation_SetCell{FamilyName: common.Pick(r, []string{"", "f1", "zz"}), ColumnQualifier: hostileBytes(r), TimestampMicros: hostileInt64(r), Value: hostileBytes(r)}}}
	case 7:
		return &btpb.Mutation{Mutation: &btpb.Mutation_DeleteFromColumn_{DeleteFromColumn: &btpb.Mutation_DeleteFromColumn{FamilyName: common.Pick(r, []string{"", "f1", "zz"}), ColumnQualifier: hostileBytes(r), TimeRange: &btpb.TimestampRange{StartTimestampMicros: hostileInt64(r), EndTimestampMicros: hostileInt64(r)}}}}
	case 8:
		return &btpb.Mutation{Mutation: &btpb.Mutation_AddToCell_{}}
	case 9:
		return &btpb.Mutation{Mutation: &btpb.Mutation_MergeToCell_{}}
	default:
		return drive.MutToProto(gen.Mutation(r, gen.Opts{InvalidPct: 20}))
	}
}

func hostileMutations(r *common.Rand) []*btpb.Mutation {
	var out []*btpb.Mutation
	for i, n := 0, r.Intn(5); i < n; i++ {
		out = append(out, hostileMutation(r))
	}
	return out
}

func hostileTable(r *common.Rand) string {
	return common.Pick(r, []string{drive.TableName(drive.Parent, "fz"), drive.TableName(drive.Parent, "fz"), drive.TableName(drive.Parent, "fz"), "", "nope", drive.TableName(drive.Parent, "missing"), "projects//instances//tables/"})
}

func hostileGc(r *common.Rand, depth int) *btapb.GcRule {
	switch r.Intn(8) {
	case 0:
		return nil
	case 1:
		return &btapb.GcRule{}
	case 2:
		return &btapb.GcRule{Rule: &btapb.GcRule_MaxNumVersions{MaxNumVersions: hostileInt32(r)}}
	case 3:
		return &btapb.GcRule{Rule: &btapb.GcRule_MaxAge{}}
	case 4:
		return &btapb.GcRule{Rule: &btapb.GcRule_MaxAge{MaxAge: &durationpb.Duration{Seconds: hostileInt64(r), Nanos: hostileInt32(r)}}}
	case 5:
		return &btapb.GcRule{Rule: &btapb.GcRule_Union_{}}
	case 6:
		return &btapb.GcRule{Rule: &btapb.GcRule_Intersection_{}}
	default:
		u := &btapb.GcRule_Union{}
		if depth > 0 {
			for i, n := 0, r.Intn(3); i < n; i++ {
				u.Rules = append(u.Rules, hostileGc(r, depth-1))
			}
		}
		return &btapb.GcRule{Rule: &btapb.GcRule_Union_{Union: u}}
	}
}

func hostileRowSet(r *common.Rand) *btpb.RowSet {
	switch r.Intn(6) {
	case 0:
		return nil
	case 1:
		return &btpb.RowSet{}
	case 2:
		return &btpb.RowSet{RowKeys: [][]byte{nil, {}, hostileBytes(r)}}
	case 3:
		return &btpb.RowSet{RowRanges: []*btpb.RowRange{nil, {}}}
	case 4:
		return &btpb.RowSet{RowRanges: []*btpb.RowRange{{StartKey: &btpb.RowRange_StartKeyOpen{StartKeyOpen: hostileBytes(r)}, EndKey: &btpb.RowRange_EndKeyClosed{EndKeyClosed: hostileBytes(r)}}}}
	default:
		return &btpb.RowSet{RowRanges: []*btpb.RowRange{{StartKey: &btpb.RowRange_StartKeyClosed{}, EndKey: &btpb.RowRange_EndKeyOpen{}}}}
	}
}

// c20GenCase generates one structure-level hostile request.
func c20GenCase(r *common.Rand) c20Case {
	tbl := hostileTable(r)
	if r.Chance(1, 12) {
		// a hostile garbage-collection rule is input too: whatever rule a CreateTable / ModifyColumnFamilies request
		// was allowed to install, the pass that later applies it to stored cells must not take the emulator down
		rule := hostileGc(r, 2)
		viaCreate := r.Bool()
		viaUpdate := r.Bool()
		name := drive.TableName(drive.Parent, "fz4")
		return c20Case{c20ThenGC + fmt.Sprintf("re-create fz4 with family h rule=%v (at creation=%v, else by %s); two versions in h:q", rule, viaCreate, map[bool]string{true: "update", false: "create"}[viaUpdate]),
			func(ctx context.Context, s *drive.Srv) error {
				s.Admin.DeleteTable(ctx, &btapb.DeleteTableRequest{Name: name})
				fams := map[string]*btapb.ColumnFamily{"keep": {}}
				if viaCreate {
					fams["h"] = &btapb.ColumnFamily{GcRule: rule}
				} else if viaUpdate {
					fams["h"] = &btapb.ColumnFamily{}
				}
				_, err := s.Admin.CreateTable(ctx, &btapb.CreateTableRequest{Parent: drive.Parent, TableId: "fz4", Table: &btapb.Table{ColumnFamilies: fams}})
				if err != nil && viaCreate {
					// the rule was refused: fine; the table is created without it so that the pass has something to do
					delete(fams, "h")
					s.Admin.CreateTable(ctx, &btapb.CreateTableRequest{Parent: drive.Parent, TableId: "fz4", Table: &btapb.Table{ColumnFamilies: fams}})
				}
				if !viaCreate {
					mod := &btapb.ModifyColumnFamiliesRequest_Modification{Id: "h", Mod: &btapb.ModifyColumnFamiliesRequest_Modification_Create{Create: &btapb.ColumnFamily{GcRule: rule}}}
					if viaUpdate {
						mod.Mod = &btapb.ModifyColumnFamiliesRequest_Modification_Update{Update: &btapb.ColumnFamily{GcRule: rule}}
					}
					_, err = s.Admin.ModifyColumnFamilies(ctx, &btapb.ModifyColumnFamiliesRequest{Name: name, Modifications: []*btapb.ModifyColumnFamiliesRequest_Modification{mod}})
				}
				for _, fam := range []string{"h", "keep"} {
					s.Data.MutateRow(ctx, &btpb.MutateRowRequest{TableName: name, RowKey: []byte("r"), Mutations: drive.MutsToProto([]model.Mut{{Kind: model.SetCell, Fam: fam, Qual: "q", TS: 1000, Val: "a"}, {Kind: model.SetCell, Fam: fam, Qual: "q", TS: 2000, Val: "b"}})})
				}
				return err
			}}
	}
	switch r.Intn(16) {
	case 0, 1, 2:
		req := &btpb.ReadRowsRequest{TableName: tbl, Rows: hostileRowSet(r), Filter: hostileFilter(r, 3), RowsLimit: hostileInt64(r)}
		return c20Case{fmt.Sprintf("ReadRows %v", req), func(ctx context.Context, s *drive.Srv) error { return drainRows(s.Data.ReadRows(ctx, req)) }}
	case 3, 4:
		req := &btpb.MutateRowRequest{TableName: tbl, RowKey: hostileBytes(r), Mutations: hostileMutations(r)}
		return c20Case{fmt.Sprintf("MutateRow %v", req), func(ctx context.Context, s *drive.Srv) error { _, err := s.Data.MutateRow(ctx, req); return err }}
	case 5:
		req := &btpb.MutateRowsRequest{TableName: tbl}
		for i, n := 0, r.Intn(4); i < n; i++ {
			if r.Chance(1, 6) {
				req.Entries = append(req.Entries, nil)
			} else {
				req.Entries = append(req.Entries, &btpb.MutateRowsRequest_Entry{RowKey: hostileBytes(r), Mutations: hostileMutations(r)})
			}
		}
		return c20Case{fmt.Sprintf("MutateRows %v", req), func(ctx context.Context, s *drive.Srv) error {
			st, err := s.Data.MutateRows(ctx, req)
			if err != nil {
				return err
			}
			for {
				if _, err := st.Recv(); err != nil {
					if err.Error() == "EOF" {
						return nil
					}
					return err
				}
			}
		}}
	case 6, 7:
		req := &btpb.CheckAndMutateRowRequest{TableName: tbl, RowKey: hostileBytes(r), PredicateFilter: hostileFilter(r, 2), TrueMutations: hostileMutations(r), FalseMutations: hostileMutations(r)}
		return c20Case{fmt.Sprintf("CheckAndMutateRow %v", req), func(ctx context.Context, s *drive.Srv) error {
			_, err := s.Data.CheckAndMutateRow(ctx, req)
			return err
		}}
	case 8, 9:
		req := &btpb.ReadModifyWriteRowRequest{TableName: tbl, RowKey: hostileBytes(r)}
		for i, n := 0, r.Intn(4); i < n; i++ {
			switch r.Intn(5) {
			case 0:
				req.Rules = append(req.Rules, nil)
			case 1:
				req.Rules = append(req.Rules, &btpb.ReadModifyWriteRule{FamilyName: "f1"})
			case 2:
				req.Rules = append(req.Rules, &btpb.ReadModifyWriteRule{FamilyName: common.Pick(r, []string{"", "f1", "zz"}), ColumnQualifier: hostileBytes(r), Rule: &btpb.ReadModifyWriteRule_IncrementAmount{IncrementAmount: hostileInt64(r)}})
			default:
				req.Rules = append(req.Rules, &btpb.ReadModifyWriteRule{FamilyName: "f1", ColumnQualifier: hostileBytes(r), Rule: &btpb.ReadModifyWriteRule_AppendValue{AppendValue: hostileBytes(r)}})
			}
		}
		return c20Case{fmt.Sprintf("ReadModifyWriteRow %v", req), func(ctx context.Context, s *drive.Srv) error {
			_, err := s.Data.ReadModifyWriteRow(ctx, req)
			return err
		}}
	case 10:
		req := &btpb.SampleRowKeysRequest{TableName: tbl}
		return c20Case{fmt.Sprintf("SampleRowKeys %v", req), func(ctx context.Context, s *drive.Srv) error {
			st, err := s.Data.SampleRowKeys(ctx, req)
			if err != nil {
				return err
			}
			for {
				if _, err := st.Recv(); err != nil {
					if err.Error() == "EOF" {
						return nil
					}
					return err
				}
			}
		}}
	case 11:
		req := &btapb.CreateTableRequest{Parent: common.Pick(r, []string{drive.Parent, "", "x"}), TableId: common.Pick(r, []string{"fz", "fz2", "", "a/b", c20LongID})}
		switch r.Intn(4) {
		case 0:
		case 1:
			req.Table = &btapb.Table{}
		default:
			req.Table = &btapb.Table{ColumnFamilies: map[string]*btapb.ColumnFamily{}}
			for i, n := 0, r.Intn(3); i < n; i++ {
				var cf *btapb.ColumnFamily
				if !r.Chance(1, 5) {
					cf = &btapb.ColumnFamily{GcRule: hostileGc(r, 2)}
				}
				req.Table.ColumnFamilies[common.Pick(r, []string{"f1", "", "zz", "a.b"})] = cf
			}
		}
		return c20Case{fmt.Sprintf("CreateTable %v", req), func(ctx context.Context, s *drive.Srv) error { _, err := s.Admin.CreateTable(ctx, req); return err }}
	case 12:
		req := &btapb.ModifyColumnFamiliesRequest{Name: common.Pick(r, []string{drive.TableName(drive.Parent, "fz2"), drive.TableName(drive.Parent, "fz2"), "nope"})}
		for i, n := 0, r.Intn(4); i < n; i++ {
			switch r.Intn(6) {
			case 0:
				req.Modifications = append(req.Modifications, nil)
			case 1:
				req.Modifications = append(req.Modifications, &btapb.ModifyColumnFamiliesRequest_Modification{Id: "f1"})
			case 2:
				req.Modifications = append(req.Modifications, &btapb.ModifyColumnFamiliesRequest_Modification{Id: common.Pick(r, []string{"f1", "g", ""}), Mod: &btapb.ModifyColumnFamiliesRequest_Modification_Create{}})
			case 3:
				req.Modifications = append(req.Modifications, &btapb.ModifyColumnFamiliesRequest_Modification{Id: common.Pick(r, []string{"f1", "g", ""}), Mod: &btapb.ModifyColumnFamiliesRequest_Modification_Update{}})
			case 4:
				req.Modifications = append(req.Modifications, &btapb.ModifyColumnFamiliesRequest_Modification{Id: common.Pick(r, []string{"f1", "g", ""}), Mod: &btapb.ModifyColumnFamiliesRequest_Modification_Drop{Drop: r.Bool()}})
			default:
				req.Modifications = append(req.Modifications, &btapb.ModifyColumnFamiliesRequest_Modification{Id: common.Pick(r, []string{"f1", "g"}), Mod: &btapb.ModifyColumnFamiliesRequest_Modification_Create{Create: &btapb.ColumnFamily{GcRule: hostileGc(r, 2)}}})
			}
		}
		if r.Chance(1, 2) {
			// several modifications of ONE family in one request, ill-typed ones included (drop=false is encodable: a
			// bool inside a oneof is sent even when false; create/update without a body), against a table that is
			// re-created first so that the family is there: validation and application must agree on what each means
			fam := common.Pick(r, []string{"f1", "g"})
			menu := []func() *btapb.ModifyColumnFamiliesRequest_Modification{
				func() *btapb.ModifyColumnFamiliesRequest_Modification {
					return &btapb.ModifyColumnFamiliesRequest_Modification{Id: fam, Mod: &btapb.ModifyColumnFamiliesRequest_Modification_Drop{Drop: false}}
				},
				func() *btapb.ModifyColumnFamiliesRequest_Modification {
					return &btapb.ModifyColumnFamiliesRequest_Modification{Id: fam, Mod: &btapb.ModifyColumnFamiliesRequest_Modification_Drop{Drop: true}}
				},
				func() *btapb.ModifyColumnFamiliesRequest_Modification {
					return &btapb.ModifyColumnFamiliesRequest_Modification{Id: fam, Mod: &btapb.ModifyColumnFamiliesRequest_Modification_Update{Update: &btapb.ColumnFamily{GcRule: drive.GcToProto(c14RandGc(r))}}}
				},
				func() *btapb.ModifyColumnFamiliesRequest_Modification {
					return &btapb.ModifyColumnFamiliesRequest_Modification{Id: fam, Mod: &btapb.ModifyColumnFamiliesRequest_Modification_Update{}}
				},
				func() *btapb.ModifyColumnFamiliesRequest_Modification {
					return &btapb.ModifyColumnFamiliesRequest_Modification{Id: fam, Mod: &btapb.ModifyColumnFamiliesRequest_Modification_Create{Create: &btapb.ColumnFamily{}}}
				},
				func() *btapb.ModifyColumnFamiliesRequest_Modification {
					return &btapb.ModifyColumnFamiliesRequest_Modification{Id: fam, Mod: &btapb.ModifyColumnFamiliesRequest_Modification_Create{}}
				},
				func() *btapb.ModifyColumnFamiliesRequest_Modification {
					return &btapb.ModifyColumnFamiliesRequest_Modification{Id: fam}
				},
			}
			seq := &btapb.ModifyColumnFamiliesRequest{Name: drive.TableName(drive.Parent, "fz3")}
			for i, n := 0, r.Range(2, 4); i < n; i++ {
				seq.Modifications = append(seq.Modifications, menu[r.Intn(len(menu))]())
			}
			return c20Case{fmt.Sprintf("re-create fz3{f1,g}; ModifyColumnFamilies %v; GetTable", seq), func(ctx context.Context, s *drive.Srv) error {
				s.Admin.DeleteTable(ctx, &btapb.DeleteTableRequest{Name: seq.Name})
				if _, err := s.Admin.CreateTable(ctx, &btapb.CreateTableRequest{Parent: drive.Parent, TableId: "fz3", Table: &btapb.Table{ColumnFamilies: map[string]*btapb.ColumnFamily{"f1": {}, "g": {}}}}); err != nil {
					return err
				}
				_, err := s.Admin.ModifyColumnFamilies(ctx, seq)
				if _, gerr := s.Admin.GetTable(ctx, &btapb.GetTableRequest{Name: seq.Name}); gerr != nil {
					return gerr
				}
				return err
			}}
		}
		return c20Case{fmt.Sprintf("ModifyColumnFamilies %v", req), func(ctx context.Context, s *drive.Srv) error {
			_, err := s.Admin.ModifyColumnFamilies(ctx, req)
			return err
		}}
	case 13:
		req := &btapb.DropRowRangeRequest{Name: common.Pick(r, []string{drive.TableName(drive.Parent, "fz"), "nope", ""})}
		switch r.Intn(4) {
		case 0:
		case 1:
			req.Target = &btapb.DropRowRangeRequest_RowKeyPrefix{RowKeyPrefix: hostileBytes(r)}
		case 2:
			req.Target = &btapb.DropRowRangeRequest_DeleteAllDataFromTable{DeleteAllDataFromTable: r.Bool()}
		default:
			req.Target = &btapb.DropRowRangeRequest_RowKeyPrefix{}
		}
		return c20Case{fmt.Sprintf("DropRowRange %v", req), func(ctx context.Context, s *drive.Srv) error { _, err := s.Admin.DropRowRange(ctx, req); return err }}
	case 14:
		name := common.Pick(r, []string{drive.TableName(drive.Parent, "fz2"), "nope", ""})
		switch r.Intn(4) {
		case 0:
			view := btapb.Table_View(common.Pick(r, []int{0, 1, 2, 3, 4, 5, 99, -1}))
			return c20Case{fmt.Sprintf("GetTable %s view=%d", name, view), func(ctx context.Context, s *drive.Srv) error {
				_, err := s.Admin.GetTable(ctx, &btapb.GetTableRequest{Name: name, View: view})
				return err
			}}
		case 1:
			return c20Case{"DeleteTable " + name, func(ctx context.Context, s *drive.Srv) error {
				_, err := s.Admin.DeleteTable(ctx, &btapb.DeleteTableRequest{Name: name})
				return err
			}}
		case 2:
			return c20Case{"GenerateConsistencyToken " + name, func(ctx context.Context, s *drive.Srv) error {
				_, err := s.Admin.GenerateConsistencyToken(ctx, &btapb.GenerateConsistencyTokenRequest{Name: name})
				return err
			}}
		default:
			tok := common.Pick(r, []string{"", "TokenFor-" + name, "x"})
			return c20Case{"CheckConsistency " + name + " " + tok, func(ctx context.Context, s *drive.Srv) error {
				_, err := s.Admin.CheckConsistency(ctx, &btapb.CheckConsistencyRequest{Name: name, ConsistencyToken: tok})
				return err
			}}
		}
	default:
		parent := common.Pick(r, []string{drive.Parent, "", "projects/p/instances/i2"})
		view := btapb.Table_View(common.Pick(r, []int{0, 1, 2, 3, 4, 5, 99, -1}))
		psize := common.Pick(r, []int32{0, 0, 1, -1, 1 << 30})
		ptok := common.Pick(r, []string{"", "", "x", "\xff\x00"})
		return c20Case{fmt.Sprintf("ListTables %s view=%d page_size=%d page_token=%q", parent, view, psize, ptok), func(ctx context.Context, s *drive.Srv) error {
			_, err := s.Admin.ListTables(ctx, &btapb.ListTablesRequest{Parent: parent, View: view, PageSize: psize, PageToken: ptok})
			return err
		}}
	}
}

var c20Methods = []struct {
	method string
	stream bool
	sample func(r *common.Rand) proto.Message
}{
	{"/google.bigtable.v2.Bigtable/ReadRows", true, func(r *common.Rand) proto.Message {
		return &btpb.ReadRowsRequest{TableName: drive.TableName(drive.Parent, "fz"), Rows: drive.RowSetToProto(model.RowSet{Ranges: []model.Range{c03Range(r.Intn(225))}, Keys: []string{"a"}}), Filter: drive.FilterToProto(gen.Tree(r, c12Ctx, 3, 10)), RowsLimit: 3}
	}},
	{"/google.bigtable.v2.Bigtable/MutateRow", false, func(r *common.Rand) proto.Message {
		return &btpb.MutateRowRequest{TableName: drive.TableName(drive.Parent, "fz"), RowKey: []byte("a"), Mutations: drive.MutsToProto(gen.Mutations(r, gen.Opts{InvalidPct: 10}, 1, 4))}
	}},
	{"/google.bigtable.v2.Bigtable/CheckAndMutateRow", false, func(r *common.Rand) proto.Message {
		return &btpb.CheckAndMutateRowRequest{TableName: drive.TableName(drive.Parent, "fz"), RowKey: []byte("a"), PredicateFilter: drive.FilterToProto(gen.Tree(r, c12Ctx, 2, 10)), TrueMutations: drive.MutsToProto(gen.Mutations(r, gen.Opts{}, 1, 3)), FalseMutations: drive.MutsToProto(gen.Mutations(r, gen.Opts{}, 1, 3))}
	}},
	{"/google.bigtable.v2.Bigtable/ReadModifyWriteRow", false, func(r *common.Rand) proto.Message {
		return &btpb.ReadModifyWriteRowRequest{TableName: drive.TableName(drive.Parent, "fz"), RowKey: []byte("a"), Rules: drive.RulesToProto(gen.Rules(r, 10, 1, 4))}
	}},
	{"/google.bigtable.v2.Bigtable/MutateRows", true, func(r *common.Rand) proto.Message {
		return &btpb.MutateRowsRequest{TableName: drive.TableName(drive.Parent, "fz"), Entries: []*btpb.MutateRowsRequest_Entry{{RowKey: []byte("a"), Mutations: drive.MutsToProto(gen.Mutations(r, gen.Opts{}, 1, 3))}, {RowKey: []byte("b"), Mutations: drive.MutsToProto(gen.Mutations(r, gen.Opts{}, 1, 3))}}}
	}},
	{"/google.bigtable.admin.v2.BigtableTableAdmin/CreateTable", false, func(r *common.Rand) proto.Message {
		return &btapb.CreateTableRequest{Parent: drive.Parent, TableId: "fz3", Table: &btapb.Table{ColumnFamilies: map[string]*btapb.ColumnFamily{"f1": {GcRule: drive.GcToProto(c14RandGc(r))}}}}
	}},
	{"/google.bigtable.admin.v2.BigtableTableAdmin/ModifyColumnFamilies", false, func(r *common.Rand) proto.Message {
		return &btapb.ModifyColumnFamiliesRequest{Name: drive.TableName(drive.Parent, "fz2"), Modifications: []*btapb.ModifyColumnFamiliesRequest_Modification{{Id: "g", Mod: &btapb.ModifyColumnFamiliesRequest_Modification_Create{Create: &btapb.ColumnFamily{GcRule: drive.GcToProto(c14RandGc(r))}}}, {Id: "g", Mod: &btapb.ModifyColumnFamiliesRequest_Modification_Drop{Drop: true}}}}
	}},
	{"/google.bigtable.admin.v2.BigtableTableAdmin/DropRowRange", false, func(r *common.Rand) proto.Message {
		return &btapb.DropRowRangeRequest{Name: drive.TableName(drive.Parent, "fz"), Target: &btapb.DropRowRangeRequest_RowKeyPrefix{RowKeyPrefix: []byte("a")}}
	}},
}

// c20ByteCase mutates the serialized form of a valid request and sends the raw bytes.
func c20ByteCase(r *common.Rand) c20Case {
	m := c20Methods[r.Intn(len(c20Methods))]
	buf, _ := proto.Marshal(m.sample(r))
	nmut := r.Range(1, 4)
	for i := 0; i < nmut && len(buf) > 0; i++ {
		switch r.Intn(5) {
		case 0:
			buf[r.Intn(len(buf))] ^= 1 << uint(r.Intn(8))
		case 1:
			buf = buf[:r.Intn(len(buf))]
		case 2:
			p := r.Intn(len(buf))
			buf = append(buf[:p], append(r.Bytes(r.Range(1, 6)), buf[p:]...)...)
		case 3:
			buf[r.Intn(len(buf))] = common.Pick(r, []byte{0, 0xff, 0x80, 0x7f, 0x01})
		default:
			p := r.Intn(len(buf))
			q := p + r.Intn(len(buf)-p)
			buf = append(buf[:p], buf[q:]...)
		}
	}
	method, stream := m.method, m.stream
	return c20Case{fmt.Sprintf("raw %s %x", method, buf), func(ctx context.Context, s *drive.Srv) error {
		if !stream {
			var out []byte
			return s.Conn.Invoke(ctx, method, &buf, &out, grpc.ForceCodec(rawCodec{}))
		}
		cs, err := s.Conn.NewStream(ctx, &grpc.StreamDesc{ServerStreams: true}, method, grpc.ForceCodec(rawCodec{}))
		if err != nil {
			return err
		}
		if err := cs.SendMsg(&buf); err != nil {
			return err
		}
		_ = cs.CloseSend()
		for {
			var out []byte
			if err := cs.RecvMsg(&out); err != nil {
				if err.Error() == "EOF" {
					return nil
				}
				return err
			}
		}
	}}
}

func runC20B(run *common.Run) {
	run.Rule = "Bigtable half of C20, emulator in child processes built with the race detector. Part 'fuzz': case = one hostile request (structure level: every data and admin RPC with nil sub-messages, nil list elements, empty oneofs, extreme/negative numbers, NaN, random/huge regexes, unknown tables; byte level: bit flips, truncation, insertion, deletion in the serialized form of a valid request, sent through a raw codec) followed by a probe (fixed table reads back exactly, a new write succeeds). Part 'mix': case = one round of concurrent admin+data traffic (create/delete/re-create a table while reading and mutating it; ModifyColumnFamilies while GetTable/CreateTable answers are marshalled; DropRowRange all/prefix while multi-message scans stream; consistency-token calls during create/delete; in every round a client that abandons multi-megabyte scans after 0-2 messages or lets a millisecond deadline expire). Monitors: child exit, panic/fatal text on its stderr, race-detector reports with a frame in the emulator, a gRPC status for every request (transport errors only if the child died), request hang (120 s + goroutine dump), probe. Non-trivial = case answered with an error status (fuzz) / round in which requests of at least three kinds overlapped (mix); distinct by case."
	run.Assumptions = []string{"panics inside gRPC handlers are not recovered by the emulator, so a handler panic is observed as child exit", "the race detector only reports races that happen in the run"}
	scratch, err := os.MkdirTemp("", "verif-c20b-")
	if err != nil {
		run.Violation("setup", 0, err.Error(), nil)
		return
	}
	defer os.RemoveAll(scratch)
	if run.KnownOpen("KF05") {
		c20LongID = strings.Repeat("n", 120)
	}
	run.Canary("KF05", func() (bool, string) {
		ch, msg := c20Start("kf05", "ldbdisk", scratch)
		if ch == nil {
			return false, "cannot start child: " + msg
		}
		defer ch.stop()
		ctx, cancel := drive.Ctx()
		defer cancel()
		_, err := ch.s.srv.Admin.CreateTable(ctx, &btapb.CreateTableRequest{Parent: drive.Parent, TableId: strings.Repeat("n", 300), Table: &btapb.Table{}})
		if status.Code(err) == codes.Unavailable && !ch.aliveSettled() {
			return true, "child emulator died: " + firstPanicLine(ch.s.child.stderrTail(400))
		}
		return false, fmt.Sprint("CreateTable answered ", status.Code(err))
	})
	run.Canary("KF06", func() (bool, string) {
		ch, msg := c20Start("kf06", "btree", scratch)
		if ch == nil {
			return false, "cannot start child: " + msg
		}
		defer ch.stop()
		for round := 0; round < 40; round++ {
			c20MixRound(run, ch, 1000+round, 1)
			if !ch.alive() {
				return true, "child emulator died: " + firstPanicLine(ch.s.child.stderrTail(400))
			}
		}
		return false, "no crash in 40 rounds"
	})
	if run.WantSub("fuzz") {
		c20Fuzz(run, scratch)
	}
	if run.WantSub("mix") && !run.TooMany() {
		c20Mix(run, scratch)
	}
	c20RaceReports(run)
}

func c20Fuzz(run *common.Run, scratch string) {
	total := run.N(4000, 200000)
	nshard := workers()
	per := (total + nshard - 1) / nshard
	var wg sync.WaitGroup
	for sh := 0; sh < nshard; sh++ {
		wg.Add(1)
		go func(sh int) {
			defer wg.Done()
			engine := drive.Engines[sh%3]
			var ch *c20Child
			start := func() bool {
				var msg string
				ch, msg = c20Start(fmt.Sprintf("fz%d", sh), engine, scratch)
				if ch == nil {
					run.Violation("fuzz", sh, "cannot start child: "+msg, nil)
					return false
				}
				drive.MustTable(ch.s.srv.Admin, "fz", "f1", "f2")
				drive.MustTable(ch.s.srv.Admin, "fz2", "f1")
				for _, k := range gen.Keys {
					drive.MutateRow(ch.s.srv.Data, drive.TableName(drive.Parent, "fz"), k, []model.Mut{{Kind: model.SetCell, Fam: "f1", Qual: "q", TS: 1000, Val: "v"}, {Kind: model.SetCell, Fam: "f2", Qual: "", TS: 2000, Val: "12345678"}})
				}
				return true
			}
			if !start() {
				return
			}
			defer func() { ch.stop() }()
			for i := sh * per; i < (sh+1)*per && i < total; i++ {
				if !run.Want("fuzz", i) || run.TooMany() {
					continue
				}
				r := run.Rand("C20B.fuzz", i)
				var c c20Case
				if r.Chance(2, 5) {
					c = c20ByteCase(r)
					for engine == "ldbdisk" && run.KnownOpen("KF05") && strings.Contains(c.desc, "/CreateTable ") {
						// KF05: a mutated table name that cannot be a directory path kills the disk engine
						c = c20ByteCase(r)
					}
				} else {
					c = c20GenCase(r)
				}
				_ = os.WriteFile(ch.journal, []byte(fmt.Sprintf("case %d engine %s: %s\n", i, engine, truncStr(c.desc, 4000))), 0o666)
				ctx, cancel := context.WithTimeout(context.Background(), drive.RPCTimeout)
				err := c.send(ctx, ch.s.srv)
				cancel()
				code := status.Code(err)
				run.Count("fuzz_responses."+code.String(), 1)
				bad := ""
				if code == codes.Unavailable {
					ch.aliveSettled()
				}
				switch {
				case !ch.alive():
					bad = "the emulator process died: " + firstPanicLine(ch.s.child.stderrTail(400))
				case code == codes.DeadlineExceeded:
					bad = "request not answered within " + drive.RPCTimeout.String() + " (hang)"
					_ = ch.s.child.cmd.Process.Signal(os.Interrupt)
				case code == codes.Unavailable:
					bad = "transport failure while the child is alive: " + err.Error()
				}
				if bad == "" && strings.HasPrefix(c.desc, c20ThenGC) {
					ch.s.child.send("gc " + drive.TableName(drive.Parent, "fz4"))
					if l, gerr := ch.s.child.readLine(120 * time.Second); gerr != nil || l != "GCDONE" {
						ch.aliveSettled()
						if !ch.alive() {
							bad = "the emulator process died in the garbage-collection pass that followed the request: " + firstPanicLine(ch.s.child.stderrTail(400))
						} else {
							bad = fmt.Sprintf("the garbage-collection pass that followed the request did not finish within 120 s: %v %q", gerr, l)
						}
					}
					run.Count("gc_passes_after_hostile_rules", 1)
				}
				if bad == "" {
					bad = ch.probeCheck(i)
					if !ch.alive() {
						bad = "the emulator process died: " + firstPanicLine(ch.s.child.stderrTail(400))
					}
				}
				if bad != "" {
					run.Violation("fuzz", i, bad+" | engine="+engine+" case="+truncStr(c.desc, 1500), map[string]any{"engine": engine, "case": c.desc, "stderr": ch.s.child.stderrTail(60)})
					ch.stop()
					if !start() {
						return
					}
				}
				run.Case(common.Hash64(c.desc), code != codes.OK)
				if i%1500 == 1 {
					run.Sample(truncStr(c.desc, 400) + " -> " + code.String())
				}
			}
			if out := ch.s.child.stderrTail(100000); strings.Contains(out, "panic:") || strings.Contains(out, "fatal error:") {
				run.Violation("fuzz", sh, "panic / fatal error text on the child's stderr: "+firstPanicLine(out), map[string]any{"engine": engine})
			}
		}(sh)
	}
	wg.Wait()
}

func firstPanicLine(s string) string {
	for _, l := range strings.Split(s, "\n") {
		if strings.HasPrefix(l, "panic:") || strings.HasPrefix(l, "fatal error:") {
			return l
		}
	}
	if len(s) > 300 {
		return s[:300]
	}
	return s
}

// c20Mix: rounds of concurrent admin + data traffic against one child per engine.
func c20Mix(run *common.Run, scratch string) {
	rounds := run.N(60, 1500)
	var wg sync.WaitGroup
	for ei, engine := range drive.Engines {
		wg.Add(1)
		go func(ei int, engine string) {
			defer wg.Done()
			ch, msg := c20Start(fmt.Sprintf("mix%d", ei), engine, scratch)
			if ch == nil {
				run.Violation("mix", ei, "cannot start child: "+msg, nil)
				return
			}
			defer func() { ch.stop() }()
			for round := ei; round < rounds; round += 3 {
				if !run.Want("mix", round) || run.TooMany() {
					continue
				}
				_ = os.WriteFile(ch.journal, []byte(fmt.Sprintf("mix round %d engine %s\n", round, engine)), 0o666)
				scenario := round % 5
				if engine == "btree" && scenario == 1 && run.KnownOpen("KF06") {
					scenario = 0 // KF06: row deletions under a streaming scan kill the btree engine; canary reproduces it
				}
				kinds, bad := c20MixRound(run, ch, round, scenario)
				if !ch.alive() {
					bad = "the emulator process died during a concurrent admin+data round: " + firstPanicLine(ch.s.child.stderrTail(400))
				}
				if bad == "" {
					bad = ch.probeCheck(round)
				}
				if bad != "" {
					run.Violation("mix", round, bad+" | engine="+engine, map[string]any{"engine": engine, "round": round, "stderr": ch.s.child.stderrTail(80)})
					ch.stop()
					ch, msg = c20Start(fmt.Sprintf("mix%d", ei), engine, scratch)
					if ch == nil {
						return
					}
				}
				run.Case(common.Hash64("mix", engine, fmt.Sprint(round)), kinds >= 3)
				run.Count("mix_rounds", 1)
			}
		}(ei, engine)
	}
	wg.Wait()
}

func c20MixRound(run *common.Run, ch *c20Child, round int, scenario int) (int, string) {
	r := run.Rand("C20B.mix", round)
	s := ch.s.srv
	tname := drive.TableName(drive.Parent, "mx")
	drive.CreateTable(s.Admin, drive.Parent, "mx", map[string]*model.GcRule{"f1": nil, "f2": nil})
	// enough rows for multi-message scans
	var entries []drive.Entry
	for i := 0; i < 1500; i++ {
		muts := []model.Mut{{Kind: model.SetCell, Fam: "f1", Qual: "q", TS: 1000, Val: "v"}}
		if i%2 == 0 {
			// ~2.4 MB in total: far more than a stream's flow-control window, so that the server is still sending
			// when a client walks away from a scan
			muts = append(muts, model.Mut{Kind: model.SetCell, Fam: "f2", Qual: "big", TS: 1000, Val: gen.BigVal})
		}
		entries = append(entries, drive.Entry{Key: fmt.Sprintf("a%05d", i), Muts: muts})
	}
	drive.MutateRows(s.Data, tname, entries)
	if scenario == 4 {
		// a table of ~12 MB and ~20000 rows: more than the storage engine keeps in its write buffer, so scans read from flushed table
		// files while the table is cleared under them
		// ... and of more than 16384 rows (any per-request row-count threshold of the storage layer is crossed too)
		for b := 0; b < 4; b++ {
			entries = entries[:0]
			for i := 0; i < 4500; i++ {
				entries = append(entries, drive.Entry{Key: fmt.Sprintf("s%d-%05d", b, i), Muts: []model.Mut{{Kind: model.SetCell, Fam: "f1", Qual: "q", TS: 1000, Val: "s"}}})
			}
			drive.MutateRows(s.Data, tname, entries)
		}
		big := strings.Repeat(gen.BigVal, 2)
		for b := 0; b < 4; b++ {
			entries = entries[:0]
			for i := 0; i < 450; i++ {
				entries = append(entries, drive.Entry{Key: fmt.Sprintf("b%d-%05d", b, i), Muts: []model.Mut{{Kind: model.SetCell, Fam: "f2", Qual: "big", TS: 1000, Val: big}}})
			}
			drive.MutateRows(s.Data, tname, entries)
		}
	}
	var hang atomic.Value
	var kindsSeen sync.Map
	var wg sync.WaitGroup
	stop := make(chan struct{})
	worker := func(kind string, fn func(ctx context.Context, data btpb.BigtableClient, admin btapb.BigtableTableAdminClient, n int) error) {
		wg.Add(1)
		go func() {
			defer wg.Done()
			conn, data, admin, err := s.NewConn()
			if err != nil {
				return
			}
			defer conn.Close()
			for n := 0; ; n++ {
				select {
				case <-stop:
					return
				default:
				}
				ctx, cancel := context.WithTimeout(context.Background(), drive.RPCTimeout)
				err := fn(ctx, data, admin, n)
				cancel()
				kindsSeen.Store(kind, true)
				switch status.Code(err) {
				case codes.DeadlineExceeded:
					hang.Store(kind + ": request not answered within " + drive.RPCTimeout.String())
					return
				case codes.Unavailable:
					return // child died; detected by the caller
				}
			}
		}()
	}
	worker("scan", func(ctx context.Context, data btpb.BigtableClient, _ btapb.BigtableTableAdminClient, n int) error {
		return drainRows(data.ReadRows(ctx, &btpb.ReadRowsRequest{TableName: tname}))
	})
	// clients that walk away from a scan: cancel after 0-5 messages, or let a very short deadline expire
	// the scans of this client come over a connection with fixed 64 KiB flow-control windows; its writes over the usual one
	swConn, swData, swErr := s.NewSmallWindowConn()
	if swErr == nil {
		defer swConn.Close()
	}
	worker("abandon", func(ctx context.Context, wdata btpb.BigtableClient, _ btapb.BigtableTableAdminClient, n int) error {
		data := wdata
		if swErr == nil {
			data = swData
		}
		cctx, cancel := context.WithCancel(ctx)
		if n%4 == 3 {
			cancel()
			cctx, cancel = context.WithTimeout(ctx, time.Duration(1+n%7)*time.Millisecond)
		}
		defer cancel()
		st, err := data.ReadRows(cctx, &btpb.ReadRowsRequest{TableName: tname})
		if err != nil {
			return nil
		}
		for i := 0; i < n%6; i++ {
			if _, err := st.Recv(); err != nil {
				return nil
			}
		}
		if n%6 > 0 {
			// the client has stopped reading a scan that still has megabytes to deliver (the server is blocked in
			// Send by flow control): a write to the same table must go through meanwhile
			wctx, wcancel := context.WithTimeout(ctx, 30*time.Second)
			_, werr := wdata.MutateRow(wctx, &btpb.MutateRowRequest{TableName: tname, RowKey: []byte("a00001"), Mutations: drive.MutsToProto([]model.Mut{{Kind: model.SetCell, Fam: "f1", Qual: "stall", TS: 3000, Val: "w"}})})
			wcancel()
			if status.Code(werr) == codes.DeadlineExceeded {
				hang.Store("a write to the table was not answered within 30 s while another client had stopped reading its scan of that table")
			}
			run.Count("writes_answered_while_a_scan_client_was_not_reading", 1)
		}
		run.Count("scans_abandoned_by_the_client", 1)
		return nil // the deferred cancel abandons the stream
	})
	worker("mutate", func(ctx context.Context, data btpb.BigtableClient, _ btapb.BigtableTableAdminClient, n int) error {
		_, err := data.MutateRow(ctx, &btpb.MutateRowRequest{TableName: tname, RowKey: []byte(fmt.Sprintf("a%05d", n%1500)), Mutations: drive.MutsToProto([]model.Mut{{Kind: model.SetCell, Fam: "f1", Qual: "q", TS: 2000, Val: "w"}})})
		return err
	})
	worker("gettable", func(ctx context.Context, _ btpb.BigtableClient, admin btapb.BigtableTableAdminClient, n int) error {
		// every view of both requests (names only, schema, replication, encryption, full): whichever parts of the
		// table definition an answer carries are marshalled after the handler returned, while the modify worker changes them
		_, err := admin.GetTable(ctx, &btapb.GetTableRequest{Name: tname, View: btapb.Table_View([]int{0, 4, 2, 1, 3, 5}[n%6])})
		admin.ListTables(ctx, &btapb.ListTablesRequest{Parent: drive.Parent, View: btapb.Table_View([]int{2, 4, 0, 1, 3, 5}[n%6])})
		return err
	})
	switch scenario {
	case 0: // schema changes while the schema is fetched
		worker("listschema", func(ctx context.Context, _ btpb.BigtableClient, admin btapb.BigtableTableAdminClient, n int) error {
			_, err := admin.ListTables(ctx, &btapb.ListTablesRequest{Parent: drive.Parent, View: btapb.Table_View([]int{4, 2}[n%2])})
			return err
		})
		worker("modify", func(ctx context.Context, _ btpb.BigtableClient, admin btapb.BigtableTableAdminClient, n int) error {
			id := fmt.Sprint("g", n%5)
			_, err := admin.ModifyColumnFamilies(ctx, &btapb.ModifyColumnFamiliesRequest{Name: tname, Modifications: []*btapb.ModifyColumnFamiliesRequest_Modification{{Id: id, Mod: &btapb.ModifyColumnFamiliesRequest_Modification_Create{Create: &btapb.ColumnFamily{GcRule: drive.GcToProto(&model.GcRule{Kind: model.GcMaxVersions, N: 2})}}}}})
			admin.ModifyColumnFamilies(ctx, &btapb.ModifyColumnFamiliesRequest{Name: tname, Modifications: []*btapb.ModifyColumnFamiliesRequest_Modification{{Id: id, Mod: &btapb.ModifyColumnFamiliesRequest_Modification_Drop{Drop: true}}}})
			return err
		})
	case 1: // drops while scans stream
		worker("drop", func(ctx context.Context, data btpb.BigtableClient, admin btapb.BigtableTableAdminClient, n int) error {
			var err error
			if n%2 == 0 {
				_, err = admin.DropRowRange(ctx, &btapb.DropRowRangeRequest{Name: tname, Target: &btapb.DropRowRangeRequest_DeleteAllDataFromTable{DeleteAllDataFromTable: true}})
			} else {
				_, err = admin.DropRowRange(ctx, &btapb.DropRowRangeRequest{Name: tname, Target: &btapb.DropRowRangeRequest_RowKeyPrefix{RowKeyPrefix: []byte("a00")}})
			}
			// refill so that scans stay multi-message
			var es []*btpb.MutateRowsRequest_Entry
			for i := 0; i < 1200; i++ {
				es = append(es, &btpb.MutateRowsRequest_Entry{RowKey: []byte(fmt.Sprintf("a%05d", i)), Mutations: drive.MutsToProto([]model.Mut{{Kind: model.SetCell, Fam: "f1", Qual: "q", TS: 1000, Val: "v"}})})
			}
			if st, e := data.MutateRows(ctx, &btpb.MutateRowsRequest{TableName: tname, Entries: es}); e == nil {
				for {
					if _, e := st.Recv(); e != nil {
						break
					}
				}
			}
			return err
		})
	case 4: // delete-all while scans stream a table that is larger than the engine's write buffer
		worker("dropall-big", func(ctx context.Context, data btpb.BigtableClient, admin btapb.BigtableTableAdminClient, n int) error {
			time.Sleep(time.Duration(5+n%20) * time.Millisecond) // let scans get going; not a verdict
			_, err := admin.DropRowRange(ctx, &btapb.DropRowRangeRequest{Name: tname, Target: &btapb.DropRowRangeRequest_DeleteAllDataFromTable{DeleteAllDataFromTable: true}})
			// refill beyond the write buffer again
			big := strings.Repeat(gen.BigVal, 2)
			var es []*btpb.MutateRowsRequest_Entry
			for i := 0; i < 900; i++ {
				es = append(es, &btpb.MutateRowsRequest_Entry{RowKey: []byte(fmt.Sprintf("b0-%05d", i)), Mutations: drive.MutsToProto([]model.Mut{{Kind: model.SetCell, Fam: "f2", Qual: "big", TS: 1000, Val: big}})})
			}
			for i := 0; i < 17000; i++ {
				es = append(es, &btpb.MutateRowsRequest_Entry{RowKey: []byte(fmt.Sprintf("s0-%05d", i)), Mutations: drive.MutsToProto([]model.Mut{{Kind: model.SetCell, Fam: "f1", Qual: "q", TS: 1000, Val: "s"}})})
			}
			if st, e := data.MutateRows(ctx, &btpb.MutateRowsRequest{TableName: tname, Entries: es}); e == nil {
				for {
					if _, e := st.Recv(); e != nil {
						break
					}
				}
			}
			return err
		})
	case 2: // create / delete / re-create while reading and mutating
		worker("createdelete", func(ctx context.Context, _ btpb.BigtableClient, admin btapb.BigtableTableAdminClient, n int) error {
			_, err := admin.DeleteTable(ctx, &btapb.DeleteTableRequest{Name: tname})
			admin.CreateTable(ctx, &btapb.CreateTableRequest{Parent: drive.Parent, TableId: "mx", Table: &btapb.Table{ColumnFamilies: map[string]*btapb.ColumnFamily{"f1": {}, "f2": {}}}})
			return err
		})
		// refill the re-created table, so that the next DeleteTable again meets scans that are in the middle of a
		// multi-message stream and writers that are queued on the table
		worker("refill", func(ctx context.Context, data btpb.BigtableClient, _ btapb.BigtableTableAdminClient, n int) error {
			var es []*btpb.MutateRowsRequest_Entry
			for i := 0; i < 600; i++ {
				muts := []model.Mut{{Kind: model.SetCell, Fam: "f1", Qual: "q", TS: 1000, Val: "v"}}
				if i%2 == 0 {
					muts = append(muts, model.Mut{Kind: model.SetCell, Fam: "f2", Qual: "big", TS: 1000, Val: gen.BigVal})
				}
				es = append(es, &btpb.MutateRowsRequest_Entry{RowKey: []byte(fmt.Sprintf("a%05d", i)), Mutations: drive.MutsToProto(muts)})
			}
			st, e := data.MutateRows(ctx, &btpb.MutateRowsRequest{TableName: tname, Entries: es})
			if e != nil {
				return e
			}
			for {
				if _, e := st.Recv(); e != nil {
					if e == io.EOF {
						return nil
					}
					return e
				}
			}
		})
		worker("token", func(ctx context.Context, _ btpb.BigtableClient, admin btapb.BigtableTableAdminClient, n int) error {
			_, err := admin.GenerateConsistencyToken(ctx, &btapb.GenerateConsistencyTokenRequest{Name: tname})
			admin.CheckConsistency(ctx, &btapb.CheckConsistencyRequest{Name: tname, ConsistencyToken: "TokenFor-" + tname})
			return err
		})
	default: // sampling, RMW, check-and-mutate and many tables being created
		worker("sample+rmw", func(ctx context.Context, data btpb.BigtableClient, _ btapb.BigtableTableAdminClient, n int) error {
			if st, e := data.SampleRowKeys(ctx, &btpb.SampleRowKeysRequest{TableName: tname}); e == nil {
				for {
					if _, e := st.Recv(); e != nil {
						break
					}
				}
			}
			_, err := data.ReadModifyWriteRow(ctx, &btpb.ReadModifyWriteRowRequest{TableName: tname, RowKey: []byte("a00001"), Rules: drive.RulesToProto([]drive.Rule{{Fam: "f2", Qual: "c", Inc: 1}})})
			return err
		})
		worker("createmany", func(ctx context.Context, _ btpb.BigtableClient, admin btapb.BigtableTableAdminClient, n int) error {
			id := fmt.Sprintf("tmp%d", n%7)
			_, err := admin.CreateTable(ctx, &btapb.CreateTableRequest{Parent: drive.Parent, TableId: id, Table: &btapb.Table{ColumnFamilies: map[string]*btapb.ColumnFamily{"f1": {}}}})
			admin.DeleteTable(ctx, &btapb.DeleteTableRequest{Name: drive.TableName(drive.Parent, id)})
			admin.GenerateConsistencyToken(ctx, &btapb.GenerateConsistencyTokenRequest{Name: drive.TableName(drive.Parent, id)})
			return err
		})
	}
	// a round lasts for a fixed number of scheduler yields of the coordinating goroutine, bounded by operations, not by a verdict
	deadline := time.After(time.Duration(150+r.Intn(100)) * time.Millisecond)
	<-deadline
	close(stop)
	wg.Wait()
	// leave the table in a defined state for the next round
	ctx, cancel := drive.Ctx()
	s.Admin.DeleteTable(ctx, &btapb.DeleteTableRequest{Name: tname})
	cancel()
	kinds := 0
	kindsSeen.Range(func(_, _ any) bool { kinds++; return true })
	if h, _ := hang.Load().(string); h != "" {
		return kinds, h
	}
	return kinds, ""
}

// c20RaceReports scans the race-detector logs written by the children (GORACE log_path set by ./check).
func c20RaceReports(run *common.Run) {
	run.ScanRaceLogs("github.com/fullstorydev/emulators/bigtable")
}

package main

import (
	"context"
	"fmt"
	"io"
	"sort"
	"time"

	btapb "cloud.google.com/go/bigtable/admin/apiv2/adminpb"
	btpb "cloud.google.com/go/bigtable/apiv2/bigtablepb"
	"github.com/fullstorydev/emulators/bigtable/bttest"

	"verif/bt/drive"
	"verif/bt/gen"
	"verif/bt/model"
	"verif/common"
)

func init() { register("C16", "exploration", runC16) }

func runC16(run *common.Run) {
	run.Rule = "Part 'policy' (sequential): case = generated table (families with max-versions 1..3, max-age, union of both, nested union, intersection [unsupported], no rule) with cells exactly at, 1 ms before and 1 ms after the max-age cut-off, several versions, rows that become empty, marker rows whose cells all have empty values, plus a second table without rules; one real pass forced through the hook entry point with the injected clock; full scans before/after compared with the GC model, emptied rows absent from ReadRows and SampleRowKeys. Part 'race': case = one forced pass over 250-1200 rows during which, at every point where the pass has released the table lock (hook gc.unlocked), client requests are performed and acknowledged: 1-3 row writes (new cell, overwrite, old-timestamp cell, DeleteFromRow; sent as MutateRow, a MutateRows entry, a CheckAndMutateRow branch or a ReadModifyWriteRow append/increment) to rows behind, at and ahead of the cursor, and/or DropRowRange of a ten-row prefix block (one pass in four: only DropRowRange, no data-plane request at all), or a single ModifyColumnFamilies drop of a family; final scan: every written row must equal 'GC applied at some position of its acknowledged write sequence', unwritten rows GC(initial) [all three engines]. Part 'idle': a pass on a table used just now changes nothing, after pretending 10 min of inactivity it collects; a pass over >= 2000 rows releases the lock at least once and clients complete while it is parked there. Non-trivial = pass that removed some but not all cells (policy) / pass with >= 1 injected write acknowledged (race); distinct by case."
	run.Assumptions = []string{"GC model: max-versions keeps the N newest, max-age condemns ts < now-age, union = either, unsupported types leave the family alone", "nested intersection inside a union is not generated", "the 15-60 s scheduling loop itself is not waited for; the pass is entered through the verif hook"}
	if run.WantSub("policy") {
		c16Policy(run)
	}
	if run.WantSub("race") {
		run.Canary("KF02", c16BtreeCanary)
		c16Race(run)
	}
	if run.WantSub("idle") {
		c16Idle(run)
	}
	run.ScanRaceLogs("github.com/fullstorydev/emulators/bigtable")
}

const c16Hour = int64(3_600_000_000)

func c16Rule(r *common.Rand, depth int) *model.GcRule {
	switch k := r.Intn(8); {
	case k < 3:
		return &model.GcRule{Kind: model.GcMaxVersions, N: int32(r.Range(1, 3))}
	case k < 5:
		return &model.GcRule{Kind: model.GcMaxAge, AgeUs: common.Pick(r, []int64{c16Hour, 24 * c16Hour, 1_000_000, 1000})}
	case k < 7 && depth > 0:
		n := r.Range(1, 3)
		u := &model.GcRule{Kind: model.GcUnion}
		for i := 0; i < n; i++ {
			u.Subs = append(u.Subs, c16Rule(r, depth-1))
		}
		return u
	default:
		return &model.GcRule{Kind: model.GcMaxVersions, N: 2}
	}
}

func c16Policy(run *common.Run) {
	ncase := run.N(1000, 20000)
	j := common.NewJournal("C16")
	common.Parallel(ncase, workers(), func(i int) {
		if !run.Want("policy", i) || run.TooMany() {
			return
		}
		engine := drive.Engines[i%3]
		j.Begin(i%64, fmt.Sprintf("C16 policy case=%d engine=%s", i, engine))
		defer j.End(i % 64)
		r := run.Rand("C16.policy", i)
		now := gen.BaseClock + int64(r.Intn(1000))*1000 + int64(r.Intn(2))*int64(r.Intn(999))
		srv, err := drive.Start(engine, now, "")
		if err != nil {
			run.Violation("policy", i, "cannot start server: "+err.Error(), nil)
			return
		}
		defer srv.Close(true)
		fams := map[string]*model.GcRule{
			"v":     {Kind: model.GcMaxVersions, N: int32(r.Range(1, 3))},
			"a":     {Kind: model.GcMaxAge, AgeUs: common.Pick(r, []int64{c16Hour, 1_000_000})},
			"u":     c16Rule(r, 2),
			"x":     {Kind: model.GcIntersection, Subs: []*model.GcRule{{Kind: model.GcMaxVersions, N: 1}, {Kind: model.GcMaxAge, AgeUs: 1000}}},
			"plain": nil,
		}
		// every other case the table starts with OTHER rules (same kinds: more union members, longer/shorter ages with
		// both Duration fields set, a rule on the family that ends without one) and is then brought to the final rules
		// with ModifyColumnFamilies updates: the pass must apply the rule that was set last, not a blend
		initial := fams
		if i%2 == 1 {
			initial = map[string]*model.GcRule{
				"v":     {Kind: model.GcMaxVersions, N: int32(r.Range(1, 3))},
				"a":     {Kind: model.GcMaxAge, AgeUs: common.Pick(r, []int64{1_500_000, 1000, 90 * 60 * 1_000_000})},
				"u":     {Kind: model.GcUnion, Subs: []*model.GcRule{{Kind: model.GcMaxVersions, N: 1}, {Kind: model.GcMaxAge, AgeUs: 1_500_000}, {Kind: model.GcMaxAge, AgeUs: 1000}}},
				"x":     {Kind: model.GcIntersection, Subs: []*model.GcRule{{Kind: model.GcMaxVersions, N: 1}, {Kind: model.GcMaxAge, AgeUs: 1000}, {Kind: model.GcMaxVersions, N: 3}}},
				"plain": {Kind: model.GcMaxVersions, N: 1},
			}
			run.Count("policy_cases_whose_rules_were_set_by_update", 1)
		}
		if st := drive.CreateTable(srv.Admin, drive.Parent, "t", initial); !st.OK() {
			run.Violation("policy", i, "CreateTable failed: "+st.String(), nil)
			return
		}
		if i%2 == 1 {
			var mods []*btapb.ModifyColumnFamiliesRequest_Modification
			for _, f := range []string{"v", "a", "u", "x", "plain"} {
				mods = append(mods, &btapb.ModifyColumnFamiliesRequest_Modification{Id: f, Mod: &btapb.ModifyColumnFamiliesRequest_Modification_Update{Update: &btapb.ColumnFamily{GcRule: drive.GcToProto(fams[f])}}})
			}
			common.Shuffle(r, mods)
			ctx, cancel := drive.Ctx()
			_, err := srv.Admin.ModifyColumnFamilies(ctx, &btapb.ModifyColumnFamiliesRequest{Name: drive.TableName(drive.Parent, "t"), Modifications: mods})
			cancel()
			if err != nil {
				run.Violation("policy", i, "ModifyColumnFamilies(update of every family's rule) failed: "+err.Error(), nil)
				return
			}
		}
		other := drive.MustTable(srv.Admin, "other", "plain")
		table := drive.TableName(drive.Parent, "t")
		m := model.NewTable()
		mo := model.NewTable("plain")
		for f, g := range fams {
			m.Families[f] = g
		}
		// timestamps around every age cut-off in use
		var tss []int64
		for _, age := range []int64{c16Hour, 24 * c16Hour, 1_000_000, 1000} {
			cut := model.TruncMs(now - age)
			tss = append(tss, cut-1000, cut, cut+1000)
		}
		tss = append(tss, model.TruncMs(now), 0, 1000, model.TruncMs(now)+c16Hour)
		famNames := []string{"v", "a", "u", "x", "plain"}
		nrows := r.Range(3, 12)
		var desc []string
		for k := 0; k < nrows; k++ {
			key := fmt.Sprintf("r%02d", k)
			var muts []model.Mut
			ncell := r.Range(1, 8)
			onlyFam := ""
			if r.Chance(1, 3) {
				onlyFam = common.Pick(r, []string{"a", "u"}) // rows that can become empty
			}
			// a third of the rows are marker rows: every cell has an empty value (the information is in the key,
			// qualifier and timestamp), so collecting their cells frees no value bytes
			markers := r.Chance(1, 3)
			for c := 0; c < ncell; c++ {
				f := common.Pick(r, famNames)
				if onlyFam != "" {
					f = onlyFam
				}
				ts := common.Pick(r, tss)
				if ts < 0 {
					ts = 0
				}
				val := fmt.Sprint("v", c)
				if markers || r.Chance(1, 8) {
					val = ""
				}
				muts = append(muts, model.Mut{Kind: model.SetCell, Fam: f, Qual: common.Pick(r, []string{"q", "p"}), TS: ts, Val: val})
			}
			v, nr := m.Apply(key, muts, now)
			st := drive.MutateRow(srv.Data, table, key, muts)
			if v != model.MustOK || !st.OK() {
				run.Violation("policy", i, "set-up write failed: "+st.String(), nil)
				return
			}
			m.Commit(key, nr)
			desc = append(desc, fmt.Sprintf("%q:%s", key, model.MutsString(muts)))
			om := []model.Mut{{Kind: model.SetCell, Fam: "plain", Qual: "q", TS: 0, Val: "old"}, {Kind: model.SetCell, Fam: "plain", Qual: "q", TS: 1000, Val: "old2"}}
			_, onr := mo.Apply(key, om, now)
			drive.MutateRow(srv.Data, other, key, om)
			mo.Commit(key, onr)
		}
		info := map[string]any{"engine": engine, "now_us": now, "families": famString(fams), "rows": desc}
		if msg := checkTable(srv.Data, table, m); msg != "" {
			run.Violation("policy", i, "before the pass: "+msg, info)
			return
		}
		before := 0
		for _, row := range m.AllRows() {
			before += len(row.Cells)
		}
		if !bttest.VerifRunGC(srv.S, table, true) || !bttest.VerifRunGC(srv.S, other, true) {
			run.Violation("policy", i, "table not found by the GC entry point", info)
			return
		}
		m.GC(now)
		after := 0
		for _, row := range m.AllRows() {
			after += len(row.Cells)
		}
		if msg := checkTable(srv.Data, table, m); msg != "" {
			run.Violation("policy", i, "after the pass: "+msg, info)
			return
		}
		if msg := checkTable(srv.Data, other, mo); msg != "" {
			run.Violation("policy", i, "table without rules changed: "+msg, info)
			return
		}
		// rows left without cells must not be reported by SampleRowKeys either
		st, keys, _ := drive.SampleRowKeys(srv.Data, table)
		live := map[string]bool{}
		for _, k := range m.Keys() {
			live[k] = true
		}
		if st.OK() {
			for _, k := range keys {
				if !live[k] {
					run.Violation("policy", i, fmt.Sprintf("SampleRowKeys reports row %q which the pass left without cells", k), info)
					return
				}
			}
		}
		// a second pass must be a no-op
		bttest.VerifRunGC(srv.S, table, true)
		if msg := checkTable(srv.Data, table, m); msg != "" {
			run.Violation("policy", i, "after a second pass: "+msg, info)
			return
		}
		run.Case(common.Hash64(fmt.Sprint(info)), after < before && after > 0)
		run.Count("policy_passes", 2)
		run.Count("cells_collected", int64(before-after))
		if i < 2 {
			run.Sample(info)
		}
	})
}

type c16Write struct {
	key  string
	muts []model.Mut
}

type c16PassResult struct {
	bad         string // violation text ("" = held)
	info        map[string]any
	injected    int
	hits        int
	rowsWritten int
	mode        int
	rmw, cam    int // injected writes that arrived as ReadModifyWriteRow / CheckAndMutateRow
	drops       int // DropRowRange / ModifyColumnFamilies requests acknowledged while the pass was parked
}

func c16Race(run *common.Run) {
	npass := run.N(60, 1500)
	j := common.NewJournal("C16")
	var unlockHits int64
	for p := 0; p < npass && !run.TooMany(); p++ {
		if !run.Want("race", p) {
			continue
		}
		engine := []string{"ldbmem", "btree", "ldbdisk", "ldbmem"}[p%4]
		j.Begin(0, fmt.Sprintf("C16 race case=%d engine=%s", p, engine))
		res := c16RacePass(run.Rand("C16.race", p), engine, !(engine == "btree" && run.KnownOpen("KF02")))
		unlockHits += int64(res.hits)
		if res.bad != "" {
			run.Violation("race", p, res.bad, res.info)
		}
		run.Case(common.Hash64("race", fmt.Sprint(p), engine), res.injected > 0)
		run.Count("raced_passes", 1)
		run.Count("injected_writes_acknowledged_while_pass_parked", int64(res.injected))
		run.Count("rows_written_during_a_pass", int64(res.rowsWritten))
		run.Count("admin_drops_acknowledged_while_pass_parked", int64(res.drops))
		run.Count("injected_read_modify_writes", int64(res.rmw))
		run.Count("injected_check_and_mutates", int64(res.cam))
		run.Count(fmt.Sprintf("passes_mode_%d", res.mode), 1)
		if p < 2 {
			run.Sample(res.info)
		}
	}
	j.End(0)
	run.Count("gc_unlock_points_reached", unlockHits)
	if run.Replay == nil && unlockHits == 0 {
		run.Blind("hook gc.unlocked never fired (built without -tags verif?)")
	}
}

// c16RacePass runs one forced pass with client writes injected at every unlock point. allowDelete=false keeps
// DeleteFromRow out of the injected writes (known finding KF02 on the btree engine).
func c16RacePass(r *common.Rand, engine string, allowDelete bool) (out c16PassResult) {
	fail := func(what string) c16PassResult { out.bad = what; return out }
	{
		now := gen.BaseClock
		srv, err := drive.Start(engine, now, "")
		if err != nil {
			return fail("cannot start server: " + err.Error())
		}
		defer srv.Close(true)
		rule := &model.GcRule{Kind: model.GcUnion, Subs: []*model.GcRule{{Kind: model.GcMaxVersions, N: 1}, {Kind: model.GcMaxAge, AgeUs: c16Hour}}}
		drive.CreateTable(srv.Admin, drive.Parent, "t", map[string]*model.GcRule{"f": rule, "plain": nil})
		table := drive.TableName(drive.Parent, "t")
		N := r.Range(250, 1200)
		key := func(i int) string { return fmt.Sprintf("row%05d", i) }
		m := model.NewTable()
		m.Families["f"] = rule
		m.Families["plain"] = nil
		fresh := model.TruncMs(now)
		old := model.TruncMs(now) - 2*c16Hour
		var entries []drive.Entry
		for i := 0; i < N; i++ {
			// two versions: the pass rewrites (nearly) every row; every 7th row is already clean
			muts := []model.Mut{{Kind: model.SetCell, Fam: "f", Qual: "q", TS: fresh - 1000, Val: "keep"}, {Kind: model.SetCell, Fam: "f", Qual: "q", TS: fresh - 2000, Val: "trim"}, {Kind: model.SetCell, Fam: "plain", Qual: "p", TS: 0, Val: "p"}}
			if i%7 == 3 {
				muts = muts[:1]
			}
			if i%11 == 5 {
				muts = []model.Mut{{Kind: model.SetCell, Fam: "f", Qual: "q", TS: old, Val: "expired"}} // row becomes empty
			}
			_, nr := m.Apply(key(i), muts, now)
			m.Commit(key(i), nr)
			entries = append(entries, drive.Entry{Key: key(i), Muts: muts})
			if len(entries) == 400 || i == N-1 {
				st, _, _ := drive.MutateRows(srv.Data, table, entries)
				if !st.OK() {
					return fail("set-up failed: " + st.String())
				}
				entries = nil
			}
		}
		initial := m.Clone()
		writes := map[string][]c16Write{} // per row, in acknowledgement order
		var order []string
		var injected, hits int
		var hangMsg string
		// what is injected while the pass is parked: 0 = row writes only; 1 = row writes and DropRowRange(prefix);
		// 2 = DropRowRange(prefix) only (no data-plane request at all during the pass); 3 = nothing but one
		// ModifyColumnFamilies(drop "plain") at one unlock point
		mode := r.Intn(4)
		out.mode = mode
		dropAt := r.Intn(3)
		record := func(k string, muts []model.Mut) {
			if _, ok := writes[k]; !ok {
				order = append(order, k)
			}
			writes[k] = append(writes[k], c16Write{k, muts})
		}
		bttest.VerifSetHandler(func(point string, k []byte) {
			if point != "gc.unlocked" {
				return
			}
			hits++
			var cur int
			fmt.Sscanf(string(k), "row%05d", &cur)
			if mode == 3 {
				if hits-1 != dropAt {
					return
				}
				ctx, cancel := context.WithTimeout(context.Background(), 20*time.Second)
				_, err := srv.Admin.ModifyColumnFamilies(ctx, &btapb.ModifyColumnFamiliesRequest{Name: table, Modifications: []*btapb.ModifyColumnFamiliesRequest_Modification{{Id: "plain", Mod: &btapb.ModifyColumnFamiliesRequest_Modification_Drop{Drop: true}}}})
				cancel()
				if err != nil {
					hangMsg = fmt.Sprintf("ModifyColumnFamilies(drop plain) issued while the pass was parked at its unlock point (cursor %s) did not complete: %v", k, err)
					return
				}
				injected++
				out.drops++
				for i := 0; i <= N; i++ {
					record(key(i), []model.Mut{{Kind: model.DelFam, Fam: "plain"}})
				}
				return
			}
			if mode == 2 || (mode == 1 && r.Chance(1, 3)) {
				// drop a block of ten rows: mostly ahead of the cursor, sometimes the block the cursor is in or one behind
				var blk int
				switch r.Intn(5) {
				case 0:
					blk = cur / 10
				case 1:
					blk = r.Intn(cur/10 + 1)
				default:
					blk = cur/10 + 1 + r.Intn((N-cur)/10+1)
				}
				prefix := fmt.Sprintf("row%04d", blk)
				ctx, cancel := context.WithTimeout(context.Background(), 20*time.Second)
				_, err := srv.Admin.DropRowRange(ctx, &btapb.DropRowRangeRequest{Name: table, Target: &btapb.DropRowRangeRequest_RowKeyPrefix{RowKeyPrefix: []byte(prefix)}})
				cancel()
				if err != nil {
					hangMsg = fmt.Sprintf("DropRowRange(%q) issued while the pass was parked at its unlock point (cursor %s) did not complete: %v", prefix, k, err)
					return
				}
				injected++
				out.drops++
				for i := blk * 10; i < blk*10+10 && i <= N; i++ {
					record(key(i), []model.Mut{{Kind: model.DelRow}})
				}
				if mode == 2 {
					return
				}
			}
			nw := r.Range(1, 3)
			for w := 0; w < nw; w++ {
				var target int
				switch r.Intn(4) {
				case 0:
					target = cur // at the cursor
				case 1:
					target = r.Intn(cur + 1) // already passed
				default:
					target = cur + 1 + r.Intn(N-cur) // still ahead (or just beyond the last row: a new row)
				}
				var muts []model.Mut
				switch r.Intn(5) {
				case 0:
					muts = []model.Mut{{Kind: model.SetCell, Fam: "f", Qual: "q", TS: fresh, Val: fmt.Sprint("new", injected)}}
				case 1:
					muts = []model.Mut{{Kind: model.SetCell, Fam: "f", Qual: "q", TS: fresh - 1000, Val: fmt.Sprint("over", injected)}}
				case 2:
					muts = []model.Mut{{Kind: model.SetCell, Fam: "f", Qual: "q2", TS: old, Val: "written-expired"}}
				case 3:
					muts = []model.Mut{{Kind: model.DelRow}}
					if !allowDelete {
						// known finding KF02: on the btree engine a row deletion while a pass has released the lock
						// invalidates the btree iterator (panic); kept out of the generator, reproduced by the canary
						muts = []model.Mut{{Kind: model.SetCell, Fam: "f", Qual: "q3", TS: fresh, Val: "instead-of-delete"}}
					}
				default:
					muts = []model.Mut{{Kind: model.SetCell, Fam: "plain", Qual: fmt.Sprint("n", injected), TS: fresh, Val: "plain"}, {Kind: model.SetCell, Fam: "f", Qual: "q", TS: fresh + 1000, Val: fmt.Sprint("newer", injected)}}
				}
				ctx, cancel := context.WithTimeout(context.Background(), 20*time.Second)
				var err error
				switch via := r.Intn(6); via {
				case 0:
					// the write arrives as a ReadModifyWriteRow (append to the newest cell of f:q / increment of a counter
					// column); what it stored is taken from its response
					rules := []drive.Rule{{Fam: "f", Qual: "q", Append: true, Val: fmt.Sprint("+a", injected)}}
					if r.Bool() {
						rules = []drive.Rule{{Fam: "plain", Qual: "ctr", Inc: 1}}
					}
					var res *btpb.ReadModifyWriteRowResponse
					res, err = srv.Data.ReadModifyWriteRow(ctx, &btpb.ReadModifyWriteRowRequest{TableName: table, RowKey: []byte(key(target)), Rules: drive.RulesToProto(rules)})
					if err == nil {
						muts = nil
						for _, c := range drive.RowFromProto(res.Row).Cells {
							muts = append(muts, model.Mut{Kind: model.SetCell, Fam: c.Fam, Qual: c.Qual, TS: c.TS, Val: c.Val})
						}
						out.rmw++
					}
				case 1:
					// ... or as the selected branch of a CheckAndMutateRow (no predicate: true iff the row has a cell)
					other := []model.Mut{{Kind: model.SetCell, Fam: "plain", Qual: "absent", TS: fresh, Val: fmt.Sprint("cam", injected)}}
					var res *btpb.CheckAndMutateRowResponse
					res, err = srv.Data.CheckAndMutateRow(ctx, &btpb.CheckAndMutateRowRequest{TableName: table, RowKey: []byte(key(target)), TrueMutations: drive.MutsToProto(muts), FalseMutations: drive.MutsToProto(other)})
					if err == nil {
						if !res.PredicateMatched {
							muts = other
						}
						out.cam++
					}
				case 2:
					var st btpb.Bigtable_MutateRowsClient
					st, err = srv.Data.MutateRows(ctx, &btpb.MutateRowsRequest{TableName: table, Entries: []*btpb.MutateRowsRequest_Entry{{RowKey: []byte(key(target)), Mutations: drive.MutsToProto(muts)}}})
					if err == nil {
						for {
							if _, e := st.Recv(); e != nil {
								if e != io.EOF {
									err = e
								}
								break
							}
						}
					}
				default:
					_, err = srv.Data.MutateRow(ctx, &btpb.MutateRowRequest{TableName: table, RowKey: []byte(key(target)), Mutations: drive.MutsToProto(muts)})
				}
				cancel()
				if err != nil {
					hangMsg = fmt.Sprintf("client write issued while the pass was parked at its unlock point (cursor %s) did not complete: %v", k, err)
					return
				}
				injected++
				record(key(target), muts)
			}
		})
		bttest.VerifRunGC(srv.S, table, true)
		bttest.VerifSetHandler(nil)
		info := map[string]any{"engine": engine, "rows": N, "unlock_points": hits, "injected_requests": injected, "mode": []string{"row writes", "row writes + DropRowRange", "DropRowRange only", "one ModifyColumnFamilies(drop)"}[mode]}
		out.info, out.injected, out.hits = info, injected, hits
		if hangMsg != "" {
			return fail(hangMsg)
		}
		if N >= 100 && hits == 0 {
			return fail(fmt.Sprintf("a pass over %d rows never released the table lock", N))
		}
		res := drive.ReadAll(srv.Data, table)
		if !res.OK() || res.Malformed != "" {
			return fail("final scan failed: " + res.Code.String() + " " + res.Malformed)
		}
		got := map[string][]model.Cell{}
		for _, row := range res.Rows {
			got[row.Key] = row.Cells
		}
		bad := ""
		allKeys := map[string]bool{}
		for i := 0; i <= N; i++ {
			allKeys[key(i)] = true
		}
		for k := range got {
			if !allKeys[k] {
				bad = fmt.Sprintf("unexpected row %q", k)
			}
		}
		keys := make([]string, 0, len(allKeys))
		for k := range allKeys {
			keys = append(keys, k)
		}
		sort.Strings(keys)
		for _, k := range keys {
			if bad != "" {
				break
			}
			ws := writes[k]
			// admissible finals: GC inserted at position j of the acknowledged write sequence (and, for rows that did not
			// exist when the pass started, no GC at all)
			var adm [][]model.Cell
			for jpos := 0; jpos <= len(ws); jpos++ {
				t := &model.Table{Families: m.Families, Rows: map[string]map[string]map[string]map[int64]string{}}
				if row, ok := initial.Rows[k]; ok {
					t.Rows[k] = row
				}
				t = t.Clone()
				for x := 0; x < jpos; x++ {
					_, nr := t.Apply(k, ws[x].muts, now)
					t.Commit(k, nr)
				}
				t.GC(now)
				for x := jpos; x < len(ws); x++ {
					_, nr := t.Apply(k, ws[x].muts, now)
					t.Commit(k, nr)
				}
				adm = append(adm, t.RowCells(k))
			}
			{
				// no GC step at all: admissible for a row that did not exist when the pass started, and for a row that was
				// deleted before the pass reached it (the pass then finds nothing to collect at its position)
				t := &model.Table{Families: m.Families, Rows: map[string]map[string]map[string]map[int64]string{}}
				if row, ok := initial.Rows[k]; ok {
					t.Rows[k] = row
				}
				t = t.Clone()
				sawAbsent := len(t.RowCells(k)) == 0
				for _, w := range ws {
					_, nr := t.Apply(k, w.muts, now)
					t.Commit(k, nr)
					if len(t.RowCells(k)) == 0 {
						sawAbsent = true
					}
				}
				if sawAbsent {
					adm = append(adm, t.RowCells(k))
				}
			}
			ok := false
			for _, a := range adm {
				if model.SameCells(a, got[k]) {
					ok = true
				}
			}
			if !ok {
				var wd []string
				for _, w := range ws {
					wd = append(wd, model.MutsString(w.muts))
				}
				bad = fmt.Sprintf("row %q after the pass is %s; initial %s; acknowledged writes during the pass %v; no position of the GC step in that sequence explains it (an acknowledged write was lost or reverted, or retained cells were altered)",
					k, model.Row{Key: k, Cells: got[k]}, model.Row{Key: k, Cells: initial.RowCells(k)}, wd)
			}
		}
		out.rowsWritten = len(order)
		if bad != "" {
			return fail(bad)
		}
	}
	return out
}

func c16Idle(run *common.Run) {
	for ei, engine := range drive.Engines {
		if !run.Want("idle", ei) {
			continue
		}
		now := gen.BaseClock
		srv, err := drive.Start(engine, now, "")
		if err != nil {
			run.Violation("idle", ei, "cannot start server: "+err.Error(), nil)
			return
		}
		rule := &model.GcRule{Kind: model.GcMaxVersions, N: 1}
		drive.CreateTable(srv.Admin, drive.Parent, "t", map[string]*model.GcRule{"f": rule})
		table := drive.TableName(drive.Parent, "t")
		m := model.NewTable()
		m.Families["f"] = rule
		for i := 0; i < 5; i++ {
			muts := []model.Mut{{Kind: model.SetCell, Fam: "f", Qual: "q", TS: 1000, Val: "a"}, {Kind: model.SetCell, Fam: "f", Qual: "q", TS: 2000, Val: "b"}}
			k := fmt.Sprint("k", i)
			_, nr := m.Apply(k, muts, now)
			drive.MutateRow(srv.Data, table, k, muts)
			m.Commit(k, nr)
		}
		// (c) a table in active use must not be collected
		bttest.VerifRunGC(srv.S, table, false)
		if msg := checkTable(srv.Data, table, m); msg != "" {
			run.Violation("idle", ei, "a non-forced pass ran on a table that was written a moment ago: "+msg, map[string]any{"engine": engine})
		}
		// written long ago but read just now: still in use
		bttest.VerifSetActivity(srv.S, table, 0, 10*time.Minute)
		bttest.VerifRunGC(srv.S, table, false)
		if msg := checkTable(srv.Data, table, m); msg != "" {
			run.Violation("idle", ei, "a non-forced pass ran on a table that was read a moment ago: "+msg, map[string]any{"engine": engine})
		}
		// the same with REAL requests as the only recent activity: the table has been idle for 10 minutes, one client
		// request arrives (of each kind that reads or writes rows - including reads that deliver nothing, as a client
		// polling for a row does), then a non-forced pass is attempted: it must leave the table alone
		wr := func(k string, muts []model.Mut) { _, nr := m.Apply(k, muts, now); m.Commit(k, nr) }
		one := []model.Mut{{Kind: model.SetCell, Fam: "f", Qual: "w", TS: 3000, Val: "x"}}
		activities := []struct {
			name string
			do   func() bool
		}{
			{"ReadRows(all)", func() bool { return drive.ReadAll(srv.Data, table).OK() }},
			{"ReadRows(one existing key)", func() bool {
				return drive.ReadRows(srv.Data, &btpb.ReadRowsRequest{TableName: table, Rows: drive.RowSetToProto(model.RowSet{Keys: []string{"k1"}})}).OK()
			}},
			{"ReadRows(a key that does not exist)", func() bool {
				return drive.ReadRows(srv.Data, &btpb.ReadRowsRequest{TableName: table, Rows: drive.RowSetToProto(model.RowSet{Keys: []string{"not-yet"}})}).OK()
			}},
			{"ReadRows(filter that blocks everything)", func() bool {
				return drive.ReadRows(srv.Data, &btpb.ReadRowsRequest{TableName: table, Filter: &btpb.RowFilter{Filter: &btpb.RowFilter_BlockAllFilter{BlockAllFilter: true}}}).OK()
			}},
			{"ReadRows(range without rows, limit 1)", func() bool {
				return drive.ReadRows(srv.Data, &btpb.ReadRowsRequest{TableName: table, RowsLimit: 1, Rows: &btpb.RowSet{RowRanges: []*btpb.RowRange{{StartKey: &btpb.RowRange_StartKeyClosed{StartKeyClosed: []byte("x")}, EndKey: &btpb.RowRange_EndKeyOpen{EndKeyOpen: []byte("y")}}}}}).OK()
			}},
			{"MutateRow", func() bool { wr("w1", one); return drive.MutateRow(srv.Data, table, "w1", one).OK() }},
			{"MutateRows", func() bool {
				wr("w2", one)
				st, _, _ := drive.MutateRows(srv.Data, table, []drive.Entry{{Key: "w2", Muts: one}})
				return st.OK()
			}},
			{"CheckAndMutateRow", func() bool {
				wr("w3", one)
				st, _ := drive.CheckAndMutate(srv.Data, table, "w3", nil, nil, one)
				return st.OK()
			}},
			{"ReadModifyWriteRow", func() bool {
				st, row := drive.ReadModifyWrite(srv.Data, table, "w4", []drive.Rule{{Fam: "f", Qual: "w", Append: true, Val: "x"}})
				if st.OK() && len(row.Cells) == 1 {
					wr("w4", []model.Mut{{Kind: model.SetCell, Fam: "f", Qual: "w", TS: row.Cells[0].TS, Val: "x"}})
				}
				return st.OK()
			}},
		}
		for _, a := range activities {
			bttest.VerifSetActivity(srv.S, table, 10*time.Minute, 10*time.Minute)
			if !a.do() {
				run.Violation("idle", ei, "set-up request failed: "+a.name, nil)
				continue
			}
			bttest.VerifRunGC(srv.S, table, false)
			if msg := checkTable(srv.Data, table, m); msg != "" {
				run.Violation("idle", ei, fmt.Sprintf("a non-forced pass ran on a table that a client had used a moment ago (%s; before that the table had been idle for 10 minutes): %s", a.name, msg), map[string]any{"engine": engine, "activity": a.name})
				break
			}
			run.Count("idle_checks", 1)
			run.Count("passes_attempted_right_after_a_real_client_request", 1)
		}
		// idle for 10 minutes: must collect
		bttest.VerifSetActivity(srv.S, table, 10*time.Minute, 10*time.Minute)
		bttest.VerifRunGC(srv.S, table, false)
		m.GC(now)
		if msg := checkTable(srv.Data, table, m); msg != "" {
			run.Violation("idle", ei, "a non-forced pass on a table idle for 10 minutes did not collect: "+msg, map[string]any{"engine": engine})
		}
		run.Case(common.Hash64("idle", engine), true)
		run.Count("idle_checks", 3)
		srv.Close(true)
	}
}

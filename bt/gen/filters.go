package gen

import (
	"verif/bt/model"
	"verif/common"
)

// FilterCtx describes the data a generated filter will be applied to, so that arguments land on and
// next to real values.
type FilterCtx struct {
	Keys, Fams, Quals, Vals []string
	TSs                     []int64
	MaxCells                int // largest number of cells in one row
}

func neighbours(s string) []string {
	out := []string{s, s + "\x00"}
	if len(s) > 0 {
		out = append(out, s[:len(s)-1])
	}
	return out
}

// Regex builds a regex AST that relates to the pool (matches some members, not others).
func Regex(r *common.Rand, pool []string, allowRawHi bool) *model.Re {
	s := common.Pick(r, pool)
	any := &model.Re{Kind: "any"}
	star := func(x *model.Re) *model.Re { return &model.Re{Kind: "star", Subs: []*model.Re{x}} }
	cat := func(xs ...*model.Re) *model.Re { return &model.Re{Kind: "cat", Subs: xs} }
	var re *model.Re
	switch r.Intn(12) {
	case 0:
		re = model.Lit(s)
	case 1: // strict prefix only: must NOT match the longer field (whole-field anchoring)
		if len(s) > 1 {
			re = model.Lit(s[:len(s)-1])
		} else {
			re = model.Lit(s)
		}
	case 2:
		k := r.Intn(len(s) + 1)
		re = cat(model.Lit(s[:k]), star(any))
	case 3:
		k := r.Intn(len(s) + 1)
		re = cat(star(any), model.Lit(s[k:]))
	case 4:
		re = &model.Re{Kind: "alt", Subs: []*model.Re{model.Lit(s), model.Lit(common.Pick(r, pool))}}
	case 5:
		re = star(any)
	case 6:
		if len(s) > 0 {
			re = cat(&model.Re{Kind: "class", Set: []byte{s[0], 'x'}}, star(any))
		} else {
			re = &model.Re{Kind: "opt", Subs: []*model.Re{any}}
		}
	case 7:
		if len(s) > 0 {
			re = cat(&model.Re{Kind: "class", Neg: true, Set: []byte{s[0]}}, star(any))
		} else {
			re = &model.Re{Kind: "plus", Subs: []*model.Re{any}}
		}
	case 8:
		re = &model.Re{Kind: "plus", Subs: []*model.Re{{Kind: "class", Rngs: [][2]byte{{'a', 'z'}, {'0', '9'}}}}}
	case 9:
		if len(s) > 0 {
			re = cat(model.Lit(s[:len(s)-1]), &model.Re{Kind: "opt", Subs: []*model.Re{model.Lit(s[len(s)-1:])}})
		} else {
			re = &model.Re{Kind: "empty"}
		}
	case 10:
		// same length as s, any bytes
		subs := make([]*model.Re, len(s))
		for i := range subs {
			subs[i] = any
		}
		if len(subs) == 0 {
			re = &model.Re{Kind: "empty"}
		} else {
			re = cat(subs...)
		}
	default:
		re = cat(&model.Re{Kind: "alt", Subs: []*model.Re{model.Lit(s), model.Lit("nomatch")}}, &model.Re{Kind: "opt", Subs: []*model.Re{model.Lit("\x00")}})
	}
	if allowRawHi && r.Bool() {
		markRaw(re)
	}
	return re
}

func markRaw(re *model.Re) {
	if re.Kind == "lit" {
		re.RawHi = true
	}
	for _, s := range re.Subs {
		markRaw(s)
	}
}

var BadPatterns = []string{"(", "[a", "a)", "*a", "\\"}

func bound(r *common.Rand, pool []string) (int, string) {
	mode := r.Intn(3)
	v := common.Pick(r, neighbours(common.Pick(r, pool)))
	if r.Chance(1, 10) {
		v = ""
	}
	return mode, v
}

// Leaf generates one leaf filter; invalidPct controls deliberately invalid arguments.
func Leaf(r *common.Rand, c FilterCtx, invalidPct int) *model.Filter {
	if r.Chance(invalidPct, 100) {
		switch r.Intn(9) {
		case 0:
			return &model.Filter{Kind: "pass", Flag: false}
		case 1:
			return &model.Filter{Kind: "block", Flag: false}
		case 2:
			return &model.Filter{Kind: common.Pick(r, []string{"rowlimit", "rowoffset", "collimit"}), N: -int32(1 + r.Intn(3))}
		case 3:
			return &model.Filter{Kind: common.Pick(r, []string{"rowkey", "family", "qual", "value"}), Raw: common.Pick(r, BadPatterns)}
		case 4:
			return &model.Filter{Kind: "tsrange", TStart: 1500, TEnd: 0}
		case 5:
			return &model.Filter{Kind: "tsrange", TStart: 0, TEnd: 2001}
		case 6:
			return &model.Filter{Kind: "sample", P: common.Pick(r, []float64{0, 1, -0.1, 1.5})}
		case 7:
			return &model.Filter{Kind: "chain", Subs: []*model.Filter{{Kind: "pass", Flag: true}}}
		default:
			return &model.Filter{Kind: "interleave", Subs: nil}
		}
	}
	switch r.Intn(17) {
	case 0:
		return &model.Filter{Kind: "pass", Flag: true}
	case 1:
		return &model.Filter{Kind: "block", Flag: true}
	case 2:
		return &model.Filter{Kind: "rowkey", Re: Regex(r, c.Keys, true)}
	case 3:
		return &model.Filter{Kind: "family", Re: Regex(r, c.Fams, false)}
	case 4:
		return &model.Filter{Kind: "qual", Re: Regex(r, c.Quals, true)}
	case 5:
		return &model.Filter{Kind: "value", Re: Regex(r, c.Vals, true)}
	case 6:
		f := &model.Filter{Kind: "colrange", Fam: common.Pick(r, append(append([]string{}, c.Fams...), "nofam"))}
		f.SMode, f.Start = bound(r, c.Quals)
		f.EMode, f.End = bound(r, c.Quals)
		return f
	case 7:
		f := &model.Filter{Kind: "valrange"}
		f.SMode, f.Start = bound(r, c.Vals)
		f.EMode, f.End = bound(r, c.Vals)
		return f
	case 8:
		ts := func() int64 {
			t := common.Pick(r, c.TSs) + int64(r.Intn(3)-1)*1000
			if t < 0 || r.Chance(1, 5) {
				t = 0
			}
			return t
		}
		return &model.Filter{Kind: "tsrange", TStart: ts(), TEnd: ts()}
	case 9:
		return &model.Filter{Kind: "rowlimit", N: int32(common.Pick(r, []int{0, 1, 2, 3, c.MaxCells - 1, c.MaxCells, c.MaxCells + 1}))}
	case 10:
		return &model.Filter{Kind: "rowoffset", N: int32(common.Pick(r, []int{0, 1, 2, 3, c.MaxCells - 1, c.MaxCells, c.MaxCells + 1}))}
	case 11:
		return &model.Filter{Kind: "collimit", N: int32(common.Pick(r, []int{0, 1, 2, 3, 4}))}
	case 12:
		return &model.Filter{Kind: "strip", Flag: true}
	case 13:
		return &model.Filter{Kind: "label", Label: common.Pick(r, []string{"x", "lbl-1", "abcdefghijklmno"})}
	case 14:
		return &model.Filter{Kind: "sample", P: common.Pick(r, []float64{0.5, 0.01, 0.99})}
	case 15:
		return &model.Filter{Kind: "value", Re: model.Lit(common.Pick(r, c.Vals))}
	default:
		return &model.Filter{Kind: "qual", Re: model.Lit(common.Pick(r, c.Quals))}
	}
}

// Tree generates a random filter tree up to the given depth.
func Tree(r *common.Rand, c FilterCtx, depth int, invalidPct int) *model.Filter {
	if depth <= 0 || r.Chance(2, 5) {
		return Leaf(r, c, invalidPct)
	}
	switch r.Intn(3) {
	case 0:
		n := r.Range(2, 4)
		f := &model.Filter{Kind: "chain"}
		for i := 0; i < n; i++ {
			f.Subs = append(f.Subs, Tree(r, c, depth-1, invalidPct))
		}
		return f
	case 1:
		n := r.Range(2, 3)
		f := &model.Filter{Kind: "interleave"}
		for i := 0; i < n; i++ {
			f.Subs = append(f.Subs, Tree(r, c, depth-1, invalidPct))
		}
		return f
	default:
		f := &model.Filter{Kind: "cond", Pred: Tree(r, c, depth-1, invalidPct)}
		if r.Chance(4, 5) {
			f.T = Tree(r, c, depth-1, invalidPct)
		}
		if r.Chance(4, 5) {
			f.F = Tree(r, c, depth-1, invalidPct)
		}
		return f
	}
}

// Package gen holds the PRNG-driven generators shared by the Bigtable checks.
package gen

import (
	"math"
	"strings"

	"verif/bt/drive"
	"verif/bt/model"
	"verif/common"
)

// BigVal is a value much larger than any buffer-size constant in the code under test.
var BigVal = strings.Repeat("0123456789abcdef", 200)

// Long keys and qualifiers: 128 bytes and more (the length prefix of the stored encoding needs a second byte), two of
// them differing only in their last byte.
var (
	LongKey1 = "L" + strings.Repeat("k", 199) + "1"
	LongKey2 = "L" + strings.Repeat("k", 199) + "2"
	LongKey3 = "M" + strings.Repeat("m", 127)
	LongQual = "Q" + strings.Repeat("q", 140)
)

var (
	Keys       = []string{"a", "a\x00", "a\x00\x00", "ab", "b", "\x00", "\xff", "a\xff", "a\nb", LongKey1, LongKey2, LongKey3}
	Fams       = []string{"f1", "f2"} // families of the schema
	UnknownFam = "zz"
	Quals      = []string{"", "q", "q\x00", "\xff", "r", "q\nr", LongQual}
	Vals       = []string{"", "v", "w1", "\x00\xff\n", "value-three", "\xe4\xf6", BigVal}
	GoodTS     = []int64{0, 1000, 2000, 3000, model.MaxValidTS}
	BadTS      = []int64{-2, 1500, math.MaxInt64, -1000, 999}
	BaseClock  = int64(1_700_000_000_000_000) // microseconds
)

type Opts struct {
	InvalidPct int // probability (percent) that a generated mutation is deliberately invalid
	// Wide > 0: "wide column" mode. Valid timestamps are k*1000 for k in [0,Wide), qualifiers come from the first two
	// of Quals and most mutations are SetCells, so that single columns accumulate dozens of versions that are then
	// overwritten in place and cut by narrow delete ranges.
	Wide int
	// QualPool, if set, replaces the qualifier universe (e.g. 50 qualifiers, so that families grow past any
	// small-size fast path of the column lookup).
	QualPool []string
}

func (o Opts) quals() []string {
	if o.QualPool != nil {
		return o.QualPool
	}
	if o.Wide > 0 {
		return Quals[:2]
	}
	return Quals
}

func (o Opts) val(r *common.Rand) string {
	if o.Wide > 0 {
		return common.Pick(r, Vals[:6]) // dozens of versions of BigVal would only slow the re-reads down
	}
	return common.Pick(r, Vals)
}

func (o Opts) goodTS(r *common.Rand) int64 {
	if o.Wide > 0 {
		return int64(r.Intn(o.Wide)) * 1000
	}
	return common.Pick(r, GoodTS)
}

func Fam(r *common.Rand, o Opts) string {
	if r.Chance(o.InvalidPct, 100) {
		return UnknownFam
	}
	return common.Pick(r, Fams)
}

func TS(r *common.Rand, o Opts) int64 {
	if r.Chance(o.InvalidPct, 100) {
		return common.Pick(r, BadTS)
	}
	if o.Wide > 0 {
		if r.Chance(1, 40) {
			return -1
		}
		return o.goodTS(r)
	}
	if r.Chance(1, 5) {
		return -1 // server time
	}
	return o.goodTS(r)
}

// RangeBound yields a bound for a delete range.
func rangeBound(r *common.Rand, o Opts) int64 {
	if r.Chance(o.InvalidPct, 100) {
		return common.Pick(r, BadTS)
	}
	return o.goodTS(r)
}

// Mutation generates one mutation over the small colliding universe.
func Mutation(r *common.Rand, o Opts) model.Mut {
	k := r.Intn(20)
	if o.Wide > 0 {
		// 90% SetCell, 8% DelCol (always ranged), 1% DelFam, 1% DelRow
		switch w := r.Intn(100); {
		case w < 90:
			k = 0
		case w < 98:
			k = 11
		case w < 99:
			k = 16
		default:
			k = 19
		}
	}
	switch {
	case k < 11:
		return model.Mut{Kind: model.SetCell, Fam: Fam(r, o), Qual: common.Pick(r, o.quals()), TS: TS(r, o), Val: o.val(r)}
	case k < 16:
		m := model.Mut{Kind: model.DelCol, Fam: Fam(r, o), Qual: common.Pick(r, o.quals())}
		if o.Wide > 0 {
			// a narrow band [s, s+w) somewhere in the column
			m.HasRange = true
			m.Start = rangeBound(r, o)
			m.End = m.Start + int64(r.Range(1, 4))*1000
			if r.Chance(1, 10) {
				m.End = 0
			}
			return m
		}
		if r.Chance(3, 4) {
			m.HasRange = true
			m.Start = rangeBound(r, o)
			m.End = rangeBound(r, o)
			if r.Chance(1, 3) {
				m.End = 0
			}
			if r.Chance(1, 4) {
				m.Start = 0
			}
		}
		return m
	case k < 18:
		return model.Mut{Kind: model.DelFam, Fam: Fam(r, o)}
	default:
		return model.Mut{Kind: model.DelRow}
	}
}

func Mutations(r *common.Rand, o Opts, min, max int) []model.Mut {
	n := r.Range(min, max)
	out := make([]model.Mut, n)
	for i := range out {
		out[i] = Mutation(r, o)
	}
	return out
}

// ValidMutation never produces an invalid request.
func ValidMutation(r *common.Rand) model.Mut { return Mutation(r, Opts{InvalidPct: 0}) }

// Rules generates ReadModifyWrite rules.
func Rules(r *common.Rand, invalidPct int, min, max int) []drive.Rule {
	n := r.Range(min, max)
	out := make([]drive.Rule, n)
	for i := range out {
		fam := common.Pick(r, Fams)
		if r.Chance(invalidPct, 100) {
			fam = UnknownFam
		}
		ru := drive.Rule{Fam: fam, Qual: common.Pick(r, Quals[:3])}
		if r.Bool() {
			ru.Append = true
			ru.Val = common.Pick(r, []string{"", "x", "yz", "\x00", "12345678"})
		} else {
			ru.Inc = common.Pick(r, []int64{0, 1, -1, 5, math.MaxInt64, math.MinInt64, 1 << 40})
		}
		out[i] = ru
	}
	return out
}

// Package drive starts real emulator servers and talks to them over real gRPC (loopback TCP).
package drive

import (
	"context"
	"fmt"
	"io"
	"os"
	"sync"
	"sync/atomic"
	"time"

	"cloud.google.com/go/bigtable"
	btapb "cloud.google.com/go/bigtable/admin/apiv2/adminpb"
	btpb "cloud.google.com/go/bigtable/apiv2/bigtablepb"
	"github.com/fullstorydev/emulators/bigtable/bttest"
	"google.golang.org/grpc"
	"google.golang.org/grpc/codes"
	"google.golang.org/grpc/credentials/insecure"
	"google.golang.org/grpc/status"
	"google.golang.org/protobuf/types/known/durationpb"

	"verif/bt/model"
)

var Engines = []string{"btree", "ldbmem", "ldbdisk"}

// DiskTableBudget used to bound how many on-disk tables one check process opened, because the emulator never closed
// the storage of a deleted table (finding B23). Since that is repaired the budget is unlimited; the counters stay
// as evidence of how many on-disk tables a run created.
var diskTablesOpened int64

const DiskTableBudget = 1 << 60

func NoteDiskTables(n int)      { atomic.AddInt64(&diskTablesOpened, int64(n)) }
func DiskEngineAvailable() bool { return atomic.LoadInt64(&diskTablesOpened) < DiskTableBudget }

// RPCTimeout is the generous watchdog on every request; hitting it is reported as a hang.
var RPCTimeout = 120 * time.Second

type Srv struct {
	Engine string
	S      *bttest.Server
	Conn   *grpc.ClientConn
	Data   btpb.BigtableClient
	Admin  btapb.BigtableTableAdminClient
	Dir    string
	clock  int64 // microseconds, atomic
}

const maxMsg = 256 << 20

func storageFor(engine, dir string) bttest.Storage {
	switch engine {
	case "btree":
		return bttest.BtreeStorage{}
	case "ldbmem":
		return bttest.LeveldbMemStorage{}
	case "ldbdisk":
		return bttest.LeveldbDiskStorage{Root: dir, ErrLog: func(err error, msg string) {
			fmt.Fprintf(os.Stderr, "disk storage error: %s: %v\n", msg, err)
		}}
	}
	panic("unknown engine " + engine)
}

// Start launches an emulator with the given engine and an injectable clock (initially clockUs).
// For "ldbdisk" dir may name an existing directory (restart); if empty a scratch directory is created.
func Start(engine string, clockUs int64, dir string) (*Srv, error) {
	s := &Srv{Engine: engine, clock: clockUs}
	if engine == "ldbdisk" {
		if dir == "" {
			d, err := os.MkdirTemp("", "verif-bt-")
			if err != nil {
				return nil, err
			}
			dir = d
		}
		s.Dir = dir
	}
	srv, err := bttest.NewServerWithOptions("127.0.0.1:0", bttest.Options{
		Storage:  storageFor(engine, dir),
		Clock:    func() bigtable.Timestamp { return bigtable.Timestamp(atomic.LoadInt64(&s.clock)) },
		GrpcOpts: []grpc.ServerOption{grpc.MaxRecvMsgSize(maxMsg), grpc.MaxSendMsgSize(maxMsg)},
	})
	if err != nil {
		return nil, err
	}
	s.S = srv
	if err := s.Dial(srv.Addr); err != nil {
		srv.Close()
		return nil, err
	}
	return s, nil
}

// Connect attaches to an emulator running elsewhere (child process).
func Connect(addr string) (*Srv, error) {
	s := &Srv{Engine: "remote"}
	if err := s.Dial(addr); err != nil {
		return nil, err
	}
	return s, nil
}

func (s *Srv) Dial(addr string) error {
	conn, err := grpc.NewClient(addr, grpc.WithTransportCredentials(insecure.NewCredentials()),
		grpc.WithDefaultCallOptions(grpc.MaxCallRecvMsgSize(maxMsg), grpc.MaxCallSendMsgSize(maxMsg)))
	if err != nil {
		return err
	}
	s.Conn = conn
	s.Data = btpb.NewBigtableClient(conn)
	s.Admin = btapb.NewBigtableTableAdminClient(conn)
	return nil
}

// NewConn opens an additional client connection (one per concurrent client goroutine).
func (s *Srv) NewConn() (*grpc.ClientConn, btpb.BigtableClient, btapb.BigtableTableAdminClient, error) {
	addr := s.Conn.Target()
	conn, err := grpc.NewClient(addr, grpc.WithTransportCredentials(insecure.NewCredentials()),
		grpc.WithDefaultCallOptions(grpc.MaxCallRecvMsgSize(maxMsg), grpc.MaxCallSendMsgSize(maxMsg)))
	if err != nil {
		return nil, nil, nil, err
	}
	return conn, btpb.NewBigtableClient(conn), btapb.NewBigtableTableAdminClient(conn), nil
}

// NewSmallWindowConn is NewConn with fixed 64 KiB HTTP/2 flow-control windows (no dynamic window growth): a server
// that sends more than that to a client which is not reading blocks in Send.
func (s *Srv) NewSmallWindowConn() (*grpc.ClientConn, btpb.BigtableClient, error) {
	conn, err := grpc.NewClient(s.Conn.Target(), grpc.WithTransportCredentials(insecure.NewCredentials()),
		grpc.WithInitialWindowSize(65535), grpc.WithInitialConnWindowSize(65535),
		grpc.WithDefaultCallOptions(grpc.MaxCallRecvMsgSize(maxMsg), grpc.MaxCallSendMsgSize(maxMsg)))
	if err != nil {
		return nil, nil, err
	}
	return conn, btpb.NewBigtableClient(conn), nil
}

func (s *Srv) SetClock(us int64) { atomic.StoreInt64(&s.clock, us) }
func (s *Srv) Clock() int64      { return atomic.LoadInt64(&s.clock) }

// Close stops the server; removeDir also deletes a disk engine's directory.
func (s *Srv) Close(removeDir bool) {
	if s.Conn != nil {
		_ = s.Conn.Close()
	}
	if s.S != nil {
		s.S.Close()
	}
	if removeDir && s.Dir != "" {
		_ = os.RemoveAll(s.Dir)
	}
}

// OnHang, when set, is called (once, from a timer goroutine) when a request made with Ctx() has been outstanding for
// RPCTimeout minus 2 s. The check decides what it means (see hangVerdict in btcheck).
var OnHang func()
var hangOnce sync.Once

func Ctx() (context.Context, context.CancelFunc) {
	ctx, cancel := context.WithTimeout(context.Background(), RPCTimeout)
	if OnHang == nil {
		return ctx, cancel
	}
	t := time.AfterFunc(RPCTimeout-2*time.Second, func() { hangOnce.Do(OnHang) })
	return ctx, func() { t.Stop(); cancel() }
}

// ---- proto conversion ----------------------------------------------------------------------

func MutToProto(m model.Mut) *btpb.Mutation {
	switch m.Kind {
	case model.SetCell:
		return &btpb.Mutation{Mutation: &btpb.Mutation_SetCell_{SetCell: &btpb.Mutation_SetCell{
			FamilyName: m.Fam, ColumnQualifier: []byte(m.Qual), TimestampMicros: m.TS, Value: []byte(m.Val)}}}
	case model.DelCol:
		d := &btpb.Mutation_DeleteFromColumn{FamilyName: m.Fam, ColumnQualifier: []byte(m.Qual)}
		if m.HasRange {
			d.TimeRange = &btpb.TimestampRange{StartTimestampMicros: m.Start, EndTimestampMicros: m.End}
		}
		return &btpb.Mutation{Mutation: &btpb.Mutation_DeleteFromColumn_{DeleteFromColumn: d}}
	case model.DelFam:
		return &btpb.Mutation{Mutation: &btpb.Mutation_DeleteFromFamily_{DeleteFromFamily: &btpb.Mutation_DeleteFromFamily{FamilyName: m.Fam}}}
	default:
		return &btpb.Mutation{Mutation: &btpb.Mutation_DeleteFromRow_{DeleteFromRow: &btpb.Mutation_DeleteFromRow{}}}
	}
}

func MutsToProto(ms []model.Mut) []*btpb.Mutation {
	out := make([]*btpb.Mutation, len(ms))
	for i, m := range ms {
		out[i] = MutToProto(m)
	}
	return out
}

func GcToProto(g *model.GcRule) *btapb.GcRule {
	if g == nil {
		return nil
	}
	switch g.Kind {
	case model.GcMaxVersions:
		return &btapb.GcRule{Rule: &btapb.GcRule_MaxNumVersions{MaxNumVersions: g.N}}
	case model.GcMaxAge:
		return &btapb.GcRule{Rule: &btapb.GcRule_MaxAge{MaxAge: durationpb.New(time.Duration(g.AgeUs) * time.Microsecond)}}
	case model.GcUnion:
		u := &btapb.GcRule_Union{}
		for _, s := range g.Subs {
			u.Rules = append(u.Rules, GcToProto(s))
		}
		return &btapb.GcRule{Rule: &btapb.GcRule_Union_{Union: u}}
	default:
		u := &btapb.GcRule_Intersection{}
		for _, s := range g.Subs {
			u.Rules = append(u.Rules, GcToProto(s))
		}
		return &btapb.GcRule{Rule: &btapb.GcRule_Intersection_{Intersection: u}}
	}
}

// GcFromProto converts back (for comparing GetTable answers).
func GcFromProto(g *btapb.GcRule) *model.GcRule {
	if g == nil || g.Rule == nil {
		return nil
	}
	switch r := g.Rule.(type) {
	case *btapb.GcRule_MaxNumVersions:
		return &model.GcRule{Kind: model.GcMaxVersions, N: r.MaxNumVersions}
	case *btapb.GcRule_MaxAge:
		return &model.GcRule{Kind: model.GcMaxAge, AgeUs: r.MaxAge.AsDuration().Microseconds()}
	case *btapb.GcRule_Union_:
		out := &model.GcRule{Kind: model.GcUnion}
		for _, s := range r.Union.Rules {
			out.Subs = append(out.Subs, GcFromProto(s))
		}
		return out
	case *btapb.GcRule_Intersection_:
		out := &model.GcRule{Kind: model.GcIntersection}
		for _, s := range r.Intersection.Rules {
			out.Subs = append(out.Subs, GcFromProto(s))
		}
		return out
	}
	return nil
}

func FilterToProto(f *model.Filter) *btpb.RowFilter {
	if f == nil {
		return nil
	}
	pat := func() []byte {
		if f.Re == nil {
			return []byte(f.Raw)
		}
		return []byte(f.Re.Render())
	}
	switch f.Kind {
	case "pass":
		return &btpb.RowFilter{Filter: &btpb.RowFilter_PassAllFilter{PassAllFilter: f.Flag}}
	case "block":
		return &btpb.RowFilter{Filter: &btpb.RowFilter_BlockAllFilter{BlockAllFilter: f.Flag}}
	case "strip":
		return &btpb.RowFilter{Filter: &btpb.RowFilter_StripValueTransformer{StripValueTransformer: f.Flag}}
	case "rowkey":
		return &btpb.RowFilter{Filter: &btpb.RowFilter_RowKeyRegexFilter{RowKeyRegexFilter: pat()}}
	case "family":
		return &btpb.RowFilter{Filter: &btpb.RowFilter_FamilyNameRegexFilter{FamilyNameRegexFilter: string(pat())}}
	case "qual":
		return &btpb.RowFilter{Filter: &btpb.RowFilter_ColumnQualifierRegexFilter{ColumnQualifierRegexFilter: pat()}}
	case "value":
		return &btpb.RowFilter{Filter: &btpb.RowFilter_ValueRegexFilter{ValueRegexFilter: pat()}}
	case "colrange":
		cr := &btpb.ColumnRange{FamilyName: f.Fam}
		switch f.SMode {
		case 1:
			cr.StartQualifier = &btpb.ColumnRange_StartQualifierClosed{StartQualifierClosed: []byte(f.Start)}
		case 2:
			cr.StartQualifier = &btpb.ColumnRange_StartQualifierOpen{StartQualifierOpen: []byte(f.Start)}
		}
		switch f.EMode {
		case 1:
			cr.EndQualifier = &btpb.ColumnRange_EndQualifierClosed{EndQualifierClosed: []byte(f.End)}
		case 2:
			cr.EndQualifier = &btpb.ColumnRange_EndQualifierOpen{EndQualifierOpen: []byte(f.End)}
		}
		return &btpb.RowFilter{Filter: &btpb.RowFilter_ColumnRangeFilter{ColumnRangeFilter: cr}}
	case "valrange":
		vr := &btpb.ValueRange{}
		switch f.SMode {
		case 1:
			vr.StartValue = &btpb.ValueRange_StartValueClosed{StartValueClosed: []byte(f.Start)}
		case 2:
			vr.StartValue = &btpb.ValueRange_StartValueOpen{StartValueOpen: []byte(f.Start)}
		}
		switch f.EMode {
		case 1:
			vr.EndValue = &btpb.ValueRange_EndValueClosed{EndValueClosed: []byte(f.End)}
		case 2:
			vr.EndValue = &btpb.ValueRange_EndValueOpen{EndValueOpen: []byte(f.End)}
		}
		return &btpb.RowFilter{Filter: &btpb.RowFilter_ValueRangeFilter{ValueRangeFilter: vr}}
	case "tsrange":
		return &btpb.RowFilter{Filter: &btpb.RowFilter_TimestampRangeFilter{TimestampRangeFilter: &btpb.TimestampRange{StartTimestampMicros: f.TStart, EndTimestampMicros: f.TEnd}}}
	case "rowlimit":
		return &btpb.RowFilter{Filter: &btpb.RowFilter_CellsPerRowLimitFilter{CellsPerRowLimitFilter: f.N}}
	case "rowoffset":
		return &btpb.RowFilter{Filter: &btpb.RowFilter_CellsPerRowOffsetFilter{CellsPerRowOffsetFilter: f.N}}
	case "collimit":
		return &btpb.RowFilter{Filter: &btpb.RowFilter_CellsPerColumnLimitFilter{CellsPerColumnLimitFilter: f.N}}
	case "label":
		return &btpb.RowFilter{Filter: &btpb.RowFilter_ApplyLabelTransformer{ApplyLabelTransformer: f.Label}}
	case "sample":
		return &btpb.RowFilter{Filter: &btpb.RowFilter_RowSampleFilter{RowSampleFilter: f.P}}
	case "chain":
		c := &btpb.RowFilter_Chain{}
		for _, s := range f.Subs {
			c.Filters = append(c.Filters, FilterToProto(s))
		}
		return &btpb.RowFilter{Filter: &btpb.RowFilter_Chain_{Chain: c}}
	case "interleave":
		c := &btpb.RowFilter_Interleave{}
		for _, s := range f.Subs {
			c.Filters = append(c.Filters, FilterToProto(s))
		}
		return &btpb.RowFilter{Filter: &btpb.RowFilter_Interleave_{Interleave: c}}
	case "cond":
		return &btpb.RowFilter{Filter: &btpb.RowFilter_Condition_{Condition: &btpb.RowFilter_Condition{
			PredicateFilter: FilterToProto(f.Pred), TrueFilter: FilterToProto(f.T), FalseFilter: FilterToProto(f.F)}}}
	}
	panic("unknown filter kind " + f.Kind)
}

func RowSetToProto(rs model.RowSet) *btpb.RowSet {
	if rs.Absent {
		return nil
	}
	out := &btpb.RowSet{}
	for _, k := range rs.Keys {
		out.RowKeys = append(out.RowKeys, []byte(k))
	}
	for _, r := range rs.Ranges {
		rr := &btpb.RowRange{}
		switch r.Start.Mode {
		case 1:
			rr.StartKey = &btpb.RowRange_StartKeyClosed{StartKeyClosed: []byte(r.Start.Key)}
		case 2:
			rr.StartKey = &btpb.RowRange_StartKeyOpen{StartKeyOpen: []byte(r.Start.Key)}
		}
		switch r.End.Mode {
		case 1:
			rr.EndKey = &btpb.RowRange_EndKeyClosed{EndKeyClosed: []byte(r.End.Key)}
		case 2:
			rr.EndKey = &btpb.RowRange_EndKeyOpen{EndKeyOpen: []byte(r.End.Key)}
		}
		out.RowRanges = append(out.RowRanges, rr)
	}
	return out
}

// ---- chunk stream decoding (the standard ReadRows state machine) ---------------------------

// ReadResult is a decoded ReadRows stream.
type ReadResult struct {
	Rows      []model.Row
	Code      codes.Code
	Msg       string
	Messages  int    // response messages received
	Malformed string // first breach of the chunk-stream rules ("" if well formed)
}

func (r ReadResult) OK() bool { return r.Code == codes.OK }

type chunkDecoder struct {
	rows      []model.Row
	cur       *model.Row
	fam       string
	qual      string
	haveFam   bool
	haveQual  bool
	lastKey   string
	haveLast  bool
	malformed string
}

func (d *chunkDecoder) bad(format string, args ...any) {
	if d.malformed == "" {
		d.malformed = fmt.Sprintf(format, args...)
	}
}

func (d *chunkDecoder) feed(c *btpb.ReadRowsResponse_CellChunk) {
	if c.GetResetRow() {
		d.bad("reset_row chunk")
		d.cur = nil
		return
	}
	if d.cur == nil {
		// first chunk of a row: must carry key, family and qualifier
		if len(c.RowKey) == 0 {
			d.bad("chunk outside any row (no row key on first chunk)")
			return
		}
		if c.FamilyName == nil || c.Qualifier == nil {
			d.bad("first chunk of row %q lacks family or qualifier", c.RowKey)
		}
		key := string(c.RowKey)
		if d.haveLast && key <= d.lastKey {
			d.bad("row key %q not strictly greater than previous %q", key, d.lastKey)
		}
		d.cur = &model.Row{Key: key}
		d.haveFam, d.haveQual = false, false
	} else if len(c.RowKey) != 0 && string(c.RowKey) != d.cur.Key {
		d.bad("row key changed to %q inside uncommitted row %q", c.RowKey, d.cur.Key)
	}
	if c.FamilyName != nil {
		d.fam = c.FamilyName.Value
		d.haveFam = true
		if c.Qualifier == nil {
			d.bad("family given without qualifier in row %q", d.cur.Key)
		}
	}
	if c.Qualifier != nil {
		d.qual = string(c.Qualifier.Value)
		d.haveQual = true
	}
	if !d.haveFam || !d.haveQual {
		d.bad("cell without family/qualifier context in row %q", d.cur.Key)
	}
	if c.ValueSize != 0 {
		d.bad("split cell value (value_size=%d) not expected from this server", c.ValueSize)
	}
	d.cur.Cells = append(d.cur.Cells, model.Cell{Fam: d.fam, Qual: d.qual, TS: c.TimestampMicros, Val: string(c.Value), Labels: c.Labels})
	if c.GetCommitRow() {
		d.rows = append(d.rows, *d.cur)
		d.lastKey, d.haveLast = d.cur.Key, true
		d.cur = nil
	}
}

func (d *chunkDecoder) finish() {
	if d.cur != nil {
		d.bad("stream ended inside uncommitted row %q", d.cur.Key)
	}
}

// ReadRows performs one ReadRows call and decodes + validates the stream.
func ReadRows(cl btpb.BigtableClient, req *btpb.ReadRowsRequest) ReadResult {
	ctx, cancel := Ctx()
	defer cancel()
	return ReadRowsCtx(ctx, cl, req, nil)
}

// ReadRowsCtx is ReadRows with a caller context and an optional per-message callback (message count, last key seen).
func ReadRowsCtx(ctx context.Context, cl btpb.BigtableClient, req *btpb.ReadRowsRequest, onMsg func(n int, lastKey string)) ReadResult {
	var res ReadResult
	stream, err := cl.ReadRows(ctx, req)
	if err != nil {
		st, _ := status.FromError(err)
		res.Code, res.Msg = st.Code(), st.Message()
		return res
	}
	var d chunkDecoder
	for {
		msg, err := stream.Recv()
		if err == io.EOF {
			break
		}
		if err != nil {
			st, _ := status.FromError(err)
			res.Code, res.Msg = st.Code(), st.Message()
			break
		}
		res.Messages++
		if len(msg.Chunks) == 0 {
			d.bad("response message without chunks")
		}
		for _, c := range msg.Chunks {
			d.feed(c)
		}
		if onMsg != nil {
			last := d.lastKey
			if d.cur != nil {
				last = d.cur.Key
			}
			onMsg(res.Messages, last)
		}
	}
	if res.Code == codes.OK {
		d.finish()
	}
	res.Rows = d.rows
	res.Malformed = d.malformed
	return res
}

// ReadAll reads the whole table unfiltered.
func ReadAll(cl btpb.BigtableClient, table string) ReadResult {
	return ReadRows(cl, &btpb.ReadRowsRequest{TableName: table})
}

// ReadRow reads one row unfiltered (nil cells if absent).
func ReadRow(cl btpb.BigtableClient, table, key string) ReadResult {
	return ReadRows(cl, &btpb.ReadRowsRequest{TableName: table, Rows: &btpb.RowSet{RowKeys: [][]byte{[]byte(key)}}})
}

// ---- write RPC wrappers --------------------------------------------------------------------

type Status struct {
	Code codes.Code
	Msg  string
}

func (s Status) OK() bool { return s.Code == codes.OK }
func (s Status) String() string {
	if s.OK() {
		return "OK"
	}
	return s.Code.String() + ": " + s.Msg
}

func statusOf(err error) Status {
	if err == nil {
		return Status{}
	}
	st, _ := status.FromError(err)
	return Status{Code: st.Code(), Msg: st.Message()}
}

func StatusOf(err error) Status { return statusOf(err) }

func MutateRow(cl btpb.BigtableClient, table, key string, muts []model.Mut) Status {
	ctx, cancel := Ctx()
	defer cancel()
	_, err := cl.MutateRow(ctx, &btpb.MutateRowRequest{TableName: table, RowKey: []byte(key), Mutations: MutsToProto(muts)})
	return statusOf(err)
}

type Entry struct {
	Key  string
	Muts []model.Mut
}

// MutateRows returns the overall status and the per-entry statuses (indexed by entry).
func MutateRows(cl btpb.BigtableClient, table string, entries []Entry) (Status, []Status, string) {
	ctx, cancel := Ctx()
	defer cancel()
	req := &btpb.MutateRowsRequest{TableName: table}
	for _, e := range entries {
		req.Entries = append(req.Entries, &btpb.MutateRowsRequest_Entry{RowKey: []byte(e.Key), Mutations: MutsToProto(e.Muts)})
	}
	stream, err := cl.MutateRows(ctx, req)
	if err != nil {
		return statusOf(err), nil, ""
	}
	per := make([]Status, len(entries))
	seen := make([]bool, len(entries))
	malformed := ""
	for {
		msg, err := stream.Recv()
		if err == io.EOF {
			break
		}
		if err != nil {
			return statusOf(err), per, malformed
		}
		for _, e := range msg.Entries {
			if e.Index < 0 || int(e.Index) >= len(entries) {
				malformed = fmt.Sprintf("entry index %d out of range", e.Index)
				continue
			}
			if seen[e.Index] {
				malformed = fmt.Sprintf("entry index %d reported twice", e.Index)
			}
			seen[e.Index] = true
			per[e.Index] = Status{Code: codes.Code(e.GetStatus().GetCode()), Msg: e.GetStatus().GetMessage()}
		}
	}
	for i, s := range seen {
		if !s && malformed == "" {
			malformed = fmt.Sprintf("no status for entry %d", i)
		}
	}
	return Status{}, per, malformed
}

func CheckAndMutate(cl btpb.BigtableClient, table, key string, pred *model.Filter, t, f []model.Mut) (Status, bool) {
	ctx, cancel := Ctx()
	defer cancel()
	res, err := cl.CheckAndMutateRow(ctx, &btpb.CheckAndMutateRowRequest{TableName: table, RowKey: []byte(key),
		PredicateFilter: FilterToProto(pred), TrueMutations: MutsToProto(t), FalseMutations: MutsToProto(f)})
	if err != nil {
		return statusOf(err), false
	}
	return Status{}, res.PredicateMatched
}

// Rule is one ReadModifyWrite rule.
type Rule struct {
	Fam    string
	Qual   string
	Append bool
	Val    string // append bytes
	Inc    int64
}

func (r Rule) String() string {
	if r.Append {
		return fmt.Sprintf("append(%s:%q,%q)", r.Fam, r.Qual, r.Val)
	}
	return fmt.Sprintf("inc(%s:%q,%d)", r.Fam, r.Qual, r.Inc)
}

func RulesToProto(rules []Rule) []*btpb.ReadModifyWriteRule {
	var out []*btpb.ReadModifyWriteRule
	for _, r := range rules {
		p := &btpb.ReadModifyWriteRule{FamilyName: r.Fam, ColumnQualifier: []byte(r.Qual)}
		if r.Append {
			p.Rule = &btpb.ReadModifyWriteRule_AppendValue{AppendValue: []byte(r.Val)}
		} else {
			p.Rule = &btpb.ReadModifyWriteRule_IncrementAmount{IncrementAmount: r.Inc}
		}
		out = append(out, p)
	}
	return out
}

func RowFromProto(r *btpb.Row) model.Row {
	out := model.Row{Key: string(r.GetKey())}
	for _, f := range r.GetFamilies() {
		for _, c := range f.Columns {
			for _, cell := range c.Cells {
				out.Cells = append(out.Cells, model.Cell{Fam: f.Name, Qual: string(c.Qualifier), TS: cell.TimestampMicros, Val: string(cell.Value), Labels: cell.Labels})
			}
		}
	}
	return out
}

func ReadModifyWrite(cl btpb.BigtableClient, table, key string, rules []Rule) (Status, model.Row) {
	ctx, cancel := Ctx()
	defer cancel()
	res, err := cl.ReadModifyWriteRow(ctx, &btpb.ReadModifyWriteRowRequest{TableName: table, RowKey: []byte(key), Rules: RulesToProto(rules)})
	if err != nil {
		return statusOf(err), model.Row{}
	}
	return Status{}, RowFromProto(res.Row)
}

// ---- admin wrappers ------------------------------------------------------------------------

const Parent = "projects/p/instances/i"

func TableName(parent, id string) string { return parent + "/tables/" + id }

func CreateTable(ad btapb.BigtableTableAdminClient, parent, id string, fams map[string]*model.GcRule) Status {
	ctx, cancel := Ctx()
	defer cancel()
	t := &btapb.Table{ColumnFamilies: map[string]*btapb.ColumnFamily{}}
	for f, g := range fams {
		t.ColumnFamilies[f] = &btapb.ColumnFamily{GcRule: GcToProto(g)}
	}
	_, err := ad.CreateTable(ctx, &btapb.CreateTableRequest{Parent: parent, TableId: id, Table: t})
	return statusOf(err)
}

// MustTable creates a table with plain families, panicking on failure (harness set-up).
func MustTable(ad btapb.BigtableTableAdminClient, id string, fams ...string) string {
	m := map[string]*model.GcRule{}
	for _, f := range fams {
		m[f] = nil
	}
	if st := CreateTable(ad, Parent, id, m); !st.OK() {
		panic("set-up CreateTable failed: " + st.String())
	}
	return TableName(Parent, id)
}

func SampleRowKeys(cl btpb.BigtableClient, table string) (Status, []string, []int64) {
	ctx, cancel := Ctx()
	defer cancel()
	stream, err := cl.SampleRowKeys(ctx, &btpb.SampleRowKeysRequest{TableName: table})
	if err != nil {
		return statusOf(err), nil, nil
	}
	var keys []string
	var offs []int64
	for {
		msg, err := stream.Recv()
		if err == io.EOF {
			break
		}
		if err != nil {
			return statusOf(err), keys, offs
		}
		keys = append(keys, string(msg.RowKey))
		offs = append(offs, msg.OffsetBytes)
	}
	return Status{}, keys, offs
}

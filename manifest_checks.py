add("C01", "bt", "exploration", "differential runtime monitor: generated mutation programs vs reference data model, full re-read after every request, 3 engines, injected clock",
    "Held on every generated program x engine that was executed: after each MutateRow/MutateRows the whole table and the touched rows, read over real gRPC, equal the reference model cell-for-cell and obey the ordering rules; invalid requests were rejected without effect. Sampling of an infinite program space, so exploration is the honest level.",
    "Trusts the reference model (written from the API documentation), the chunk-stream decoder and the gRPC client library; family order within a row and error codes are not compared.",
    "DESIGN.md 4/C01")

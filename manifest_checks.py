add("C01", "bt", "exploration", "differential runtime monitor: generated mutation programs vs reference data model, full re-read after every request, 3 engines, injected clock",
    "Held on every generated program x engine that was executed: after each MutateRow/MutateRows the whole table and the touched rows, read over real gRPC, equal the reference model cell-for-cell and obey the ordering rules; invalid requests were rejected without effect. Sampling of an infinite program space, so exploration is the honest level.",
    "Trusts the reference model (written from the API documentation), the chunk-stream decoder and the gRPC client library; family order within a row and error codes are not compared.",
    "DESIGN.md 4/C01")
add("C03", "bt", "exploration", "enumerated RowSets (every single range; every ordered range pair x key option in thorough) vs set-union model + chunk-stream state machine + SampleRowKeys invariants, 3 engines, multi-message streams",
    "Every ReadRows over the enumerated RowSet space returned exactly the model's key set in order with a well-formed chunk stream; inverted ranges were rejected; limits counted only rows with output; SampleRowKeys invariants held on every call observed. The finite 'two ranges plus one key over the 7-key universe' space is completed in the thorough tier; table contents beyond the three used and larger sets are sampled, hence exploration.",
    "Trusts the set-union model (40 lines), the chunk decoder and the gRPC client; empty keys inside bounds are not generated.",
    "DESIGN.md 4/C03")
add("C05", "bt", "exploration", "differential runtime monitor: independent filter evaluator (own byte-regex matcher) applied to the unfiltered rows as served; complete leaf-boundary list and complete depth-2 compositions over a 24-leaf basis, PRNG trees to depth 4, 3 engines",
    "Every filtered read executed returned, row by row, exactly the cells the independent evaluator computes (multiset per column, order rules checked), and every invalid argument that the semantics apply to data was rejected with InvalidArgument without killing the server. Complete for the listed finite sub-spaces on the generated tables; deeper trees are sampled.",
    "Trusts the evaluator written from the Bigtable filter documentation; cases whose result depends on an unspecified order (limit/offset cutting a multi-family or duplicate-bearing interleave result) are counted and not decided; zero limits may be rejected or return nothing.",
    "DESIGN.md 4/C05")
add("C12", "bt", "exploration", "differential runtime monitor: predicate_matched vs independent evaluator AND vs ReadRows(filter=predicate) taken just before; row afterwards vs data model applying exactly the selected list; whole table re-read",
    "On every CheckAndMutateRow executed, predicate_matched equalled 'the predicate yields at least one cell' as computed independently and as observed through a filtered read, exactly the selected mutation list was applied atomically, and nothing else changed; invalid predicates/branches failed without effect.",
    "Trusts the C05 evaluator and C01 model; predicates whose result is order-dependent are resynchronised, not decided.",
    "DESIGN.md 4/C12")
add("C13", "bt", "exploration", "differential runtime monitor: RMW reference model (max(clock,newest ts), 64-bit wrap-around, append, atomic failure) vs response row and full re-read under a moving injected clock, 3 engines",
    "Every ReadModifyWriteRow response and the row read back afterwards equalled the model for all generated rule lists, prior states (future cells, non-8-byte values) and clock values; failing requests changed nothing.",
    "Trusts the 60-line RMW model; an increment on an existing empty value may fail or count as 0; a request without rules may be rejected or be a no-op.",
    "DESIGN.md 4/C13")
add("C14", "bt", "exploration", "differential runtime monitor: registry + data model; after every admin/data request ListTables, GetTable, full scan of every live table and NotFound probes on every non-existent name, 3 engines",
    "After every request of every generated program the complete observable registry (tables per parent, families with GC rules) and all row data equalled the model: failed multi-modification requests changed nothing, dropped families lost exactly their cells, prefix drops removed exactly the prefixed rows, deleted tables were unreachable and re-created empty.",
    "Trusts the registry/data model; ModifyColumnFamilies error codes not compared; empty-prefix DropRowRange may be rejected or clear the table.",
    "DESIGN.md 4/C14")
add("C17", "bt", "exploration", "model-free differential monitor: one generated program fed to btree / leveldb-mem / leveldb-disk servers, canonicalised responses compared pairwise request by request",
    "For every generated program all three engines returned identical responses to every request (status, message, rows, cells, order, per-entry statuses, predicate results, schema), including scans that fail part-way and limit-truncated scans. Independent of any reference model.",
    "Row-sample filters excluded; SampleRowKeys reduced to its last key; assumes the gRPC layer is deterministic.",
    "DESIGN.md 4/C17")

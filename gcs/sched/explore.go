package sched

import (
	"fmt"
	"sync"
)

// Graph is the transition graph of one program at hook granularity: nodes are the abstract states of Exec.nodeKey,
// edges are scheduler actions. Explore executes every enabled action of every reached node at least once (for a
// step whose outcome is picked by Go's select - both arms ready - until both outcomes were seen or MaxBothTries
// executions of it). Every execution is a fresh lock map replayed from the start.
type Graph struct {
	Prog         *Program
	Opt          Options
	MaxBothTries int // default 50
	MaxReach     int // give up on a (node, action) after this many replays that diverged before reaching it (default 300)
	OnResult     func(*Result)
	StopFn       func() bool

	mu       sync.Mutex
	cond     *sync.Cond
	nodes    map[string]*gnode
	frontier [][]fitem // bucket per node depth: shallow targets first, so that the greedy tail of an execution runs into unexplored territory
	nfront   int
	inflight int
	booted   bool
	stop     bool

	Executions   int
	Steps        int
	Edges        int // enabled (node, action) pairs discovered
	EdgesDone    int // ... executed at least once (and, for both-ready steps, settled)
	Transitions  int // distinct (node, action, outcome)
	Terminals    int
	Diverged     int // replays that left the recorded path because the runtime chose differently
	GaveUp       int
	BothSettled2 int // both-ready steps for which both outcomes were seen
	BothSettled1 int // ... only one outcome in MaxBothTries executions
	WakeOrders   int // releases with two queued workers: distinct (node, woken worker) seen
	Inconsistent []string
	Violation    *Violation
	BlindRuns    int
	Agg          Stats
	MaxDepth     int
}

type gnode struct {
	key    string
	parent *gnode
	pact   int
	cost   int
	depth  int
	acts   []gact
}

type gact struct {
	a         Action
	succ      *gnode // node reached the last time this action was executed
	claimed   bool
	done      bool
	tries     int
	reachFail int
	outcomes  map[string]int
}

type fitem struct {
	n *gnode
	i int
}

type pstep struct {
	node string
	act  int
}

func (g *Graph) push(it fitem) {
	d := it.n.depth
	for len(g.frontier) <= d {
		g.frontier = append(g.frontier, nil)
	}
	g.frontier[d] = append(g.frontier[d], it)
	g.nfront++
}

// pop returns the shallowest queued item.
func (g *Graph) pop() (fitem, bool) {
	for d := range g.frontier {
		b := g.frontier[d]
		if n := len(b); n > 0 {
			it := b[n-1]
			g.frontier[d] = b[:n-1]
			g.nfront--
			return it, true
		}
	}
	return fitem{}, false
}

// hasOpen reports whether n or a known descendant within depth levels has an action that is neither done nor claimed.
func hasOpen(n *gnode, depth int) bool {
	for i := range n.acts {
		if a := &n.acts[i]; !a.done && !a.claimed {
			return true
		}
	}
	if depth > 0 {
		for i := range n.acts {
			if s := n.acts[i].succ; s != nil && hasOpen(s, depth-1) {
				return true
			}
		}
	}
	return false
}

// Nodes returns the number of distinct nodes reached.
func (g *Graph) Nodes() int {
	g.mu.Lock()
	defer g.mu.Unlock()
	return len(g.nodes)
}

// Complete reports whether every enabled action of every reached node was executed and nothing was given up.
func (g *Graph) Complete() bool {
	g.mu.Lock()
	defer g.mu.Unlock()
	return g.booted && !g.stop && g.Violation == nil && g.GaveUp == 0 && g.EdgesDone == g.Edges && len(g.Inconsistent) == 0 && g.BlindRuns == 0
}

// Explore runs until the graph is closed, a violation is found or StopFn says stop. executors goroutines run
// executions concurrently; sem (optional) bounds the number of executions in flight across graphs.
func (g *Graph) Explore(executors int, sem chan struct{}) {
	if g.MaxBothTries == 0 {
		g.MaxBothTries = 50
	}
	if g.MaxReach == 0 {
		g.MaxReach = 300
	}
	g.cond = sync.NewCond(&g.mu)
	g.nodes = map[string]*gnode{}
	// bootstrap: one execution discovers the root
	g.runOne(nil, nil, sem)
	g.mu.Lock()
	g.booted = true
	g.mu.Unlock()
	var wg sync.WaitGroup
	for e := 0; e < executors; e++ {
		wg.Add(1)
		go func() {
			defer wg.Done()
			for {
				path, target, ok := g.pick()
				if !ok {
					return
				}
				g.runOne(path, target, sem)
				g.mu.Lock()
				g.inflight--
				g.cond.Broadcast()
				g.mu.Unlock()
			}
		}()
	}
	wg.Wait()
}

// pick claims an unexplored (node, action) and returns the replay path to it.
func (g *Graph) pick() ([]pstep, *fitem, bool) {
	g.mu.Lock()
	defer g.mu.Unlock()
	for {
		if g.StopFn != nil && g.StopFn() {
			g.stop = true
		}
		if g.stop {
			g.cond.Broadcast()
			return nil, nil, false
		}
		for g.nfront > 0 {
			it, _ := g.pop()
			a := &it.n.acts[it.i]
			if a.done || a.claimed {
				continue
			}
			a.claimed = true
			g.inflight++
			var rev []pstep
			for n := it.n; n.parent != nil; n = n.parent {
				rev = append(rev, pstep{n.parent.key, n.pact})
			}
			path := make([]pstep, 0, len(rev)+1)
			for i := len(rev) - 1; i >= 0; i-- {
				path = append(path, rev[i])
			}
			path = append(path, pstep{it.n.key, it.i})
			return path, &it, true
		}
		if g.inflight == 0 {
			g.cond.Broadcast()
			return nil, nil, false
		}
		g.cond.Wait()
	}
}

func (g *Graph) runOne(path []pstep, target *fitem, sem chan struct{}) {
	if sem != nil {
		sem <- struct{}{}
		defer func() { <-sem }()
	}
	c := &expChooser{g: g, path: path, claim: target}
	res := Run(g.Prog, c, g.Opt)
	g.mu.Lock()
	if c.claim != nil { // never executed (diverged after claiming greedily, or the execution was cut short)
		a := &c.claim.n.acts[c.claim.i]
		a.claimed = false
		g.push(*c.claim)
		c.claim = nil
	}
	g.Executions++
	g.Steps += res.Stats.Steps
	addStats(&g.Agg, &res.Stats)
	if res.Blind {
		g.BlindRuns++
		g.stop = true
	}
	if res.Violation != nil && g.Violation == nil {
		g.Violation = res.Violation
		g.stop = true
	}
	g.mu.Unlock()
	if g.OnResult != nil {
		g.OnResult(res)
	}
}

func addStats(dst, s *Stats) {
	dst.Steps += s.Steps
	dst.Waits += s.Waits
	dst.CancelsQueued += s.CancelsQueued
	dst.CancelsParked += s.CancelsParked
	dst.BothReadyAcq += s.BothReadyAcq
	dst.BothReadyCan += s.BothReadyCan
	dst.WakeChoices += s.WakeChoices
	dst.Wakeups += s.Wakeups
	dst.PreCancelled += s.PreCancelled
	dst.BadUnlockAbsnt += s.BadUnlockAbsnt
	dst.BadUnlockEmpty += s.BadUnlockEmpty
	dst.Hooks += s.Hooks
	dst.Invariants += s.Invariants
}

// AddStats accumulates s into dst.
func AddStats(dst, s *Stats) { addStats(dst, s) }

type expChooser struct {
	g       *Graph
	path    []pstep
	pos     int
	claim   *fitem
	cur     *gnode
	prev    *gnode
	prevAct int
	prevND  bool
	rot     int
}

func sameActions(a []gact, b []Action) bool {
	if len(a) != len(b) {
		return false
	}
	for i := range a {
		if a[i].a != b[i] {
			return false
		}
	}
	return true
}

func (c *expChooser) Choose(node string, acts []Action) int {
	g := c.g
	g.mu.Lock()
	defer g.mu.Unlock()
	n := g.nodes[node]
	cost, depth := 0, 0
	if c.prev != nil {
		cost = c.prev.cost + 1
		if c.prevND {
			cost += 1000
		}
		depth = c.prev.depth + 1
	}
	if n == nil {
		n = &gnode{key: node, parent: c.prev, pact: c.prevAct, cost: cost, depth: depth}
		for _, a := range acts {
			n.acts = append(n.acts, gact{a: a, outcomes: map[string]int{}})
		}
		g.nodes[node] = n
		g.Edges += len(acts)
		for i := len(acts) - 1; i >= 0; i-- {
			g.push(fitem{n, i})
		}
		if len(acts) == 0 {
			g.Terminals++
		}
		if depth > g.MaxDepth {
			g.MaxDepth = depth
		}
		g.cond.Broadcast()
	} else {
		if !sameActions(n.acts, acts) {
			if len(g.Inconsistent) < 5 {
				g.Inconsistent = append(g.Inconsistent, fmt.Sprintf("node %q: enabled actions %v differ from the first visit", node, acts))
			}
			return -1
		}
		if c.prev != nil && cost < n.cost {
			n.parent, n.pact, n.cost, n.depth = c.prev, c.prevAct, cost, depth
		}
	}
	if c.prev != nil {
		c.prev.acts[c.prevAct].succ = n
	}
	c.cur = n
	if len(acts) == 0 {
		return -1
	}
	if c.pos < len(c.path) {
		ps := c.path[c.pos]
		if ps.node == node {
			c.pos++
			return ps.act
		}
		// the runtime chose differently at a select / wake-up on the way: give the target back
		g.Diverged++
		c.pos = len(c.path)
		if c.claim != nil {
			a := &c.claim.n.acts[c.claim.i]
			a.claimed = false
			a.reachFail++
			if a.reachFail >= g.MaxReach && !a.done {
				a.done = true
				g.EdgesDone++ // counted as settled, but GaveUp forbids the claim of completeness
				g.GaveUp++
			} else if !a.done {
				g.push(*c.claim)
			}
			c.claim = nil
		}
	}
	if g.stop {
		return -1
	}
	for i := range n.acts {
		a := &n.acts[i]
		if !a.done && !a.claimed {
			a.claimed = true
			c.claim = &fitem{n, i}
			return i
		}
	}
	// nothing new here: move on towards a known successor that still has unexplored actions nearby, else rotate
	c.rot++
	for d := 0; d <= 2; d++ {
		for k := range n.acts {
			i := (k + c.rot) % len(n.acts)
			if s := n.acts[i].succ; s != nil && hasOpen(s, d) {
				return i
			}
		}
	}
	return c.rot % len(n.acts)
}

func (c *expChooser) Observe(node string, act Action, outcome string, nondet bool) {
	g := c.g
	g.mu.Lock()
	defer g.mu.Unlock()
	n := c.cur
	idx := -1
	for i := range n.acts {
		if n.acts[i].a == act {
			idx = i
		}
	}
	if idx < 0 || n.key != node {
		if len(g.Inconsistent) < 5 {
			g.Inconsistent = append(g.Inconsistent, fmt.Sprintf("observe: action %v not at node %q", act, node))
		}
		return
	}
	a := &n.acts[idx]
	a.tries++
	if a.outcomes[outcome] == 0 {
		g.Transitions++
		if nondet && !act.Both {
			g.WakeOrders++
		}
	}
	a.outcomes[outcome]++
	if c.claim != nil && c.claim.n == n && c.claim.i == idx {
		a.claimed = false
		c.claim = nil
	}
	if !a.done {
		switch {
		case !act.Both:
			a.done = true
			g.EdgesDone++
		case len(a.outcomes) >= 2:
			a.done = true
			g.EdgesDone++
			g.BothSettled2++
		case a.tries >= g.MaxBothTries:
			a.done = true
			g.EdgesDone++
			g.BothSettled1++
		default:
			g.push(fitem{n, idx})
		}
	}
	c.prev, c.prevAct, c.prevND = n, idx, nondet
}

// ---------------------------------------------------------------------------------------------------------------
// other choosers

// ScheduleChooser follows a recorded choice sequence and then stops.
type ScheduleChooser struct {
	Actions  []Action
	pos      int
	Diverged bool
}

func (s *ScheduleChooser) Choose(node string, acts []Action) int {
	if s.pos >= len(s.Actions) {
		return -1
	}
	want := s.Actions[s.pos]
	for i, a := range acts {
		if a.Kind == want.Kind && a.W == want.W {
			s.pos++
			return i
		}
	}
	s.Diverged = true
	return -1
}

func (s *ScheduleChooser) Observe(string, Action, string, bool) {}

// RandomChooser picks uniformly among the enabled steps and, with probability CancelNum/CancelDen, among the
// enabled cancels instead. Intn must be deterministic for replays.
type RandomChooser struct {
	Intn      func(n int) int
	CancelNum int
	CancelDen int
	Cover     *Coverage
	Tag       string
}

func (r *RandomChooser) Choose(node string, acts []Action) int {
	if r.Cover != nil {
		r.Cover.node(r.Tag, node)
	}
	if len(acts) == 0 {
		return -1
	}
	var steps, cancels []int
	for i, a := range acts {
		if a.Kind == 's' {
			steps = append(steps, i)
		} else {
			cancels = append(cancels, i)
		}
	}
	if len(cancels) > 0 && (len(steps) == 0 || r.Intn(r.CancelDen) < r.CancelNum) {
		return cancels[r.Intn(len(cancels))]
	}
	return steps[r.Intn(len(steps))]
}

func (r *RandomChooser) Observe(node string, act Action, outcome string, nondet bool) {
	if r.Cover != nil {
		r.Cover.edge(r.Tag, node, act, outcome)
	}
}

// Coverage counts distinct nodes and transitions seen by random walks.
type Coverage struct {
	mu    sync.Mutex
	nodes map[string]struct{}
	edges map[string]struct{}
}

func NewCoverage() *Coverage {
	return &Coverage{nodes: map[string]struct{}{}, edges: map[string]struct{}{}}
}

func (c *Coverage) node(tag, node string) {
	c.mu.Lock()
	c.nodes[tag+"#"+node] = struct{}{}
	c.mu.Unlock()
}

func (c *Coverage) edge(tag, node string, a Action, outcome string) {
	c.mu.Lock()
	c.edges[tag+"#"+node+"#"+a.String()+"#"+outcome] = struct{}{}
	c.mu.Unlock()
}

func (c *Coverage) Counts() (nodes, edges int) {
	c.mu.Lock()
	defer c.mu.Unlock()
	return len(c.nodes), len(c.edges)
}

package sched

import (
	"context"
	"fmt"
	"runtime"
	"runtime/debug"
	"strings"
	"sync/atomic"
	"time"

	"github.com/fullstorydev/emulators/storage/gcsutil"
)

// ---------------------------------------------------------------------------------------------------------------
// points

type point uint8

const (
	ptStart point = iota
	ptLockEnter
	ptLockAfterRef
	ptLockBeforeSelect
	ptWaiting // pseudo point: granted into a full slot, blocked (or about to block) in the select of countedLock.Lock
	ptLockAcquired
	ptLockCancelled
	ptLockReturned
	ptUnlockEnter
	ptUnlockAfterLookup
	ptUnlockAfterRelease
	ptUnlockDone
	ptDone // pseudo point: script finished
)

var pointNames = [...]string{"start", "lock.enter", "lock.afterRef", "lock.beforeSelect", "waiting", "lock.acquired",
	"lock.cancelled", "lock.returned", "unlock.enter", "unlock.afterLookup", "unlock.afterRelease", "unlock.done", "done"}

var pointCodes = [...]string{"?", "E", "F", "S", "W", "A", "C", "T", "u", "l", "r", "d", "D"}

var pointByName = func() map[string]point {
	m := map[string]point{}
	for i, n := range pointNames {
		if point(i) != ptStart && point(i) != ptWaiting && point(i) != ptDone {
			m[n] = point(i)
		}
	}
	return m
}()

func (p point) String() string { return pointNames[p] }

// ---------------------------------------------------------------------------------------------------------------
// events and workers

type evKind uint8

const (
	evHook evKind = iota
	evDone
	evPanic
)

type opResult struct {
	round    int
	form     Form
	ok       bool // Lock returned true / Run returned nil
	ctxErr   bool // ctx.Err() != nil when the call returned
	fRan     bool // Run: the callback was invoked
	errIsCtx bool // Run: returned error == ctx.Err()
	panicked bool // BadUnlock: Unlock panicked
	msg      string
}

type event struct {
	w       *worker
	kind    evKind
	point   point
	pname   string
	key     string
	round   int
	results []opResult
	hooks   int
	msg     string
	stack   string
}

type expectation struct {
	round int
	pt    point
}

type wstate struct {
	round     int
	pt        point
	cancelled []bool // per round: the scheduler cancelled this round's context
	acq, can  []bool // per round: lock.acquired / lock.cancelled was reached
	nres      int
	expect    []expectation
}

type worker struct {
	id      int
	ex      *Exec
	script  []Round
	grant   chan struct{}
	ctxs    []context.Context
	cancels []context.CancelFunc
	gid     uint64 // written by the worker goroutine before its first event, read by the scheduler after it

	// owned by the worker goroutine
	cur     int
	pending []opResult
	hooks   int

	// owned by the scheduler goroutine
	st wstate
}

func (w *worker) atHook(pname, key string) {
	ex := w.ex
	if ex.draining.Load() {
		return
	}
	w.hooks++
	ev := event{w: w, kind: evHook, point: pointByName[pname], pname: pname, key: key, round: w.cur, results: w.pending}
	w.pending = nil
	ex.events <- ev
	select {
	case <-w.grant:
	case <-ex.drainCh:
	}
}

func (w *worker) main() {
	w.gid = goid() // only used to find this goroutine in dumps
	gk := gkey()
	if prev, loaded := registry.LoadOrStore(gk, w); loaded && prev != w {
		panic("harness: goroutine key already registered")
	}
	defer func() {
		registry.Delete(gk)
		if r := recover(); r != nil {
			w.ex.events <- event{w: w, kind: evPanic, msg: fmt.Sprint(r), stack: string(debug.Stack()), results: w.pending, round: w.cur, hooks: w.hooks}
			return
		}
		w.ex.events <- event{w: w, kind: evDone, results: w.pending, round: len(w.script), hooks: w.hooks}
	}()
	m := w.ex.m
	for i, rd := range w.script {
		w.cur = i
		ctx := w.ctxs[i]
		switch rd.Form {
		case FormLock:
			ok := m.Lock(ctx, rd.Key)
			w.pending = append(w.pending, opResult{round: i, form: rd.Form, ok: ok, ctxErr: ctx.Err() != nil})
			if ok {
				m.Unlock(rd.Key)
			}
		case FormRun:
			ran := false
			err := m.Run(ctx, rd.Key, func(context.Context) error { ran = true; return nil })
			w.pending = append(w.pending, opResult{round: i, form: rd.Form, ok: err == nil, ctxErr: ctx.Err() != nil, fRan: ran, errIsCtx: err != nil && err == ctx.Err()})
		case FormBadUnlock:
			res := opResult{round: i, form: rd.Form}
			func() {
				defer func() {
					if r := recover(); r != nil {
						res.panicked = true
						res.msg = fmt.Sprint(r)
					}
				}()
				m.Unlock(rd.Key)
			}()
			w.pending = append(w.pending, res)
		}
	}
}

// ---------------------------------------------------------------------------------------------------------------
// actions, chooser, result

// Action is one scheduler choice: grant worker W one step ('s') or cancel the context of W's current round ('c').
type Action struct {
	Kind byte
	W    int
	// Both marks a step into the select with the slot free and the context already cancelled: Go picks either arm.
	Both bool
}

func (a Action) String() string { return fmt.Sprintf("%c%d", a.Kind, a.W) }

// ParseAction parses "s0" / "c2".
func ParseAction(s string) (Action, error) {
	var a Action
	if len(s) < 2 || (s[0] != 's' && s[0] != 'c') {
		return a, fmt.Errorf("bad action %q", s)
	}
	a.Kind = s[0]
	if _, err := fmt.Sscanf(s[1:], "%d", &a.W); err != nil {
		return a, err
	}
	return a, nil
}

// Chooser decides the schedule of one execution.
type Chooser interface {
	// Choose is called at every quiescent node (all workers parked, blocked or finished) with the enabled actions;
	// it returns an index into acts, or -1 to stop controlling the execution (the workers are then cancelled and
	// run freely to the end). At the terminal node it is called with no actions.
	Choose(node string, acts []Action) int
	// Observe is called after the chosen action was executed and its consequences were observed and checked.
	// nondet says that the outcome depended on a choice made by the Go runtime.
	Observe(node string, act Action, outcome string, nondet bool)
}

// Stats is what one execution observed.
type Stats struct {
	Steps          int `json:"steps"`
	Waits          int `json:"waits"`
	CancelsQueued  int `json:"cancels_while_queued"`
	CancelsParked  int `json:"cancels_while_parked"`
	BothReadyAcq   int `json:"select_both_ready_acquired"`
	BothReadyCan   int `json:"select_both_ready_cancelled"`
	WakeChoices    int `json:"releases_with_2_waiters"`
	Wakeups        int `json:"wakeups"`
	PreCancelled   int `json:"locks_on_cancelled_ctx"`
	BadUnlockAbsnt int `json:"bad_unlock_no_entry"`
	BadUnlockEmpty int `json:"bad_unlock_entry_slot_empty"`
	Hooks          int `json:"hooks"`
	Invariants     int `json:"invariant_checks"`
}

// Violation describes a property violation observed in one execution.
type Violation struct {
	What     string   `json:"what"`
	Program  string   `json:"program"`
	Schedule []string `json:"schedule"` // "<action>><outcome>"
	Actions  string   `json:"actions"`  // the choice sequence alone, space separated
	Node     string   `json:"node"`
	Shadow   string   `json:"shadow_state"`
	Real     string   `json:"real_state"`
	Dump     string   `json:"goroutines,omitempty"`
	FoundAt  float64  `json:"found_after_s,omitempty"` // seconds into the run (set by the caller)
}

// Result of one execution.
type Result struct {
	Program    *Program
	Trace      []string // "<action>><outcome>"
	Actions    []string
	Stats      Stats
	Nontrivial bool // some worker queued behind a holder, or a cancel hit a queued worker
	Terminal   bool // the terminal node was reached under scheduler control
	Blind      bool // hooks never fired
	Diverged   bool // set by schedule-following choosers
	Violation  *Violation
}

// Exec is one controlled execution: a fresh lock map, fresh workers.
type Exec struct {
	prog     *Program
	m        *gcsutil.TransientLockMap
	workers  []*worker
	events   chan event
	draining atomic.Bool
	drainCh  chan struct{}
	watchdog time.Duration
	noCancel bool

	// shadow state, owned by the scheduler goroutine
	holder []int   // per key: worker id or -1
	ref    []int   // per key: workers between lock.afterRef and lock.returned / unlock.done
	waitq  [][]int // per key: workers marked waiting, in marking order

	res      Result
	finished int
	timer    *time.Timer
}

// Options of an execution.
type Options struct {
	Watchdog time.Duration // default 5s
	NoCancel bool          // do not offer cancel actions
}

// Run executes prog under the schedule chosen by ch and returns what was observed.
func Run(prog *Program, ch Chooser, opt Options) *Result {
	if opt.Watchdog == 0 {
		opt.Watchdog = 5 * time.Second
	}
	Install()
	nw := len(prog.Workers)
	ex := &Exec{prog: prog, m: gcsutil.NewTransientLockMap(), events: make(chan event, 4*nw+8), drainCh: make(chan struct{}),
		watchdog: opt.Watchdog, noCancel: opt.NoCancel}
	ex.res.Program = prog
	nk := len(prog.Keys)
	ex.holder = make([]int, nk)
	ex.ref = make([]int, nk)
	ex.waitq = make([][]int, nk)
	for i := range ex.holder {
		ex.holder[i] = -1
	}
	var allCancels []context.CancelFunc
	for i, script := range prog.Workers {
		w := &worker{id: i, ex: ex, script: script, grant: make(chan struct{}, 1)}
		n := len(script)
		w.st.cancelled = make([]bool, n+1)
		w.st.acq = make([]bool, n+1)
		w.st.can = make([]bool, n+1)
		for range script {
			ctx, cancel := context.WithCancel(context.Background())
			w.ctxs = append(w.ctxs, ctx)
			w.cancels = append(w.cancels, cancel)
			allCancels = append(allCancels, cancel)
		}
		w.st.round = -1
		w.st.expect = []expectation{ex.firstOf(w, 0)}
		ex.workers = append(ex.workers, w)
	}
	defer func() {
		for _, c := range allCancels {
			c()
		}
	}()
	for _, w := range ex.workers {
		go w.main()
	}
	ex.loop(ch)
	ex.drain()
	if ex.res.Blind {
		ex.res.Violation = nil // an unhooked, free-running execution decides nothing
	}
	return &ex.res
}

// firstOf returns the first point of round r of w (or done).
func (ex *Exec) firstOf(w *worker, r int) expectation {
	if r >= len(w.script) {
		return expectation{len(w.script), ptDone}
	}
	if w.script[r].Form == FormBadUnlock {
		return expectation{r, ptUnlockEnter}
	}
	return expectation{r, ptLockEnter}
}

func (ex *Exec) loop(ch Chooser) {
	// every worker runs to its first hook
	for range ex.workers {
		ev, ok := ex.recv(ex.watchdog)
		if !ok {
			ex.fail("workers did not reach their first hook point", true)
			return
		}
		if ev.kind != evHook && ev.hooks == 0 && len(ev.w.script) > 0 {
			// the worker ran its whole script (or into a panic) without passing a single hook: nothing can be observed
			ex.res.Blind = true
			ev.w.st.pt = ptDone
			ex.finished++
			continue
		}
		if !ex.res.Blind {
			ex.onArrive(ev)
		}
	}
	if ex.res.Blind {
		ex.res.Violation = nil
		return
	}
	finishing := false
	for ex.res.Violation == nil {
		ex.checkUnsolicited()
		ex.checkQuiescent()
		if ex.res.Violation != nil {
			return
		}
		node := ex.nodeKey()
		acts := ex.enabled()
		if ex.allDone() {
			ex.res.Terminal = true
			if !finishing {
				ch.Choose(node, nil)
			}
			return
		}
		if len(acts) == 0 {
			ex.fail("no scheduler action is enabled although not every worker has finished (a queued worker can never be woken)", true)
			return
		}
		// Once the chooser declines, the execution is still finished under scheduler control (first enabled action):
		// a free-running tail could let a scripted bad Unlock hit a key somebody holds, which is outside the property.
		i := 0
		if !finishing {
			i = ch.Choose(node, acts)
			if i < 0 || i >= len(acts) {
				finishing = true
				i = 0
			}
		}
		a := acts[i]
		ex.res.Actions = append(ex.res.Actions, a.String())
		outcome, nondet := ex.do(a)
		ex.res.Trace = append(ex.res.Trace, a.String()+">"+outcome)
		ex.res.Stats.Steps++
		if ex.res.Violation != nil {
			return
		}
		if !finishing {
			ch.Observe(node, a, outcome, nondet)
		}
	}
}

func (ex *Exec) allDone() bool {
	for _, w := range ex.workers {
		if w.st.pt != ptDone {
			return false
		}
	}
	return true
}

func (ex *Exec) recv(d time.Duration) (event, bool) {
	select {
	case ev := <-ex.events:
		return ev, true
	default:
	}
	if d <= 0 {
		return event{}, false
	}
	if ex.timer == nil {
		ex.timer = time.NewTimer(d)
	} else {
		ex.timer.Reset(d) // Go 1.23 timer semantics: no stale value can be delivered after Reset
	}
	select {
	case ev := <-ex.events:
		ex.timer.Stop()
		return ev, true
	case <-ex.timer.C:
		return event{}, false
	}
}

// recvOrBlocked waits for the next event. When the watchdog expires it takes a goroutine dump and gives up only if
// every worker in who is really blocked (select, chan send/receive, mutex, ...): a goroutine that is merely runnable or
// running on an overloaded machine gets more time (up to 12 further watchdog periods). The verdict "blocked" is thus
// a statement about a quiescent system, not about timing.
func (ex *Exec) recvOrBlocked(d time.Duration, who func() []*worker) (event, bool, string) {
	dump := ""
	for round := 0; round < 13; round++ {
		ev, ok := ex.recv(d)
		if ok {
			return ev, true, ""
		}
		dump = Dump()
		allBlocked := true
		for _, w := range who() {
			st := goroutineState(dump, w.gid)
			if strings.HasPrefix(st, "runnable") || strings.HasPrefix(st, "running") || strings.HasPrefix(st, "syscall") {
				allBlocked = false
			}
		}
		if allBlocked {
			break
		}
	}
	return event{}, false, dump
}

func (ex *Exec) keyOf(w *worker) (string, int) {
	r := w.st.round
	if r < 0 || r >= len(w.script) {
		return "", -1
	}
	k := w.script[r].Key
	return k, ex.prog.keyIndex(k)
}

func (ex *Exec) isBad(w *worker) bool {
	r := w.st.round
	return r >= 0 && r < len(w.script) && w.script[r].Form == FormBadUnlock
}

// enabled lists the actions the scheduler may take at the current quiescent node.
func (ex *Exec) enabled() []Action {
	var steps, cancels []Action
	for _, w := range ex.workers {
		st := &w.st
		if st.pt == ptDone {
			continue
		}
		_, k := ex.keyOf(w)
		if st.pt != ptWaiting {
			ok := true
			if ex.isBad(w) && (st.pt == ptUnlockEnter || st.pt == ptUnlockAfterLookup) && ex.holder[k] >= 0 {
				// Unlocking a key somebody else holds is outside the property (it would release their lock); the
				// scripted bad Unlock only proceeds while nobody holds the key.
				ok = false
			}
			if st.pt == ptLockBeforeSelect {
				for _, u := range ex.workers {
					if u != w && ex.isBad(u) && u.st.pt == ptUnlockAfterLookup {
						if _, uk := ex.keyOf(u); uk == k {
							ok = false // same reason: do not let the key become held under a bad Unlock in flight
						}
					}
				}
			}
			if ok {
				both := st.pt == ptLockBeforeSelect && st.cancelled[st.round] && ex.holder[k] < 0
				steps = append(steps, Action{Kind: 's', W: w.id, Both: both})
			}
		}
		if !ex.noCancel && !st.cancelled[max(st.round, 0)] {
			switch st.pt {
			case ptLockEnter, ptLockAfterRef, ptLockBeforeSelect, ptWaiting:
				cancels = append(cancels, Action{Kind: 'c', W: w.id})
			}
		}
	}
	return append(steps, cancels...)
}

// nodeKey is the abstract state: per worker (round, point, cancel flag where it still matters), plus the queue order
// of keys with two or more waiters.
func (ex *Exec) nodeKey() string {
	var sb strings.Builder
	for i, w := range ex.workers {
		if i > 0 {
			sb.WriteByte(' ')
		}
		st := &w.st
		sb.WriteByte(byte('0' + st.round))
		sb.WriteString(pointCodes[st.pt])
		switch st.pt {
		case ptLockEnter, ptLockAfterRef, ptLockBeforeSelect:
			if st.cancelled[st.round] {
				sb.WriteByte('!')
			}
		}
	}
	for k, q := range ex.waitq {
		if len(q) >= 2 {
			fmt.Fprintf(&sb, " %s:%v", ex.prog.Keys[k], q)
		}
	}
	return sb.String()
}

func (ex *Exec) grant(w *worker) {
	select {
	case w.grant <- struct{}{}:
	default:
		ex.fail(fmt.Sprintf("harness: grant channel of w%d is full", w.id), false)
	}
}

// do executes one action and observes its consequences.
func (ex *Exec) do(a Action) (outcome string, nondet bool) {
	w := ex.workers[a.W]
	st := &w.st
	r := st.round
	kname, k := ex.keyOf(w)
	if a.Kind == 'c' {
		st.cancelled[r] = true
		waiting := st.pt == ptWaiting
		w.cancels[r]()
		if !waiting {
			ex.res.Stats.CancelsParked++
			return "flag", false
		}
		ex.res.Stats.CancelsQueued++
		ex.res.Nontrivial = true
		st.expect = []expectation{{r, ptLockCancelled}}
		return ex.awaitFrom(w, fmt.Sprintf("cancelled while queued for key %s", kname)), false
	}
	release := false
	switch st.pt {
	case ptLockEnter:
		st.expect = []expectation{{r, ptLockAfterRef}}
	case ptLockAfterRef:
		if st.cancelled[r] {
			ex.res.Stats.PreCancelled++
			st.expect = []expectation{{r, ptLockCancelled}}
		} else {
			st.expect = []expectation{{r, ptLockBeforeSelect}}
		}
	case ptLockBeforeSelect:
		full := ex.holder[k] >= 0
		c := st.cancelled[r]
		switch {
		case full && !c:
			st.pt = ptWaiting
			ex.waitq[k] = append(ex.waitq[k], w.id)
			ex.res.Stats.Waits++
			ex.res.Nontrivial = true
			ex.grant(w)
			return "wait", false
		case full && c:
			st.expect = []expectation{{r, ptLockCancelled}}
		case !full && c:
			st.expect = []expectation{{r, ptLockAcquired}, {r, ptLockCancelled}}
			nondet = true
		default:
			st.expect = []expectation{{r, ptLockAcquired}}
		}
	case ptLockAcquired:
		st.expect = []expectation{{r, ptUnlockEnter}}
	case ptLockCancelled:
		st.expect = []expectation{{r, ptLockReturned}}
	case ptLockReturned, ptUnlockDone:
		st.expect = []expectation{ex.firstOf(w, r+1)}
	case ptUnlockEnter:
		if ex.isBad(w) && ex.ref[k] == 0 {
			ex.res.Stats.BadUnlockAbsnt++
			st.expect = []expectation{ex.firstOf(w, r+1)} // panics in the lookup
		} else {
			st.expect = []expectation{{r, ptUnlockAfterLookup}}
		}
	case ptUnlockAfterLookup:
		if ex.isBad(w) {
			ex.res.Stats.BadUnlockEmpty++
			st.expect = []expectation{ex.firstOf(w, r+1)} // panics in countedLock.Unlock
		} else {
			st.expect = []expectation{{r, ptUnlockAfterRelease}}
			release = len(ex.waitq[k]) > 0
		}
	case ptUnlockAfterRelease:
		st.expect = []expectation{{r, ptUnlockDone}}
	default:
		ex.fail(fmt.Sprintf("harness: step of w%d at %s", w.id, st.pt), false)
		return "?", false
	}
	from := st.pt
	ex.grant(w)
	if release {
		return ex.awaitRelease(w, k)
	}
	out := ex.awaitFrom(w, fmt.Sprintf("granted one step from %s", from))
	if nondet && ex.res.Violation == nil {
		if st.pt == ptLockAcquired {
			ex.res.Stats.BothReadyAcq++
		} else {
			ex.res.Stats.BothReadyCan++
		}
	}
	return out, nondet
}

// awaitFrom waits for the next event of w (which was just granted a step or woken by a cancel).
func (ex *Exec) awaitFrom(w *worker, why string) string {
	for {
		ev, ok, dump := ex.recvOrBlocked(ex.watchdog, func() []*worker { return []*worker{w} })
		if !ok {
			kname, k := ex.keyOf(w)
			extra := ""
			if k >= 0 {
				extra = fmt.Sprintf("; shadow: key %s holder=%d", kname, ex.holder[k])
			}
			ex.failDump(fmt.Sprintf("w%d (%s) did not reach its next hook point within %v although nothing it depends on is held: its goroutine is blocked [%s]%s", w.id, why, ex.watchdog, goroutineState(dump, w.gid), extra), dump)
			return "blocked"
		}
		if ev.w == w {
			ex.onArrive(ev)
			return "->" + w.st.pt.String()
		}
		ex.unsolicited(ev)
		if ex.res.Violation != nil {
			return "unsolicited"
		}
	}
}

// awaitRelease: h was granted the step that releases key k while workers are queued for it. Exactly one of them must
// arrive at lock.acquired; h itself arrives at unlock.afterRelease. The two events may come in either order.
func (ex *Exec) awaitRelease(h *worker, k int) (string, bool) {
	waiters := append([]int(nil), ex.waitq[k]...)
	nondet := len(waiters) >= 2
	if nondet {
		ex.res.Stats.WakeChoices++
	}
	var hev, wev *event
	for hev == nil || wev == nil {
		ev, ok, dump := ex.recvOrBlocked(ex.watchdog, func() []*worker {
			if hev == nil {
				return []*worker{h}
			}
			var ws []*worker
			for _, id := range waiters {
				ws = append(ws, ex.workers[id])
			}
			return ws
		})
		if !ok {
			if hev != nil {
				ex.onArrive(*hev)
			}
			kname := ex.prog.Keys[k]
			if hev == nil {
				ex.failDump(fmt.Sprintf("w%d granted the releasing step of Unlock(%s) did not reach unlock.afterRelease within %v: its goroutine is blocked [%s]", h.id, kname, ex.watchdog, goroutineState(dump, h.gid)), dump)
				return "blocked", nondet
			}
			exists, full := ex.m.VerifSlotFull(kname)
			states := ""
			for _, id := range waiters {
				states += fmt.Sprintf(" w%d=[%s]", id, goroutineState(dump, ex.workers[id].gid))
			}
			ex.failDump(fmt.Sprintf("lost wake-up: w%d released key %s (entry exists=%v, slot full=%v) and every other worker is parked, but none of the queued workers %v acquired it within %v; their goroutines are still blocked according to the goroutine dump:%s",
				h.id, kname, exists, full, waiters, ex.watchdog, states), dump)
			return "lost-wakeup", nondet
		}
		switch {
		case ev.w == h && hev == nil:
			e := ev
			hev = &e
		case wev == nil && contains(waiters, ev.w.id):
			e := ev
			wev = &e
		default:
			if hev != nil {
				ex.onArrive(*hev)
				hev = nil
			}
			if wev != nil {
				ex.workers[wev.w.id].st.expect = []expectation{{wev.w.st.round, ptLockAcquired}}
				ex.onArrive(*wev)
			}
			ex.unsolicited(ev)
			if ex.res.Violation != nil {
				return "unsolicited", nondet
			}
		}
	}
	ex.onArrive(*hev)
	wev.w.st.expect = []expectation{{wev.w.st.round, ptLockAcquired}}
	ex.onArrive(*wev)
	ex.res.Stats.Wakeups++
	return fmt.Sprintf("->%s,w%d->%s", h.st.pt, wev.w.id, wev.w.st.pt), nondet
}

func contains(xs []int, x int) bool {
	for _, y := range xs {
		if y == x {
			return true
		}
	}
	return false
}

// unsolicited handles an event from a worker that was not granted anything.
func (ex *Exec) unsolicited(ev event) {
	w := ev.w
	from := w.st.pt
	if from == ptWaiting {
		w.st.expect = []expectation{{w.st.round, ptLockAcquired}, {w.st.round, ptLockCancelled}}
	}
	ex.onArrive(ev)
	ex.fail(fmt.Sprintf("w%d moved from %s to %s without a grant, release or cancel that could explain it", w.id, from, w.st.pt), false)
}

func (ex *Exec) checkUnsolicited() {
	for {
		select {
		case ev := <-ex.events:
			ex.unsolicited(ev)
		default:
			return
		}
	}
}

// onArrive validates an event against the expectation and updates the shadow state.
func (ex *Exec) onArrive(ev event) {
	w := ev.w
	st := &w.st
	for _, res := range ev.results {
		ex.checkResult(w, res)
	}
	if ev.kind == evPanic {
		st.pt = ptDone
		ex.finished++
		ex.fail(fmt.Sprintf("w%d panicked in round %d (%s(%s)): %s\n%s", w.id, ev.round, roundForm(w, ev.round), roundKey(w, ev.round), ev.msg, ev.stack), false)
		return
	}
	pt := ev.point
	if ev.kind == evDone {
		pt = ptDone
		ex.finished++
	}
	ex.res.Stats.Hooks++
	prev, prevRound := st.pt, st.round
	bad := ev.round < len(w.script) && w.script[ev.round].Form == FormBadUnlock
	// specific messages first
	if pt == ptLockCancelled && ev.round < len(w.script) && !st.cancelled[ev.round] {
		ex.fail(fmt.Sprintf("w%d: Lock(%s) gave up (reached lock.cancelled) although its context was never cancelled", w.id, roundKey(w, ev.round)), false)
	}
	if bad && (pt == ptUnlockAfterRelease || pt == ptUnlockDone) {
		ex.fail(fmt.Sprintf("w%d: Unlock(%s) of a key it does not hold (and nobody holds) did not panic: reached %s", w.id, roundKey(w, ev.round), pt), false)
	}
	match := false
	for _, e := range st.expect {
		if e.pt == pt && e.round == ev.round {
			match = true
		}
	}
	if !match {
		ex.fail(fmt.Sprintf("w%d at %s (round %d) was expected to reach %s but reached %s (round %d, hook %q key %q)", w.id, prev, prevRound, expectString(st.expect), pt, ev.round, ev.pname, ev.key), false)
	}
	st.pt, st.round = pt, ev.round
	st.expect = nil
	if pt == ptDone {
		for k, h := range ex.holder {
			if h == w.id {
				ex.fail(fmt.Sprintf("w%d finished its script while the shadow state says it still holds key %s", w.id, ex.prog.Keys[k]), false)
			}
		}
		if st.nres != len(w.script) {
			ex.fail(fmt.Sprintf("harness: w%d reported %d results for %d rounds", w.id, st.nres, len(w.script)), false)
		}
		return
	}
	kname, k := ex.keyOf(w)
	if k < 0 {
		ex.fail(fmt.Sprintf("harness: w%d event in round %d outside its script", w.id, ev.round), false)
		return
	}
	if ev.key != kname && !(pt == ptLockBeforeSelect && ev.key == "") {
		ex.fail(fmt.Sprintf("w%d: hook %s reported key %q, the operation is on key %q", w.id, pt, ev.key, kname), false)
	}
	switch pt {
	case ptLockAfterRef:
		ex.ref[k]++
	case ptLockAcquired:
		if h := ex.holder[k]; h >= 0 {
			ex.fail(fmt.Sprintf("mutual exclusion: w%d acquired key %s while w%d holds it", w.id, kname, h), false)
		}
		ex.holder[k] = w.id
		ex.dequeue(k, w.id)
		st.acq[ev.round] = true
	case ptLockCancelled:
		ex.dequeue(k, w.id)
		st.can[ev.round] = true
	case ptLockReturned:
		ex.ref[k]--
	case ptUnlockEnter:
		if !bad && ex.holder[k] != w.id {
			ex.fail(fmt.Sprintf("w%d calls Unlock(%s) after a successful Lock but the shadow holder is %d", w.id, kname, ex.holder[k]), false)
		}
	case ptUnlockAfterRelease:
		if !bad && ex.holder[k] == w.id {
			ex.holder[k] = -1
		}
	case ptUnlockDone:
		if !bad {
			ex.ref[k]--
		}
	}
}

func (ex *Exec) dequeue(k, id int) {
	q := ex.waitq[k]
	for i, x := range q {
		if x == id {
			ex.waitq[k] = append(append([]int(nil), q[:i]...), q[i+1:]...)
			return
		}
	}
}

func roundKey(w *worker, r int) string {
	if r >= 0 && r < len(w.script) {
		return w.script[r].Key
	}
	return "?"
}

func roundForm(w *worker, r int) string {
	if r >= 0 && r < len(w.script) {
		return w.script[r].Form.String()
	}
	return "?"
}

func expectString(es []expectation) string {
	var parts []string
	for _, e := range es {
		parts = append(parts, fmt.Sprintf("%s(round %d)", e.pt, e.round))
	}
	if len(parts) == 0 {
		return "nothing (it was not granted a step)"
	}
	return strings.Join(parts, " or ")
}

// checkResult checks the meaning of a return value against what the hooks showed.
func (ex *Exec) checkResult(w *worker, res opResult) {
	st := &w.st
	st.nres++
	r := res.round
	key := roundKey(w, r)
	switch res.form {
	case FormLock, FormRun:
		name := "Lock"
		if res.form == FormRun {
			name = "Run"
		}
		if res.ok && !st.acq[r] {
			ex.fail(fmt.Sprintf("w%d: %s(%s) reported success without ever reaching lock.acquired", w.id, name, key), false)
		}
		if !res.ok {
			if st.acq[r] {
				ex.fail(fmt.Sprintf("w%d: %s(%s) reported failure after it had acquired the lock", w.id, name, key), false)
			}
			if !st.cancelled[r] || !res.ctxErr {
				ex.fail(fmt.Sprintf("w%d: %s(%s) reported failure although its context has not ended (cancelled by scheduler=%v, ctx.Err()!=nil=%v)", w.id, name, key, st.cancelled[r], res.ctxErr), false)
			}
			if !st.can[r] {
				ex.fail(fmt.Sprintf("w%d: %s(%s) reported failure without passing lock.cancelled", w.id, name, key), false)
			}
		}
		if res.form == FormRun {
			if res.ok != res.fRan {
				ex.fail(fmt.Sprintf("w%d: Run(%s) returned nil=%v but callback ran=%v", w.id, key, res.ok, res.fRan), false)
			}
			if !res.ok && !res.errIsCtx {
				ex.fail(fmt.Sprintf("w%d: Run(%s) failed with an error that is not the context's error", w.id, key), false)
			}
		}
	case FormBadUnlock:
		if !res.panicked {
			ex.fail(fmt.Sprintf("w%d: Unlock(%s) of a key that is not held returned normally instead of panicking", w.id, key), false)
		}
	}
}

// checkQuiescent compares the real map with the shadow state. Called only when every worker is parked at a hook
// (outside the map mutex), marked waiting (touches only the channel) or finished.
func (ex *Exec) checkQuiescent() {
	ex.res.Stats.Invariants++
	want := 0
	for k, kname := range ex.prog.Keys {
		exists, full := ex.m.VerifSlotFull(kname)
		if ex.ref[k] < 0 {
			ex.fail(fmt.Sprintf("harness: shadow refcount of %s is %d", kname, ex.ref[k]), false)
		}
		if ex.ref[k] > 0 {
			want++
		}
		if exists != (ex.ref[k] > 0) {
			if exists {
				ex.fail(fmt.Sprintf("map retains an entry for key %s that no caller holds, awaits or is about to use (shadow refcount 0)", kname), false)
			} else {
				ex.fail(fmt.Sprintf("map has no entry for key %s although %d caller(s) hold, await or are about to lock it (entry evicted while referenced)", kname, ex.ref[k]), false)
			}
		}
		if full != (ex.holder[k] >= 0) {
			if full {
				ex.fail(fmt.Sprintf("key %s is free according to every Lock/Unlock that returned, but its slot is taken (later callers would block on a lock nobody holds)", kname), false)
			} else {
				ex.fail(fmt.Sprintf("key %s is held by w%d but its slot is empty (another caller could acquire it concurrently)", kname, ex.holder[k]), false)
			}
		}
	}
	if n := ex.m.VerifLen(); n != want {
		ex.fail(fmt.Sprintf("map has %d entries, shadow state has %d keys in use", n, want), false)
	}
}

func (ex *Exec) shadowString() string {
	var sb strings.Builder
	for k, kname := range ex.prog.Keys {
		fmt.Fprintf(&sb, "key %s: holder=%d refcount=%d queued=%v; ", kname, ex.holder[k], ex.ref[k], ex.waitq[k])
	}
	for _, w := range ex.workers {
		c := false
		if w.st.round >= 0 && w.st.round < len(w.st.cancelled) {
			c = w.st.cancelled[w.st.round]
		}
		fmt.Fprintf(&sb, "w%d: round %d at %s cancelled=%v; ", w.id, w.st.round, w.st.pt, c)
	}
	return sb.String()
}

func (ex *Exec) realString() string {
	var sb strings.Builder
	fmt.Fprintf(&sb, "VerifLen=%d; ", ex.m.VerifLen())
	for _, kname := range ex.prog.Keys {
		e, f := ex.m.VerifSlotFull(kname)
		fmt.Fprintf(&sb, "key %s: entry=%v slotFull=%v; ", kname, e, f)
	}
	return sb.String()
}

func (ex *Exec) fail(what string, dump bool) {
	d := ""
	if dump && ex.res.Violation == nil {
		d = Dump()
	}
	ex.failDump(what, d)
}

func (ex *Exec) failDump(what, dump string) {
	if ex.res.Violation != nil {
		return // keep the first
	}
	if dump != "" {
		ids := map[uint64]bool{}
		for _, w := range ex.workers {
			ids[w.gid] = true
		}
		dump = filterDump(dump, ids)
	}
	ex.res.Violation = &Violation{What: what, Program: ex.prog.String(), Schedule: append([]string(nil), ex.res.Trace...),
		Actions: strings.Join(ex.res.Actions, " "), Node: ex.nodeKey(), Shadow: ex.shadowString(), Real: ex.realString(), Dump: dump}
}

// drain stops controlling the execution: cancels every context, releases every parked worker, and waits for the
// scripts to finish on their own. With nobody holding or awaiting anything the map must then be empty.
func (ex *Exec) drain() {
	ex.draining.Store(true)
	for _, w := range ex.workers {
		for _, c := range w.cancels {
			c()
		}
	}
	close(ex.drainCh)
	hadViolation := ex.res.Violation != nil
	deadline := time.Now().Add(2 * ex.watchdog)
	for ex.finished < len(ex.workers) {
		ev, ok := ex.recv(time.Until(deadline))
		if !ok {
			if !hadViolation {
				ex.fail(fmt.Sprintf("after cancelling every context and releasing every worker, %d of %d scripts did not finish within %v", len(ex.workers)-ex.finished, len(ex.workers), 2*ex.watchdog), true)
			}
			return // the stuck goroutines are abandoned; their hooks pass through
		}
		switch ev.kind {
		case evDone:
			ex.finished++
		case evPanic:
			ex.finished++
			if !hadViolation {
				ex.fail(fmt.Sprintf("w%d panicked while running freely after the controlled part: %s\n%s", ev.w.id, ev.msg, ev.stack), false)
			}
		}
	}
	if ex.res.Blind || hadViolation {
		return
	}
	if n := ex.m.VerifLen(); n != 0 {
		ex.fail(fmt.Sprintf("every script has finished (no caller holds or awaits any lock) but the map retains %d entries", n), false)
	}
}

// ---------------------------------------------------------------------------------------------------------------
// goroutine dumps

// Dump returns the stacks of all goroutines.
func Dump() string {
	buf := make([]byte, 1<<20)
	for {
		n := runtime.Stack(buf, true)
		if n < len(buf) {
			return string(buf[:n])
		}
		buf = make([]byte, 2*len(buf))
	}
}

func filterDump(dump string, ids map[uint64]bool) string {
	var out []string
	for _, blk := range strings.Split(dump, "\n\n") {
		var id uint64
		if _, err := fmt.Sscanf(blk, "goroutine %d ", &id); err == nil && ids[id] {
			out = append(out, blk)
		}
	}
	return strings.Join(out, "\n\n")
}

// goroutineState returns the wait state ("select", "chan receive", "running", ...) of goroutine gid in dump.
func goroutineState(dump string, gid uint64) string {
	hdr := fmt.Sprintf("goroutine %d [", gid)
	i := strings.Index(dump, hdr)
	if i < 0 {
		return "not in dump (exited)"
	}
	rest := dump[i+len(hdr):]
	if j := strings.IndexAny(rest, "]\n"); j >= 0 {
		return rest[:j]
	}
	return "?"
}

package sched

import (
	"context"
	"fmt"
	"os"
	"runtime"
	"strings"
	"sync"
	"sync/atomic"
	"time"

	"github.com/fullstorydev/emulators/storage/gcsutil"
)

// Intner is the part of the PRNG the stress workload needs.
type Intner interface{ Intn(n int) int }

// StressConfig describes the free-running workload (no parking; hooks are uninstalled).
type StressConfig struct {
	Goroutines int
	Keys       int
	Ops        int
	Rand       func(g int) Intner
	Stall      time.Duration // no operation completing for this long = hang (default 30s)
}

// StressResult is what the free-running workload observed.
type StressResult struct {
	Ops          int64    `json:"ops"`
	LockTrue     int64    `json:"lock_true"`
	LockFalse    int64    `json:"lock_false"`
	PreCancelled int64    `json:"pre_cancelled_ctx"`
	PeerCancels  int64    `json:"cancels_by_peer"`
	Contended    int64    `json:"lock_calls_with_another_caller_on_same_key"`
	BadUnlocks   int64    `json:"bad_unlock_panics"`
	FinalLen     int      `json:"final_len"`
	Violations   []string `json:"violations,omitempty"`
	Dump         string   `json:"goroutines,omitempty"`
}

// Stress runs the workload and checks mutual exclusion (atomic in-critical-section counter per key), the meaning of
// a false return, panics on unlocking an unheld key, progress, and an empty map at the end.
func Stress(cfg StressConfig) *StressResult {
	if cfg.Stall == 0 {
		cfg.Stall = 30 * time.Second
	}
	Uninstall()
	m := gcsutil.NewTransientLockMap()
	res := &StressResult{}
	var vmu sync.Mutex
	violate := func(s string) {
		vmu.Lock()
		if len(res.Violations) < 5 {
			res.Violations = append(res.Violations, s)
		}
		vmu.Unlock()
	}
	keys := make([]string, cfg.Keys)
	for i := range keys {
		keys[i] = fmt.Sprintf("k%d", i)
	}
	inCS := make([]atomic.Int32, cfg.Keys)
	wanting := make([]atomic.Int32, cfg.Keys)
	slots := make([]atomic.Pointer[context.CancelFunc], cfg.Goroutines)
	var ops, started, lockTrue, lockFalse, pre, peer, contended, badUnlocks atomic.Int64
	var stop atomic.Bool
	var wg sync.WaitGroup
	for g := 0; g < cfg.Goroutines; g++ {
		wg.Add(1)
		go func(g int) {
			defer wg.Done()
			defer func() {
				if r := recover(); r != nil {
					violate(fmt.Sprintf("goroutine %d: unexpected panic: %v", g, r))
					stop.Store(true)
				}
			}()
			r := cfg.Rand(g)
			for !stop.Load() && started.Add(1) <= int64(cfg.Ops) {
				k := r.Intn(cfg.Keys)
				ctx, cancel := context.WithCancel(context.Background())
				switch mode := r.Intn(16); {
				case mode == 0:
					cancel()
					pre.Add(1)
				case mode <= 5:
					slots[g].Store(&cancel)
				}
				if r.Intn(4) == 0 {
					if f := slots[r.Intn(cfg.Goroutines)].Swap(nil); f != nil {
						(*f)()
						peer.Add(1)
					}
				}
				if r.Intn(64) == 0 {
					panicked := false
					func() {
						defer func() { panicked = recover() != nil }()
						m.Unlock(fmt.Sprintf("never-locked-%d", g))
					}()
					if !panicked {
						violate("Unlock of a key nobody ever locked did not panic")
					}
					badUnlocks.Add(1)
				}
				cs := func() {
					if n := inCS[k].Add(1); n != 1 {
						violate(fmt.Sprintf("mutual exclusion: %d callers inside the critical section of key %s", n, keys[k]))
					}
					if r.Intn(3) == 0 {
						runtime.Gosched()
					}
					inCS[k].Add(-1)
				}
				if wanting[k].Add(1) > 1 {
					contended.Add(1)
				}
				if r.Intn(2) == 0 {
					ok := m.Lock(ctx, keys[k])
					wanting[k].Add(-1)
					if ok {
						lockTrue.Add(1)
						cs()
						m.Unlock(keys[k])
					} else {
						lockFalse.Add(1)
						if ctx.Err() == nil {
							violate(fmt.Sprintf("Lock(%s) returned false although its context has not ended", keys[k]))
						}
					}
				} else {
					ran := false
					err := m.Run(ctx, keys[k], func(context.Context) error { ran = true; wanting[k].Add(-1); cs(); return nil })
					if !ran {
						wanting[k].Add(-1)
					}
					if err == nil {
						lockTrue.Add(1)
					} else {
						lockFalse.Add(1)
						if ran || ctx.Err() == nil || err != ctx.Err() {
							violate(fmt.Sprintf("Run(%s) failed with %v (callback ran=%v, ctx.Err()=%v)", keys[k], err, ran, ctx.Err()))
						}
					}
				}
				slots[g].Store(nil)
				cancel()
				ops.Add(1)
			}
		}(g)
	}
	done := make(chan struct{})
	go func() { wg.Wait(); close(done) }()
	last, lastChange := int64(-1), time.Now()
	tick := time.NewTicker(200 * time.Millisecond)
	defer tick.Stop()
wait:
	for {
		select {
		case <-done:
			break wait
		case <-tick.C:
			if n := ops.Load(); n != last {
				last, lastChange = n, time.Now()
			} else if stop.Load() && time.Since(lastChange) > 2*time.Second {
				// a violation was already recorded (e.g. a caller panicked while holding a lock); the rest may be stuck behind it
				res.Dump = Dump()
				for i := range slots {
					if f := slots[i].Swap(nil); f != nil {
						(*f)()
					}
				}
				select {
				case <-done:
				case <-time.After(2 * time.Second):
				}
				break wait
			} else if time.Since(lastChange) > cfg.Stall {
				res.Dump = Dump()
				violate(fmt.Sprintf("no operation completed for %v with %d of %d operations done: callers are stuck (lost wake-up or leaked lock); see goroutine dump", cfg.Stall, n, cfg.Ops))
				stop.Store(true)
				// wake whoever can be woken, then give up on the rest
				for i := range slots {
					if f := slots[i].Swap(nil); f != nil {
						(*f)()
					}
				}
				select {
				case <-done:
				case <-time.After(2 * time.Second):
				}
				break wait
			}
		}
	}
	res.Ops, res.LockTrue, res.LockFalse = ops.Load(), lockTrue.Load(), lockFalse.Load()
	res.PreCancelled, res.PeerCancels, res.Contended, res.BadUnlocks = pre.Load(), peer.Load(), contended.Load(), badUnlocks.Load()
	res.FinalLen = m.VerifLen()
	vmu.Lock()
	defer vmu.Unlock()
	if res.FinalLen != 0 && res.Dump == "" {
		if len(res.Violations) < 5 {
			res.Violations = append(res.Violations, fmt.Sprintf("all %d goroutines finished (nobody holds or awaits a lock) but the map retains %d entries", cfg.Goroutines, res.FinalLen))
		}
	}
	return res
}

// RaceReports reads the race detector's log of this process (GORACE log_path=<prefix>, file <prefix>.<pid>) and
// returns the number of DATA RACE blocks with at least one frame in the code under test, the number with harness
// frames only, and the first block of each kind.
func RaceReports() (repo, harness int, firstRepo, firstHarness string, logFile string) {
	prefix := ""
	for _, f := range strings.Fields(os.Getenv("GORACE")) {
		if strings.HasPrefix(f, "log_path=") {
			prefix = strings.TrimPrefix(f, "log_path=")
		}
	}
	if prefix == "" || prefix == "stderr" || prefix == "stdout" {
		return
	}
	logFile = fmt.Sprintf("%s.%d", prefix, os.Getpid())
	buf, err := os.ReadFile(logFile)
	if err != nil {
		return 0, 0, "", "", logFile
	}
	for _, blk := range strings.Split(string(buf), "WARNING: DATA RACE")[1:] {
		if i := strings.Index(blk, "=================="); i >= 0 {
			blk = blk[:i]
		}
		blk = "WARNING: DATA RACE" + blk
		if strings.Contains(blk, "github.com/fullstorydev/emulators/") {
			repo++
			if firstRepo == "" {
				firstRepo = blk
			}
		} else {
			harness++
			if firstHarness == "" {
				firstHarness = blk
			}
		}
	}
	return
}

//go:build verif

package sched

import (
	"testing"
	"time"
)

func TestProgramsRoundTrip(t *testing.T) {
	for _, nw := range []int{2, 3} {
		ps := Programs(nw)
		t.Logf("%d workers: %d programs", nw, len(ps))
		for _, p := range ps {
			q, err := ParseProgram(p.String())
			if err != nil || q.String() != p.String() {
				t.Fatalf("round trip of %q failed: %v", p, err)
			}
		}
	}
}

func TestExploreTwoWorkers(t *testing.T) {
	start := time.Now()
	for i, p := range Programs(2) {
		g := &Graph{Prog: p}
		g.Explore(4, nil)
		if g.Violation != nil {
			t.Fatalf("program %d %s: %s\nschedule %v\nshadow %s\nreal %s", i, p, g.Violation.What, g.Violation.Schedule, g.Violation.Shadow, g.Violation.Real)
		}
		if !g.Complete() {
			t.Errorf("program %d %s not complete: edges %d/%d gaveup %d inconsistent %v", i, p, g.EdgesDone, g.Edges, g.GaveUp, g.Inconsistent)
		}
		t.Logf("%-40s nodes=%d edges=%d transitions=%d executions=%d steps=%d diverged=%d both2=%d both1=%d waits=%d cq=%d depth=%d",
			p, g.Nodes(), g.Edges, g.Transitions, g.Executions, g.Steps, g.Diverged, g.BothSettled2, g.BothSettled1, g.Agg.Waits, g.Agg.CancelsQueued, g.MaxDepth)
	}
	t.Logf("wall %v, hook hits %d", time.Since(start), HookHits())
}

func TestExploreThreeWorkersOne(t *testing.T) {
	if testing.Short() {
		t.Skip()
	}
	start := time.Now()
	p := Programs(3)[0]
	g := &Graph{Prog: p}
	g.Explore(64, nil)
	if g.Violation != nil {
		t.Fatalf("%s: %s", p, g.Violation.What)
	}
	t.Logf("%-40s complete=%v nodes=%d edges=%d transitions=%d executions=%d steps=%d diverged=%d both2=%d both1=%d gaveup=%d wakeorders=%d depth=%d wall=%v",
		p, g.Complete(), g.Nodes(), g.Edges, g.Transitions, g.Executions, g.Steps, g.Diverged, g.BothSettled2, g.BothSettled1, g.GaveUp, g.WakeOrders, g.MaxDepth, time.Since(start))
}

// Package sched is the controlled scheduler, shadow-state monitor and graph explorer for the keyed lock map
// (property C19). It drives the real gcsutil.TransientLockMap through its `verif` hook points.
package sched

import (
	"fmt"
	"sort"
	"strings"
)

// Form is the shape of one round of a worker script.
type Form int

const (
	FormLock      Form = iota // if m.Lock(ctx,k) { m.Unlock(k) }
	FormRun                   // m.Run(ctx,k,f)
	FormBadUnlock             // m.Unlock(k) of a key this worker does not hold; must panic (recovered by the worker)
)

func (f Form) String() string {
	switch f {
	case FormLock:
		return "L"
	case FormRun:
		return "R"
	default:
		return "X"
	}
}

// Round is one scripted operation of one worker.
type Round struct {
	Key  string `json:"key"`
	Form Form   `json:"form"`
}

// Program is one script per worker.
type Program struct {
	Workers [][]Round `json:"workers"`
	Keys    []string  `json:"keys"`
}

func (p *Program) String() string {
	var sb strings.Builder
	for i, w := range p.Workers {
		if i > 0 {
			sb.WriteString(" | ")
		}
		fmt.Fprintf(&sb, "w%d:", i)
		for _, r := range w {
			fmt.Fprintf(&sb, " %s(%s)", r.Form, r.Key)
		}
	}
	return sb.String()
}

func (p *Program) keyIndex(k string) int {
	for i, x := range p.Keys {
		if x == k {
			return i
		}
	}
	return -1
}

// NewProgram builds a program; keys are collected from the scripts (sorted).
func NewProgram(workers [][]Round) *Program {
	set := map[string]bool{}
	for _, w := range workers {
		for _, r := range w {
			set[r.Key] = true
		}
	}
	var keys []string
	for k := range set {
		keys = append(keys, k)
	}
	sort.Strings(keys)
	return &Program{Workers: workers, Keys: keys}
}

// ParseProgram is the inverse of Program.String (used by replays).
func ParseProgram(s string) (*Program, error) {
	var workers [][]Round
	for _, part := range strings.Split(s, "|") {
		part = strings.TrimSpace(part)
		i := strings.Index(part, ":")
		if i < 0 {
			return nil, fmt.Errorf("bad worker script %q", part)
		}
		var script []Round
		for _, tok := range strings.Fields(part[i+1:]) {
			if len(tok) < 4 || tok[1] != '(' || tok[len(tok)-1] != ')' {
				return nil, fmt.Errorf("bad round %q", tok)
			}
			var f Form
			switch tok[0] {
			case 'L':
				f = FormLock
			case 'R':
				f = FormRun
			case 'X':
				f = FormBadUnlock
			default:
				return nil, fmt.Errorf("bad form in %q", tok)
			}
			script = append(script, Round{Key: tok[2 : len(tok)-1], Form: f})
		}
		workers = append(workers, script)
	}
	return NewProgram(workers), nil
}

// Programs enumerates the script sets of the configuration "nw workers x 2 keys x 2 rounds":
// every assignment of keys {a,b} to the 2 rounds of every worker, up to renaming the keys and permuting the
// workers (the lock map treats keys and callers symmetrically). Worker i uses Lock/Unlock in round (i mod 2) and
// Run in the other round (both forms pass through the same hook points). For every such assignment there are
// three variants: plain; worker 0 additionally unlocks key "a" without holding it between its rounds; the last
// worker additionally unlocks key "b" without holding it before its first round.
func Programs(nw int) []*Program {
	keys := []string{"a", "b"}
	seen := map[string]bool{}
	var out []*Program
	total := 1
	for i := 0; i < nw; i++ {
		total *= 4
	}
	for code := 0; code < total; code++ {
		asg := make([][2]int, nw)
		c := code
		for i := 0; i < nw; i++ {
			asg[i] = [2]int{c & 1, (c >> 1) & 1}
			c >>= 2
		}
		if canon(asg) != encode(asg) {
			continue
		}
		if seen[encode(asg)] {
			continue
		}
		seen[encode(asg)] = true
		for variant := 0; variant < 3; variant++ {
			var ws [][]Round
			for i := 0; i < nw; i++ {
				f0, f1 := FormLock, FormRun
				if i%2 == 1 {
					f0, f1 = FormRun, FormLock
				}
				r0 := Round{Key: keys[asg[i][0]], Form: f0}
				r1 := Round{Key: keys[asg[i][1]], Form: f1}
				var s []Round
				switch {
				case variant == 1 && i == 0:
					s = []Round{r0, {Key: "a", Form: FormBadUnlock}, r1}
				case variant == 2 && i == nw-1:
					s = []Round{{Key: "b", Form: FormBadUnlock}, r0, r1}
				default:
					s = []Round{r0, r1}
				}
				ws = append(ws, s)
			}
			p := NewProgram(ws)
			p.Keys = keys // both keys are always monitored, even if a script set only uses one
			out = append(out, p)
		}
	}
	return out
}

func encode(asg [][2]int) string {
	var sb strings.Builder
	for _, a := range asg {
		fmt.Fprintf(&sb, "%d%d.", a[0], a[1])
	}
	return sb.String()
}

// canon returns the smallest encoding over key renaming and worker permutation.
func canon(asg [][2]int) string {
	best := ""
	for flip := 0; flip < 2; flip++ {
		cp := make([][2]int, len(asg))
		for i, a := range asg {
			cp[i] = [2]int{a[0] ^ flip, a[1] ^ flip}
		}
		sort.Slice(cp, func(i, j int) bool {
			if cp[i][0] != cp[j][0] {
				return cp[i][0] < cp[j][0]
			}
			return cp[i][1] < cp[j][1]
		})
		e := encode(cp)
		if best == "" || e < best {
			best = e
		}
	}
	return best
}

#include "textflag.h"

// func curg() uintptr
TEXT ·curg(SB),NOSPLIT,$0-8
	MOVD g, R0
	MOVD R0, ret+0(FP)
	RET

//go:build !amd64 && !arm64

package sched

// gkey is the registry key of the calling goroutine (portable fallback: the goroutine id).
func gkey() uint64 { return goid() }

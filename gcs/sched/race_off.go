//go:build !race

package sched

// RaceEnabled reports whether the binary was built with the race detector.
const RaceEnabled = false

package sched

import (
	"runtime"
	"sync"
	"sync/atomic"

	"github.com/fullstorydev/emulators/storage/gcsutil"
)

// The hook handler of gcsutil is process-global; executions run in parallel. The handler finds the worker (and
// through it the execution) that owns the calling goroutine by gkey() (the address of the goroutine descriptor; the
// goroutine id on architectures without the two-line assembly stub). Goroutines that are not registered workers
// pass through untouched.

var (
	registry    sync.Map // gkey() of the worker goroutine (uint64) -> *worker
	hookHits    atomic.Int64
	installOnce sync.Mutex
	installed   bool
)

// HookHits is the number of hook calls made by registered workers since process start.
func HookHits() int64 { return hookHits.Load() }

// Install installs the dispatching hook handler (idempotent).
func Install() {
	installOnce.Lock()
	defer installOnce.Unlock()
	if !installed {
		gcsutil.VerifSetHandler(handler)
		installed = true
	}
}

// Uninstall removes the handler (hooks become no-ops).
func Uninstall() {
	installOnce.Lock()
	defer installOnce.Unlock()
	gcsutil.VerifSetHandler(nil)
	installed = false
}

func handler(point, key string) {
	v, ok := registry.Load(gkey())
	if !ok {
		return
	}
	hookHits.Add(1)
	v.(*worker).atHook(point, key)
}

// goid parses the current goroutine's id from the first line of its stack ("goroutine 123 [running]:").
func goid() uint64 {
	var buf [40]byte
	n := runtime.Stack(buf[:], false)
	var id uint64
	for i := len("goroutine "); i < n; i++ {
		c := buf[i]
		if c < '0' || c > '9' {
			break
		}
		id = id*10 + uint64(c-'0')
	}
	return id
}

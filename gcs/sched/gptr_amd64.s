#include "textflag.h"

// func curg() uintptr
// Returns the address of the current goroutine's descriptor (runtime.g), which is unique among live goroutines.
TEXT ·curg(SB),NOSPLIT,$0-8
	MOVQ (TLS), AX
	MOVQ AX, ret+0(FP)
	RET

//go:build amd64 || arm64

package sched

// curg returns the address of the calling goroutine's descriptor. It identifies the goroutine for as long as it
// lives (descriptors are only reused after a goroutine has exited; workers unregister before they exit).
// runtime.Stack would also identify the goroutine but serialises all callers on the runtime's print lock, which
// turns 16 parallel executions into one.
func curg() uintptr

// gkey is the registry key of the calling goroutine.
func gkey() uint64 { return uint64(curg()) }

// Package model is the reference GCS object model used by the runtime monitors. It is written from the property
// statements (C02, C04, C10, C11, C15) and the public GCS JSON API semantics, not from the emulator source.
// Generation numbers are observed outputs: the model learns them from successful responses and only demands the
// laws of C10 (see Laws).
package model

import (
	"crypto/md5"
	"encoding/base64"
	"fmt"
	"sort"
	"strconv"
	"strings"
)

// Object is what the model knows about one live object.
type Object struct {
	Content []byte
	// CT is the content type a request supplied ("" with CTKnown=false: none was supplied, nothing is demanded).
	CT      string
	CTKnown bool
	// Composite objects need not carry an MD5 (public GCS semantics).
	Composite bool
	// Learned holds the user-settable metadata fields as last acknowledged by the server (contentType, cacheControl,
	// contentDisposition, contentLanguage, metadata). They are observed outputs: later requests that must not touch
	// them (reads, failed requests, operations on other objects) are checked against this snapshot, patches and
	// copies are checked relative to it.
	Learned map[string]any
	Gen     int64
	Metagen int64
}

func MD5b64(b []byte) string {
	s := md5.Sum(b)
	return base64.StdEncoding.EncodeToString(s[:])
}

func (o *Object) MD5() string { return MD5b64(o.Content) }

func (o *Object) Clone() *Object {
	if o == nil {
		return nil
	}
	c := *o
	c.Content = append([]byte(nil), o.Content...)
	c.Learned = CloneFields(o.Learned)
	return &c
}

// UserFields are the user-settable top-level fields the checks patch and compare. contentEncoding is only ever set to
// "gzip" on objects whose bytes are a gzip stream (upload metadata, PATCH) or to "identity".
var UserFields = []string{"contentType", "cacheControl", "contentDisposition", "contentLanguage", "contentEncoding", "metadata"}

// ExtractFields takes the user-settable fields out of a decoded object resource.
func ExtractFields(res map[string]any) map[string]any {
	out := map[string]any{}
	for _, k := range UserFields {
		v, ok := res[k]
		if !ok || v == nil {
			continue
		}
		if k == "metadata" {
			mm, _ := v.(map[string]any)
			if len(mm) == 0 {
				continue
			}
			cp := map[string]any{}
			for a, b := range mm {
				cp[a] = b
			}
			out[k] = cp
			continue
		}
		if s, ok := v.(string); ok && s == "" {
			continue
		}
		out[k] = v
	}
	return out
}

func CloneFields(f map[string]any) map[string]any {
	if f == nil {
		return nil
	}
	out := map[string]any{}
	for k, v := range f {
		if mm, ok := v.(map[string]any); ok {
			cp := map[string]any{}
			for a, b := range mm {
				cp[a] = b
			}
			out[k] = cp
		} else {
			out[k] = v
		}
	}
	return out
}

// MergePatch applies a patch of non-null user-settable fields: top-level fields are replaced, "metadata" keys merged.
func MergePatch(cur map[string]any, patch map[string]any) map[string]any {
	out := CloneFields(cur)
	if out == nil {
		out = map[string]any{}
	}
	for k, v := range patch {
		if k == "metadata" {
			dst, _ := out[k].(map[string]any)
			if dst == nil {
				dst = map[string]any{}
			}
			for a, b := range v.(map[string]any) {
				dst[a] = b
			}
			out[k] = dst
			continue
		}
		out[k] = v
	}
	return out
}

// FieldsEqual compares two user-settable field sets; returns "" or a description of the first difference.
func FieldsEqual(got, want map[string]any) string {
	keys := map[string]bool{}
	for k := range got {
		keys[k] = true
	}
	for k := range want {
		keys[k] = true
	}
	ks := make([]string, 0, len(keys))
	for k := range keys {
		ks = append(ks, k)
	}
	sort.Strings(ks)
	for _, k := range ks {
		g, w := fmt.Sprint(canon(got[k])), fmt.Sprint(canon(want[k]))
		if g != w {
			return fmt.Sprintf("field %q: got %s want %s", k, g, w)
		}
	}
	return ""
}

func canon(v any) any {
	if mm, ok := v.(map[string]any); ok {
		ks := make([]string, 0, len(mm))
		for k := range mm {
			ks = append(ks, k)
		}
		sort.Strings(ks)
		s := "{"
		for _, k := range ks {
			s += fmt.Sprintf("%q:%q,", k, fmt.Sprint(mm[k]))
		}
		return s + "}"
	}
	if v == nil {
		return "<unset>"
	}
	return v
}

// Store is bucket -> name -> object.
type Store struct {
	B map[string]map[string]*Object
}

func NewStore() *Store { return &Store{B: map[string]map[string]*Object{}} }

func (s *Store) AddBucket(b string) {
	if s.B[b] == nil {
		s.B[b] = map[string]*Object{}
	}
}
func (s *Store) HasBucket(b string) bool { return s.B[b] != nil }
func (s *Store) Get(b, n string) *Object {
	if s.B[b] == nil {
		return nil
	}
	return s.B[b][n]
}
func (s *Store) Put(b, n string, o *Object) { s.AddBucket(b); s.B[b][n] = o }
func (s *Store) Del(b, n string) {
	if s.B[b] != nil {
		delete(s.B[b], n)
	}
}

// Names returns the live names of a bucket in ascending bytewise order.
func (s *Store) Names(b string) []string {
	var out []string
	for n := range s.B[b] {
		out = append(out, n)
	}
	sort.Strings(out)
	return out
}

func (s *Store) Buckets() []string {
	var out []string
	for b := range s.B {
		out = append(out, b)
	}
	sort.Strings(out)
	return out
}

// ---------------------------------------------------------------- preconditions (C04)

// Conds are the four condition parameters exactly as sent (nil = not sent).
type Conds struct {
	GM  *string `json:"ifGenerationMatch,omitempty"`
	GNM *string `json:"ifGenerationNotMatch,omitempty"`
	MM  *string `json:"ifMetagenerationMatch,omitempty"`
	MNM *string `json:"ifMetagenerationNotMatch,omitempty"`
}

func S(v string) *string { return &v }
func I(v int64) *string  { s := strconv.FormatInt(v, 10); return &s }

func (c Conds) Empty() bool { return c.GM == nil && c.GNM == nil && c.MM == nil && c.MNM == nil }

// Params returns the query parameters in a fixed order.
func (c Conds) Params() [][2]string {
	var out [][2]string
	for _, e := range []struct {
		k string
		v *string
	}{{"ifGenerationMatch", c.GM}, {"ifGenerationNotMatch", c.GNM}, {"ifMetagenerationMatch", c.MM}, {"ifMetagenerationNotMatch", c.MNM}} {
		if e.v != nil {
			out = append(out, [2]string{e.k, *e.v})
		}
	}
	return out
}

func (c Conds) String() string {
	var parts []string
	for _, p := range c.Params() {
		parts = append(parts, p[0]+"="+p[1])
	}
	if len(parts) == 0 {
		return "{}"
	}
	return "{" + strings.Join(parts, ",") + "}"
}

type Verdict int

const (
	Pass       Verdict = iota
	Bad                // an unparsable condition: 400
	FailMatch          // only match-type conditions fail: 412
	FailNot            // only not-match-type conditions fail: 304
	FailBoth           // both kinds fail: 412 or 304
	FailAbsent         // object absent and the tuple is neither {} nor {ifGenerationMatch=0}: 412 or 304
	Outside            // a zero value for a parameter other than ifGenerationMatch: outside the stated space
)

func (v Verdict) String() string {
	return [...]string{"pass", "400", "412", "304", "412|304", "absent:412|304", "outside"}[v]
}

// Eval is the truth table of C04. cur == nil means the object is absent.
func Eval(cur *Object, c Conds) Verdict {
	vals := [4]*int64{}
	for i, p := range []*string{c.GM, c.GNM, c.MM, c.MNM} {
		if p == nil {
			continue
		}
		v, err := strconv.ParseInt(*p, 10, 64)
		if err != nil {
			return Bad
		}
		vals[i] = &v
	}
	for i := 1; i < 4; i++ {
		if vals[i] != nil && *vals[i] == 0 {
			return Outside
		}
	}
	if cur == nil {
		if vals[1] == nil && vals[2] == nil && vals[3] == nil && (vals[0] == nil || *vals[0] == 0) {
			return Pass
		}
		return FailAbsent
	}
	failM, failN := false, false
	if vals[0] != nil && *vals[0] != cur.Gen { // includes 0 = "must not exist"
		failM = true
	}
	if vals[1] != nil && *vals[1] == cur.Gen {
		failN = true
	}
	if vals[2] != nil && *vals[2] != cur.Metagen {
		failM = true
	}
	if vals[3] != nil && *vals[3] == cur.Metagen {
		failN = true
	}
	switch {
	case failM && failN:
		return FailBoth
	case failM:
		return FailMatch
	case failN:
		return FailNot
	}
	return Pass
}

// StatusAllowed says whether a non-2xx status is admissible for a failing verdict. notFoundOK: the operation is a
// patch/delete on an absent object, where 404 is accepted too.
func StatusAllowed(v Verdict, status int, absentNotFoundOK bool) bool {
	switch v {
	case Bad:
		return status == 400
	case FailMatch:
		return status == 412
	case FailNot:
		return status == 304
	case FailBoth:
		return status == 412 || status == 304
	case FailAbsent:
		return status == 412 || status == 304 || (absentNotFoundOK && status == 404)
	}
	return false
}

// ---------------------------------------------------------------- listing (C11)

// List computes the complete answer of a listing: items (names with the prefix and, if a delimiter is given, without
// the delimiter after the prefix) and the distinct collapsed prefixes, both ascending bytewise.
func List(names []string, prefix, delim string) (items, prefixes []string) {
	sorted := append([]string(nil), names...)
	sort.Strings(sorted)
	seen := map[string]bool{}
	for _, n := range sorted {
		if !strings.HasPrefix(n, prefix) {
			continue
		}
		if delim != "" {
			rest := n[len(prefix):]
			if i := strings.Index(rest, delim); i >= 0 {
				p := n[:len(prefix)+i+len(delim)]
				if !seen[p] {
					seen[p] = true
					prefixes = append(prefixes, p)
				}
				continue
			}
		}
		items = append(items, n)
	}
	sort.Strings(prefixes)
	return
}

// Page is one page of a listing as observed.
type Page struct {
	Items    []string
	Prefixes []string
	Token    string
}

// CheckPages compares a fully followed pagination with the listing model. maxResults <= 0: unset.
func CheckPages(pages []Page, names []string, prefix, delim string, maxResults int) string {
	wantItems, wantPrefixes := List(names, prefix, delim)
	var gotItems, gotPrefixes []string
	for i, p := range pages {
		if maxResults > 0 && len(p.Items)+len(p.Prefixes) > maxResults {
			return fmt.Sprintf("page %d holds %d entries > maxResults=%d", i, len(p.Items)+len(p.Prefixes), maxResults)
		}
		gotItems = append(gotItems, p.Items...)
		gotPrefixes = append(gotPrefixes, p.Prefixes...)
	}
	if msg := sameSeq("items", gotItems, wantItems); msg != "" {
		return msg
	}
	return sameSeq("prefixes", gotPrefixes, wantPrefixes)
}

func sameSeq(what string, got, want []string) string {
	if len(got) != len(want) {
		return fmt.Sprintf("%s: got %q want %q", what, got, want)
	}
	for i := range got {
		if got[i] != want[i] {
			return fmt.Sprintf("%s: got %q want %q", what, got, want)
		}
	}
	return ""
}

// ---------------------------------------------------------------- generation laws (C10)

// Laws is the online monitor of the generation / metageneration laws, per (bucket, name).
type Laws struct {
	seen map[string]map[int64]bool
	max  map[string]int64
	cur  map[string][2]int64 // live objects only: generation, metageneration
	// StrictGrowth false: the "greater than every earlier generation" clause is not decided (file store on a file
	// system with coarse mtime); distinctness from the immediately preceding generation is still demanded.
	StrictGrowth bool
	Undecided    int
}

func NewLaws(strict bool) *Laws {
	return &Laws{seen: map[string]map[int64]bool{}, max: map[string]int64{}, cur: map[string][2]int64{}, StrictGrowth: strict}
}

func key(b, n string) string { return b + "\x00" + n }

// Write records a successful content write acknowledged with (gen, metagen).
func (l *Laws) Write(b, n string, gen, metagen int64) string {
	k := key(b, n)
	msg := ""
	if gen <= 0 {
		msg = fmt.Sprintf("content write of %s/%s acknowledged with generation %d", b, n, gen)
	}
	if l.seen[k] == nil {
		l.seen[k] = map[int64]bool{}
	}
	if msg == "" && len(l.seen[k]) > 0 {
		if l.StrictGrowth {
			if l.seen[k][gen] {
				msg = fmt.Sprintf("content write of %s/%s got generation %d, which that name already had", b, n, gen)
			} else if gen <= l.max[k] {
				msg = fmt.Sprintf("content write of %s/%s got generation %d, not greater than the earlier generation %d", b, n, gen, l.max[k])
			}
		} else {
			l.Undecided++
			if c, ok := l.cur[k]; ok && c[0] == gen {
				msg = fmt.Sprintf("content write of %s/%s kept generation %d", b, n, gen)
			}
		}
	}
	if msg == "" && metagen != 1 {
		msg = fmt.Sprintf("content write of %s/%s acknowledged with metageneration %d, want 1", b, n, metagen)
	}
	l.seen[k][gen] = true
	if gen > l.max[k] {
		l.max[k] = gen
	}
	l.cur[k] = [2]int64{gen, metagen}
	return msg
}

// Patch records a successful metadata patch acknowledged with (gen, metagen).
func (l *Laws) Patch(b, n string, gen, metagen int64) string {
	k := key(b, n)
	c, ok := l.cur[k]
	msg := ""
	if !ok {
		msg = fmt.Sprintf("patch of %s/%s acknowledged although the monitor knows no live object", b, n)
	} else if gen != c[0] {
		msg = fmt.Sprintf("patch of %s/%s changed generation %d -> %d", b, n, c[0], gen)
	} else if metagen != c[1]+1 {
		msg = fmt.Sprintf("patch of %s/%s moved metageneration %d -> %d, want +1", b, n, c[1], metagen)
	}
	l.cur[k] = [2]int64{gen, metagen}
	return msg
}

func (l *Laws) Delete(b, n string) { delete(l.cur, key(b, n)) }

// Current returns the numbers of the live object, if any.
func (l *Laws) Current(b, n string) (gen, metagen int64, ok bool) {
	c, ok := l.cur[key(b, n)]
	return c[0], c[1], ok
}

// Observe checks a pair reported anywhere (header, metadata GET, listing item) outside a write/patch acknowledgement.
func (l *Laws) Observe(b, n, where string, gen, metagen int64) string {
	c, ok := l.cur[key(b, n)]
	if !ok {
		return fmt.Sprintf("%s reports %s/%s (generation %d) although no live object is known", where, b, n, gen)
	}
	if gen != c[0] || metagen != c[1] {
		return fmt.Sprintf("%s reports generation/metageneration %d/%d for %s/%s, acknowledged values are %d/%d", where, gen, metagen, b, n, c[0], c[1])
	}
	return ""
}

// Seen returns every generation the name was ever acknowledged with, ascending.
func (l *Laws) Seen(b, n string) []int64 {
	var out []int64
	for g := range l.seen[key(b, n)] {
		out = append(out, g)
	}
	sort.Slice(out, func(i, j int) bool { return out[i] < out[j] })
	return out
}

package main

import (
	"fmt"
	"strings"
	"sync/atomic"

	"verif/common"
	"verif/gcs/drive"
	"verif/gcs/model"
)

func init() { register("C04", "exploration", runC04) }

var (
	c04Ops    = []string{"media", "multipart", "resumable", "patch", "delete", "compose", "patchfull", "patchbad"}
	c04States = []string{"absent", "fresh", "patched", "recreated"}
)

const c04Tuples = 5 * 4 * 4 * 4 // ifGenerationMatch {unset,=cur,!=cur,0,junk} x three params {unset,=cur,!=cur,junk}

// C04: preconditions gate mutations exactly. Complete enumeration of the condition-tuple space in both tiers, random
// histories on top; oracle = truth table of the statement + "a failed request changed nothing" whole-bucket diff.
func runC04(run *common.Run) {
	run.Rule = fmt.Sprintf("sub-space 'enum' (enumerated COMPLETELY in both tiers, exhaustive=true refers to it): %d condition tuples (ifGenerationMatch in {unset,=cur,!=cur,0,junk} x ifGenerationNotMatch, ifMetagenerationMatch, ifMetagenerationNotMatch in {unset,=cur,!=cur,junk}) x object state {absent, fresh (metageneration 1), patched (metageneration 3), deleted-and-recreated (!=cur = the deleted generation)} x operation {media, multipart, resumable (conditions at initiation), patch, delete, compose destination, patch whose body is a full object resource as an EARLIER metadata GET returned it (stale generation / metageneration / md5Hash / size for the patched and recreated states) with one user field changed - for a quarter of the tuples the resource of the neighbour object nb1, for another quarter renamed to an object that does not exist, so that name / id / links in the body differ from the URL -, patch whose body has valid members (user metadata, acl / owner / retention / customerEncryption) followed by a member of the wrong JSON type} x store {mem,file} = %d cases; sub-space 'src' (complete): compose with 1-3 sources, per-source ifGenerationMatch in {unset,=cur,!=cur} at every position x destination {absent,fresh} x store. The target is uploaded with acl entries, owner, retention and customerEncryption in its metadata and every plain PATCH of the grid that must fail also names those nested fields with other values. Each case = fresh bucket with two neighbour objects, set-up of the target state, baseline dump, the one request, dump; expected status from the truth table, after any non-2xx the dump must equal the baseline. 'folder' (complete): the same %d tuples x {delete, patch} x addressed name {'t', 't/'} x store in a bucket that holds 't/x' and 't/y/z' but never held an object 't' or 't/': the addressed object is absent, so only {} and {ifGenerationMatch=0} pass the conditions and then there is nothing to delete / patch (never a 2xx), an unparsable value is 400, and the dump afterwards - the objects below the prefix in particular - must equal the baseline. 'late' (complete): resumable sessions of at least three data chunks initiated with a condition {ifGenerationMatch=cur, ifGenerationNotMatch=cur, ifMetagenerationMatch=cur, ifMetagenerationNotMatch=cur, ifGenerationMatch=0, ifGenerationMatch=cur+ifMetagenerationMatch=cur on a live target; ifGenerationMatch=0, =another object's generation, ifMetagenerationMatch=1, ifMetagenerationNotMatch=2 on an absent one} x OTHER requests on the target {none, overwrite by another upload, patch, delete, delete+re-create, patch+overwrite; create, create+patch, create+delete} x the point of the session at which they are executed {after the initiation before the first chunk, after the first data chunk was acknowledged (308), after the second, after every byte was acknowledged and before the bodiless finalising request} x store, each of the other requests followed by a dump (a half-sent session shows nowhere); the upload is performed iff its conditions hold against the object as it is when the upload is COMMITTED (both directions are counted: true when opened / false at commit and false when opened / true at commit), else 412/304 and nothing changed; 'hist': random histories whose conditions refer to generations learned earlier, 45 percent of the resumable uploads sent in >= 2 chunk requests with 1-2 other requests on the same object (upload by another protocol, patch, delete, re-creation, a quarter of them conditioned themselves) between two of the session's chunks, including conditioned and unconditioned deletes / patches of never-stored names that are '/'-prefixes of stored names (with and without trailing slash) and read-only steps after which the dump must be unchanged. Non-trivial = the request carried at least one condition (enum/src/folder) resp. the history saw both a passing and a failing conditioned request; distinct by case index. Sub 'chain' (complete, both tiers): objects head (uploaded through media / multipart / resumable), t1, t2, t3 with bodies read from the request; compose r1=[head,t1] and r2=[head,t1,t3] are accepted, then a compose with sources [head,t2,t3] (t2 shorter or longer than t1) is refused in each of 9 ways (ifGenerationMatch != current, = 0 on a live object, ifGenerationNotMatch = current, ifMetagenerationMatch != current, ifMetagenerationNotMatch = current, unparsable value, failing per-source ifGenerationMatch on the 2nd / 3rd / both later sources) x 5 destinations (r1, a never-stored name, the head, the tail t2, r2) x both stores: status per the truth table, and the dump after it (metadata and CONTENT of every object of the bucket) must equal the dump before it. The random histories also run 'sibling' scenarios: two objects whose names extend one another by a suffix a store might use for files of its own (X and X.tmp, X.meta, X~, X.part, X.bak, X.lock, X.new, X.old, X.swp, X.json, X.emumeta.tmp, .X.swp, #X#; file store: only names it can hold), both given non-default metadata (content type, user metadata, acl / owner ..., mostly a patch on top), then 3-6 requests - overwrite by any protocol, patch, copy onto it (also from the sibling: 'upload to name.tmp, rewrite to name'), compose onto it, delete / re-creation - addressed to one of the two, one per step; the dump after each compares both objects' content, metadata, MD5, generation and metageneration with the model. and 'compose_chain' scenarios: composes whose source lists begin with the same head object and continue with different tails, accepted ones (results kept under <head>.cat1..3) alternating with ones that must be refused (failing / unparsable destination condition, failing per-source ifGenerationMatch on a later source, missing later source; addressed to an earlier result, another name, the head or a tail); the dump after every request compares the content of every object.", c04Tuples, c04Tuples*len(c04States)*len(c04Ops)*2, c04Tuples)
	run.Assumptions = []string{
		"truth table taken from the statement: junk => 400; absent object passes only {} and {ifGenerationMatch=0}; 412 for match-type, 304 for not-match-type failures, either when both kinds fail; on an absent object 412 or 304 (and 404 for patch/delete)",
		"zero values for the three parameters other than ifGenerationMatch are outside the stated space and never sent",
		"for an absent object '=cur' / '!=cur' are a neighbour's generation (+1) and metageneration 1 / 2",
		"resumable: an unparsable condition may be rejected at initiation or at completion",
		"resumable: the conditions of a session are judged against the object's generation / metageneration at the moment the upload is committed (the request that completes the content), not when the session was opened or when an earlier chunk arrived; a refused commit changes nothing",
		"a resource without a size field is read as size 0",
		"a PATCH whose body has a member of the wrong JSON type (e.g. contentType: 7) is either refused (any 4xx; with failing conditions also their status) and then nothing may have changed, or acknowledged as a patch of its valid members when the object is live and the conditions hold",
		"nested resource fields (acl, owner, retention, customerEncryption) are only sent in upload metadata and in PATCH requests that must be refused; the oracle for them is 'whatever the server showed before a failed request it shows afterwards'",
		"a request that gets no answer within the client watchdog (20 s for PATCH / DELETE / compose / rewrite, 60 s otherwise) is reported as 'request not answered within <d>: <request>', the case is abandoned and its server not used again; after 3 such reports the run stops",
		"a PATCH body may be a full object resource from an earlier GET: its output-only fields (generation, metageneration, size, md5Hash, name, bucket, links, timestamps, kind) must not influence the verdict or the object",
	}
	j := common.NewJournal("C04")
	W := workers()
	total := c04Tuples * len(c04States) * len(c04Ops) * 2
	var aborted atomic.Bool
	if run.WantSub("enum") {
		common.Parallel(W, W, func(w int) {
			srvs := srvPool{}
			defer srvs.closeAll()
			for idx := w; idx < total; idx += W {
				if !run.Want("enum", idx) {
					continue
				}
				if tooMany(run) {
					aborted.Store(true)
					return
				}
				store := drive.Stores[idx/(c04Tuples*len(c04States)*len(c04Ops))]
				srv, err := srvs.get(store)
				if err != nil {
					run.Violation("enum", idx, "cannot start emulator: "+err.Error(), nil)
					return
				}
				j.Begin(w, fmt.Sprintf("C04 enum case=%d seed=%d", idx, run.Seed))
				c04Enum(run, srv, idx)
				j.End(w)
			}
		})
	}
	nsrc := (3 + 9 + 27) * 2 * 2
	if run.WantSub("src") {
		common.Parallel(W, W, func(w int) {
			srvs := srvPool{}
			defer srvs.closeAll()
			for idx := w; idx < nsrc; idx += W {
				if !run.Want("src", idx) {
					continue
				}
				if tooMany(run) {
					aborted.Store(true)
					return
				}
				srv, err := srvs.get(drive.Stores[idx%2])
				if err != nil {
					run.Violation("src", idx, "cannot start emulator: "+err.Error(), nil)
					return
				}
				j.Begin(w, fmt.Sprintf("C04 src case=%d seed=%d", idx, run.Seed))
				c04Src(run, srv, idx)
				j.End(w)
			}
		})
	}
	// 'folder' (complete): the addressed name was never stored but objects are stored BELOW it ("t" resp. "t/" while
	// "t/x" and "t/y/z" exist): an absent object, whatever a store keeps for the prefix internally.
	nfolder := c04Tuples * 2 * 2 * 2
	if run.WantSub("folder") {
		common.Parallel(W, W, func(w int) {
			srvs := srvPool{}
			defer srvs.closeAll()
			for idx := w; idx < nfolder; idx += W {
				if !run.Want("folder", idx) {
					continue
				}
				if tooMany(run) {
					aborted.Store(true)
					return
				}
				srv, err := srvs.get(drive.Stores[idx%2])
				if err != nil {
					run.Violation("folder", idx, "cannot start emulator: "+err.Error(), nil)
					return
				}
				j.Begin(w, fmt.Sprintf("C04 folder case=%d seed=%d", idx, run.Seed))
				c04Folder(run, srv, idx)
				j.End(w)
			}
		})
	}
	// 'late' (complete): when = at which point of the session the other requests run: "open" = after the initiation,
	// before the first chunk; "mid" = after the first data chunk was acknowledged with 308; "mid2" = after the second;
	// "last" = after every byte was acknowledged, before the bodiless finalising request ("bytes */N").
	type lateCase struct{ store, state, cond, between, when string }
	var late []lateCase
	for _, store := range drive.Stores {
		for _, when := range []string{"open", "mid", "mid2", "last"} {
			for _, c := range []string{"gm=cur", "gnm=cur", "mm=cur", "mnm=cur", "gm=0", "gm=cur,mm=cur"} {
				for _, bt := range []string{"none", "overwrite", "patch", "delete", "recreate", "patch+overwrite"} {
					late = append(late, lateCase{store, "fresh", c, bt, when})
				}
			}
			for _, c := range []string{"gm=0", "gm=other", "mm=1", "mnm=2"} {
				for _, bt := range []string{"none", "create", "create+patch", "create+delete"} {
					late = append(late, lateCase{store, "absent", c, bt, when})
				}
			}
		}
	}
	if run.WantSub("late") {
		common.Parallel(len(late), W, func(i int) {
			if !run.Want("late", i) || tooMany(run) {
				return
			}
			lc := late[i]
			j.Begin(300+i%64, fmt.Sprintf("C04 late case=%d seed=%d", i, run.Seed))
			c04Late(run, i, lc.store, lc.state, lc.cond, lc.between, lc.when)
			j.End(300 + i%64)
		})
	}
	// 'chain' (complete): a refused compose in a history in which an EARLIER accepted compose used the same first source
	// with another tail. Head protocol x kind of refusal x destination of the refused request x tail lengths x store.
	var chain []c04ChainCase
	for _, store := range drive.Stores {
		for _, proto := range []string{"media", "multipart", "resumable"} {
			for _, reject := range c04ChainRejects {
				for _, where := range []string{"result", "absent", "head", "tail", "second"} {
					for _, longer := range []bool{false, true} {
						chain = append(chain, c04ChainCase{store, proto, reject, where, longer})
					}
				}
			}
		}
	}
	if run.WantSub("chain") {
		common.Parallel(W, W, func(w int) {
			srvs := srvPool{}
			defer srvs.closeAll()
			for idx := w; idx < len(chain); idx += W {
				if !run.Want("chain", idx) {
					continue
				}
				if tooMany(run) {
					aborted.Store(true)
					return
				}
				srv, err := srvs.get(chain[idx].store)
				if err != nil {
					run.Violation("chain", idx, "cannot start emulator: "+err.Error(), nil)
					return
				}
				j.Begin(w, fmt.Sprintf("C04 chain case=%d seed=%d", idx, run.Seed))
				c04Chain(run, srv, idx, chain[idx])
				j.End(w)
			}
		})
	}
	if run.Replay == nil && !aborted.Load() {
		run.Exhaustive = true
		run.Set("exhaustive_subspace", fmt.Sprintf("enum: all %d (tuple x state x operation x store) cases; src: all %d compose per-source cases; folder: all %d (tuple x {delete, patch} x {t, t/} x store) cases on a never-stored name that is a '/'-prefix of stored names; chain: all %d (store x head protocol x refusal x refused destination x tail lengths) refused composes after accepted composes with the same first source; the random histories are sampling", total, nsrc, nfolder, len(chain)))
	}
	nh := run.N(40, 2000)
	if run.WantSub("hist") {
		common.Parallel(nh, W, func(i int) {
			if !run.Want("hist", i) || tooMany(run) {
				return
			}
			j.Begin(100+i%64, fmt.Sprintf("C04 hist case=%d seed=%d", i, run.Seed))
			c04History(run, i)
			j.End(100 + i%64)
		})
	}
}

// c04Setup creates the bucket, two neighbours and the target "t" in the wanted state; returns the deleted generation
// for state "recreated" (0 otherwise).
func c04Setup(e *exec, b, state string, r *common.Rand) (oldGen int64, msg string) {
	if msg := e.createBucket(b); msg != "" {
		return 0, msg
	}
	e.universe[b] = []string{"t", "nb1", "nb2", "decoy"}
	for _, n := range []string{"nb1", "nb2"} {
		if msg := e.upload(&uploadSpec{Proto: "media", Bucket: b, Name: n, Body: []byte("neighbour " + n), CT: "text/plain"}, r); msg != "" {
			return 0, msg
		}
	}
	mk := func(body string) string {
		return e.upload(&uploadSpec{Proto: "multipart", Bucket: b, Name: "t", Body: []byte(body), CT: "text/plain", CTMode: "both",
			UserMeta: map[string]string{"k": "v"}, Boundary: "verif_bnd_setup",
			// nested fields: a refused PATCH that names them must leave them as the server shows them now
			Extra: map[string]any{"acl": []any{map[string]any{"entity": "user-a@example.com", "role": "OWNER"}, map[string]any{"entity": "group-readers@example.com", "role": "READER"}},
				"owner":              map[string]any{"entity": "user-a@example.com"},
				"retention":          map[string]any{"mode": "Unlocked", "retainUntilTime": "2031-01-02T03:04:05Z"},
				"customerEncryption": map[string]any{"encryptionAlgorithm": "AES256", "keySha256": "dmVyaWYtdmVyaWYtdmVyaWYtdmVyaWYtdmVyaWYtdmU="}}}, r)
	}
	switch state {
	case "fresh":
		msg = mk("fresh target")
		e.snapshot(b, "t")
	case "patched":
		if msg = mk("patched target"); msg == "" {
			e.snapshot(b, "t") // stale later: metageneration 1
			if msg = e.patch(b, "t", map[string]any{"cacheControl": "no-cache"}, model.Conds{}); msg == "" {
				msg = e.patch(b, "t", map[string]any{"metadata": map[string]any{"p": "2"}}, model.Conds{})
			}
		}
	case "recreated":
		if msg = mk("first incarnation"); msg == "" {
			e.snapshot(b, "t") // stale later: generation, md5Hash and size of the deleted incarnation
			oldGen = e.m.Get(b, "t").Gen
			if msg = e.del(b, "t", model.Conds{}); msg == "" {
				msg = mk("second incarnation")
			}
		}
	}
	if msg != "" {
		return 0, msg
	}
	return oldGen, e.verify()
}

func c04Enum(run *common.Run, srv *drive.Server, idx int) {
	tuple := idx % c04Tuples
	state := c04States[(idx/c04Tuples)%len(c04States)]
	op := c04Ops[(idx/(c04Tuples*len(c04States)))%len(c04Ops)]
	r := run.Rand("C04.enum", idx)
	e := newExec(srv, true)
	defer e.flush(run)
	b := fmt.Sprintf("e%d", idx)
	fail := func(what string) {
		run.Violation("enum", idx, what, map[string]any{"store": srv.Kind, "state": state, "operation": op, "tuple": tuple, "steps": e.steps})
	}
	oldGen, msg := c04Setup(e, b, state, r)
	if msg != "" {
		fail("set-up: " + msg)
		return
	}
	// the condition values
	cur := e.m.Get(b, "t")
	genCur, genOther := e.m.Get(b, "nb1").Gen, e.m.Get(b, "nb1").Gen+1
	metaCur, metaOther := int64(1), int64(2)
	if cur != nil {
		genCur, metaCur = cur.Gen, cur.Metagen
		genOther = cur.Gen + 1
		if tuple%2 == 1 {
			genOther = cur.Gen - 1
		}
		if oldGen != 0 {
			genOther = oldGen
		}
		metaOther = cur.Metagen + 1
		if cur.Metagen > 1 && tuple%3 == 1 {
			metaOther = cur.Metagen - 1
		}
	}
	junk := junkValues[tuple%len(junkValues)]
	var c model.Conds
	switch tuple % 5 {
	case 1:
		c.GM = model.I(genCur)
	case 2:
		c.GM = model.I(genOther)
	case 3:
		c.GM = model.I(0)
	case 4:
		c.GM = model.S(junk)
	}
	pick := func(sel int, cur, other int64) *string {
		switch sel {
		case 1:
			return model.I(cur)
		case 2:
			return model.I(other)
		case 3:
			return model.S(junk)
		}
		return nil
	}
	c.GNM = pick((tuple/5)%4, genCur, genOther)
	c.MM = pick((tuple/20)%4, metaCur, metaOther)
	c.MNM = pick((tuple/80)%4, metaCur, metaOther)
	verdict := model.Eval(cur, c)
	switch op {
	case "media", "multipart", "resumable":
		u := &uploadSpec{Proto: op, Bucket: b, Name: "t", Body: []byte(fmt.Sprintf("conditioned write %d", idx)), CT: "image/png", CTMode: "both",
			Boundary: "verif_bnd_c04", Conds: c, KnownTotal: tuple%2 == 0, ChunkMax: 12, UseLocation: tuple%4 < 2}
		msg = e.upload(u, r)
	case "patch":
		body := map[string]any{"contentLanguage": "de"}
		if cur == nil || verdict != model.Pass {
			// the request is refused whatever its body: it also names the nested fields the target was uploaded with
			for k, v := range genNestedPatch(r) {
				body[k] = v
			}
		}
		msg = e.patch(b, "t", body, c)
	case "patchbad":
		// valid members (user metadata, nested fields) followed by a member of the wrong JSON type
		msg = e.patchBad(b, "t", genBadPatch(r, true), c)
	case "patchfull":
		body := map[string]any{"kind": "storage#object", "name": "t", "bucket": b, "generation": "1700000000000000123", "metageneration": "5", "size": "7", "md5Hash": "1B2M2Y8AsgTpgAmY7PhCfg=="}
		if sn := e.snaps[b+"\x00t"]; len(sn) > 0 {
			body = cloneResource(sn[0]) // the oldest resource a GET ever returned for this name
		}
		switch tuple % 4 {
		case 2:
			// the full resource of ANOTHER live object (metadata copied from a neighbour): name, id and links differ from the URL
			e.snapshot(b, "nb1")
			if sn := e.snaps[b+"\x00nb1"]; len(sn) > 0 {
				body = cloneResource(sn[0])
			}
		case 3:
			body["name"], body["id"], body["selfLink"] = "no-such-object", b+"/no-such-object/1", "http://127.0.0.1:1/storage/v1/b/"+b+"/o/no-such-object"
		}
		body["contentLanguage"] = "de"
		msg = e.patch(b, "t", body, c)
	case "delete":
		msg = e.del(b, "t", c)
	case "compose":
		msg = e.compose(&composeSpec{Bucket: b, Dst: "t", Srcs: []composeSrc{{Name: "nb1"}, {Name: "nb2"}}, CT: "text/plain", Conds: c})
	}
	if msg != "" {
		fail(msg)
		return
	}
	if msg := e.verify(); msg != "" {
		fail("after the conditioned request: " + msg)
		return
	}
	run.Case(common.Hash64("enum", fmt.Sprint(idx)), !c.Empty())
	run.Count("enum_verdict_"+verdict.String(), 1)
	if idx%2311 == 7 {
		run.Sample(map[string]any{"store": srv.Kind, "state": state, "operation": op, "conds": c.String(), "verdict": verdict.String(), "steps": tailSteps(e.steps, 2)})
	}
}

// c04Late: a resumable session is initiated with a condition, the target changes while the session is open, then the
// upload completes: the condition must be judged against the object as it is at completion.
func c04Late(run *common.Run, idx int, store, state, cond, between, when string) {
	r := run.Rand("C04.late", idx)
	srv, err := drive.Start(store, "")
	if err != nil {
		run.Violation("late", idx, "cannot start emulator: "+err.Error(), nil)
		return
	}
	defer srv.Close()
	e := newExec(srv, true)
	defer e.flush(run)
	fail := func(what string) {
		run.Violation("late", idx, what, map[string]any{"store": store, "state": state, "condition": cond, "between": between, "when": when, "steps": e.steps})
	}
	if _, msg := c04Setup(e, "late", state, r); msg != "" {
		fail("set-up: " + msg)
		return
	}
	var c model.Conds
	cur := e.m.Get("late", "t")
	switch cond {
	case "gm=cur":
		c.GM = model.I(cur.Gen)
	case "gnm=cur":
		c.GNM = model.I(cur.Gen)
	case "mm=cur":
		c.MM = model.I(cur.Metagen)
	case "mnm=cur":
		c.MNM = model.I(cur.Metagen)
	case "gm=0":
		c.GM = model.I(0)
	case "gm=other":
		c.GM = model.I(e.m.Get("late", "nb1").Gen)
	case "mm=1":
		c.MM = model.I(1)
	case "mnm=2":
		c.MNM = model.I(2)
	case "gm=cur,mm=cur":
		c.GM, c.MM = model.I(cur.Gen), model.I(cur.Metagen)
	}
	// 34 bytes in chunks of 9-12: at least three data chunks
	u := &uploadSpec{Proto: "resumable", Bucket: "late", Name: "t", Body: []byte("completed after the object changed"), CT: "image/png", Conds: c, KnownTotal: idx%2 == 0, ChunkMax: 12,
		Post: idx%3 == 1, UseLocation: idx%3 != 0}
	verdictAtOpen := model.Eval(cur, c)
	others := func() string {
		do := func(what string) string {
			msg := ""
			switch what {
			case "overwrite", "create":
				msg = e.upload(&uploadSpec{Proto: common.Pick(r, []string{"media", "multipart"}), Bucket: "late", Name: "t", Body: []byte("written while the session was open"), CT: "text/plain", CTMode: "both", Boundary: "verif_bnd_late"}, r)
			case "patch":
				msg = e.patch("late", "t", map[string]any{"cacheControl": "no-cache"}, model.Conds{})
			case "delete":
				msg = e.del("late", "t", model.Conds{})
			}
			if msg == "" {
				msg = e.verify()
			}
			return msg
		}
		var seq []string
		switch between {
		case "none":
		case "recreate":
			seq = []string{"delete", "create"}
		default:
			seq = strings.Split(between, "+")
		}
		for _, what := range seq {
			if msg := do(what); msg != "" {
				return msg
			}
		}
		return ""
	}
	switch when {
	case "open":
		u.Between = others
	case "mid":
		u.Mid, u.MidAfter = others, 1
	case "mid2":
		u.Mid, u.MidAfter = others, 2
	case "last":
		// every byte acknowledged, then the other requests, then the bodiless finalising request
		u.Mid, u.MidAfter, u.KnownTotal = others, 3, false
		u.ChunkMax, u.FixedChunks = 12, true
	}
	if when != "open" {
		u.FixedChunks = true
	}
	if msg := e.upload(u, r); msg != "" {
		fail(msg)
		return
	}
	if when != "open" && !u.MidRan {
		fail(fmt.Sprintf("harness: the session completed before the requests planned for point %q were sent", when))
		return
	}
	if verdictAtCommit := model.Eval(e.lateCur, c); between != "none" {
		// (e.lateCur: the object as it was when the upload was decided, noted by upload())
		switch {
		case verdictAtOpen == model.Pass && verdictAtCommit != model.Pass:
			run.Count("late_condition_true_when_opened_false_at_commit", 1)
		case verdictAtOpen != model.Pass && verdictAtCommit == model.Pass:
			run.Count("late_condition_false_when_opened_true_at_commit", 1)
		}
	}
	if msg := e.verify(); msg != "" {
		fail("after completion: " + msg)
		return
	}
	run.Case(common.Hash64("late", fmt.Sprint(idx)), between != "none")
	run.Count("late_condition_cases", 1)
	run.Count("late_condition_cases_"+when, 1)
	if idx == 1 || (when == "mid" && between == "overwrite" && cond == "gm=cur" && store == "file") {
		run.Sample(map[string]any{"sub": "late", "store": store, "state": state, "condition": cond, "between": between, "when": when, "steps": tailSteps(e.steps, 3)})
	}
}

// c04Folder: one condition tuple on a delete / patch addressed to a name that was never stored and is only a "/"-prefix
// of stored names (without and with a trailing slash).
func c04Folder(run *common.Run, srv *drive.Server, idx int) {
	code := idx / 2
	tuple := code % c04Tuples
	code /= c04Tuples
	op := []string{"delete", "patch"}[code%2]
	name := []string{"t", "t/"}[(code/2)%2]
	r := run.Rand("C04.folder", idx)
	e := newExec(srv, true)
	defer e.flush(run)
	b := fmt.Sprintf("f%d", idx)
	fail := func(what string) {
		run.Violation("folder", idx, what, map[string]any{"store": srv.Kind, "operation": op, "name": name, "tuple": tuple, "steps": e.steps})
	}
	if _, msg := c04Setup(e, b, "absent", r); msg != "" {
		fail("set-up: " + msg)
		return
	}
	e.universe[b] = append(e.universe[b], "t/", "t/x", "t/y", "t/y/", "t/y/z")
	for _, n := range []string{"t/x", "t/y/z"} {
		if msg := e.upload(&uploadSpec{Proto: "media", Bucket: b, Name: n, Body: []byte("stored below the prefix: " + n), CT: "text/plain"}, r); msg != "" {
			fail("set-up: " + msg)
			return
		}
	}
	if msg := e.verify(); msg != "" {
		fail("baseline dump: " + msg)
		return
	}
	// condition values as for an absent object in 'enum': a neighbour's generation (+1), metageneration 1 / 2
	genCur, genOther := e.m.Get(b, "t/x").Gen, e.m.Get(b, "t/x").Gen+1
	if tuple%2 == 1 {
		genCur, genOther = e.m.Get(b, "nb1").Gen, e.m.Get(b, "t/y/z").Gen
	}
	junk := junkValues[tuple%len(junkValues)]
	var c model.Conds
	switch tuple % 5 {
	case 1:
		c.GM = model.I(genCur)
	case 2:
		c.GM = model.I(genOther)
	case 3:
		c.GM = model.I(0)
	case 4:
		c.GM = model.S(junk)
	}
	pick := func(sel int, cur, other int64) *string {
		switch sel {
		case 1:
			return model.I(cur)
		case 2:
			return model.I(other)
		case 3:
			return model.S(junk)
		}
		return nil
	}
	c.GNM = pick((tuple/5)%4, genCur, genOther)
	c.MM = pick((tuple/20)%4, 1, 2)
	c.MNM = pick((tuple/80)%4, 1, 2)
	var msg string
	if op == "delete" {
		msg = e.delFolder(b, name, c)
	} else {
		body := map[string]any{"contentLanguage": "de"}
		for k, v := range genNestedPatch(r) {
			body[k] = v
		}
		msg = e.patch(b, name, body, c)
	}
	if msg != "" {
		fail(msg)
		return
	}
	if msg := e.verify(); msg != "" {
		fail("after the conditioned request: " + msg)
		return
	}
	run.Case(common.Hash64("folder", fmt.Sprint(idx)), !c.Empty())
	run.Count("folder_verdict_"+model.Eval(nil, c).String(), 1)
	if idx == 1234 {
		run.Sample(map[string]any{"sub": "folder", "store": srv.Kind, "operation": op, "name": name, "conds": c.String(), "steps": tailSteps(e.steps, 1)})
	}
}

type c04ChainCase struct {
	store, proto, reject, where string
	longer                      bool
}

// how the second compose of a 'chain' case is refused
var c04ChainRejects = []string{"gm!=cur", "gm=0", "gnm=cur", "mm!=cur", "mnm=cur", "junk", "src2 generation", "src3 generation", "src2+src3 generation"}

// c04Chain: objects head, t1, t2, t3 (head uploaded through the case's protocol, tails of other lengths); compose r1 =
// [head, t1] and r2 = [head, t1, t3] are accepted; then a compose with sources [head, t2, t3] is REFUSED - for a failing
// or unparsable destination condition or a failing per-source ifGenerationMatch on the second and / or third source -
// addressed to r1 ("result"), to a name never stored ("absent"), to the head, to the tail t2 or to r2 ("second"). The
// dumps before and after the refused request read metadata and content of every object of the bucket.
func c04Chain(run *common.Run, srv *drive.Server, idx int, cc c04ChainCase) {
	r := run.Rand("C04.chain", idx)
	e := newExec(srv, true)
	defer e.flush(run)
	b := fmt.Sprintf("c%d", idx)
	fail := func(what string) {
		run.Violation("chain", idx, what, map[string]any{"store": srv.Kind, "head_protocol": cc.proto, "refusal": cc.reject, "refused_destination": cc.where, "second_tail_longer": cc.longer, "steps": e.steps})
	}
	if msg := e.createBucket(b); msg != "" {
		fail(msg)
		return
	}
	e.universe[b] = []string{"head", "t1", "t2", "t3", "r1", "r2", "r3", "decoy"}
	l1, l2 := r.Range(20, 120), r.Range(1, 15)
	if cc.longer {
		l1, l2 = l2, l1
	}
	up := func(n, proto string, ln int) string {
		u := &uploadSpec{Proto: proto, Bucket: b, Name: n, Body: r.Bytes(ln), CT: "application/octet-stream", CTMode: "both", Boundary: genBoundary(r),
			KnownTotal: idx%2 == 0, ChunkMax: ln/2 + 1, UseLocation: idx%4 < 2}
		if proto != "media" {
			u.UserMeta = map[string]string{"of": n}
		}
		return e.upload(u, r)
	}
	protos := []string{"media", "multipart", "resumable"}
	steps := []func() string{
		func() string { return up("head", cc.proto, r.Range(1, 200)) },
		func() string { return up("t1", protos[idx%3], l1) },
		func() string { return up("t2", protos[(idx/3)%3], l2) },
		func() string { return up("t3", protos[(idx/9)%3], r.Range(1, 40)) },
		func() string {
			return e.compose(&composeSpec{Bucket: b, Dst: "r1", Srcs: []composeSrc{{Name: "head"}, {Name: "t1"}}, CT: "text/plain", UserMeta: map[string]string{"k": "r1"}})
		},
		func() string {
			return e.compose(&composeSpec{Bucket: b, Dst: "r2", Srcs: []composeSrc{{Name: "head"}, {Name: "t1"}, {Name: "t3"}}, CT: "image/png"})
		},
	}
	for _, f := range steps {
		if msg := f(); msg != "" {
			fail("set-up: " + msg)
			return
		}
		if msg := e.verify(); msg != "" {
			fail("set-up: " + msg)
			return
		}
	}
	dst := map[string]string{"result": "r1", "absent": "r3", "head": "head", "tail": "t2", "second": "r2"}[cc.where]
	cur := e.m.Get(b, dst)
	spec := &composeSpec{Bucket: b, Dst: dst, Srcs: []composeSrc{{Name: "head"}, {Name: "t2"}, {Name: "t3"}}, CT: "text/plain", UserMeta: map[string]string{"k": "refused"}}
	gen, metagen := e.m.Get(b, "head").Gen, int64(1)
	if cur != nil {
		gen, metagen = cur.Gen, cur.Metagen
	}
	srcGen := func(i int) *string { return model.I(e.m.Get(b, spec.Srcs[i].Name).Gen + int64(1-2*(idx%2))) }
	switch cc.reject {
	case "gm!=cur":
		// (absent destination: the head's generation)
		g := gen
		if cur != nil {
			g = e.m.Get(b, "t1").Gen
		}
		spec.Conds.GM = model.I(g)
	case "gm=0":
		if cur == nil {
			spec.Conds.MM = model.I(1) // on an absent object gm=0 would pass
		} else {
			spec.Conds.GM = model.I(0)
		}
	case "gnm=cur":
		spec.Conds.GNM = model.I(gen)
	case "mm!=cur":
		spec.Conds.MM = model.I(metagen + 1)
	case "mnm=cur":
		spec.Conds.MNM = model.I(metagen)
	case "junk":
		spec.Conds.GM = model.S(junkValues[idx%len(junkValues)])
	case "src2 generation":
		spec.Srcs[1].GenMatch = srcGen(1)
	case "src3 generation":
		spec.Srcs[2].GenMatch = srcGen(2)
		spec.Srcs[0].GenMatch = model.I(e.m.Get(b, "head").Gen)
	case "src2+src3 generation":
		spec.Srcs[1].GenMatch, spec.Srcs[2].GenMatch = srcGen(1), srcGen(2)
	}
	before := e.stats["compose_failures_expected"]
	if msg := e.compose(spec); msg != "" {
		fail(msg)
		return
	}
	if e.stats["compose_failures_expected"] == before {
		fail("harness: the compose planned to be refused was accepted by the model")
		return
	}
	if msg := e.verify(); msg != "" {
		fail("after the refused compose: " + msg)
		return
	}
	run.Case(common.Hash64("chain", fmt.Sprint(idx)), true)
	run.Count("chain_refused_composes_after_accepted_composes_with_the_same_head", 1)
	run.Count("chain_refused_"+cc.reject, 1)
	if idx == 7 {
		run.Sample(map[string]any{"sub": "chain", "store": srv.Kind, "head_protocol": cc.proto, "refusal": cc.reject, "refused_destination": cc.where, "steps": tailSteps(e.steps, 3)})
	}
}

func c04Src(run *common.Run, srv *drive.Server, idx int) {
	// idx -> store (idx%2), destination state, k and the base-3 code of the per-source conditions
	code := idx / 2
	dstState := []string{"absent", "fresh"}[code%2]
	code /= 2
	k := 1
	for n := 3; code >= n; n *= 3 {
		code -= n
		k++
	}
	r := run.Rand("C04.src", idx)
	e := newExec(srv, true)
	defer e.flush(run)
	b := fmt.Sprintf("s%d", idx)
	fail := func(what string) {
		run.Violation("src", idx, what, map[string]any{"store": srv.Kind, "destination": dstState, "steps": e.steps})
	}
	if _, msg := c04Setup(e, b, dstState, r); msg != "" {
		fail("set-up: " + msg)
		return
	}
	srcNames := []string{"nb1", "nb2", "nb1"}
	spec := &composeSpec{Bucket: b, Dst: "t", CT: "text/plain"}
	conditioned := false
	for p := 0; p < k; p++ {
		s := composeSrc{Name: srcNames[p]}
		g := e.m.Get(b, s.Name).Gen
		switch code % 3 {
		case 1:
			s.GenMatch = model.I(g)
			conditioned = true
		case 2:
			s.GenMatch = model.I(g + int64(1-2*(p%2)))
			conditioned = true
		}
		code /= 3
		spec.Srcs = append(spec.Srcs, s)
	}
	if msg := e.compose(spec); msg != "" {
		fail(msg)
		return
	}
	if msg := e.verify(); msg != "" {
		fail("after the compose: " + msg)
		return
	}
	run.Case(common.Hash64("src", fmt.Sprint(idx)), conditioned)
	if idx == 77 {
		run.Sample(map[string]any{"store": srv.Kind, "destination": dstState, "steps": tailSteps(e.steps, 1)})
	}
}

func c04History(run *common.Run, idx int) {
	store := drive.Stores[idx%2]
	r := run.Rand("C04.hist", idx)
	srv, err := drive.Start(store, "")
	if err != nil {
		run.Violation("hist", idx, "cannot start emulator: "+err.Error(), nil)
		return
	}
	defer srv.Close()
	e := newExec(srv, true)
	defer e.flush(run)
	fail := func(what string) {
		run.Violation("hist", idx, what, map[string]any{"store": store, "steps": tailSteps(e.steps, 40), "steps_total": len(e.steps)})
	}
	o := &progOpts{Buckets: []string{"vb1"}, Names: []string{"t", "u", "dir/v", "w.txt"}, FileRules: store == "file", CondPct: 75, JunkPct: 6, MD5Pct: 10, NoGzip: true, ExtraPct: 50, GzipObjPct: 8, MidPct: 45,
		W: map[string]int{"upload": 20, "overwrite": 25, "delete": 14, "delete_absent": 5, "patch": 14, "patch_full": 12, "patch_bad": 8, "patch_absent": 4, "compose": 10, "noop": 1, "reads": 2, "decoy": 6, "sibling": 3, "compose_chain": 6}}
	if msg := e.createBucket("vb1"); msg != "" {
		fail(msg)
		return
	}
	e.universe["vb1"] = append([]string{"decoy"}, o.Names...)
	if msg := e.verify(); msg != "" {
		fail("initial dump: " + msg)
		return
	}
	for s, n := 0, r.Range(30, 60); s < n; s++ {
		if msg := runStep(r, e, o); msg != "" {
			fail(msg)
			return
		}
		if msg := e.verify(); msg != "" {
			fail(fmt.Sprintf("after step %d: %s", len(e.steps)-1, msg))
			return
		}
	}
	run.Case(common.Hash64("hist", store, stepsHash(e.steps)), e.stats["precondition_failures"] > 0 && e.stats["conditioned_passes"] > 0)
	if idx < 2 {
		run.Sample(map[string]any{"store": store, "history_case": idx, "steps": tailSteps(e.steps, 6)})
	}
}

package main

import (
	"encoding/json"
	"fmt"
	"sort"
	"strconv"
	"strings"

	"verif/common"
	"verif/gcs/drive"
	"verif/gcs/model"
)

var (
	long200 = strings.Repeat("long-name-0123456789/", 9) + "tail-padding-xx" // 204 bytes, components <= 255
	// hostileNames is the C02 name universe (DESIGN 5/C02).
	hostileNames = []string{"a", "a/b", "a/b/c", "a b", "ä/ü.txt", "x%2Fy", "a+b", "dir/.hidden", "a..b", "q?x", "h#x", long200,
		// names that differ from a neighbour only by a suffix an implementation might use for its own temporary / backup / lock files
		"a.tmp", "a/b.tmp", "a~", "a.bak", "a.lock", "a/b.part", ".a.swp"}
	// verbNames contain the API's own verbs; generated unless the routing finding is open.
	verbNames = []string{"docker/compose.yaml", "x/rewriteTo/y"}

	contentTypes = []string{"text/plain", "application/octet-stream", "image/png", "text/plain; charset=utf-8", "application/x-verif+json"}
)

const kfVerbRouting = "KF10" // resumable POST chunk for a name containing /compose or /rewriteTo/ is misrouted

func genBoundary(r *common.Rand) string {
	return fmt.Sprintf("verif_bnd_%08x", r.Uint64()&0xffffffff)
}

// genPayload draws a payload: empty, 1 byte, text, binary, multipart-boundary look-alikes, multi-chunk, (rarely) 1 MiB.
func genPayload(r *common.Rand, boundary string, bigPerMille int) []byte {
	if r.Intn(1000) < bigPerMille {
		return r.Bytes(1 << 20)
	}
	switch x := r.Intn(100); {
	case x < 10:
		return []byte{}
	case x < 20:
		return []byte{byte(r.Intn(256))}
	case x < 40:
		return []byte(fmt.Sprintf("text payload %d\nline two\r\n", r.Intn(1000000)))
	case x < 65:
		return r.Bytes(r.Range(2, 2000))
	case x < 82:
		// look-alikes of the multipart delimiter that a correct parser must not take for one
		near := boundary[:len(boundary)-1] + "X"
		pieces := []string{"\r\n--" + near, "\r\n--", "\r\n--" + boundary[:len(boundary)-3], "\n--" + near + "--", "--" + near + "--\r\n", "\r\n\r\n", "Content-Type: text/evil\r\n\r\n"}
		s := "lead"
		for i, n := 0, r.Range(1, 5); i < n; i++ {
			s += common.Pick(r, pieces) + string(r.Bytes(r.Intn(6)))
		}
		return []byte(s)
	default:
		return r.Bytes(r.Range(5000, 70000))
	}
}

func genUserMeta(r *common.Rand) map[string]string {
	m := map[string]string{}
	for i, n := 0, r.Range(1, 2); i < n; i++ {
		m[common.Pick(r, []string{"k", "colour", "x-y"})] = common.Pick(r, []string{"v", "blue", "ü", ""})
	}
	return m
}

func genPatchFields(r *common.Rand) map[string]any {
	f := map[string]any{}
	for i, n := 0, r.Range(1, 3); i < n; i++ {
		switch r.Intn(5) {
		case 0:
			f["contentType"] = common.Pick(r, contentTypes)
		case 1:
			f["cacheControl"] = common.Pick(r, []string{"no-cache", "public, max-age=60"})
		case 2:
			f["contentDisposition"] = common.Pick(r, []string{"inline", `attachment; filename="x.txt"`})
		case 3:
			f["contentLanguage"] = common.Pick(r, []string{"en", "de"})
		case 4:
			f["metadata"] = map[string]any{common.Pick(r, []string{"k", "colour", "p"}): common.Pick(r, []string{"v", "red", "patched"})}
		}
	}
	return f
}

// genExtra draws nested resource fields for the metadata of a multipart / resumable upload.
func genExtra(r *common.Rand) map[string]any {
	x := map[string]any{}
	who := common.Pick(r, []string{"user-a@example.com", "user-b@example.com"})
	if r.Chance(3, 4) {
		acl := []any{map[string]any{"entity": who, "role": "OWNER"}}
		if r.Bool() {
			acl = append(acl, map[string]any{"entity": "group-readers@example.com", "role": "READER"})
		}
		x["acl"] = acl
	}
	if r.Chance(2, 3) {
		x["owner"] = map[string]any{"entity": who}
	}
	if r.Chance(1, 3) {
		x["retention"] = map[string]any{"mode": "Unlocked", "retainUntilTime": "2031-01-02T03:04:05Z"}
	}
	if r.Chance(1, 3) {
		x["customerEncryption"] = map[string]any{"encryptionAlgorithm": "AES256", "keySha256": "dmVyaWYtdmVyaWYtdmVyaWYtdmVyaWYtdmVyaWYtdmU="}
	}
	return x
}

// genNestedPatch draws nested fields (values that no upload ever sets) for the body of a PATCH that must fail.
func genNestedPatch(r *common.Rand) map[string]any {
	all := map[string]any{
		"acl":                []any{map[string]any{"entity": "user-evil@example.com", "role": "OWNER"}, map[string]any{"entity": "allUsers", "role": "READER"}},
		"owner":              map[string]any{"entity": "user-evil@example.com", "entityId": "666"},
		"retention":          map[string]any{"mode": "Locked", "retainUntilTime": "2099-12-31T23:59:59Z"},
		"customerEncryption": map[string]any{"encryptionAlgorithm": "AES256", "keySha256": "ZXZpbC1ldmlsLWV2aWwtZXZpbC1ldmlsLWV2aWwtZXY="},
	}
	out := map[string]any{}
	for _, k := range nestedFields {
		if r.Chance(3, 5) {
			out[k] = all[k]
		}
	}
	if len(out) == 0 {
		out["acl"] = all["acl"]
	}
	return out
}

// genBadPatch draws a PATCH body with one member of the wrong JSON type placed after at least one valid member.
// nested: the valid members may include nested fields (the request has to be refused as a whole, so nothing of them
// may stick either).
func genBadPatch(r *common.Rand, nested bool) *badPatch {
	bads := [][2]string{{"contentType", "7"}, {"contentLanguage", `["en"]`}, {"cacheControl", `{"a":1}`}, {"contentDisposition", "true"},
		{"metadata", "17"}, {"metadata", `"text"`}, {"acl", `"private"`}, {"owner", "5"}, {"size", `"many"`}, {"generation", `"newest"`}, {"metageneration", "[]"}}
	bad := common.Pick(r, bads)
	bp := &badPatch{Valid: map[string]any{}, BadKey: bad[0]}
	for tries := 0; len(bp.Valid) == 0 || tries < 1; tries++ {
		for k, v := range genPatchFields(r) {
			if k != bad[0] {
				bp.Valid[k] = v
			}
		}
		if bad[0] != "metadata" && r.Chance(2, 3) {
			bp.Valid["metadata"] = map[string]any{common.Pick(r, []string{"k", "colour", "leak"}): common.Pick(r, []string{"unacknowledged", "v2", ""})}
		}
	}
	if nested {
		for k, v := range genNestedPatch(r) {
			if k != bad[0] {
				bp.Valid[k] = v
			}
		}
	}
	keys := make([]string, 0, len(bp.Valid))
	for k := range bp.Valid {
		keys = append(keys, k)
	}
	sort.Strings(keys)
	common.Shuffle(r, keys)
	at := r.Range(1, len(keys)) // the member of the wrong type follows at least one valid member
	var members []string
	for i, k := range keys {
		if i == at {
			members = append(members, fmt.Sprintf("%q:%s", bad[0], bad[1]))
		}
		v, _ := json.Marshal(bp.Valid[k])
		members = append(members, fmt.Sprintf("%q:%s", k, v))
	}
	if at == len(keys) {
		members = append(members, fmt.Sprintf("%q:%s", bad[0], bad[1]))
	}
	bp.Raw = "{" + strings.Join(members, ",") + "}"
	return bp
}

// genCopyBody builds the request body of a copy: a destination object resource as a read-modify-write client would
// send it. Its output-only fields come from an earlier metadata GET of the destination or of the source (current or
// stale, also of an earlier incarnation) or are made up (a generation below / above the destination's current one);
// its user-settable fields are exactly the source's, so "the source's metadata" and "the metadata of the request"
// name the same values.
func genCopyBody(r *common.Rand, e *exec, sb, sn, db, dn string) map[string]any {
	var body map[string]any
	pick := func(b, n string) map[string]any {
		if sn := e.snaps[b+"\x00"+n]; len(sn) > 0 {
			return cloneResource(sn[r.Intn(len(sn))])
		}
		return nil
	}
	switch r.Intn(4) {
	case 0, 1:
		body = pick(db, dn)
	case 2:
		body = pick(sb, sn)
	}
	if body == nil {
		body = map[string]any{"kind": "storage#object", "metageneration": "7", "size": "3", "md5Hash": model.MD5b64([]byte("fabricated")),
			"crc32c": "AAAAAA==", "etag": "fabricated", "timeCreated": "2001-02-03T04:05:06.789Z", "updated": "2001-02-03T04:05:06.789Z"}
		body["generation"] = strconv.FormatInt(1600000000000000000+int64(r.Intn(1000)), 10)
	}
	if dst := e.m.Get(db, dn); dst != nil && r.Chance(1, 3) {
		body["generation"] = strconv.FormatInt(dst.Gen+common.Pick(r, []int64{-1, -1000, 1, 1000, 3600e9}), 10)
	}
	for _, k := range model.UserFields {
		delete(body, k)
	}
	for _, k := range nestedFields {
		delete(body, k)
	}
	if src := e.m.Get(sb, sn); src != nil {
		for k, v := range model.CloneFields(src.Learned) {
			body[k] = v
		}
	}
	body["name"], body["bucket"] = dn, db
	return body
}

// progOpts steers the random program generator shared by C02, C04 (histories), C09 and C10.
type progOpts struct {
	Buckets     []string
	Names       []string // candidate object names (same set in every bucket)
	FileRules   bool     // only target names representable as files next to the live names
	W           map[string]int
	CondPct     int // % of mutating requests that carry conditions
	JunkPct     int // % of conditioned requests with one unparsable value
	MD5Pct      int // % of multipart/resumable uploads that declare an MD5
	BigPerMille int
	NoGzip      bool
	// WirePct: % of uploads whose request bodies are streamed (no Content-Length, chunked transfer); with it set,
	// resumable uploads take part in the gzip draw too (start request and every chunk compressed in transit).
	WirePct     int
	ExtraPct    int // % of multipart/resumable uploads whose metadata carries nested fields (acl, owner, ...)
	CopyBodyPct int // % of copies whose request body is a full destination resource
	// GzipObjPct: % of uploads whose payload is itself a gzip stream; three in four of those sent by multipart / resumable
	// declare contentEncoding gzip in their metadata (the others, and media uploads, can get it by a later PATCH).
	GzipObjPct int
	// MidPct: % of resumable uploads that are sent in at least two chunk requests with 1-2 OTHER requests on the same
	// object (overwrite by another upload, patch, delete, re-creation; conditioned or not) executed between two of the
	// session's chunks. The upload's own conditions were drawn against the object as it was when the session was opened;
	// the oracle judges them against the object as it is when the upload is committed.
	MidPct int
}

func (e *exec) liveIn(b string) []string { return e.m.Names(b) }

// pickTarget picks a name to write; under file rules only a representable one. ok=false: none available.
func pickTarget(r *common.Rand, e *exec, o *progOpts, b string) (string, bool) {
	cands := append([]string(nil), o.Names...)
	common.Shuffle(r, cands)
	for _, n := range cands {
		if !o.FileRules || representable(n, e.liveIn(b)) {
			return n, true
		}
	}
	return "", false
}

// genConds draws conditions that refer to generations learned earlier in the same history.
func genConds(r *common.Rand, e *exec, o *progOpts, b, n string) model.Conds {
	var c model.Conds
	if !r.Chance(o.CondPct, 100) {
		return c
	}
	cur := e.m.Get(b, n)
	gens := e.laws.Seen(b, n)
	other := int64(0)
	for _, nn := range e.liveIn(b) {
		if nn != n {
			other = e.m.Get(b, nn).Gen
		}
	}
	genVal := func() int64 {
		var v int64
		switch r.Intn(5) {
		case 0, 1:
			if cur != nil {
				v = cur.Gen
			} else if len(gens) > 0 {
				v = gens[len(gens)-1]
			}
		case 2:
			if len(gens) > 0 {
				v = gens[r.Intn(len(gens))]
			}
		case 3:
			v = other
		case 4:
			if cur != nil {
				v = cur.Gen + int64(r.Intn(3)) - 1
			}
		}
		if v == 0 {
			v = 1700000000000000000 + int64(r.Intn(1000))
		}
		return v
	}
	metaVal := func() int64 {
		v := int64(r.Range(1, 3))
		if cur != nil && r.Chance(2, 3) {
			v = cur.Metagen + int64(r.Intn(3)) - 1
		}
		if v <= 0 {
			v = 2
		}
		return v
	}
	for i := 0; i < 4; i++ {
		if !r.Chance(2, 5) {
			continue
		}
		switch i {
		case 0:
			if r.Chance(1, 3) {
				c.GM = model.I(0)
			} else {
				c.GM = model.I(genVal())
			}
		case 1:
			c.GNM = model.I(genVal())
		case 2:
			c.MM = model.I(metaVal())
		case 3:
			c.MNM = model.I(metaVal())
		}
	}
	if r.Chance(o.JunkPct, 100) {
		j := model.S(common.Pick(r, junkValues))
		switch r.Intn(4) {
		case 0:
			c.GM = j
		case 1:
			c.GNM = j
		case 2:
			c.MM = j
		case 3:
			c.MNM = j
		}
	}
	return c
}

var junkValues = []string{"abc", "1x", "0x10", "1.5", "-", "99999999999999999999"}

func genUpload(r *common.Rand, o *progOpts, b, n string) *uploadSpec {
	u := &uploadSpec{Bucket: b, Name: n, Boundary: genBoundary(r)}
	u.Proto = common.Pick(r, []string{"media", "multipart", "resumable"})
	u.Body = genPayload(r, u.Boundary, o.BigPerMille)
	if r.Chance(85, 100) {
		u.CT = common.Pick(r, contentTypes)
	}
	u.CTMode = common.Pick(r, []string{"both", "both", "both", "meta", "part"})
	if u.Proto != "media" {
		if r.Chance(30, 100) {
			u.UserMeta = genUserMeta(r)
		}
		if r.Chance(o.MD5Pct, 100) {
			u.MD5 = common.Pick(r, []string{"right", "right", "wrong", "wrong", "malformed"})
		}
		if r.Chance(o.ExtraPct, 100) {
			u.Extra = genExtra(r)
		}
	}
	if o.GzipObjPct > 0 && r.Chance(o.GzipObjPct, 100) {
		// the object's own bytes are a gzip stream (of a small or a multi-kilobyte text / binary payload)
		plain := genPayload(r, u.Boundary, 0)
		if r.Bool() {
			plain = []byte(strings.Repeat(fmt.Sprintf("compressible line %d\n", r.Intn(1000)), r.Range(1, 400)))
		}
		u.Body = drive.Gzip(plain)
		// (not with a deliberately wrong MD5: the bytes that would match it - which a retry may send - are no gzip stream)
		if u.Proto != "media" && u.MD5 != "wrong" && r.Chance(3, 4) {
			u.ContentEncoding = "gzip"
		}
	}
	if (u.Proto != "resumable" || o.WirePct > 0) && !o.NoGzip && r.Chance(20, 100) {
		u.Gzip = true
	}
	if o.WirePct > 0 && r.Chance(o.WirePct, 100) {
		u.Streamed = true
	}
	if u.Proto == "resumable" {
		u.Post = r.Chance(30, 100)
		u.UseLocation = r.Bool()
		u.KnownTotal = r.Bool()
		u.Hostile = r.Bool()
		u.ChunkMax = common.Pick(r, []int{1, 7, 256, 4096, 65536, len(u.Body) + 1})
		if floor := len(u.Body)/25 + 1; u.ChunkMax < floor {
			u.ChunkMax = floor
		}
	}
	return u
}

// runStep draws one step from the weighted kinds, executes it and returns what it refuted ("" if nothing).
func runStep(r *common.Rand, e *exec, o *progOpts) string {
	if len(e.queue) > 0 {
		// the next request of a scenario that an earlier step started
		f := e.queue[0]
		e.queue = e.queue[1:]
		return f(r)
	}
	total := 0
	kinds := []string{"upload", "overwrite", "delete", "delete_absent", "patch", "patch_absent", "compose", "copy", "burst", "patch_burst", "patch_full", "patch_bad", "bucket_cycle", "noop", "reads", "decoy", "dirs", "big_same", "sibling", "compose_chain"}
	for _, k := range kinds {
		total += o.W[k]
	}
	x := r.Intn(total)
	kind := ""
	for _, k := range kinds {
		if x < o.W[k] {
			kind = k
			break
		}
		x -= o.W[k]
	}
	b := common.Pick(r, o.Buckets)
	live := e.liveIn(b)
	pickLive := func() (string, bool) {
		if len(live) == 0 {
			return "", false
		}
		return common.Pick(r, live), true
	}
	pickAbsent := func() (string, bool) {
		cands := append([]string(nil), o.Names...)
		common.Shuffle(r, cands)
		for _, n := range cands {
			if e.m.Get(b, n) == nil && (!o.FileRules || representable(n, live)) {
				return n, true
			}
		}
		return "", false
	}
	// mustFail: the request is refused whatever its body says (object absent, or the conditions fail / are unparsable)
	mustFail := func(n string, c model.Conds) bool {
		cur := e.m.Get(b, n)
		return cur == nil || model.Eval(cur, c) != model.Pass
	}
	// a PATCH may declare (or withdraw) the gzip encoding of an object whose bytes are a gzip stream
	withEncoding := func(n string, fields map[string]any) map[string]any {
		if cur := e.m.Get(b, n); cur != nil && r.Chance(1, 2) {
			if _, isGz := drive.Gunzip(cur.Content); isGz {
				fields["contentEncoding"] = common.Pick(r, []string{"gzip", "gzip", "identity"})
			}
		}
		return fields
	}
	// failing PATCH requests also try to set nested fields (acl entries, owner, ...): nothing of it may stick
	withNested := func(n string, c model.Conds, fields map[string]any) map[string]any {
		if mustFail(n, c) && r.Chance(2, 3) {
			for k, v := range genNestedPatch(r) {
				fields[k] = v
			}
		}
		return fields
	}
	switch kind {
	case "bucket_cycle":
		return e.cycleBucket(b)
	case "upload", "overwrite":
		var n string
		var ok bool
		if kind == "overwrite" {
			n, ok = pickLive()
		}
		if !ok {
			n, ok = pickTarget(r, e, o, b)
		}
		if !ok {
			return ""
		}
		u := genUpload(r, o, b, n)
		u.Conds = genConds(r, e, o, b, n)
		if u.Proto == "resumable" && r.Chance(o.MidPct, 100) {
			attachMid(r, e, o, u)
		}
		return e.upload(u, r)
	case "dirs":
		return dirsStep(r, e, o, b)
	case "big_same":
		return bigSameStep(r, e, o, b)
	case "sibling":
		return siblingStep(r, e, o, b)
	case "compose_chain":
		return composeChainStep(r, e, o, b)
	case "burst":
		n, ok := pickTarget(r, e, o, b)
		if !ok {
			return ""
		}
		for i, k := 0, r.Range(3, 6); i < k; i++ {
			u := genUpload(r, o, b, n)
			u.Proto = common.Pick(r, []string{"media", "media", "multipart"})
			u.Body = []byte(fmt.Sprintf("burst %d", i))
			u.Gzip, u.MD5, u.ContentEncoding = false, "", ""
			if msg := e.upload(u, r); msg != "" {
				return msg
			}
			if r.Chance(1, 3) {
				if msg := e.patch(b, n, genPatchFields(r), model.Conds{}); msg != "" {
					return msg
				}
			}
		}
		return ""
	case "patch_full":
		// read-modify-write client: sends back a full resource it got from an earlier metadata GET (current or
		// stale, possibly of an earlier incarnation of the name), optionally with user fields changed
		n, ok := pickLive()
		if !ok {
			return ""
		}
		// whose resource: mostly the addressed object's own; two times in five that of ANOTHER object (a client
		// copying metadata from one object onto another): a live neighbour in the same bucket, an object of another
		// bucket, or a name that does not exist. name / bucket / id / selfLink / mediaLink of the body then differ
		// from the URL; only the addressed object may change.
		rb, rn, ghost := b, n, ""
		if r.Chance(2, 5) {
			type ref struct{ b, n string }
			var others []ref
			for _, ob := range o.Buckets {
				for _, on := range e.liveIn(ob) {
					if ob != b || on != n {
						others = append(others, ref{ob, on})
					}
				}
			}
			switch x := r.Intn(5); {
			case x == 0:
				if g, ok := pickAbsent(); ok {
					ghost = g
				} else {
					ghost = "no-such-object"
				}
			case len(others) > 0:
				// prefer the same bucket three times in four
				pick := common.Pick(r, others)
				for tries := 0; tries < 3 && pick.b != b && r.Chance(3, 4); tries++ {
					pick = common.Pick(r, others)
				}
				rb, rn = pick.b, pick.n
			}
		}
		snaps := e.snaps[rb+"\x00"+rn]
		if len(snaps) == 0 {
			e.snapshot(rb, rn)
			snaps = e.snaps[rb+"\x00"+rn]
		}
		if len(snaps) == 0 {
			return ""
		}
		body := cloneResource(snaps[r.Intn(len(snaps))])
		if ghost != "" {
			// the resource of an object that does not exist (any more): same shape, every identifying field renamed
			for _, k := range []string{"id", "selfLink", "mediaLink"} {
				if v, ok := body[k].(string); ok {
					body[k] = strings.Replace(v, "/"+rn, "/"+ghost, 1)
				}
			}
			body["name"] = ghost
		}
		if r.Chance(2, 3) {
			for k, v := range genPatchFields(r) {
				if k == "metadata" {
					mm, _ := body[k].(map[string]any)
					if mm == nil {
						mm = map[string]any{}
					}
					for a, x := range v.(map[string]any) {
						mm[a] = x
					}
					body[k] = mm
				} else {
					body[k] = v
				}
			}
		}
		c := genConds(r, e, o, b, n)
		if !mustFail(n, c) {
			// a patch that succeeds sets only what the model describes
			for _, k := range nestedFields {
				delete(body, k)
			}
			// ... and declares the gzip encoding (another object's resource may carry it) only for bytes that are gzip
			if _, isGz := drive.Gunzip(e.m.Get(b, n).Content); !isGz {
				delete(body, "contentEncoding")
			}
		}
		return e.patch(b, n, withNested(n, c, body), c)
	case "patch_bad":
		// a body with a JSON type error after valid members: refused as a whole, nothing may stick
		n, ok := pickLive()
		if !ok || r.Chance(1, 10) {
			if n, ok = pickAbsent(); !ok {
				return ""
			}
		}
		c := genConds(r, e, o, b, n)
		return e.patchBad(b, n, genBadPatch(r, mustFail(n, c) || r.Bool()), c)
	case "patch_burst":
		n, ok := pickLive()
		if !ok {
			return ""
		}
		for i, k := 0, r.Range(2, 5); i < k; i++ {
			if msg := e.patch(b, n, genPatchFields(r), model.Conds{}); msg != "" {
				return msg
			}
		}
		return ""
	case "delete":
		n, ok := pickLive()
		if !ok {
			return ""
		}
		return e.del(b, n, genConds(r, e, o, b, n))
	case "delete_absent":
		n, ok := pickAbsent()
		if !ok {
			return ""
		}
		return e.del(b, n, genConds(r, e, o, b, n))
	case "patch":
		n, ok := pickLive()
		if !ok {
			return ""
		}
		c := genConds(r, e, o, b, n)
		return e.patch(b, n, withNested(n, c, withEncoding(n, genPatchFields(r))), c)
	case "patch_absent":
		n, ok := pickAbsent()
		if !ok {
			return ""
		}
		c := genConds(r, e, o, b, n)
		return e.patch(b, n, withNested(n, c, genPatchFields(r)), c)
	case "compose":
		dst, ok := pickTarget(r, e, o, b)
		if !ok || len(live) == 0 {
			return ""
		}
		c := &composeSpec{Bucket: b, Dst: dst, Conds: genConds(r, e, o, b, dst)}
		for i, k := 0, r.Range(1, 4); i < k; i++ {
			s := composeSrc{Name: common.Pick(r, live)}
			if r.Chance(1, 4) {
				g := e.m.Get(b, s.Name).Gen
				if r.Chance(1, 3) {
					g++
				}
				s.GenMatch = model.I(g)
			}
			c.Srcs = append(c.Srcs, s)
		}
		if r.Chance(1, 4) {
			// the append pattern: a live destination that is the first of its own sources
			c.Dst = common.Pick(r, live)
			c.Conds = genConds(r, e, o, b, c.Dst)
			c.Srcs = append([]composeSrc{{Name: c.Dst}}, c.Srcs...)
		}
		if r.Chance(1, 8) {
			if n, ok := pickAbsent(); ok {
				c.Srcs[r.Intn(len(c.Srcs))].Name = n
			}
		}
		if r.Chance(2, 3) {
			c.CT = common.Pick(r, contentTypes)
		}
		if r.Chance(1, 3) {
			c.UserMeta = genUserMeta(r)
		}
		return e.compose(c)
	case "copy":
		db := common.Pick(r, o.Buckets)
		var dn string
		var ok bool
		{
			cands := append([]string(nil), o.Names...)
			common.Shuffle(r, cands)
			for _, n := range cands {
				if !o.FileRules || representable(n, e.liveIn(db)) {
					dn, ok = n, true
					break
				}
			}
		}
		if !ok {
			return ""
		}
		sn, ok := pickLive()
		if !ok || r.Chance(1, 8) {
			if sn, ok = pickAbsent(); !ok {
				return ""
			}
		}
		if r.Chance(o.CopyBodyPct, 100) {
			// read-modify-write client: mostly onto an object that exists (whose resource it read earlier)
			if dl := e.liveIn(db); len(dl) > 0 && r.Chance(2, 3) {
				dn = common.Pick(r, dl)
			}
			return e.copyObjBody(b, sn, db, dn, genCopyBody(r, e, b, sn, db, dn))
		}
		return e.copyObj(b, sn, db, dn)
	case "reads":
		n, ok := pickLive()
		if ok && r.Chance(2, 3) {
			// prefer an object stored with contentEncoding gzip
			var gz []string
			for _, l := range live {
				if gzipEncoded(e.m.Get(b, l)) {
					gz = append(gz, l)
				}
			}
			if len(gz) > 0 {
				n = common.Pick(r, gz)
			}
		}
		if !ok || r.Chance(1, 10) {
			if n, ok = pickAbsent(); !ok {
				return ""
			}
		}
		return e.reads(r, b, n)
	case "decoy":
		return decoyStep(r, e, o, b)
	}
	// noop: only the dump, which is made of reads - it must equal the previous one
	e.mustSame, e.readOnly = true, true
	return ""
}

func hasVerb(name string) bool {
	return strings.Contains(name, "/compose") || strings.Contains(name, "/rewriteTo/")
}

// decoyStep addresses a request to a name under which nothing is stored: a "/"-separated prefix of a stored name with or
// without a trailing slash ("reports/2024", "reports/" while "reports/2024/q1.bin" exists), a stored name continued by
// a slash, or one of the never-written decoy names of the dump universe. The request is a delete (mostly), a patch, a
// patch with a type error, a copy from that name or a compose that lists it as a source; none of them may be
// acknowledged and the whole store - in particular everything stored below the prefix - must stay as it was.
func decoyStep(r *common.Rand, e *exec, o *progOpts, b string) string {
	type cand struct {
		name   string
		folder bool
	}
	var cands []cand
	seen := map[string]bool{}
	add := func(n string) {
		if n == "" || seen[n] || e.m.Get(b, n) != nil || len(e.laws.Seen(b, n)) > 0 {
			return
		}
		seen[n] = true
		cands = append(cands, cand{n, e.folderOf(b, n)})
	}
	live := e.liveIn(b)
	for _, l := range live {
		for i := 0; i < len(l); i++ {
			if l[i] == '/' && i > 0 && l[i-1] != '/' {
				add(l[:i])
				add(l[:i+1])
			}
		}
		if !strings.HasSuffix(l, "/") {
			add(l + "/")
		}
	}
	nFolder := len(cands)
	for _, n := range e.universe[b] {
		add(n)
	}
	if len(cands) == 0 {
		return ""
	}
	c := common.Pick(r, cands)
	if nFolder > 0 && r.Chance(2, 3) {
		c = cands[r.Intn(nFolder)] // prefixes of stored names and stored names continued by "/"
	}
	inUniverse := false
	for _, n := range e.universe[b] {
		inUniverse = inUniverse || n == c.name
	}
	if !inUniverse {
		// every later dump reads the name as well; the dump right now is the baseline the next one is compared with
		e.universe[b] = append(e.universe[b], c.name)
		if msg := e.verify(); msg != "" {
			return fmt.Sprintf("dump that first reads the never-stored name %q: %s", c.name, msg)
		}
	}
	e.stats["decoy_steps"]++
	if c.folder {
		e.stats["decoy_steps_on_folder_prefix_names"]++
		if strings.HasSuffix(c.name, "/") {
			e.stats["decoy_steps_on_folder_prefix_names_with_trailing_slash"]++
		}
	} else if strings.HasSuffix(c.name, "/") {
		e.stats["decoy_steps_on_stored_name_plus_slash"]++
	}
	conds := genConds(r, e, o, b, c.name)
	switch x := r.Intn(10); {
	case x < 6:
		if c.folder {
			return e.delFolder(b, c.name, conds)
		}
		return e.del(b, c.name, conds)
	case x < 8:
		fields := genPatchFields(r)
		if r.Chance(2, 3) {
			for k, v := range genNestedPatch(r) {
				fields[k] = v
			}
		}
		return e.patch(b, c.name, fields, conds)
	case x == 8:
		return e.patchBad(b, c.name, genBadPatch(r, true), conds)
	}
	// as the source of a copy / among the sources of a compose onto a destination that may exist
	dn, ok := pickTarget(r, e, o, b)
	if !ok {
		return e.delFolder(b, c.name, model.Conds{})
	}
	if len(live) == 0 || r.Bool() {
		return e.copyObj(b, c.name, b, dn)
	}
	spec := &composeSpec{Bucket: b, Dst: dn, CT: common.Pick(r, contentTypes)}
	for i, k := 0, r.Range(1, 3); i < k; i++ {
		spec.Srcs = append(spec.Srcs, composeSrc{Name: common.Pick(r, live)})
	}
	spec.Srcs[r.Intn(len(spec.Srcs))].Name = c.name
	return e.compose(spec)
}

// attachMid makes a resumable upload a session of at least two data chunks with other requests on the same object
// between two of its chunks: the object is overwritten by another upload, patched, deleted or created while the session
// is open and partly sent. Every one of those requests is checked like any other and followed by a whole-store dump (a
// half-sent session must not show anywhere).
func attachMid(r *common.Rand, e *exec, o *progOpts, u *uploadSpec) {
	if len(u.Body) < 2 {
		if u.ContentEncoding != "" {
			return
		}
		u.Body = r.Bytes(r.Range(2, 3000))
	}
	if half := len(u.Body) / 2; u.ChunkMax > half {
		u.ChunkMax = half
	}
	if floor := len(u.Body)/25 + 1; u.ChunkMax < floor {
		u.ChunkMax = floor // (at most ~25 chunk requests; never more than half of the body)
	}
	u.MidAfter = 1
	if r.Chance(1, 4) {
		u.MidAfter = 2
	}
	b, n := u.Bucket, u.Name
	u.Mid = func() string {
		for i, k := 0, r.Range(1, 2); i < k; i++ {
			cur := e.m.Get(b, n)
			var c model.Conds
			if r.Chance(1, 4) {
				c = genConds(r, e, o, b, n)
			}
			msg := ""
			switch x := r.Intn(10); {
			case cur == nil || x < 4:
				// created / overwritten by another client's upload
				w := genUpload(r, o, b, n)
				w.Proto = common.Pick(r, []string{"media", "multipart"})
				if w.Proto == "media" {
					w.MD5, w.UserMeta, w.Extra, w.ContentEncoding = "", nil, nil, "" // a media upload sends no metadata
				}
				w.Conds = c
				msg = e.upload(w, r)
				e.stats["mid_session_uploads"]++
			case x < 7:
				msg = e.patch(b, n, genPatchFields(r), c)
				e.stats["mid_session_patches"]++
			default:
				msg = e.del(b, n, c)
				e.stats["mid_session_deletes"]++
			}
			if msg == "" {
				msg = e.verify()
			}
			if msg != "" {
				return msg
			}
		}
		return ""
	}
}

// dirsStep starts the "emptied directories" scenario. Object names are flat strings; a store that keeps "a/b/c" as a
// file below directories must not let those directories outlive the object: once the last object below "a" is gone,
// "a" and "a/b" are ordinary absent names again - they can be uploaded, be the destination of a copy or a compose, and
// a DELETE of them is a 404 like that of any other absent name. The scenario takes a name at least two levels deep,
// stores it if need be, deletes it and then addresses one request to each of its ancestors' names (outermost first,
// two times in three); every request is a step of its own, followed by the caller's dump and comparisons.
func dirsStep(r *common.Rand, e *exec, o *progOpts, b string) string {
	live := e.liveIn(b)
	var deep []string
	for _, n := range o.Names {
		if strings.Count(n, "/") >= 2 && !strings.HasSuffix(n, "/") && !strings.Contains(n, "//") && (e.m.Get(b, n) != nil || !o.FileRules || representable(n, live)) {
			deep = append(deep, n)
		}
	}
	if len(deep) == 0 {
		e.mustSame, e.readOnly = true, true
		return ""
	}
	n := common.Pick(r, deep)
	var ancestors []string
	for i := 0; i < len(n); i++ {
		if n[i] == '/' && i > 0 {
			ancestors = append(ancestors, n[:i])
		}
	}
	if r.Chance(1, 3) {
		for i, j := 0, len(ancestors)-1; i < j; i, j = i+1, j-1 {
			ancestors[i], ancestors[j] = ancestors[j], ancestors[i]
		}
	}
	// every later dump reads the ancestors' names as well
	added := false
	for _, a := range ancestors {
		if !contains(e.universe[b], a) {
			e.universe[b] = append(e.universe[b], a)
			added = true
		}
	}
	if added {
		if msg := e.verify(); msg != "" {
			return fmt.Sprintf("dump that first reads the names %q: %s", ancestors, msg)
		}
	}
	e.stats["dir_scenarios"]++
	del := func(r *common.Rand) string {
		if e.m.Get(b, n) == nil {
			e.mustSame, e.readOnly = true, true
			return ""
		}
		e.stats["dir_scenarios_deep_object_deleted"]++
		return e.del(b, n, model.Conds{})
	}
	e.queue = append(e.queue, del)
	for _, a := range ancestors {
		a := a
		e.queue = append(e.queue, func(r *common.Rand) string {
			now := e.liveIn(b)
			if e.m.Get(b, a) == nil && e.folderOf(b, a) {
				// something is (still) stored below the name
				e.stats["dir_scenarios_ancestor_still_a_prefix"]++
				return e.delFolder(b, a, model.Conds{})
			}
			if e.m.Get(b, a) == nil && o.FileRules && !representable(a, now) {
				return e.reads(r, b, a)
			}
			if e.m.Get(b, a) == nil {
				e.stats["dir_scenarios_requests_on_emptied_ancestor_names"]++
			}
			switch x := r.Intn(10); {
			case x < 3:
				u := genUpload(r, o, b, a)
				return e.upload(u, r)
			case x < 5 && len(now) > 0:
				return e.copyObj(b, common.Pick(r, now), b, a)
			case x < 7 && len(now) > 0:
				spec := &composeSpec{Bucket: b, Dst: a, CT: common.Pick(r, contentTypes)}
				for i, k := 0, r.Range(1, 3); i < k; i++ {
					spec.Srcs = append(spec.Srcs, composeSrc{Name: common.Pick(r, now)})
				}
				return e.compose(spec)
			case x < 9:
				return e.del(b, a, model.Conds{})
			}
			return e.reads(r, b, a)
		})
	}
	if e.m.Get(b, n) == nil {
		u := genUpload(r, o, b, n)
		u.MD5 = ""
		return e.upload(u, r)
	}
	f := e.queue[0]
	e.queue = e.queue[1:]
	return f(r)
}

// bigSizes are the sizes of the large payloads of the "same bytes again" scenario.
var bigSizes = []int{1 << 20, 1<<20 + 17}

// bigSameStep starts the "same bytes again" scenario (at most once per program): an object of 1 MiB (+17) is written,
// then written AGAIN with byte-identical content through the other upload protocols, copied onto itself, overwritten by
// a copy of a twin that holds the same bytes, and patched and uploaded once more. Each of these is a successful content
// write: new generation, metageneration 1, content as sent - a store must not treat "nothing changed" as "nothing to
// do". Finally the large objects are deleted, so that the rest of the program stays cheap. One request per step.
func bigSameStep(r *common.Rand, e *exec, o *progOpts, b string) string {
	if e.stats["big_same_scenarios"]+e.bigDone > 0 {
		e.mustSame, e.readOnly = true, true
		return ""
	}
	n, ok := pickTarget(r, e, o, b)
	if !ok {
		e.mustSame, e.readOnly = true, true
		return ""
	}
	e.bigDone++
	e.stats["big_same_scenarios"]++
	pay := r.Bytes(common.Pick(r, bigSizes))
	protos := []string{"media", "multipart", "resumable"}
	common.Shuffle(r, protos)
	up := func(name, proto string) func(r *common.Rand) string {
		return func(r *common.Rand) string {
			if e.m.Get(b, name) == nil && o.FileRules && !representable(name, e.liveIn(b)) {
				e.mustSame, e.readOnly = true, true
				return ""
			}
			u := genUpload(r, o, b, name)
			u.Proto, u.Body, u.Gzip, u.ContentEncoding, u.Conds = proto, pay, false, "", model.Conds{}
			u.MD5 = common.Pick(r, []string{"", "right"})
			if proto == "media" {
				u.MD5, u.UserMeta, u.Extra = "", nil, nil
			}
			u.ChunkMax = common.Pick(r, []int{64 << 10, 256 << 10, 1 << 20, len(pay) + 1})
			if cur := e.m.Get(b, name); cur != nil && string(cur.Content) == string(pay) {
				e.stats["big_same_bytes_written_again_by_"+proto]++
			}
			return e.upload(u, r)
		}
	}
	cp := func(from, to string) func(r *common.Rand) string {
		return func(r *common.Rand) string {
			src, dst := e.m.Get(b, from), e.m.Get(b, to)
			if src != nil && dst != nil && string(src.Content) == string(dst.Content) && len(dst.Content) >= 1<<20 {
				if from == to {
					e.stats["big_same_bytes_copied_onto_itself"]++
				} else {
					e.stats["big_same_bytes_copied_from_twin"]++
				}
			}
			return e.copyObj(b, from, b, to)
		}
	}
	var twin string
	for _, c := range o.Names {
		if c != n && e.m.Get(b, c) == nil && (!o.FileRules || representable(c, append(e.liveIn(b), n))) && (!o.FileRules || representable(n, []string{c})) {
			twin = c
			break
		}
	}
	var mids [][]func(r *common.Rand) string
	mids = append(mids, []func(r *common.Rand) string{up(n, protos[2])})
	mids = append(mids, []func(r *common.Rand) string{cp(n, n)})
	if twin != "" {
		mids = append(mids, []func(r *common.Rand) string{up(twin, common.Pick(r, protos)), cp(twin, n)})
	}
	mids = append(mids, []func(r *common.Rand) string{
		func(r *common.Rand) string { return e.patch(b, n, genPatchFields(r), model.Conds{}) },
		up(n, common.Pick(r, protos))})
	common.Shuffle(r, mids)
	e.queue = append(e.queue, up(n, protos[1]))
	for _, m := range mids[:r.Range(2, len(mids))] {
		e.queue = append(e.queue, m...)
	}
	for _, name := range []string{n, twin} {
		name := name
		if name == "" {
			continue
		}
		e.queue = append(e.queue, func(r *common.Rand) string {
			if e.m.Get(b, name) == nil {
				e.mustSame, e.readOnly = true, true
				return ""
			}
			return e.del(b, name, model.Conds{})
		})
	}
	return up(n, protos[0])(r)
}

// siblingSuffixes: what an implementation might append to an object's name for files of its own next to the object's -
// temporaries, sidecars, backups, locks. A name continued by one of them is an object name like any other.
var siblingSuffixes = []string{".tmp", ".tmp", ".meta", "~", ".part", ".bak", ".lock", ".new", ".old", ".swp", ".tmp.tmp", "-tmp", ".emumeta.tmp", ".json", ".emumeta"}

// scratchBaseNames: base names a store implementation might use for a per-directory scratch, lock or journal file.
var scratchBaseNames = []string{".tmp", ".tmp", ".swp", ".lock", ".part", ".new", ".bak", ".meta", ".emumeta", "tmp", ".tmp.tmp", ".~"}

// siblingName derives from name the name of a sibling: name + suffix, or (one time in eight) a hidden file next to it
// (".<base>.swp", "#<base>#" in the same "directory").
func siblingName(r *common.Rand, name string) string {
	if r.Chance(1, 6) {
		// a dot-name of its own in the same "directory": what a store might call a scratch / lock file it keeps per
		// directory (".tmp" next to "dir/g": an object like any other, with metadata of its own)
		dir := ""
		if i := strings.LastIndex(name, "/"); i >= 0 {
			dir = name[:i+1]
		}
		return dir + common.Pick(r, scratchBaseNames)
	}
	if r.Chance(1, 8) {
		dir, base := "", name
		if i := strings.LastIndex(name, "/"); i >= 0 {
			dir, base = name[:i+1], name[i+1:]
		}
		if r.Bool() {
			return dir + "." + base + ".swp"
		}
		return dir + "#" + base + "#"
	}
	return name + common.Pick(r, siblingSuffixes)
}

// richUpload draws a multipart / resumable upload that succeeds and carries non-default metadata: a content type, user
// metadata, most of the time nested fields (acl entries, owner, ...), sometimes a declared (right) MD5.
func richUpload(r *common.Rand, o *progOpts, b, n string) *uploadSpec {
	u := genUpload(r, o, b, n)
	for tries := 0; u.Proto == "media" && tries < 50; tries++ {
		u = genUpload(r, o, b, n)
	}
	if u.Proto == "media" {
		u.Proto, u.Gzip = "multipart", false
	}
	u.CT, u.CTMode = common.Pick(r, contentTypes), "both"
	u.UserMeta = genUserMeta(r)
	u.UserMeta["of"] = n
	if r.Chance(3, 4) {
		u.Extra = genExtra(r)
	}
	u.MD5 = common.Pick(r, []string{"", "right"})
	u.Conds = model.Conds{}
	return u
}

// siblingStep starts the "sibling names" scenario: two objects whose names extend one another by a suffix that a store
// implementation might use for its own temporary / sidecar / backup / lock files (X and X.tmp, X.meta, X~, X.part, X.bak,
// X.lock, .X.swp ...; one time in six a dot-name of its own in X's directory: .tmp, .swp, .lock ...; under file rules only names the file store can hold). Both are given non-default metadata (content
// type, user metadata, acl / owner ..., most of the time a patch on top: metageneration > 1); then 3-6 requests - overwrite
// by any protocol, patch, copy onto it (also from the sibling: "upload to name.tmp, then rewrite to name"), compose onto
// it, delete and re-creation - are addressed to one of the two, one request per step. The caller's dump after every
// request compares BOTH objects (content, content type, user metadata, MD5, generation, metageneration) with the model
// and, after a refused request, with the dump before it.
func siblingStep(r *common.Rand, e *exec, o *progOpts, b string) string {
	skip := func() string {
		e.mustSame, e.readOnly = true, true
		return ""
	}
	live := e.liveIn(b)
	var x string
	ok := false
	if len(live) > 0 && r.Chance(2, 3) {
		x, ok = common.Pick(r, live), true
	}
	if !ok {
		if x, ok = pickTarget(r, e, o, b); !ok {
			return skip()
		}
	}
	if strings.HasSuffix(x, "/") || len(x) > 900 {
		return skip()
	}
	y := ""
	for tries := 0; tries < 12 && y == ""; tries++ {
		c := siblingName(r, x)
		if c == x || hasVerb(c) || (o.FileRules && (!representable(c, append(append([]string(nil), live...), x)) || !representable(x, append(append([]string(nil), live...), c)))) {
			continue
		}
		y = c
	}
	if y == "" {
		return skip()
	}
	added := false
	for _, n := range []string{x, y} {
		if !contains(e.universe[b], n) {
			e.universe[b] = append(e.universe[b], n)
			added = true
		}
	}
	if added {
		if msg := e.verify(); msg != "" {
			return fmt.Sprintf("dump that first reads the name %q: %s", y, msg)
		}
	}
	e.stats["sibling_scenarios"]++
	if strings.HasPrefix(y, x) {
		e.stats["sibling_scenarios_suffix "+strings.TrimPrefix(y, x)]++
	} else if base := y[strings.LastIndex(y, "/")+1:]; contains(scratchBaseNames, base) {
		e.stats["sibling_scenarios_scratch_name_in_the_same_directory "+base]++
	} else {
		e.stats["sibling_scenarios_hidden_file_form"]++
	}
	// both get non-default metadata
	var first []func(r *common.Rand) string
	for _, n := range []string{x, y} {
		n := n
		if e.m.Get(b, n) == nil || r.Chance(1, 3) {
			first = append(first, func(r *common.Rand) string { return e.upload(richUpload(r, o, b, n), r) })
		}
		if r.Chance(2, 3) {
			first = append(first, func(r *common.Rand) string {
				if e.m.Get(b, n) == nil {
					return skip()
				}
				return e.patch(b, n, genPatchFields(r), model.Conds{})
			})
		}
	}
	// then requests addressed to one of them while the other one is there
	for i, k := 0, r.Range(3, 6); i < k; i++ {
		e.queue = append(e.queue, func(r *common.Rand) string {
			t, other := x, y
			if r.Chance(1, 3) {
				t, other = y, x
			}
			if oo := e.m.Get(b, other); oo != nil {
				e.stats["sibling_requests_next_to_a_live_sibling"]++
				if len(oo.Learned) > 1 || oo.Metagen > 1 {
					e.stats["sibling_requests_next_to_a_live_sibling_with_metadata"]++
				}
			}
			now := e.liveIn(b)
			cur := e.m.Get(b, t)
			if cur == nil && o.FileRules && !representable(t, now) {
				return e.reads(r, b, t)
			}
			var c model.Conds
			if r.Chance(1, 5) {
				c = genConds(r, e, o, b, t)
			}
			switch z := r.Intn(12); {
			case cur == nil || z < 3:
				u := genUpload(r, o, b, t)
				u.Conds = c
				return e.upload(u, r)
			case z < 6:
				return e.patch(b, t, genPatchFields(r), c)
			case z < 8:
				// "upload to name.tmp, then rewrite to name" - or a copy from any other live object
				src := other
				if e.m.Get(b, other) == nil || r.Chance(1, 3) {
					src = common.Pick(r, now)
				}
				return e.copyObj(b, src, b, t)
			case z < 10:
				spec := &composeSpec{Bucket: b, Dst: t, CT: common.Pick(r, contentTypes), Conds: c}
				for i, k := 0, r.Range(1, 3); i < k; i++ {
					spec.Srcs = append(spec.Srcs, composeSrc{Name: common.Pick(r, now)})
				}
				if r.Bool() {
					spec.UserMeta = genUserMeta(r)
				}
				return e.compose(spec)
			case z == 10:
				return e.del(b, t, c)
			}
			return e.reads(r, b, t)
		})
	}
	e.queue = append(first, e.queue...)
	f := e.queue[0]
	e.queue = e.queue[1:]
	return f(r)
}

// composeChainStep starts the "shared head" scenario: several composes whose source lists begin with the same object and
// continue differently, some of them refused. A small head object A and two or three tail objects of other lengths are
// stored if need be (bodies uploaded by a drawn protocol); then, one request per step: compose D1 = [A, T1] (accepted), a
// compose with sources [A, T2 ...] that must be REFUSED - failing or unparsable destination condition, a per-source
// ifGenerationMatch that fails on a later source, a missing later source - addressed to D1, to another name, to A or to a
// tail; another accepted compose D2 = [A, T2], another refused one with yet another tail. The caller's dump after every
// request compares the content of every object with the model and, after a refused request, with the dump before it.
func composeChainStep(r *common.Rand, e *exec, o *progOpts, b string) string {
	skip := func() string {
		e.mustSame, e.readOnly = true, true
		return ""
	}
	// head and tails: live objects of moderate size, else names that can be written now
	var names []string
	for _, n := range e.liveIn(b) {
		if l := len(e.m.Get(b, n).Content); l > 0 && l <= 4096 && !strings.HasSuffix(n, "/") {
			names = append(names, n)
		}
	}
	common.Shuffle(r, names)
	if len(names) > 3 {
		names = names[:3]
	}
	cands := append([]string(nil), o.Names...)
	common.Shuffle(r, cands)
	planned := append([]string(nil), e.liveIn(b)...)
	var fresh []string
	for _, n := range cands {
		if len(names)+len(fresh) >= 3 {
			break
		}
		if e.m.Get(b, n) == nil && !contains(fresh, n) && !strings.HasSuffix(n, "/") && (!o.FileRules || representable(n, planned)) {
			fresh = append(fresh, n)
			planned = append(planned, n)
		}
	}
	all := append(names, fresh...)
	if len(all) < 3 {
		return skip()
	}
	common.Shuffle(r, all)
	head, tails := all[0], all[1:]
	var dsts []string
	for i := 1; i <= 3; i++ {
		d := fmt.Sprintf("%s.cat%d", head, i)
		if !o.FileRules || representable(d, planned) {
			dsts = append(dsts, d)
		}
	}
	if len(dsts) < 2 {
		return skip()
	}
	added := false
	for _, n := range dsts {
		if !contains(e.universe[b], n) {
			e.universe[b] = append(e.universe[b], n)
			added = true
		}
	}
	if added {
		if msg := e.verify(); msg != "" {
			return fmt.Sprintf("dump that first reads the names %q: %s", dsts, msg)
		}
	}
	e.stats["compose_chain_scenarios"]++
	var q []func(r *common.Rand) string
	for _, n := range fresh {
		n := n
		q = append(q, func(r *common.Rand) string {
			if e.m.Get(b, n) != nil || (o.FileRules && !representable(n, e.liveIn(b))) {
				return skip()
			}
			u := genUpload(r, o, b, n)
			u.Body = r.Bytes(r.Range(1, 300))
			u.ContentEncoding, u.Conds, u.Gzip = "", model.Conds{}, false
			if u.MD5 != "" {
				u.MD5 = "right"
			}
			if floor := len(u.Body)/25 + 1; u.ChunkMax < floor {
				u.ChunkMax = floor
			}
			return e.upload(u, r)
		})
	}
	srcs := func(r *common.Rand, first string) []composeSrc {
		out := []composeSrc{{Name: head}, {Name: first}}
		for i, k := 0, r.Intn(3); i < k; i++ {
			out = append(out, composeSrc{Name: common.Pick(r, tails)})
		}
		return out
	}
	accepted := func(dst, tail string) func(r *common.Rand) string {
		return func(r *common.Rand) string {
			if cur := e.m.Get(b, dst); cur == nil && o.FileRules && !representable(dst, e.liveIn(b)) {
				return skip()
			}
			spec := &composeSpec{Bucket: b, Dst: dst, Srcs: srcs(r, tail), CT: common.Pick(r, contentTypes)}
			if cur := e.m.Get(b, dst); cur != nil && r.Bool() {
				spec.Conds.GM = model.I(cur.Gen)
			} else if cur == nil && r.Bool() {
				spec.Conds.GM = model.I(0)
			}
			before := e.stats["composes_ok"]
			msg := e.compose(spec)
			if e.stats["composes_ok"] > before {
				e.stats["compose_chain_accepted_composes"]++
			}
			return msg
		}
	}
	refused := func(tail string) func(r *common.Rand) string {
		return func(r *common.Rand) string {
			dst := common.Pick(r, append(append([]string{head}, dsts...), tails...))
			if r.Bool() {
				dst = dsts[0]
			}
			cur := e.m.Get(b, dst)
			if cur == nil && o.FileRules && !representable(dst, e.liveIn(b)) {
				return skip()
			}
			spec := &composeSpec{Bucket: b, Dst: dst, Srcs: srcs(r, tail), CT: common.Pick(r, contentTypes)}
			other := int64(1700000000000000000)
			if h := e.m.Get(b, head); h != nil {
				other = h.Gen
			}
			how := r.Intn(8)
			switch {
			case how == 0 && cur != nil:
				spec.Conds.GM = model.I(0)
			case how == 1 && cur != nil:
				spec.Conds.GNM = model.I(cur.Gen)
			case how == 2 && cur != nil:
				spec.Conds.MM = model.I(cur.Metagen + 1)
			case how == 3:
				spec.Conds.GM = model.S(common.Pick(r, junkValues))
			case how == 4 || how == 5:
				// a later source's generation condition fails
				i := r.Range(1, len(spec.Srcs)-1)
				g := int64(1700000000000000001)
				if so := e.m.Get(b, spec.Srcs[i].Name); so != nil {
					g = so.Gen + common.Pick(r, []int64{-1, 1})
				}
				spec.Srcs[i].GenMatch = model.I(g)
			case how == 6:
				spec.Srcs = append(spec.Srcs, composeSrc{Name: "missing-" + head})
			default:
				if cur != nil && cur.Gen != other {
					spec.Conds.GM = model.I(other)
				} else if cur != nil {
					spec.Conds.GM = model.I(cur.Gen + 1)
				} else {
					spec.Conds.GM = model.I(other)
				}
			}
			before := e.stats["compose_failures_expected"]
			msg := e.compose(spec)
			if e.stats["compose_failures_expected"] > before {
				e.stats["compose_chain_refused_composes"]++
				for _, d := range dsts {
					if d != dst && e.m.Get(b, d) != nil {
						e.stats["compose_chain_refused_composes_while_an_earlier_result_with_the_same_head_is_live"]++
						break
					}
				}
			}
			return msg
		}
	}
	t := func(i int) string { return tails[i%len(tails)] }
	q = append(q, accepted(dsts[0], t(0)), refused(t(1)), accepted(dsts[1], t(1)), refused(t(0)))
	if len(dsts) > 2 && r.Bool() {
		q = append(q, accepted(dsts[2], t(0)), refused(t(1)))
	}
	e.queue = append(q[1:], e.queue...)
	return q[0](r)
}

package main

import (
	"fmt"
	"strings"

	"verif/common"
	"verif/gcs/model"
)

var (
	long200 = strings.Repeat("long-name-0123456789/", 9) + "tail-padding-xx" // 204 bytes, components <= 255
	// hostileNames is the C02 name universe (DESIGN 5/C02).
	hostileNames = []string{"a", "a/b", "a/b/c", "a b", "ä/ü.txt", "x%2Fy", "a+b", "dir/.hidden", "a..b", "q?x", "h#x", long200,
		// names that differ from a neighbour only by a suffix an implementation might use for its own temporary / backup / lock files
		"a.tmp", "a/b.tmp", "a~", "a.bak", "a.lock", "a/b.part", ".a.swp"}
	// verbNames contain the API's own verbs; generated unless the routing finding is open.
	verbNames = []string{"docker/compose.yaml", "x/rewriteTo/y"}

	contentTypes = []string{"text/plain", "application/octet-stream", "image/png", "text/plain; charset=utf-8", "application/x-verif+json"}
)

const kfVerbRouting = "KF10" // resumable POST chunk for a name containing /compose or /rewriteTo/ is misrouted

func genBoundary(r *common.Rand) string {
	return fmt.Sprintf("verif_bnd_%08x", r.Uint64()&0xffffffff)
}

// genPayload draws a payload: empty, 1 byte, text, binary, multipart-boundary look-alikes, multi-chunk, (rarely) 1 MiB.
func genPayload(r *common.Rand, boundary string, bigPerMille int) []byte {
	if r.Intn(1000) < bigPerMille {
		return r.Bytes(1 << 20)
	}
	switch x := r.Intn(100); {
	case x < 10:
		return []byte{}
	case x < 20:
		return []byte{byte(r.Intn(256))}
	case x < 40:
		return []byte(fmt.Sprintf("text payload %d\nline two\r\n", r.Intn(1000000)))
	case x < 65:
		return r.Bytes(r.Range(2, 2000))
	case x < 82:
		// look-alikes of the multipart delimiter that a correct parser must not take for one
		near := boundary[:len(boundary)-1] + "X"
		pieces := []string{"\r\n--" + near, "\r\n--", "\r\n--" + boundary[:len(boundary)-3], "\n--" + near + "--", "--" + near + "--\r\n", "\r\n\r\n", "Content-Type: text/evil\r\n\r\n"}
		s := "lead"
		for i, n := 0, r.Range(1, 5); i < n; i++ {
			s += common.Pick(r, pieces) + string(r.Bytes(r.Intn(6)))
		}
		return []byte(s)
	default:
		return r.Bytes(r.Range(5000, 70000))
	}
}

func genUserMeta(r *common.Rand) map[string]string {
	m := map[string]string{}
	for i, n := 0, r.Range(1, 2); i < n; i++ {
		m[common.Pick(r, []string{"k", "colour", "x-y"})] = common.Pick(r, []string{"v", "blue", "ü", ""})
	}
	return m
}

func genPatchFields(r *common.Rand) map[string]any {
	f := map[string]any{}
	for i, n := 0, r.Range(1, 3); i < n; i++ {
		switch r.Intn(5) {
		case 0:
			f["contentType"] = common.Pick(r, contentTypes)
		case 1:
			f["cacheControl"] = common.Pick(r, []string{"no-cache", "public, max-age=60"})
		case 2:
			f["contentDisposition"] = common.Pick(r, []string{"inline", `attachment; filename="x.txt"`})
		case 3:
			f["contentLanguage"] = common.Pick(r, []string{"en", "de"})
		case 4:
			f["metadata"] = map[string]any{common.Pick(r, []string{"k", "colour", "p"}): common.Pick(r, []string{"v", "red", "patched"})}
		}
	}
	return f
}

// progOpts steers the random program generator shared by C02, C04 (histories), C09 and C10.
type progOpts struct {
	Buckets     []string
	Names       []string // candidate object names (same set in every bucket)
	FileRules   bool     // only target names representable as files next to the live names
	W           map[string]int
	CondPct     int // % of mutating requests that carry conditions
	JunkPct     int // % of conditioned requests with one unparsable value
	MD5Pct      int // % of multipart/resumable uploads that declare an MD5
	BigPerMille int
	NoGzip      bool
}

func (e *exec) liveIn(b string) []string { return e.m.Names(b) }

// pickTarget picks a name to write; under file rules only a representable one. ok=false: none available.
func pickTarget(r *common.Rand, e *exec, o *progOpts, b string) (string, bool) {
	cands := append([]string(nil), o.Names...)
	common.Shuffle(r, cands)
	for _, n := range cands {
		if !o.FileRules || representable(n, e.liveIn(b)) {
			return n, true
		}
	}
	return "", false
}

// genConds draws conditions that refer to generations learned earlier in the same history.
func genConds(r *common.Rand, e *exec, o *progOpts, b, n string) model.Conds {
	var c model.Conds
	if !r.Chance(o.CondPct, 100) {
		return c
	}
	cur := e.m.Get(b, n)
	gens := e.laws.Seen(b, n)
	other := int64(0)
	for _, nn := range e.liveIn(b) {
		if nn != n {
			other = e.m.Get(b, nn).Gen
		}
	}
	genVal := func() int64 {
		var v int64
		switch r.Intn(5) {
		case 0, 1:
			if cur != nil {
				v = cur.Gen
			} else if len(gens) > 0 {
				v = gens[len(gens)-1]
			}
		case 2:
			if len(gens) > 0 {
				v = gens[r.Intn(len(gens))]
			}
		case 3:
			v = other
		case 4:
			if cur != nil {
				v = cur.Gen + int64(r.Intn(3)) - 1
			}
		}
		if v == 0 {
			v = 1700000000000000000 + int64(r.Intn(1000))
		}
		return v
	}
	metaVal := func() int64 {
		v := int64(r.Range(1, 3))
		if cur != nil && r.Chance(2, 3) {
			v = cur.Metagen + int64(r.Intn(3)) - 1
		}
		if v <= 0 {
			v = 2
		}
		return v
	}
	for i := 0; i < 4; i++ {
		if !r.Chance(2, 5) {
			continue
		}
		switch i {
		case 0:
			if r.Chance(1, 3) {
				c.GM = model.I(0)
			} else {
				c.GM = model.I(genVal())
			}
		case 1:
			c.GNM = model.I(genVal())
		case 2:
			c.MM = model.I(metaVal())
		case 3:
			c.MNM = model.I(metaVal())
		}
	}
	if r.Chance(o.JunkPct, 100) {
		j := model.S(common.Pick(r, junkValues))
		switch r.Intn(4) {
		case 0:
			c.GM = j
		case 1:
			c.GNM = j
		case 2:
			c.MM = j
		case 3:
			c.MNM = j
		}
	}
	return c
}

var junkValues = []string{"abc", "1x", "0x10", "1.5", "-", "99999999999999999999"}

func genUpload(r *common.Rand, o *progOpts, b, n string) *uploadSpec {
	u := &uploadSpec{Bucket: b, Name: n, Boundary: genBoundary(r)}
	u.Proto = common.Pick(r, []string{"media", "multipart", "resumable"})
	u.Body = genPayload(r, u.Boundary, o.BigPerMille)
	if r.Chance(85, 100) {
		u.CT = common.Pick(r, contentTypes)
	}
	u.CTMode = common.Pick(r, []string{"both", "both", "both", "meta", "part"})
	if u.Proto != "media" {
		if r.Chance(30, 100) {
			u.UserMeta = genUserMeta(r)
		}
		if r.Chance(o.MD5Pct, 100) {
			u.MD5 = common.Pick(r, []string{"right", "right", "wrong", "wrong", "malformed"})
		}
	}
	if u.Proto != "resumable" && !o.NoGzip && r.Chance(20, 100) {
		u.Gzip = true
	}
	if u.Proto == "resumable" {
		u.Post = r.Chance(30, 100)
		u.UseLocation = r.Bool()
		u.KnownTotal = r.Bool()
		u.Hostile = r.Bool()
		u.ChunkMax = common.Pick(r, []int{1, 7, 256, 4096, 65536, len(u.Body) + 1})
		if floor := len(u.Body)/25 + 1; u.ChunkMax < floor {
			u.ChunkMax = floor
		}
	}
	return u
}

// runStep draws one step from the weighted kinds, executes it and returns what it refuted ("" if nothing).
func runStep(r *common.Rand, e *exec, o *progOpts) string {
	total := 0
	kinds := []string{"upload", "overwrite", "delete", "delete_absent", "patch", "patch_absent", "compose", "copy", "burst", "patch_burst", "patch_full", "bucket_cycle", "noop"}
	for _, k := range kinds {
		total += o.W[k]
	}
	x := r.Intn(total)
	kind := ""
	for _, k := range kinds {
		if x < o.W[k] {
			kind = k
			break
		}
		x -= o.W[k]
	}
	b := common.Pick(r, o.Buckets)
	live := e.liveIn(b)
	pickLive := func() (string, bool) {
		if len(live) == 0 {
			return "", false
		}
		return common.Pick(r, live), true
	}
	pickAbsent := func() (string, bool) {
		cands := append([]string(nil), o.Names...)
		common.Shuffle(r, cands)
		for _, n := range cands {
			if e.m.Get(b, n) == nil && (!o.FileRules || representable(n, live)) {
				return n, true
			}
		}
		return "", false
	}
	switch kind {
	case "bucket_cycle":
		return e.cycleBucket(b)
	case "upload", "overwrite":
		var n string
		var ok bool
		if kind == "overwrite" {
			n, ok = pickLive()
		}
		if !ok {
			n, ok = pickTarget(r, e, o, b)
		}
		if !ok {
			return ""
		}
		u := genUpload(r, o, b, n)
		u.Conds = genConds(r, e, o, b, n)
		return e.upload(u, r)
	case "burst":
		n, ok := pickTarget(r, e, o, b)
		if !ok {
			return ""
		}
		for i, k := 0, r.Range(3, 6); i < k; i++ {
			u := genUpload(r, o, b, n)
			u.Proto = common.Pick(r, []string{"media", "media", "multipart"})
			u.Body = []byte(fmt.Sprintf("burst %d", i))
			u.Gzip, u.MD5 = false, ""
			if msg := e.upload(u, r); msg != "" {
				return msg
			}
			if r.Chance(1, 3) {
				if msg := e.patch(b, n, genPatchFields(r), model.Conds{}); msg != "" {
					return msg
				}
			}
		}
		return ""
	case "patch_full":
		// read-modify-write client: sends back a full resource it got from an earlier metadata GET (current or
		// stale, possibly of an earlier incarnation of the name), optionally with user fields changed
		n, ok := pickLive()
		if !ok {
			return ""
		}
		snaps := e.snaps[b+"\x00"+n]
		if len(snaps) == 0 {
			e.snapshot(b, n)
			snaps = e.snaps[b+"\x00"+n]
		}
		if len(snaps) == 0 {
			return ""
		}
		body := cloneResource(snaps[r.Intn(len(snaps))])
		if r.Chance(2, 3) {
			for k, v := range genPatchFields(r) {
				if k == "metadata" {
					mm, _ := body[k].(map[string]any)
					if mm == nil {
						mm = map[string]any{}
					}
					for a, x := range v.(map[string]any) {
						mm[a] = x
					}
					body[k] = mm
				} else {
					body[k] = v
				}
			}
		}
		return e.patch(b, n, body, genConds(r, e, o, b, n))
	case "patch_burst":
		n, ok := pickLive()
		if !ok {
			return ""
		}
		for i, k := 0, r.Range(2, 5); i < k; i++ {
			if msg := e.patch(b, n, genPatchFields(r), model.Conds{}); msg != "" {
				return msg
			}
		}
		return ""
	case "delete":
		n, ok := pickLive()
		if !ok {
			return ""
		}
		return e.del(b, n, genConds(r, e, o, b, n))
	case "delete_absent":
		n, ok := pickAbsent()
		if !ok {
			return ""
		}
		return e.del(b, n, genConds(r, e, o, b, n))
	case "patch":
		n, ok := pickLive()
		if !ok {
			return ""
		}
		return e.patch(b, n, genPatchFields(r), genConds(r, e, o, b, n))
	case "patch_absent":
		n, ok := pickAbsent()
		if !ok {
			return ""
		}
		return e.patch(b, n, genPatchFields(r), genConds(r, e, o, b, n))
	case "compose":
		dst, ok := pickTarget(r, e, o, b)
		if !ok || len(live) == 0 {
			return ""
		}
		c := &composeSpec{Bucket: b, Dst: dst, Conds: genConds(r, e, o, b, dst)}
		for i, k := 0, r.Range(1, 4); i < k; i++ {
			s := composeSrc{Name: common.Pick(r, live)}
			if r.Chance(1, 4) {
				g := e.m.Get(b, s.Name).Gen
				if r.Chance(1, 3) {
					g++
				}
				s.GenMatch = model.I(g)
			}
			c.Srcs = append(c.Srcs, s)
		}
		if r.Chance(1, 8) {
			if n, ok := pickAbsent(); ok {
				c.Srcs[r.Intn(len(c.Srcs))].Name = n
			}
		}
		if r.Chance(2, 3) {
			c.CT = common.Pick(r, contentTypes)
		}
		if r.Chance(1, 3) {
			c.UserMeta = genUserMeta(r)
		}
		return e.compose(c)
	case "copy":
		db := common.Pick(r, o.Buckets)
		var dn string
		var ok bool
		{
			cands := append([]string(nil), o.Names...)
			common.Shuffle(r, cands)
			for _, n := range cands {
				if !o.FileRules || representable(n, e.liveIn(db)) {
					dn, ok = n, true
					break
				}
			}
		}
		if !ok {
			return ""
		}
		sn, ok := pickLive()
		if !ok || r.Chance(1, 8) {
			if sn, ok = pickAbsent(); !ok {
				return ""
			}
		}
		return e.copyObj(b, sn, db, dn)
	}
	return "" // noop: only the dump
}

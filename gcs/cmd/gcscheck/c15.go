package main

import (
	"fmt"
	"strings"

	"verif/common"
	"verif/gcs/drive"
	"verif/gcs/model"
)

func init() { register("C15", "exploration", runC15) }

var (
	c15SrcNames = []string{"s1", "s2", "dir/s3", "s 4", "s.5", "empty"}
	// names that contain the API's own verbs (the client percent-encodes object names, so the URLs are unambiguous)
	c15VerbNames = []string{"docker/compose.yaml", "a/compose", "x/rewriteTo/b/y/o/z", "compose"}
	c15DstNames  = []string{"out", "dir/out.bin", "a b c", "x..y", ".dot", "dir.d/sub dir/o", "ä/ö", "deep/er/est/out"}
	c15CopyNames = []string{"copy", "dir/copy", "x/o/y", "o/o/o", "a/o/b/o/c", "a b", "a..b", "ü/ñ.txt", "p/o", "weird/o/.x y"}
	// parts of different sizes that the append scenario adds to an object and to its copy
	c15ChunkNames = []string{"chunk-s", "chunk-m", "chunk-l"}
	// twin names that differ only in '+' versus space: both exist side by side (with different contents) in half of
	// the cases, as sources and as destination candidates. A '+' is sent literally in the request path (as
	// url.PathEscape leaves it) or as %2B, by case.
	c15PlusSrcPairs = [][2]string{{"q1+q2", "q1 q2"}, {"dir/p+q", "dir/p q"}, {"a+b/c+d", "a b/c d"}, {"1+1=2", "1 1=2"}}
	c15PlusDstPairs = [][2]string{{"out+put", "out put"}, {"dir+d/sub+dir/o", "dir d/sub dir/o"}, {"x/o/y+z", "x/o/y z"}, {"c++", "c  "}}
)

// C15: compose concatenates its sources in order; copy clones an object.
func runC15(run *common.Run) {
	run.Rule = "case = one program in ONE pair of fresh buckets: 2-5 source objects (one empty, some with rich metadata), a baseline dump, then 3-8 compose / copy requests that re-use the same sources (the same leading source over and over), take earlier composed or copied objects as later sources and write destinations that are among the sources, with a whole-store dump after EVERY request (so an earlier object changing under a later request is seen). One case in three (plus a random fifth) contains the append scenario at a random position: a live object X is copied to Y (same bucket, one in four across buckets; half of these copies with a full resource as request body), then X = compose[X, parts] and Y = compose[Y, other parts] are issued 1-3 rounds in either order without any upload in between, the parts being three objects of 1-8, 30-200 and 600-5000 bytes; dump after every request. One case in three (plus a random sixth) contains the same-size scenario: a destination D = compose[a, b(, c)] is written again, while it exists and is itself a composite object, with content of exactly the same length but other bytes - 1-3 rounds of: the same sources in another order; one source overwritten by an upload of other bytes of the same length, then the same list again; a second composite D2 = the sources in yet another order, then D2 copied over D or D over D2 (one copy in three with a resource body). Independently one step in six (when an earlier compose of 2-6 sources succeeded) repeats that compose onto its destination with the sources shuffled. One source in ten is stored with contentEncoding gzip (real gzip bytes) so that copies must carry the encoding along; every media GET of every dump is sent with or without 'Accept-Encoding: gzip'. Compose: 0..33 sources (boundary counts 0,1,2,31,32,33 over-weighted) drawn with repeats from the pool, destination among the sources, a missing source at a random position, per-source generation conditions, destination names with '/', spaces, dots, unicode, '+' (half of the cases hold twin names that differ only in '+' versus space, with different contents, among the sources and the destination candidates of compose and copy; the '+' travels literally in the request path or as %2B, by case), pre-existing destination, destination contentType / user metadata. Copy: same and cross bucket, one in three with a request body that is a full destination resource (stale / made-up output-only fields, the source's user-settable fields), destination names containing '/', '/o/', spaces, dots, unicode, missing source, overwrite of an existing destination. Oracle: destination content == concatenation in request order, destination metadata from the request, every source byte-, metadata-, generation- and metageneration-identical to before, >32 => 400, missing => 404 and nothing changed, copy response carries the resource with totalBytesRewritten == objectSize == len(content) and the source's content, MD5 and user-settable metadata. Non-trivial = the program had >= 2 successful requests, a successful compose of >= 2 sources and a step that used an earlier result as a source; distinct by hash of the step log x store."
	run.Assumptions = []string{
		"0 sources: a 4xx (nothing changed) or an empty object are both accepted (the statement says 1 to 32)",
		"a composite object need not carry an md5Hash",
		"when several failure reasons apply (e.g. 33 sources one of which is missing) any of their statuses is accepted",
		"a copy onto the source itself must keep content, MD5 and user-settable metadata and gives the object a new generation",
		"file store: only names representable as files",
		"zero-valued byte counts / sizes may be omitted from JSON",
		"an object stored with contentEncoding gzip is served as stored to a client that sends 'Accept-Encoding: gzip'; without that header the stored bytes or their decompressed form are accepted",
		"a request that gets no answer within the client watchdog (20 s for PATCH / DELETE / compose / rewrite, 60 s otherwise) is reported as 'request not answered within <d>: <request>', the case is abandoned and its server not used again; after 3 such reports the run stops (a copy of an object onto itself, a compose whose destination is among its sources etc. must be answered like any other)",
	}
	j := common.NewJournal("C15")
	n := run.N(1500, 40000)
	W := workers()
	if !run.WantSub("case") {
		return
	}
	common.Parallel(W, W, func(w int) {
		srvs := srvPool{}
		defer srvs.closeAll()
		for idx := w; idx < n; idx += W {
			if !run.Want("case", idx) {
				continue
			}
			if tooMany(run) {
				return
			}
			store := drive.Stores[idx%2]
			srv, err := srvs.get(store) // (a server on which a request went unanswered is replaced)
			if err != nil {
				run.Violation("case", idx, "cannot start emulator: "+err.Error(), nil)
				return
			}
			j.Begin(w, fmt.Sprintf("C15 case=%d store=%s seed=%d", idx, store, run.Seed))
			c15Case(run, srv, idx)
			j.End(w)
		}
	})
}

func c15Case(run *common.Run, srv *drive.Server, idx int) {
	r := run.Rand("C15.case", idx)
	e := newExec(srv, true)
	defer e.flush(run)
	file := srv.Kind == "file"
	b1, b2 := fmt.Sprintf("k%d-a", idx), fmt.Sprintf("k%d-b", idx)
	fail := func(what string) {
		run.Violation("case", idx, what, map[string]any{"store": srv.Kind, "steps": e.steps})
	}
	for _, b := range []string{b1, b2} {
		if msg := e.createBucket(b); msg != "" {
			fail(msg)
			return
		}
	}
	// source pool in b1
	pool := append([]string(nil), c15SrcNames[:5]...)
	common.Shuffle(r, pool)
	pool = append(pool[:r.Range(1, 4)], "empty")
	for _, n := range pool {
		body := r.Bytes(r.Range(1, 300))
		if n == "empty" {
			body = []byte{}
		}
		u := &uploadSpec{Proto: common.Pick(r, []string{"media", "multipart"}), Bucket: b1, Name: n, Body: body, CT: common.Pick(r, contentTypes), CTMode: "both", Boundary: genBoundary(r)}
		if u.Proto == "multipart" && r.Bool() {
			u.UserMeta = genUserMeta(r)
		}
		if u.Proto == "multipart" && n != "empty" && r.Chance(1, 5) {
			// a source stored with contentEncoding gzip (its bytes are a gzip stream): copies must carry the encoding along
			u.Body, u.ContentEncoding = drive.Gzip(body), "gzip"
		}
		if msg := e.upload(u, r); msg != "" {
			fail("set-up: " + msg)
			return
		}
		if r.Chance(1, 3) {
			if msg := e.patch(b1, n, genPatchFields(r), model.Conds{}); msg != "" {
				fail("set-up: " + msg)
				return
			}
		}
	}
	plusCase := (idx/2)%2 == 0
	if plusCase {
		// (uploaded after the other sources; each twin gets its own random content)
		srv.Client.PlusEscaped = (idx/4)%2 == 0
		defer func() { srv.Client.PlusEscaped = false }()
		pair := common.Pick(r, c15PlusSrcPairs)
		for _, n := range pair {
			u := &uploadSpec{Proto: common.Pick(r, []string{"media", "multipart"}), Bucket: b1, Name: n, Body: r.Bytes(r.Range(1, 300)), CT: common.Pick(r, contentTypes), CTMode: "both", Boundary: genBoundary(r)}
			if msg := e.upload(u, r); msg != "" {
				fail("set-up: " + msg)
				return
			}
			pool = append(pool, n)
		}
		run.Count("cases_with_plus_and_space_twin_names", 1)
		if srv.Client.PlusEscaped {
			run.Count("cases_with_plus_sent_as_%2B_in_paths", 1)
		}
	}
	// The destination candidates of this case are fixed up front so that every dump reads the same name set
	// (sources, candidates, every "/"-prefix of a candidate: a truncated or mangled destination shows up there).
	dstCands := append(append(append([]string(nil), c15CopyNames...), c15DstNames...), c15VerbNames...)
	common.Shuffle(r, dstCands)
	dstCands = dstCands[:5]
	if plusCase {
		pair := common.Pick(r, c15PlusDstPairs)
		dstCands = append(dstCands[:3], pair[0], pair[1])
	}
	for _, b := range []string{b1, b2} {
		u := append([]string{"decoy", "missing-source"}, pool...)
		u = append(u, c15ChunkNames...)
		for _, dn := range dstCands {
			u = append(u, dn)
			for i, c := range dn {
				if c == '/' {
					u = append(u, dn[:i])
				}
			}
		}
		e.universe[b] = u
	}
	pickName := func(b string, cands []string) (string, bool) {
		cs := append([]string(nil), cands...)
		common.Shuffle(r, cs)
		for _, n := range cs {
			if !file || representable(n, e.liveIn(b)) {
				return n, true
			}
		}
		return "", false
	}
	if msg := e.verify(); msg != "" {
		fail("baseline dump: " + msg)
		return
	}
	composed := map[string]bool{} // names in b1 that are results of an earlier compose / copy of this case
	okOps, reused, bigCompose, slashOrCross := 0, 0, 0, 0
	checked := func(msg string) bool {
		if msg == "" {
			msg = e.verify()
			if msg != "" {
				msg = fmt.Sprintf("after step %d: %s", len(e.steps)-1, msg)
			}
		}
		if msg != "" {
			fail(msg)
			return false
		}
		return true
	}
	// The append scenario: an object X is copied to Y (same or other bucket), then both the original and the copy are
	// extended in place - compose X = [X, parts...], compose Y = [Y, other parts...], again and again, in either order -
	// without being uploaded again in between. Parts have very different sizes. The dump after every request shows
	// whether extending one of them reached the other (or a part). Returns false after a violation.
	appendScenario := func() bool {
		live := e.liveIn(b1)
		if len(live) == 0 {
			return true
		}
		x := common.Pick(r, live)
		yb := b1
		if r.Chance(1, 4) {
			yb = b2
		}
		y, ok := "", false
		for tries := 0; tries < 20 && !ok; tries++ {
			if y, ok = pickName(yb, dstCands); ok && yb == b1 && y == x {
				ok = false
			}
		}
		if !ok {
			return true
		}
		run.Count("append_scenarios", 1)
		sizes := map[string][2]int{"chunk-s": {1, 8}, "chunk-m": {30, 200}, "chunk-l": {600, 5000}}
		for _, cn := range c15ChunkNames {
			if e.m.Get(b1, cn) == nil {
				u := &uploadSpec{Proto: common.Pick(r, []string{"media", "multipart"}), Bucket: b1, Name: cn, Body: r.Bytes(r.Range(sizes[cn][0], sizes[cn][1])), CT: "application/octet-stream", CTMode: "both", Boundary: genBoundary(r)}
				if !checked(e.upload(u, r)) {
					return false
				}
			}
			if yb != b1 && e.m.Get(yb, cn) == nil {
				if !checked(e.copyObj(b1, cn, yb, cn)) {
					return false
				}
			}
		}
		if r.Bool() {
			if !checked(e.copyObj(b1, x, yb, y)) {
				return false
			}
		} else if !checked(e.copyObjBody(b1, x, yb, y, genCopyBody(r, e, b1, x, yb, y))) {
			return false
		}
		if yb == b1 {
			composed[y] = true
		}
		type tgt struct{ b, n string }
		for round, rounds := 0, r.Range(1, 3); round < rounds; round++ {
			order := []tgt{{b1, x}, {yb, y}}
			if r.Bool() {
				order[0], order[1] = order[1], order[0]
			}
			for _, t := range order {
				spec := &composeSpec{Bucket: t.b, Dst: t.n, Srcs: []composeSrc{{Name: t.n}}}
				for i, k := 0, r.Range(1, 2); i < k; i++ {
					spec.Srcs = append(spec.Srcs, composeSrc{Name: common.Pick(r, c15ChunkNames)})
				}
				if r.Chance(1, 3) {
					spec.CT = common.Pick(r, contentTypes)
				}
				before := e.stats["composes_ok"]
				if !checked(e.compose(spec)) {
					return false
				}
				if e.stats["composes_ok"] > before {
					okOps++
					bigCompose++
					reused++
					run.Count("self_append_composes_ok", 1)
					if t.b == b1 {
						composed[t.n] = true
					}
				}
			}
		}
		return true
	}
	// The same-size scenario: an EXISTING destination that is itself a composite object (composites carry no md5Hash) is
	// written again with content of exactly the same length but other bytes - the same sources composed in another
	// order, the same source list after one source was overwritten by same-length content, a composite copied over
	// another composite of equal size. Responses, sizes and generations cannot tell stale bytes from new ones; the
	// dump after every request compares the content. Returns false after a violation.
	sameSizeScenario := func() bool {
		// two sources with different non-empty contents of (possibly) different lengths
		var srcs []string
		for _, n := range e.liveIn(b1) {
			if o := e.m.Get(b1, n); len(o.Content) > 0 && n != "empty" {
				srcs = append(srcs, n)
			}
		}
		common.Shuffle(r, srcs)
		if len(srcs) < 2 || string(e.m.Get(b1, srcs[0]).Content) == string(e.m.Get(b1, srcs[1]).Content) {
			return true
		}
		a, bb := srcs[0], srcs[1]
		var dsts []string
		for tries := 0; tries < 30 && len(dsts) < 2; tries++ {
			d, ok := pickName(b1, dstCands)
			if ok && d != a && d != bb && !contains(dsts, d) && (!file || representable(d, append(e.liveIn(b1), dsts...))) {
				dsts = append(dsts, d)
			}
		}
		if len(dsts) == 0 {
			return true
		}
		run.Count("same_size_scenarios", 1)
		list := []string{a, bb}
		if r.Chance(1, 3) {
			list = append(list, common.Pick(r, srcs)) // a third source, possibly a repeat
		}
		comp := func(dst string, names []string) bool {
			spec := &composeSpec{Bucket: b1, Dst: dst}
			for _, n := range names {
				spec.Srcs = append(spec.Srcs, composeSrc{Name: n})
			}
			if r.Chance(1, 2) {
				spec.CT = common.Pick(r, contentTypes)
			}
			if r.Chance(1, 3) {
				spec.UserMeta = genUserMeta(r)
			}
			cur := e.m.Get(b1, dst)
			var next []byte
			for _, n := range names {
				next = append(next, e.m.Get(b1, n).Content...)
			}
			before := e.stats["composes_ok"]
			if !checked(e.compose(spec)) {
				return false
			}
			if e.stats["composes_ok"] > before {
				okOps++
				bigCompose++
				composed[dst] = true
				if cur != nil && cur.Composite && len(cur.Content) == len(next) && string(cur.Content) != string(next) {
					run.Count("composes_onto_a_composite_of_equal_size_other_bytes", 1)
				}
			}
			return true
		}
		permuted := func(names []string) []string {
			out := append([]string(nil), names...)
			for tries := 0; tries < 8; tries++ {
				common.Shuffle(r, out)
				if strings.Join(out, "\x00") != strings.Join(names, "\x00") {
					break
				}
			}
			return out
		}
		d := dsts[0]
		if !comp(d, list) {
			return false
		}
		for round, rounds := 0, r.Range(1, 3); round < rounds; round++ {
			switch r.Intn(3) {
			case 0:
				// the same sources in another order
				list = permuted(list)
				if !comp(d, list) {
					return false
				}
			case 1:
				// one source overwritten by other content of the same length, then the same list again
				sn := common.Pick(r, list)
				old := e.m.Get(b1, sn)
				body := r.Bytes(len(old.Content))
				u := &uploadSpec{Proto: common.Pick(r, []string{"media", "multipart"}), Bucket: b1, Name: sn, Body: body, CT: common.Pick(r, contentTypes), CTMode: "both", Boundary: genBoundary(r)}
				if !checked(e.upload(u, r)) {
					return false
				}
				run.Count("sources_overwritten_by_same_length_content", 1)
				if !comp(d, list) {
					return false
				}
			case 2:
				// a second composite of the same size (another order) is copied over the first, or the first over it
				if len(dsts) < 2 {
					continue
				}
				d2 := dsts[1]
				if !comp(d2, permuted(list)) {
					return false
				}
				from, to := d2, d
				if r.Bool() {
					from, to = d, d2
				}
				fo, to0 := e.m.Get(b1, from), e.m.Get(b1, to)
				sameSize := fo != nil && to0 != nil && to0.Composite && fo.Composite && len(fo.Content) == len(to0.Content) && string(fo.Content) != string(to0.Content)
				before := e.stats["copies_ok"]
				if r.Chance(1, 3) {
					if !checked(e.copyObjBody(b1, from, b1, to, genCopyBody(r, e, b1, from, b1, to))) {
						return false
					}
				} else if !checked(e.copyObj(b1, from, b1, to)) {
					return false
				}
				if e.stats["copies_ok"] > before {
					okOps++
					reused++
					if sameSize {
						run.Count("copies_of_a_composite_onto_a_composite_of_equal_size_other_bytes", 1)
					}
				}
			}
		}
		return true
	}
	nsteps := r.Range(3, 8)
	scenarioAt, sameSizeAt := -1, -1
	if idx%3 == 0 || r.Chance(1, 5) {
		scenarioAt = r.Intn(nsteps)
	}
	if idx%3 == 1 || r.Chance(1, 6) {
		sameSizeAt = r.Intn(nsteps)
	}
	// earlier successful composes of this case (destination, source list): some later steps repeat one of them with
	// the sources in another order, i.e. onto an existing composite destination of the same size
	type pastCompose struct {
		dst  string
		srcs []string
	}
	var past []pastCompose
	for st := 0; st < nsteps; st++ {
		if st == scenarioAt {
			if !appendScenario() {
				return
			}
			continue
		}
		if st == sameSizeAt {
			if !sameSizeScenario() {
				return
			}
			continue
		}
		if len(past) > 0 && r.Chance(1, 6) {
			// ---- an earlier compose once more, sources in another order (those that are still live)
			pc := common.Pick(r, past)
			names := append([]string(nil), pc.srcs...)
			common.Shuffle(r, names)
			spec := &composeSpec{Bucket: b1, Dst: pc.dst}
			ok := true
			for _, n := range names {
				if e.m.Get(b1, n) == nil {
					ok = false
				}
				spec.Srcs = append(spec.Srcs, composeSrc{Name: n})
			}
			if ok && (!file || e.m.Get(b1, pc.dst) != nil || representable(pc.dst, e.liveIn(b1))) {
				cur := e.m.Get(b1, pc.dst)
				var next []byte
				for _, n := range names {
					next = append(next, e.m.Get(b1, n).Content...)
				}
				before := e.stats["composes_ok"]
				if !checked(e.compose(spec)) {
					return
				}
				if e.stats["composes_ok"] > before {
					okOps++
					run.Count("earlier_composes_repeated_in_another_order", 1)
					if cur != nil && cur.Composite && len(cur.Content) == len(next) && string(cur.Content) != string(next) {
						run.Count("composes_onto_a_composite_of_equal_size_other_bytes", 1)
					}
				}
				continue
			}
		}
		live := e.liveIn(b1)
		if r.Chance(6, 10) {
			// ---- compose in b1: sources from every live name, earlier results included
			k := 0
			switch x := r.Intn(100); {
			case x < 3:
				k = 0
			case x < 12:
				k = 1
			case x < 40:
				k = 2
			case x < 70:
				k = r.Range(3, 6)
			case x < 80:
				k = r.Range(7, 30)
			case x < 87:
				k = 31
			case x < 94:
				k = 32
			default:
				k = 33
			}
			dst, ok := "", false
			if r.Chance(3, 10) && len(live) > 0 {
				dst, ok = common.Pick(r, live), true // destination among the (possible) sources
			} else {
				dst, ok = pickName(b1, dstCands)
			}
			if !ok {
				continue
			}
			spec := &composeSpec{Bucket: b1, Dst: dst}
			usesEarlier := false
			for i := 0; i < k; i++ {
				s := composeSrc{Name: common.Pick(r, live)}
				if i == 0 && r.Chance(1, 2) {
					s.Name = live[0] // the same leading source again and again: in-place appends would hit it
				}
				if r.Chance(1, 12) {
					g := e.m.Get(b1, s.Name).Gen
					if r.Chance(1, 4) {
						g--
					}
					s.GenMatch = model.I(g)
				}
				if composed[s.Name] {
					usesEarlier = true
				}
				spec.Srcs = append(spec.Srcs, s)
			}
			if k > 0 && r.Chance(10, 100) {
				spec.Srcs[r.Intn(k)].Name = "missing-source"
			}
			if r.Chance(7, 10) {
				spec.CT = common.Pick(r, contentTypes)
			}
			if r.Chance(4, 10) {
				spec.UserMeta = genUserMeta(r)
			}
			before := e.stats["composes_ok"]
			if msg := e.compose(spec); msg != "" {
				fail(msg)
				return
			}
			run.Count(fmt.Sprintf("compose_sources_%s", srcBucket(len(spec.Srcs))), 1)
			if e.stats["composes_ok"] > before {
				okOps++
				composed[dst] = true
				if strings.Contains(dst, "+") {
					run.Count("composes_ok_onto_a_destination_with_plus", 1)
				}
				if len(spec.Srcs) >= 2 && len(spec.Srcs) <= 6 {
					var names []string
					for _, sr := range spec.Srcs {
						names = append(names, sr.Name)
					}
					past = append(past, pastCompose{dst, names})
				}
				if len(spec.Srcs) >= 2 {
					bigCompose++
				}
				if usesEarlier {
					reused++
				}
			}
		} else {
			// ---- copy from b1 into b1 or b2
			sb, db := b1, b1
			if r.Bool() {
				db = b2
			}
			sn := "missing-source"
			if len(live) > 0 && !r.Chance(1, 10) {
				sn = common.Pick(r, live)
			}
			// one copy in eight goes onto the source itself: content, MD5 and metadata must survive (only the generation is new)
			selfCopy := sn != "missing-source" && r.Chance(1, 8)
			dn, ok := "", false
			if selfCopy {
				db, dn, ok = sb, sn, true
			}
			for tries := 0; tries < 20 && !ok; tries++ {
				dn, ok = pickName(db, dstCands)
				if ok && db == sb && dn == sn && !selfCopy {
					ok = false
				}
			}
			if !ok {
				continue
			}
			before := e.stats["copies_ok"]
			var body map[string]any
			if r.Chance(1, 3) {
				body = genCopyBody(r, e, sb, sn, db, dn) // full destination resource, output-only fields stale or made up
			}
			if msg := e.copyObjBody(sb, sn, db, dn, body); msg != "" {
				fail(msg)
				return
			}
			if e.stats["copies_ok"] > before {
				okOps++
				if strings.Contains(sn, "+") {
					run.Count("copies_ok_from_a_source_with_plus", 1)
				}
				if strings.Contains(dn, "+") {
					run.Count("copies_ok_onto_a_destination_with_plus", 1)
				}
				if selfCopy {
					run.Count("copies_onto_the_source_itself_ok", 1)
				}
				if composed[sn] {
					reused++
				}
				if db == b1 {
					composed[dn] = true
				}
				if strings.Contains(dn, "/") || db != sb {
					slashOrCross++
				}
				if strings.Contains(dn, "/o/") {
					run.Count("copy_destinations_with_/o/", 1)
				}
				if db != sb {
					run.Count("copies_cross_bucket", 1)
				}
			}
		}
		// whole-store dump after EVERY step: an earlier object changing under a later request is seen here
		if msg := e.verify(); msg != "" {
			fail(fmt.Sprintf("after step %d: %s", len(e.steps)-1, msg))
			return
		}
	}
	run.Count("steps_reusing_an_earlier_result_as_source", int64(reused))
	run.Case(common.Hash64(srv.Kind, stepsHash(e.steps)), okOps >= 2 && bigCompose > 0 && reused > 0)
	if idx < 4 {
		run.Sample(map[string]any{"store": srv.Kind, "case": idx, "steps": tailSteps(e.steps, 4)})
	}
}

func srcBucket(k int) string {
	switch {
	case k <= 2:
		return fmt.Sprint(k)
	case k <= 30:
		return "3-30"
	}
	return fmt.Sprint(k)
}

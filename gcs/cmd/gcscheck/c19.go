package main

import (
	"context"
	"encoding/json"
	"fmt"
	"os"
	"runtime"
	"strings"
	"sync"
	"sync/atomic"
	"time"

	"github.com/fullstorydev/emulators/storage/gcsutil"

	"verif/common"
	"verif/gcs/sched"
)

func init() { register("C19", "exploration", runC19) }

// C19: the keyed lock map under a controlled scheduler (systematic, hook granularity) plus a free-running stress.
func runC19(run *common.Run) {
	run.Rule = "case = one execution of the real TransientLockMap by 2-3 worker goroutines (scripts of 2 rounds of Lock/Unlock or Run over keys {a,b}, optionally one scripted Unlock of an unheld key) in which every worker is parked at every verif hook point and moves only when the scheduler grants one step or cancels its context; after every step the real map (VerifLen, VerifSlotFull per key) is compared with the shadow state (holder, refcount, queue per key) and every return value with what the hooks showed. " +
		"sub graph2 (both tiers) / graph3 (thorough): for every program of the family (all key assignments up to key renaming and worker permutation x {plain, worker 0 unlocks unheld key a between its rounds, last worker unlocks unheld key b first}) the graph of abstract states (per worker: round, hook point, cancel flag; queue order) is explored by replay from the start until every enabled scheduler action of every reached node was executed at least once (a step whose outcome Go's select picks at random, slot free and context cancelled, until both outcomes were seen or 50 executions). exhaustive=true means exactly this: complete transition coverage of those graphs for the families run in this tier (2 workers x 2 keys x 2 rounds with cancellation in quick; additionally 3 x 2 x 2 with cancellation in thorough); path coverage is not claimed. " +
		"sub walk: seeded random schedules over random 3-worker programs. sub runexit: the callback of Run is left by return nil / return error / panic / runtime.Goexit with 0-2 callers queued on the key: the waiters acquire, a fresh Lock succeeds, the idle map is empty. sub burst: rounds in which 96 keys are held at once and released together while eight callers contend for one hot key (mutual exclusion counter, no panic, idle map empty after every round). sub stress: 32 free-running goroutines, 3 keys, random cancellation, race detector, in-critical-section counter per key, empty map at the end. " +
		"Non-trivial = in the execution some worker queued behind a holder of the same key or a cancel hit a queued worker; distinct by hash of program + schedule + outcomes."
	run.Assumptions = []string{
		"worker identity is the goroutine id parsed from runtime.Stack; hook points are those of /repo's verif_on.go and sit outside the map mutex",
		"interleavings finer than the hook points (inside the map mutex's critical sections) are only exercised by the free-running stress under the race detector",
		"which queued worker a release wakes and which ready select arm is taken are choices of the Go runtime: both outcomes are accepted and recorded, not controlled",
		"unlocking a key that some other caller holds is outside the property; the scripted bad Unlock only proceeds while nobody holds the key",
		"lost wake-up = a quiescent system (every other worker parked) in which a queued worker does not acquire a released key within a 5 s watchdog, confirmed by a goroutine dump",
	}
	run.Set("race_detector", sched.RaceEnabled)
	if run.Replay != nil && c19ReplayExact(run) {
		return
	}
	start := time.Now()
	complete := true
	if run.WantSub("graph2") {
		if !c19Graphs(run, "graph2", sched.Programs(2), start) {
			complete = false
		}
	}
	if run.IsThorough() || (run.Replay != nil && run.Replay.Sub == "graph3") {
		if run.WantSub("graph3") {
			if !c19Graphs(run, "graph3", sched.Programs(3), start) {
				complete = false
			}
		}
	}
	if run.Replay == nil && sched.HookHits() == 0 {
		run.Blind("hooks never fired (built without -tags verif?)")
		return
	}
	if run.WantSub("walk") && !run.TooMany() {
		c19Walks(run)
	}
	if run.Replay == nil || run.Replay.Sub != "stress" {
		if sched.HookHits() == 0 {
			run.Blind("hooks never fired (built without -tags verif?)")
			return
		}
	}
	run.Count("hook_hits", sched.HookHits())
	if run.Replay == nil {
		run.Exhaustive = complete && run.Violations() == 0
	}
	if run.WantSub("runexit") && !run.TooMany() {
		c19RunExit(run)
	}
	if run.WantSub("burst") && !run.TooMany() {
		c19Burst(run)
	}
	if run.WantSub("handback") && !run.TooMany() {
		c19HandBack(run)
	}
	if run.WantSub("runctx") && !run.TooMany() {
		c19RunCtx(run)
	}
	if run.WantSub("longhold") && !run.TooMany() {
		c19LongHold(run)
	}
	if run.WantSub("stress") && !run.TooMany() {
		c19Stress(run)
	}
}

// c19HandBack: the last references to a key are handed back by several callers in the same instant (the holder's Unlock,
// one to three callers whose context has already ended, and/or a successor that acquires and unlocks at once), released
// together from a spin barrier, many thousand times. Afterwards nobody holds or awaits anything: the map must be empty,
// a fresh Lock must succeed at once, and nobody may have panicked. (The controlled scheduler cannot produce this: its
// steps serialise the callers at the hook points.)
func c19HandBack(run *common.Run) {
	rounds := run.N(30000, 600000)
	m := gcsutil.NewTransientLockMap()
	ended, cancel := context.WithCancel(context.Background())
	cancel()
	for round := 0; round < rounds && !run.TooMany(); round++ {
		if !run.Want("handback", round) {
			continue
		}
		shape := round % 4 // 0: unlock + 1 ended waiter; 1: unlock + 2 ended; 2: unlock + successor; 3: unlock + ended + successor
		key := fmt.Sprintf("k%d", round%3)
		if !m.Lock(context.Background(), key) {
			run.Violation("handback", round, "Lock of a free key returned false", nil)
			return
		}
		var barrier atomic.Int32
		var wg sync.WaitGroup
		var bad atomic.Value
		n := []int{2, 3, 2, 3}[shape]
		start := func(fn func()) {
			wg.Add(1)
			go func() {
				defer wg.Done()
				defer func() {
					if r := recover(); r != nil {
						bad.CompareAndSwap(nil, fmt.Sprintf("a caller panicked: %v", r))
					}
				}()
				barrier.Add(1)
				for barrier.Load() < int32(n) {
				}
				fn()
			}()
		}
		start(func() { m.Unlock(key) })
		endedWaiter := func() {
			if m.Lock(ended, key) {
				// the key was free at that instant: legal; give it back
				m.Unlock(key)
			}
		}
		successor := func() {
			ctx, c := context.WithTimeout(context.Background(), 20*time.Second)
			defer c()
			if !m.Lock(ctx, key) {
				bad.CompareAndSwap(nil, "a successor did not get the key within 20 s although its holder unlocked at once")
				return
			}
			m.Unlock(key)
		}
		switch shape {
		case 0:
			start(endedWaiter)
		case 1:
			start(endedWaiter)
			start(endedWaiter)
		case 2:
			start(successor)
		default:
			start(endedWaiter)
			start(successor)
		}
		wg.Wait()
		run.Count("handback_rounds", 1)
		if b, _ := bad.Load().(string); b != "" {
			run.Violation("handback", round, fmt.Sprintf("%s (shape %d)", b, shape), nil)
			return
		}
		if l := m.VerifLen(); l != 0 {
			run.Violation("handback", round, fmt.Sprintf("nobody holds or awaits a lock, but the map retains %d entr(y/ies) after the last references to %q were handed back at the same time (shape %d: 0 = Unlock + one caller whose context had ended, 1 = + two such callers, 2 = Unlock + successor, 3 = all three)", l, key, shape), nil)
			return
		}
		if round%1000 == 0 {
			run.Case(common.Hash64("handback", fmt.Sprint(round)), true)
		}
	}
}

// c19Burst: the map grows to ~100 simultaneously held keys and drains again, over and over, while eight callers keep
// contending for one hot key: whatever the map does to its own bookkeeping when it grows or shrinks, the hot key must
// stay mutually exclusive, nobody may panic, and the idle map must be empty after every round.
func c19Burst(run *common.Run) {
	rounds := run.N(150, 5000)
	m := gcsutil.NewTransientLockMap()
	var inCS atomic.Int32
	var bad atomic.Value
	fail := func(s string) { bad.CompareAndSwap(nil, s) }
	for round := 0; round < rounds && bad.Load() == nil && !run.TooMany(); round++ {
		if !run.Want("burst", round) {
			continue
		}
		const H = 96
		var held, contenders sync.WaitGroup
		release := make(chan struct{})
		stop := make(chan struct{})
		for c := 0; c < 8; c++ {
			contenders.Add(1)
			go func() {
				defer contenders.Done()
				defer func() {
					if r := recover(); r != nil {
						fail(fmt.Sprintf("a caller of the hot key panicked: %v", r))
					}
				}()
				for {
					select {
					case <-stop:
						return
					default:
					}
					ctx, cancel := context.WithTimeout(context.Background(), 20*time.Second)
					ok := m.Lock(ctx, "hot")
					cancel()
					if !ok {
						fail("Lock(hot) returned false within 20 s although every holder unlocks at once")
						return
					}
					if n := inCS.Add(1); n != 1 {
						fail(fmt.Sprintf("mutual exclusion: %d callers hold the hot key at once (round %d)", n, round))
					}
					runtime.Gosched()
					inCS.Add(-1)
					m.Unlock("hot")
				}
			}()
		}
		var ready sync.WaitGroup
		for h := 0; h < H; h++ {
			held.Add(1)
			ready.Add(1)
			go func(h int) {
				defer held.Done()
				defer func() {
					if r := recover(); r != nil {
						fail(fmt.Sprintf("a holder of a burst key panicked: %v", r))
					}
				}()
				key := fmt.Sprintf("burst-%d", h)
				if !m.Lock(context.Background(), key) {
					fail("Lock of an uncontended key returned false")
					ready.Done()
					return
				}
				ready.Done()
				<-release
				m.Unlock(key)
			}(h)
		}
		ready.Wait()
		run.Max("max_keys_held_at_once", int64(m.VerifLen()))
		close(release)
		held.Wait()
		for spin := 0; spin < 50; spin++ {
			runtime.Gosched()
		}
		close(stop)
		contenders.Wait()
		if n := m.VerifLen(); n != 0 && bad.Load() == nil {
			fail(fmt.Sprintf("nobody holds or awaits a lock, but the map retains %d entries after round %d", n, round))
		}
		run.Case(common.Hash64("burst", fmt.Sprint(round)), true)
		run.Count("burst_rounds", 1)
	}
	if b, _ := bad.Load().(string); b != "" {
		run.Violation("burst", 0, b, nil)
	}
}

// c19RunExit: however the callback of Run is left - it returns nil, returns an error, panics (recovered further up, as
// net/http does for a panicking handler) or calls runtime.Goexit - Run must have given the key back: waiters queued on
// the key acquire it, a fresh Lock succeeds at once, and when nobody holds or awaits anything the map is empty.
func c19RunExit(run *common.Run) {
	exits := []string{"return nil", "return error", "panic", "goexit"}
	idx := 0
	for _, exit := range exits {
		for waiters := 0; waiters <= 2; waiters++ {
			for rep := 0; rep < 3; rep++ {
				i := idx
				idx++
				if !run.Want("runexit", i) || run.TooMany() {
					continue
				}
				m := gcsutil.NewTransientLockMap()
				inside := make(chan struct{})
				leave := make(chan struct{})
				done := make(chan struct{})
				go func() {
					defer close(done)
					defer func() { _ = recover() }()
					_ = m.Run(context.Background(), "k", func(context.Context) error {
						close(inside)
						<-leave
						switch exit {
						case "return error":
							return fmt.Errorf("callback error")
						case "panic":
							panic("callback panic")
						case "goexit":
							runtime.Goexit()
						}
						return nil
					})
				}()
				<-inside
				got := make(chan bool, waiters)
				for w := 0; w < waiters; w++ {
					go func() {
						ctx, cancel := context.WithTimeout(context.Background(), 20*time.Second)
						defer cancel()
						ok := m.Lock(ctx, "k")
						if ok {
							m.Unlock("k")
						}
						got <- ok
					}()
				}
				if waiters > 0 {
					// let the waiters queue up (they cannot acquire before the callback is left); not a verdict
					for spin := 0; spin < 200; spin++ {
						runtime.Gosched()
					}
					time.Sleep(2 * time.Millisecond)
				}
				close(leave)
				<-done
				bad := ""
				for w := 0; w < waiters && bad == ""; w++ {
					if !<-got {
						bad = fmt.Sprintf("a caller waiting for the key did not get it within 20 s after the Run callback was left by %s", exit)
					}
				}
				if bad == "" {
					ctx, cancel := context.WithTimeout(context.Background(), 5*time.Second)
					if !m.Lock(ctx, "k") {
						bad = fmt.Sprintf("the key is still locked after the Run callback was left by %s: a fresh Lock did not succeed within 5 s", exit)
					} else {
						m.Unlock("k")
					}
					cancel()
				}
				if bad == "" {
					if n := m.VerifLen(); n != 0 {
						bad = fmt.Sprintf("nobody holds or awaits a lock, but the map retains %d entries after the Run callback was left by %s", n, exit)
					}
				}
				if bad != "" {
					run.Violation("runexit", i, bad, map[string]any{"exit": exit, "waiters": waiters})
				}
				run.Case(common.Hash64("runexit", exit, fmt.Sprint(waiters, rep)), waiters > 0)
				run.Count("run_callback_exits."+strings.ReplaceAll(exit, " ", "_"), 1)
			}
		}
	}
}

func c19Cores() int {
	n := runtime.NumCPU()
	if n > 16 {
		n = 16
	}
	if n < 2 {
		n = 2
	}
	return n
}

type c19GraphRow struct {
	Case        int    `json:"case"`
	Program     string `json:"program"`
	Nodes       int    `json:"nodes"`
	Edges       int    `json:"enabled_actions"`
	EdgesDone   int    `json:"actions_executed"`
	Transitions int    `json:"transitions"`
	Executions  int    `json:"executions"`
	Steps       int    `json:"steps"`
	Both2       int    `json:"both_ready_both_outcomes_seen"`
	Both1       int    `json:"both_ready_one_outcome_after_50"`
	Diverged    int    `json:"replays_diverged"`
	GaveUp      int    `json:"gave_up"`
	Complete    bool   `json:"complete"`
}

// c19Graphs explores the graph of every program; returns whether all were completed.
func c19Graphs(run *common.Run, sub string, progs []*sched.Program, start time.Time) bool {
	// All programs are explored concurrently, each graph by a few executors: executions are chains of goroutine
	// hand-overs (latency bound, one runnable goroutine each), so 4x more executions than cores are kept in flight,
	// and few executors per graph keep the per-graph lock uncontended.
	cores := c19Cores()
	sem := make(chan struct{}, 4*cores)
	j := common.NewJournal("C19")
	rows := make([]*c19GraphRow, len(progs))
	var mu sync.Mutex
	sampled := 0
	allComplete := true
	execs := 4 * cores / len(progs)
	if execs < 2 {
		execs = 2
	}
	if execs > 8 {
		execs = 8
	}
	common.Parallel(len(progs), len(progs), func(pi int) {
		if !run.Want(sub, pi) || run.TooMany() {
			return
		}
		p := progs[pi]
		j.Begin(pi, fmt.Sprintf("C19 %s case=%d seed=%d program=%s", sub, pi, run.Seed, p))
		defer j.End(pi)
		var once sync.Once
		g := &sched.Graph{Prog: p, StopFn: run.TooMany}
		g.OnResult = func(res *sched.Result) {
			c19Record(run, res)
			if res.Violation != nil {
				once.Do(func() {
					res.Violation.FoundAt = time.Since(start).Seconds()
					run.Violation(sub, pi, res.Violation.What, res.Violation)
				})
				return
			}
			if res.Nontrivial && res.Terminal {
				mu.Lock()
				take := sampled < 3
				if take {
					sampled++
				}
				mu.Unlock()
				if take {
					run.Sample(map[string]any{"sub": sub, "case": pi, "program": p.String(), "schedule": res.Trace})
				}
			}
		}
		g.Explore(execs, sem)
		row := &c19GraphRow{Case: pi, Program: p.String(), Nodes: g.Nodes(), Edges: g.Edges, EdgesDone: g.EdgesDone, Transitions: g.Transitions,
			Executions: g.Executions, Steps: g.Steps, Both2: g.BothSettled2, Both1: g.BothSettled1, Diverged: g.Diverged, GaveUp: g.GaveUp, Complete: g.Complete()}
		mu.Lock()
		rows[pi] = row
		if !row.Complete {
			allComplete = false
		}
		mu.Unlock()
		run.Count(sub+"_programs", 1)
		if row.Complete {
			run.Count(sub+"_programs_complete", 1)
		}
		run.Count(sub+"_nodes", int64(row.Nodes))
		run.Count(sub+"_enabled_actions", int64(row.Edges))
		run.Count(sub+"_actions_executed", int64(row.EdgesDone))
		run.Count(sub+"_transitions", int64(row.Transitions))
		run.Count(sub+"_executions", int64(row.Executions))
		run.Count(sub+"_terminal_nodes", int64(g.Terminals))
		run.Count(sub+"_replays_diverged_by_runtime_choice", int64(g.Diverged))
		run.Count(sub+"_actions_given_up", int64(g.GaveUp))
		run.Count(sub+"_both_ready_steps_both_outcomes_seen", int64(g.BothSettled2))
		run.Count(sub+"_both_ready_steps_one_outcome_after_50_tries", int64(g.BothSettled1))
		run.Count(sub+"_wake_order_outcomes", int64(g.WakeOrders))
		run.Max(sub+"_max_depth", int64(g.MaxDepth))
		for _, s := range g.Inconsistent {
			run.Inconclusive("harness: " + s)
		}
	})
	var out []*c19GraphRow
	for _, r := range rows {
		if r != nil {
			out = append(out, r)
		}
	}
	run.Set(sub, out)
	return allComplete && len(out) == len(progs)
}

// c19Record accounts one controlled execution.
func c19Record(run *common.Run, res *sched.Result) {
	if res.Blind {
		return
	}
	h := common.Hash64(res.Program.String(), strings.Join(res.Trace, " "))
	run.Case(h, res.Nontrivial)
	s := &res.Stats
	run.Count("executions", 1)
	run.Count("scheduler_steps", int64(s.Steps))
	run.Count("waits_observed", int64(s.Waits))
	run.Count("wakeups_observed", int64(s.Wakeups))
	run.Count("cancels_while_queued", int64(s.CancelsQueued))
	run.Count("cancels_while_parked", int64(s.CancelsParked))
	run.Count("locks_on_already_cancelled_ctx", int64(s.PreCancelled))
	run.Count("select_both_ready_acquired", int64(s.BothReadyAcq))
	run.Count("select_both_ready_cancelled", int64(s.BothReadyCan))
	run.Count("releases_with_two_queued", int64(s.WakeChoices))
	run.Count("bad_unlock_panics_no_entry", int64(s.BadUnlockAbsnt))
	run.Count("bad_unlock_panics_entry_present", int64(s.BadUnlockEmpty))
	run.Count("hook_events", int64(s.Hooks))
	run.Count("invariant_checks", int64(s.Invariants))
	if res.Terminal {
		run.Count("executions_reaching_terminal_node", 1)
	}
}

// c19WalkProgram generates the program of walk idx.
func c19WalkProgram(r *common.Rand) *sched.Program {
	keys := []string{"a", "b"}
	var ws [][]sched.Round
	for w := 0; w < 3; w++ {
		var s []sched.Round
		for rd := 0; rd < 2; rd++ {
			f := sched.FormLock
			if r.Bool() {
				f = sched.FormRun
			}
			s = append(s, sched.Round{Key: common.Pick(r, keys), Form: f})
		}
		ws = append(ws, s)
	}
	if r.Chance(1, 3) {
		w := r.Intn(3)
		pos := r.Intn(3)
		bad := sched.Round{Key: common.Pick(r, keys), Form: sched.FormBadUnlock}
		s := append([]sched.Round(nil), ws[w][:pos]...)
		s = append(s, bad)
		s = append(s, ws[w][pos:]...)
		ws[w] = s
	}
	p := sched.NewProgram(ws)
	p.Keys = keys
	return p
}

func c19Walks(run *common.Run) {
	n := run.N(2000, 40000)
	cover := sched.NewCoverage()
	j := common.NewJournal("C19")
	common.Parallel(n, c19Cores(), func(i int) {
		if !run.Want("walk", i) || run.TooMany() {
			return
		}
		r := run.Rand("C19.walk", i)
		p := c19WalkProgram(r)
		j.Begin(i%64, fmt.Sprintf("C19 walk case=%d seed=%d program=%s", i, run.Seed, p))
		defer j.End(i % 64)
		ch := &sched.RandomChooser{Intn: r.Intn, CancelNum: 1, CancelDen: 6, Cover: cover, Tag: p.String()}
		res := sched.Run(p, ch, sched.Options{})
		c19Record(run, res)
		run.Count("walks", 1)
		if res.Blind {
			return
		}
		if res.Violation != nil {
			run.Violation("walk", i, res.Violation.What, res.Violation)
			return
		}
		if i < 2 {
			run.Sample(map[string]any{"sub": "walk", "case": i, "program": p.String(), "schedule": res.Trace})
		}
	})
	nodes, edges := cover.Counts()
	run.Count("walk_distinct_nodes", int64(nodes))
	run.Count("walk_distinct_transitions", int64(edges))
}

func c19Stress(run *common.Run) {
	ops := run.N(200_000, 5_000_000)
	t0 := time.Now()
	res := sched.Stress(sched.StressConfig{Goroutines: 32, Keys: 3, Ops: ops, Rand: func(g int) sched.Intner { return run.Rand("C19.stress", g) }})
	run.Evals(1)
	run.Count("stress_ops", res.Ops)
	run.Count("stress_lock_true", res.LockTrue)
	run.Count("stress_lock_false", res.LockFalse)
	run.Count("stress_pre_cancelled", res.PreCancelled)
	run.Count("stress_cancels_by_peer", res.PeerCancels)
	run.Count("stress_contended_lock_calls", res.Contended)
	run.Count("stress_bad_unlock_panics", res.BadUnlocks)
	run.Set("stress_wall_s", time.Since(t0).Seconds())
	for i, v := range res.Violations {
		if i == 0 {
			run.Violation("stress", 0, v, res)
		}
	}
	if res.Contended == 0 && len(res.Violations) == 0 {
		run.Inconclusive("stress: no two callers ever overlapped on a key")
	}
	repo, harness, firstRepo, firstHarness, logFile := sched.RaceReports()
	run.Count("race_reports_in_code_under_test", int64(repo))
	run.Count("race_reports_harness_only", int64(harness))
	if repo > 0 {
		run.Violation("stress", 0, fmt.Sprintf("data race in the lock map reported by the race detector (%d reports; log %s): callers reach shared lock-map state without the map mutex", repo, logFile), map[string]any{"first_report": firstRepo, "stress": res})
	}
	if harness > 0 {
		run.Violation("stress", 0, fmt.Sprintf("BROKEN CHECK: race report with harness frames only (%d reports; log %s)", harness, logFile), map[string]any{"first_report": firstHarness})
	}
}

// c19ReplayExact re-executes the schedule recorded in the replay file, if there is one. Returns true if it did
// (reproduced or not); false to fall back to regenerating the case from (sub, idx).
func c19ReplayExact(run *common.Run) bool {
	path := ""
	for i, a := range os.Args {
		if a == "--replay" && i+1 < len(os.Args) {
			path = os.Args[i+1]
		}
	}
	if path == "" {
		return false
	}
	buf, err := os.ReadFile(path)
	if err != nil {
		return false
	}
	var doc struct {
		Detail struct {
			Program string `json:"program"`
			Actions string `json:"actions"`
		} `json:"detail"`
	}
	if json.Unmarshal(buf, &doc) != nil || doc.Detail.Program == "" || doc.Detail.Actions == "" {
		return false
	}
	p, err := sched.ParseProgram(doc.Detail.Program)
	if err != nil {
		return false
	}
	p.Keys = []string{"a", "b"}
	var acts []sched.Action
	for _, f := range strings.Fields(doc.Detail.Actions) {
		a, err := sched.ParseAction(f)
		if err != nil {
			return false
		}
		acts = append(acts, a)
	}
	fmt.Printf("replaying recorded schedule (%d choices) of program %s\n", len(acts), p)
	diverged := 0
	for try := 0; try < 40; try++ {
		ch := &sched.ScheduleChooser{Actions: acts}
		res := sched.Run(p, ch, sched.Options{})
		if res.Blind {
			run.Blind("hooks never fired (built without -tags verif?)")
			return true
		}
		c19Record(run, res)
		if res.Violation != nil {
			run.Violation(run.Replay.Sub, run.Replay.Case, res.Violation.What, res.Violation)
			return true
		}
		if ch.Diverged {
			diverged++ // the runtime picked the other select arm / woke the other waiter on the way; try again
			continue
		}
	}
	fmt.Printf("recorded schedule executed 40 times (%d diverged by runtime choice) without a violation\n", diverged)
	run.Count("replay_schedule_runs", 40)
	run.Count("replay_schedule_diverged", int64(diverged))
	return run.Replay.Sub != "stress"
}

// c19RunCtx: the context a Run callback receives is an ordinary value that callers keep, derive from and hand to other
// goroutines. Whatever context a later or concurrent Run (or Lock) on the same key is given - the callback's own
// context, one derived from it, one saved from an earlier Run - it must wait while somebody else holds the key.
// Verdict: a callback observed running while another caller holds the key is a violation whenever it happens; the
// waiting windows (20 ms) only bound how long the check looks, never decide.
func c19RunCtx(run *common.Run) {
	rounds := run.N(60, 2000)
	for round := 0; round < rounds && !run.TooMany(); round++ {
		if !run.Want("runctx", round) {
			continue
		}
		m := gcsutil.NewTransientLockMap()
		key := fmt.Sprintf("obj%d", round%3)
		shape := round % 4
		var saved context.Context
		// a first Run whose callback keeps its context
		_ = m.Run(context.Background(), key, func(ctx context.Context) error { saved = ctx; return nil })
		derived, cancel := context.WithCancel(saved)
		use := []context.Context{saved, derived, saved, derived}[shape]
		var inside atomic.Int32
		bad := ""
		switch {
		case shape < 2:
			// (a) stale context: another caller holds the key, then Run is called with the saved context
			if !m.Lock(context.Background(), key) {
				run.Violation("runctx", round, "Lock of a free key returned false", nil)
				cancel()
				return
			}
			inside.Store(1)
			done := make(chan struct{})
			go func() {
				defer close(done)
				_ = m.Run(use, key, func(context.Context) error {
					if inside.Load() != 0 {
						bad = "Run executed its callback while another caller holds the key (Run was given a context saved from an earlier Run callback on that key)"
					}
					return nil
				})
			}()
			time.Sleep(20 * time.Millisecond)
			inside.Store(0)
			m.Unlock(key)
			<-done
		default:
			// (b) concurrent: the callback of a running Run hands its context to another goroutine, which calls Run on the same key
			done := make(chan struct{})
			_ = m.Run(context.Background(), key, func(ctx context.Context) error {
				inner := ctx
				if shape == 3 {
					var c2 context.CancelFunc
					inner, c2 = context.WithCancel(ctx)
					defer c2()
				}
				inside.Store(1)
				go func() {
					defer close(done)
					_ = m.Run(inner, key, func(context.Context) error {
						if inside.Load() != 0 {
							bad = "Run executed its callback while the callback of another Run on the same key was still running (the second Run was given the first callback's context)"
						}
						return nil
					})
				}()
				time.Sleep(20 * time.Millisecond)
				inside.Store(0)
				return nil
			})
			select {
			case <-done:
			case <-time.After(20 * time.Second):
				// shape 3 cancels the derived context when the outer callback returns: the inner Run may give up - fine
				<-done
			}
		}
		cancel()
		if bad != "" {
			run.Violation("runctx", round, fmt.Sprintf("%s (shape %d)", bad, shape), nil)
			return
		}
		if l := m.VerifLen(); l != 0 {
			run.Violation("runctx", round, fmt.Sprintf("nobody holds or awaits a lock, but the map retains %d entries (shape %d)", l, shape), nil)
			return
		}
		run.Count("runctx_rounds", 1)
		run.Case(common.Hash64("runctx", fmt.Sprint(round)), true)
	}
}

// c19LongHold: a key is held for 6.5 s (13 s thorough) of real time while callers whose contexts stay alive wait for it
// through Lock and through Run. Lock may return false only because the caller's context ended: each waiter must get
// the key after the release (Lock true; Run executes its callback exactly once and returns its result), however long
// the hold lasted. The hold is real time on purpose - an internal bound on the wait can only be met by waiting.
func c19LongHold(run *common.Run) {
	if !run.Want("longhold", 0) {
		return
	}
	hold := time.Duration(run.N(6500, 13000)) * time.Millisecond
	m := gcsutil.NewTransientLockMap()
	if !m.Lock(context.Background(), "held") {
		run.Violation("longhold", 0, "Lock of a free key returned false", nil)
		return
	}
	type res struct {
		kind string
		ok   bool
		ran  int32
		err  error
		ctxE error
	}
	out := make(chan res, 4)
	var held atomic.Bool
	held.Store(true)
	var early atomic.Int32
	for i, kind := range []string{"Lock(background)", "Lock(deadline in 60 s)", "Run(background)", "Run(deadline in 60 s)"} {
		go func(i int, kind string) {
			ctx := context.Background()
			if i%2 == 1 {
				var c context.CancelFunc
				ctx, c = context.WithTimeout(ctx, 60*time.Second)
				defer c()
			}
			r := res{kind: kind}
			if i < 2 {
				r.ok = m.Lock(ctx, "held")
				if r.ok {
					if held.Load() {
						early.Add(1)
					}
					m.Unlock("held")
				}
			} else {
				r.err = m.Run(ctx, "held", func(context.Context) error {
					if held.Load() {
						early.Add(1)
					}
					r.ran++
					return nil
				})
				r.ok = r.ran == 1
			}
			r.ctxE = ctx.Err()
			out <- r
		}(i, kind)
	}
	time.Sleep(hold)
	held.Store(false)
	m.Unlock("held")
	for i := 0; i < 4; i++ {
		select {
		case r := <-out:
			run.Count("waiters_of_a_long_hold", 1)
			if !r.ok && r.ctxE == nil {
				run.Violation("longhold", i, fmt.Sprintf("%s on a key that was held for %s: the caller's context was still alive (ctx.Err()=nil) but it did not get the key (acquired/ran=%v, Run error=%v)", r.kind, hold, r.ok, r.err), nil)
			}
		case <-time.After(30 * time.Second):
			run.Violation("longhold", i, fmt.Sprintf("a waiter of a key held for %s did not return within 30 s after the release", hold), nil)
			return
		}
	}
	if n := early.Load(); n != 0 {
		run.Violation("longhold", 9, fmt.Sprintf("%d waiters entered while the key was still held", n), nil)
	}
	if l := m.VerifLen(); l != 0 {
		run.Violation("longhold", 10, fmt.Sprintf("nobody holds or awaits a lock, but the map retains %d entries", l), nil)
	}
	run.Case(common.Hash64("longhold"), true)
}

package main

import (
	"encoding/json"
	"fmt"
	"sort"
	"strconv"
	"strings"
	"sync"
	"sync/atomic"
	"time"

	"github.com/anishathalye/porcupine"
	"github.com/fullstorydev/emulators/storage/gcsemu"

	"verif/common"
	"verif/gcs/drive"
	"verif/gcs/model"
)

func init() { register("C07", "exploration", runC07) }

// Sequential model of one object. Generations are identified by the unique id of the content write that created
// them (every write carries unique content), so the model needs no concrete generation numbers.
type c07State struct {
	Exists bool
	W      string // id of the content write that produced the current generation
	Meta   int64  // metageneration
	Tag    string // user metadata as "key=value;" pairs sorted by key (each client patches its own key: merges must keep the others)
}

type c07In struct {
	Kind  string // WRITE (upload / compose / copy), APPEND (compose [self, suffix]), PATCH, DELETE, READMETA, READMEDIA
	Id    string // WRITE: write id;  PATCH: tag
	Cond  string // "", "absent", "gen"    (gen: the generation created by write CondW)
	CondW string
	CondM int64 // PATCH: ifMetagenerationMatch (0 = none)
	Via   string
}

type c07Out struct {
	Class  string // "ok", "precond" (412/304), "notfound" (404), "other:<status>"
	Exists bool
	W      string
	Meta   int64
	Tag    string
}

func (i c07In) String() string {
	s := i.Kind
	if i.Via != "" {
		s += "/" + i.Via
	}
	if i.Id != "" {
		s += "(" + i.Id + ")"
	}
	switch i.Cond {
	case "absent":
		s += " ifGenerationMatch=0"
	case "gen":
		s += " ifGenerationMatch=gen-of(" + i.CondW + ")"
	}
	if i.CondM != 0 {
		s += fmt.Sprintf(" ifMetagenerationMatch=%d", i.CondM)
	}
	return s
}

func c07CondHolds(s c07State, in c07In) bool {
	switch in.Cond {
	case "absent":
		if s.Exists {
			return false
		}
	case "gen":
		if !s.Exists || s.W != in.CondW {
			return false
		}
	}
	if in.CondM != 0 && (!s.Exists || s.Meta != in.CondM) {
		return false
	}
	return true
}

var c07Model = porcupine.Model{
	Init: func() interface{} { return c07State{} },
	Step: func(state, input, output interface{}) (bool, interface{}) {
		s := state.(c07State)
		in := input.(c07In)
		out := output.(c07Out)
		switch in.Kind {
		case "WRITE":
			if c07CondHolds(s, in) {
				return out.Class == "ok", c07State{Exists: true, W: in.Id, Meta: 1}
			}
			return out.Class == "precond", s
		case "APPEND":
			// compose [this object, a static suffix] onto this object, optionally conditioned on the generation of the
			// object as a SOURCE: the new content is the current content plus the suffix - the read of the source and
			// the write of the destination are one step
			if !s.Exists {
				return out.Class == "notfound" || out.Class == "precond", s
			}
			if c07CondHolds(s, in) {
				return out.Class == "ok", c07State{Exists: true, W: s.W + "+" + in.Id, Meta: 1}
			}
			return out.Class == "precond", s
		case "PATCH":
			if !s.Exists {
				return out.Class == "notfound" || out.Class == "precond", s
			}
			if c07CondHolds(s, in) {
				s.Meta++
				s.Tag = c07MergeTag(s.Tag, in.Via, in.Id)
				return out.Class == "ok" && (out.Meta == -1 || out.Meta == s.Meta), s // -1: the response was overtaken by a later write
			}
			return out.Class == "precond", s
		case "DELETE":
			if !s.Exists {
				return out.Class == "notfound" || out.Class == "precond", s
			}
			if c07CondHolds(s, in) {
				return out.Class == "ok", c07State{}
			}
			return out.Class == "precond", s
		case "READMETA":
			if !s.Exists {
				return out.Class == "notfound", s
			}
			return out.Class == "ok" && out.W == s.W && out.Meta == s.Meta && out.Tag == s.Tag, s
		case "READMEDIA":
			if !s.Exists {
				return out.Class == "notfound", s
			}
			return out.Class == "ok" && out.W == s.W && out.Meta == s.Meta, s
		}
		return false, s
	},
	DescribeOperation: func(input, output interface{}) string { return fmt.Sprintf("%v -> %+v", input, output) },
}

// c07MergeTag sets key=value in the canonical metadata string.
func c07MergeTag(tag, key, value string) string {
	m := map[string]string{}
	for _, kv := range strings.Split(tag, ";") {
		if k, v, ok := strings.Cut(kv, "="); ok {
			m[k] = v
		}
	}
	m[key] = value
	return c07CanonMeta(m)
}

func c07CanonMeta(m map[string]string) string {
	keys := make([]string, 0, len(m))
	for k := range m {
		keys = append(keys, k)
	}
	sort.Strings(keys)
	out := ""
	for _, k := range keys {
		out += k + "=" + m[k] + ";"
	}
	return out
}

func c07Class(r *drive.Resp) string {
	switch {
	case r.Err != "":
		return "other:transport " + r.Err
	case r.Status >= 200 && r.Status < 300:
		return "ok"
	case r.Status == 412 || r.Status == 304:
		return "precond"
	case r.Status == 404:
		return "notfound"
	}
	return fmt.Sprintf("other:%d", r.Status)
}

type c07Op struct {
	client int
	obj    int
	in     c07In
	out    c07Out
	call   int64
	ret    int64
}

func runC07(run *common.Run) {
	run.Rule = "case = one history of 3-6 HTTP client goroutines x 5-8 operations on 2 object names of one bucket (in every second history of each store both under one '/'-prefix, i.e. in one directory of the file store; memory store and file store): unconditional uploads with unique content (media; multipart whose metadata JSON carries name, name + bucket, or name with the name also as query parameter; resumable in one chunk with name or name + bucket), uploads conditioned on non-existence or on a generation the client learned earlier, metageneration-conditioned patches each merging a unique value under the patching client's own metadata key (a patch must keep the other keys), conditioned deletes, compose into and copy onto the contended name from per-operation static sources, self-append composes (the contended object is its own first source, optionally conditioned on its generation as a source) (copy sources in the same or in a second bucket), metadata GETs and media GETs; recorded at the HTTP client boundary with a logical clock, with bounded holds at the handlers' check-then-act yield points (*.afterCheck, copy.locked) and between the file store's two writes (fs.add.*). Oracle: porcupine per object against a sequential object model in which a generation is identified by the unique write that created it; plus monitors: one generation number never shows two contents and one write never shows two generations; among writers conditioned on the same state at most one succeeds (follows from the model, counted). Part 'fresh': six clients upload six different objects (conditioned on non-existence) into a bucket that does not exist yet while a seventh creates it; every acknowledged upload must afterwards be served with the generation it was told. Non-trivial = history with at least two overlapping operations on one object and at least one conditioned write that lost; distinct by history. Two PATCH requests in three send back the WHOLE resource the client last received for the object (metadata GET, upload or PATCH response - possibly stale, possibly of an earlier incarnation) with only its own metadata key set: the output-only members (generation, metageneration, ...) of the body must not matter, the model says metageneration = stored + 1; every fourth history is metadata-heavy (about a third of its operations patches, a quarter metadata reads)."
	run.Assumptions = []string{"porcupine v1.3.0", "an upload's own JSON response is used only to learn the generation when it reports the uploader's own MD5 (the handler reads it back after releasing the object lock)", "holds are bounded sleeps, never a verdict"}
	var hits sync.Map
	var holds, seq int64
	gcsemu.VerifSetHandler(func(point, key string) {
		v, _ := hits.LoadOrStore(point, new(int64))
		atomic.AddInt64(v.(*int64), 1)
		n := atomic.AddInt64(&seq, 1)
		if common.Hash64("c07", fmt.Sprint(run.Seed), fmt.Sprint(n))%3 == 0 {
			atomic.AddInt64(&holds, 1)
			time.Sleep(time.Duration(1+n%3) * time.Millisecond)
		}
	})
	defer gcsemu.VerifSetHandler(nil)
	if run.KnownOpen("KF18") {
		run.Canary("KF18", c07TornReadCanary)
	}
	nhist := run.N(250, 5000)
	j := common.NewJournal("C07")
	common.Parallel(nhist, 6, func(i int) {
		if !run.Want("hist", i) || run.TooMany() {
			return
		}
		j.Begin(i%8, fmt.Sprintf("C07 hist case=%d", i))
		c07History(run, i, drive.Stores[i%2])
		j.End(i % 8)
	})
	if run.WantSub("fresh") && !run.TooMany() {
		c07FreshBuckets(run)
	}
	nhit := 0
	hits.Range(func(k, v any) bool {
		nhit++
		run.Count("hook_hits."+k.(string), atomic.LoadInt64(v.(*int64)))
		return true
	})
	run.Count("holds", atomic.LoadInt64(&holds))
	run.ScanRaceLogs("github.com/fullstorydev/emulators/storage")
	if run.Replay == nil && nhit == 0 {
		run.Blind("no handler yield point was ever reached although requests succeeded (built without -tags verif?)")
	}
	if run.Replay == nil && run.Counter("histories_with_overlap") == 0 {
		run.Blind("no history had two overlapping operations on one object")
	}
}

// c07FreshBuckets: the first writes to a bucket that does not exist yet (the stores create it on the fly), all at once:
// six clients upload six different objects conditioned on non-existence while a seventh creates the bucket explicitly.
// Every acknowledged upload must afterwards be served with the generation its answer reported, and be listed.
func c07FreshBuckets(run *common.Run) {
	iters := run.N(2000, 80000)
	for si, store := range drive.Stores {
		n := iters
		if store == "file" {
			n = iters / 8 // a directory per bucket
		}
		srv, err := drive.Start(store, "")
		if err != nil {
			run.Violation("fresh", si, "cannot start server: "+err.Error(), nil)
			return
		}
		const K = 6
		clients := make([]*drive.Client, K+1)
		for c := range clients {
			clients[c] = drive.NewClient(srv.Base)
		}
		type ack struct {
			name string
			gen  int64
		}
		for it := 0; it < n && !run.TooMany(); it++ {
			idx := si*1_000_000 + it
			if !run.Want("fresh", idx) {
				continue
			}
			b := fmt.Sprintf("fresh-%d-%d", run.Seed, it)
			start := make(chan struct{})
			acks := make([]ack, K)
			errs := make([]string, K)
			var wg sync.WaitGroup
			for c := 0; c < K; c++ {
				wg.Add(1)
				go func(c int) {
					defer wg.Done()
					<-start
					name := fmt.Sprintf("o%d", c)
					rsp := clients[c].UploadMedia(b, name, "text/plain", []byte("first write of "+name), false, [][2]string{{"ifGenerationMatch", "0"}})
					if rsp.OK() {
						if m, err := rsp.JSON(); err == nil {
							g, _ := drive.Int64Field(m, "generation")
							acks[c] = ack{name, g}
						}
					} else if rsp.Status != 404 { // a store may refuse uploads into a bucket that does not exist
						errs[c] = rsp.String()
					}
				}(c)
			}
			wg.Add(1)
			go func() {
				defer wg.Done()
				<-start
				clients[K].CreateBucket(b)
			}()
			close(start)
			wg.Wait()
			bad := ""
			nack := 0
			for c := 0; c < K && bad == ""; c++ {
				if errs[c] != "" {
					bad = "first upload into a fresh bucket failed: " + errs[c]
					break
				}
				if acks[c].name == "" {
					continue
				}
				nack++
				rsp := clients[c].GetMeta(b, acks[c].name)
				if !rsp.OK() {
					bad = fmt.Sprintf("upload of %s/%s was acknowledged with generation %d, but the object is not served afterwards: %s (the update was lost)", b, acks[c].name, acks[c].gen, rsp)
					break
				}
				if m, err := rsp.JSON(); err == nil {
					if g, _ := drive.Int64Field(m, "generation"); g != acks[c].gen {
						bad = fmt.Sprintf("upload of %s/%s was acknowledged with generation %d, but the object is served with generation %d although nobody else wrote it", b, acks[c].name, acks[c].gen, g)
					}
				}
			}
			if bad != "" {
				run.Violation("fresh", idx, bad+" (store "+store+")", map[string]any{"store": store, "bucket": b})
			}
			run.Case(common.Hash64("fresh", store, fmt.Sprint(it)), nack >= 2)
			run.Count("fresh_bucket_rounds", 1)
			run.Count("first_writes_acknowledged", int64(nack))
			if store == "file" {
				clients[K].Do("DELETE", "/storage/v1/b/"+b, nil, nil) // keep the scratch directory small
			}
		}
		for _, c := range clients {
			c.Close()
		}
		srv.Close()
	}
}

// c07Identify maps a served content to the write (or chain "base+app1+app2" of a base write and self-appends) that
// produced it; "" if it is the content of no write.
func c07Identify(idOfContent map[string]string, body string) string {
	if w := idOfContent[body]; w != "" {
		return w
	}
	i := strings.Index(body, "+app:")
	if i < 0 || !strings.HasSuffix(body, "|") {
		return ""
	}
	w := idOfContent[body[:i]]
	if w == "" {
		return ""
	}
	for _, seg := range strings.Split(strings.TrimSuffix(body[i:], "|"), "|") {
		if !strings.HasPrefix(seg, "+app:") {
			return ""
		}
		w += "+" + strings.TrimPrefix(seg, "+app:")
	}
	return w
}

const sharedHead, sharedHeadBody = "statichead", "shared head|"

func c07History(run *common.Run, idx int, store string) {
	r := run.Rand("C07.hist", idx)
	srv, err := drive.Start(store, "")
	if err != nil {
		run.Violation("hist", idx, "cannot start server: "+err.Error(), nil)
		return
	}
	defer srv.Close()
	const B, B2 = "b", "srcbucket" // B2 only holds sources of cross-bucket copies
	if rsp := srv.Client.CreateBucket(B); !rsp.OK() {
		run.Violation("hist", idx, "CreateBucket failed: "+rsp.String(), nil)
		return
	}
	if rsp := srv.Client.CreateBucket(B2); !rsp.OK() {
		run.Violation("hist", idx, "CreateBucket failed: "+rsp.String(), nil)
		return
	}
	names := []string{"obj/one", "two.txt"}
	if (idx/2)%2 == 1 {
		// both objects in one "directory": what a store keeps per directory (scratch files, locks) is shared by them
		names = []string{"obj/one", "obj/two.txt"}
		run.Count("histories_with_both_objects_in_one_directory", 1)
	}
	noReads := store == "file" && run.KnownOpen("KF18")
	nclients := r.Range(3, 6)
	// content registry: write id <-> content (unique), md5 -> write id
	var regMu sync.Mutex
	contentOf := map[string]string{}
	idOfMD5 := map[string]string{}
	idOfContent := map[string]string{}
	register := func(id, content string) {
		regMu.Lock()
		contentOf[id] = content
		idOfMD5[model.MD5b64([]byte(content))] = id
		idOfContent[content] = id
		regMu.Unlock()
	}
	// static sources for compose / copy: one pair per planned operation, uploaded before the concurrent phase
	type scripted struct {
		obj  int
		in   c07In
		srcs []string // compose/copy sources
		srcB string   // bucket of the copy source (the contended bucket or a second one)
		full bool     // PATCH: send back the whole resource this client last read for the object (read-modify-write), own tag set
		// WRITE via upload: the protocol and the shape of its metadata JSON - media; multipart with {name}, {name, bucket},
		// {name} plus name as query parameter; resumable (one chunk) with {name} or {name, bucket}
		proto string
	}
	uploadProtos := []string{"media", "media", "mp-name", "mp-name", "mp-name-bucket", "mp-name-query", "res-name", "res-name-bucket"}
	// every fourth history is metadata-heavy: about a third of its operations are patches, a quarter metadata reads
	metaHeavy := idx%4 == 3
	scripts := make([][]scripted, nclients)
	nstatic := 0
	for c := range scripts {
		n := r.Range(5, 8)
		for k := 0; k < n; k++ {
			obj := r.Intn(2)
			id := fmt.Sprintf("w%d.%d", c, k)
			var sc scripted
			x := r.Intn(20)
			if metaHeavy && r.Bool() {
				x = common.Pick(r, []int{11, 11, 11, 14, 14})
			}
			switch {
			case x < 5:
				sc = scripted{obj: obj, in: c07In{Kind: "WRITE", Id: id, Via: "upload", Cond: common.Pick(r, []string{"", "", "absent", "gen", "gen"})}, proto: common.Pick(r, uploadProtos)}
				register(id, "content of "+id+"|")
			case x < 7:
				a, b := fmt.Sprintf("static%d", nstatic), fmt.Sprintf("static%d", nstatic+1)
				nstatic += 2
				sc = scripted{obj: obj, in: c07In{Kind: "WRITE", Id: id, Via: "compose", Cond: common.Pick(r, []string{"", "absent", "gen"})}, srcs: []string{a, b}}
				if r.Bool() {
					// every second compose starts from one source object shared by all such composes of the history
					sc.srcs[0] = sharedHead
					register(id, sharedHeadBody+"src "+b+" for "+id+"|")
				} else {
					register(id, "src "+a+" for "+id+"|"+"src "+b+" for "+id+"|")
				}
			case x < 9:
				a := fmt.Sprintf("static%d", nstatic)
				nstatic++
				sc = scripted{obj: obj, in: c07In{Kind: "WRITE", Id: id, Via: "copy"}, srcs: []string{a}, srcB: common.Pick(r, []string{B, B2})}
				register(id, "src "+a+" for "+id+"|")
			case x == 9 || x == 10:
				a := fmt.Sprintf("static%d", nstatic)
				nstatic++
				sc = scripted{obj: obj, in: c07In{Kind: "APPEND", Id: id, Cond: common.Pick(r, []string{"", "gen", "gen"})}, srcs: []string{a}}
			case x < 12:
				sc = scripted{obj: obj, in: c07In{Kind: "PATCH", Id: "tag-" + id, Via: fmt.Sprintf("k%d", c%3), Cond: common.Pick(r, []string{"", "gen"}), CondM: int64(r.Intn(2))}} // CondM 1 = use the last metageneration learned; Via = the metadata key this client writes
				sc.full = r.Chance(2, 3)
			case x < 14:
				sc = scripted{obj: obj, in: c07In{Kind: "DELETE", Cond: common.Pick(r, []string{"", "gen", "gen"})}}
			case x < 17:
				sc = scripted{obj: obj, in: c07In{Kind: "READMETA"}}
			default:
				sc = scripted{obj: obj, in: c07In{Kind: "READMEDIA"}}
			}
			if noReads && strings.HasPrefix(sc.in.Kind, "READ") {
				sc = scripted{obj: obj, in: c07In{Kind: "WRITE", Id: id, Via: "upload", Cond: common.Pick(r, []string{"", "absent"})}, proto: common.Pick(r, uploadProtos)}
				register(id, "content of "+id+"|")
			}
			scripts[c] = append(scripts[c], sc)
		}
	}
	for c := range scripts {
		for _, sc := range scripts[c] {
			for _, src := range sc.srcs {
				body := "src " + src + " for " + sc.in.Id + "|"
				if src == sharedHead {
					body = sharedHeadBody
				}
				if sc.in.Kind == "APPEND" {
					body = "+app:" + sc.in.Id + "|"
				}
				sb := B
				if sc.srcB != "" {
					sb = sc.srcB
				}
				if rsp := srv.Client.UploadMedia(sb, src, "text/plain", []byte(body), false, nil); !rsp.OK() {
					run.Violation("hist", idx, "static source upload failed: "+rsp.String(), nil)
					return
				}
			}
		}
	}
	var clock common.LogicalClock
	var mu sync.Mutex
	var ops []c07Op
	var genMu sync.Mutex
	genToW := map[int64]string{} // generation number -> write id (must be a function in both directions)
	wToGen := map[string]int64{}
	var monitorMsg atomic.Value
	learn := func(gen int64, w string) {
		if gen == 0 || w == "" {
			return
		}
		genMu.Lock()
		defer genMu.Unlock()
		if prev, ok := genToW[gen]; ok && prev != w {
			monitorMsg.Store(fmt.Sprintf("generation %d was reported with the content of write %s and of write %s", gen, prev, w))
		}
		if prev, ok := wToGen[w]; ok && prev != gen {
			monitorMsg.Store(fmt.Sprintf("the object written by %s was reported with generation %d and with generation %d", w, prev, gen))
		}
		genToW[gen], wToGen[w] = w, gen
	}
	var wg sync.WaitGroup
	for c := 0; c < nclients; c++ {
		wg.Add(1)
		go func(c int) {
			defer wg.Done()
			cl := drive.NewClient(srv.Base)
			defer cl.Close()
			// what this client last learned about each object
			type known struct {
				gen  int64
				w    string
				meta int64
			}
			var kn [2]known
			// the resource this client last got from a metadata GET of each object (possibly stale, possibly of an earlier
			// incarnation): a read-modify-write client sends it back whole in its PATCH
			var lastRes [2]map[string]any
			for _, sc := range scripts[c] {
				in := sc.in
				name := names[sc.obj]
				var q [][2]string
				switch in.Cond {
				case "absent":
					q = append(q, [2]string{"ifGenerationMatch", "0"})
				case "gen":
					if kn[sc.obj].gen == 0 {
						in.Cond = "" // nothing learned yet: send it unconditioned
					} else {
						in.CondW = kn[sc.obj].w
						q = append(q, [2]string{"ifGenerationMatch", strconv.FormatInt(kn[sc.obj].gen, 10)})
					}
				}
				if in.Kind == "PATCH" {
					if in.CondM == 1 && kn[sc.obj].meta != 0 {
						in.CondM = kn[sc.obj].meta
						q = append(q, [2]string{"ifMetagenerationMatch", strconv.FormatInt(in.CondM, 10)})
					} else {
						in.CondM = 0
					}
				}
				var out c07Out
				call := clock.Tick()
				switch {
				case in.Kind == "WRITE" && in.Via == "upload":
					var rsp *drive.Resp
					content := []byte(contentOf[in.Id])
					metaJSON := func(withBucket bool) []byte {
						m := map[string]any{"name": name, "contentType": "text/plain"}
						if withBucket {
							m["bucket"] = B
						}
						raw, _ := json.Marshal(m)
						return raw
					}
					switch sc.proto {
					case "mp-name", "mp-name-bucket":
						rsp = cl.UploadMultipart(B, metaJSON(sc.proto == "mp-name-bucket"), "text/plain", content, "c07-bound", false, q)
					case "mp-name-query":
						rsp = cl.UploadMultipart(B, metaJSON(false), "text/plain", content, "c07-bound", false, append([][2]string{{"name", name}}, q...))
					case "res-name", "res-name-bucket":
						var id string
						rsp, id, _ = cl.ResumableInit(B, metaJSON(sc.proto == "res-name-bucket"), q, "")
						if rsp.OK() && id != "" {
							rsp = cl.ResumableChunk("PUT", drive.SessionTarget(B, id), fmt.Sprintf("bytes 0-%d/%d", len(content)-1, len(content)), content)
						}
					default:
						rsp = cl.UploadMedia(B, name, "text/plain", content, false, q)
					}
					run.Count("uploads_"+sc.proto, 1)
					out.Class = c07Class(rsp)
					if rsp.OK() {
						if m, err := rsp.JSON(); err == nil && drive.StrField(m, "md5Hash") == model.MD5b64([]byte(contentOf[in.Id])) {
							g, _ := drive.Int64Field(m, "generation")
							mg, _ := drive.Int64Field(m, "metageneration")
							learn(g, in.Id)
							kn[sc.obj] = known{g, in.Id, mg}
							lastRes[sc.obj] = m
						}
					}
				case in.Kind == "WRITE" && in.Via == "compose":
					body, _ := json.Marshal(map[string]any{"sourceObjects": []map[string]string{{"name": sc.srcs[0]}, {"name": sc.srcs[1]}}, "destination": map[string]string{"contentType": "text/plain"}})
					rsp := cl.Compose(B, name, body, q)
					out.Class = c07Class(rsp)
				case in.Kind == "WRITE" && in.Via == "copy":
					rsp := cl.Rewrite(sc.srcB, sc.srcs[0], B, name)
					if sc.srcB != B {
						run.Count("cross_bucket_copies", 1)
					}
					out.Class = c07Class(rsp)
				case in.Kind == "APPEND":
					self := map[string]any{"name": name}
					if in.Cond == "gen" {
						self["objectPreconditions"] = map[string]any{"ifGenerationMatch": strconv.FormatInt(kn[sc.obj].gen, 10)}
					}
					body, _ := json.Marshal(map[string]any{"sourceObjects": []map[string]any{self, {"name": sc.srcs[0]}}, "destination": map[string]string{"contentType": "text/plain"}})
					rsp := cl.Compose(B, name, body, nil)
					out.Class = c07Class(rsp)
					run.Count("self_append_composes", 1)
				case in.Kind == "PATCH":
					doc := map[string]any{}
					var sentMeta int64
					if sc.full && lastRes[sc.obj] != nil {
						// the whole resource as read earlier; its output-only members (generation, metageneration, size, md5Hash,
						// links, timestamps) are not the client's to set: the object model says metageneration = stored one + 1
						doc = cloneResource(lastRes[sc.obj])
						sentMeta, _ = drive.Int64Field(doc, "metageneration")
						run.Count("patches_sending_back_a_full_resource", 1)
					}
					doc["metadata"] = map[string]string{in.Via: in.Id}
					body, _ := json.Marshal(doc)
					rsp := cl.Patch(B, name, body, q)
					out.Class = c07Class(rsp)
					if rsp.OK() {
						if m, err := rsp.JSON(); err == nil {
							lastRes[sc.obj] = m
							// the handler reads the metadata back after releasing the lock: only trust it if it still shows this tag
							if md, _ := m["metadata"].(map[string]any); md != nil && md[in.Via] == in.Id {
								out.Meta, _ = drive.Int64Field(m, "metageneration")
								kn[sc.obj].meta = out.Meta
								if sentMeta != 0 && out.Meta != sentMeta+1 {
									run.Count("full_resource_patches_whose_body_carried_a_stale_metageneration", 1)
								}
							} else {
								out.Meta = -1 // decided below: unknown
							}
						}
					}
				case in.Kind == "DELETE":
					rsp := cl.Delete(B, name, q)
					out.Class = c07Class(rsp)
					if rsp.OK() {
						kn[sc.obj] = known{}
					}
				case in.Kind == "READMETA":
					rsp := cl.GetMeta(B, name)
					out.Class = c07Class(rsp)
					if rsp.OK() {
						m, err := rsp.JSON()
						if err != nil {
							out.Class = "other:unparsable metadata"
							break
						}
						out.Exists = true
						regMu.Lock()
						out.W = idOfMD5[drive.StrField(m, "md5Hash")]
						regMu.Unlock()
						if out.W == "" {
							// composite objects carry no md5: identify them by size is not possible; fetch nothing, mark unknown
							out.W = "?"
						}
						out.Meta, _ = drive.Int64Field(m, "metageneration")
						if md, _ := m["metadata"].(map[string]any); md != nil {
							mm := map[string]string{}
							for k, v := range md {
								mm[k], _ = v.(string)
							}
							out.Tag = c07CanonMeta(mm)
						}
						lastRes[sc.obj] = m
						g, _ := drive.Int64Field(m, "generation")
						if out.W != "?" {
							learn(g, out.W)
							kn[sc.obj] = known{g, out.W, out.Meta}
						}
					}
				case in.Kind == "READMEDIA":
					rsp := cl.GetMedia(0, B, name)
					out.Class = c07Class(rsp)
					if rsp.OK() {
						out.Exists = true
						regMu.Lock()
						out.W = c07Identify(idOfContent, string(rsp.Body))
						regMu.Unlock()
						if out.W == "" {
							out.Class = "other:content is not the content of any single write: " + clipS(string(rsp.Body))
						}
						g, _ := strconv.ParseInt(rsp.Header.Get("X-Goog-Generation"), 10, 64)
						out.Meta, _ = strconv.ParseInt(rsp.Header.Get("X-Goog-Metageneration"), 10, 64)
						learn(g, out.W)
						kn[sc.obj] = known{g, out.W, out.Meta}
					}
				}
				ret := clock.Tick()
				mu.Lock()
				ops = append(ops, c07Op{client: c, obj: sc.obj, in: in, out: out, call: call, ret: ret})
				mu.Unlock()
			}
		}(c)
	}
	wg.Wait()
	// closing reads (quiescent): metadata + media of each object
	for obj, name := range names {
		call := clock.Tick()
		rsp := srv.Client.GetMedia(0, B, name)
		out := c07Out{Class: c07Class(rsp)}
		if rsp.OK() {
			out.Exists = true
			out.W = c07Identify(idOfContent, string(rsp.Body))
			out.Meta, _ = strconv.ParseInt(rsp.Header.Get("X-Goog-Metageneration"), 10, 64)
			if out.W == "" {
				out.Class = "other:final content is not the content of any single write: " + clipS(string(rsp.Body))
			}
		}
		ops = append(ops, c07Op{client: nclients, obj: obj, in: c07In{Kind: "READMEDIA"}, out: out, call: call, ret: clock.Tick()})
	}
	run.Count("operations", int64(len(ops)))
	if m, _ := monitorMsg.Load().(string); m != "" {
		run.Violation("hist", idx, m+" (store "+store+")", map[string]any{"store": store})
		return
	}
	overlap, lost := false, false
	var hist []string
	for obj := range names {
		var pops []porcupine.Operation
		var rowOps []c07Op
		for _, o := range ops {
			if o.obj == obj {
				rowOps = append(rowOps, o)
			}
		}
		for i := range rowOps {
			for k := i + 1; k < len(rowOps); k++ {
				if rowOps[i].client != rowOps[k].client && rowOps[i].call < rowOps[k].ret && rowOps[k].call < rowOps[i].ret {
					overlap = true
				}
			}
		}
		for _, o := range rowOps {
			hist = append(hist, fmt.Sprintf("obj%d c%d [%d,%d] %v -> %+v", obj, o.client, o.call, o.ret, o.in, o.out))
			if strings.HasPrefix(o.out.Class, "other:") {
				run.Violation("hist", idx, fmt.Sprintf("unexpected response to %v: %s (store %s)", o.in, o.out.Class, store), map[string]any{"store": store, "history": hist})
				return
			}
			if o.in.Kind == "WRITE" && o.in.Cond != "" && o.out.Class == "precond" {
				lost = true
			}
			if o.in.Kind == "READMETA" && o.out.W == "?" {
				continue // composite object without md5: identity unknown, not checked through this read
			}
			pops = append(pops, porcupine.Operation{ClientId: o.client, Input: o.in, Output: o.out, Call: o.call, Return: o.ret})
		}
		res, _ := porcupine.CheckOperationsVerbose(c07Model, pops, 60*time.Second)
		run.Count("porcupine_partitions_checked", 1)
		switch res {
		case porcupine.Unknown:
			run.Inconclusive("porcupine timeout")
		case porcupine.Illegal:
			run.Violation("hist", idx, fmt.Sprintf("history of object %q is not serialisable (store %s, %d operations)", names[obj], store, len(pops)), map[string]any{"store": store, "history": hist})
			return
		}
	}
	if overlap {
		run.Count("histories_with_overlap", 1)
	}
	if lost {
		run.Count("histories_with_a_losing_conditioned_write", 1)
	}
	run.Case(common.Hash64(fmt.Sprint(hist)), overlap && lost)
	if idx < 2 {
		run.Sample(map[string]any{"store": store, "history": hist[:min(len(hist), 12)]})
	}
}

// c07TornReadCanary: fixed reproducer of known finding KF18 (file store: a GET between the two file writes of an
// overwrite sees new bytes with old metadata).
func c07TornReadCanary() (bool, string) {
	srv, err := drive.Start("file", "")
	if err != nil {
		return false, err.Error()
	}
	defer srv.Close()
	srv.Client.CreateBucket("b")
	old, neu := "old-content-AAAA", "new-content-BBBBBBBB"
	srv.Client.UploadMedia("b", "o", "text/plain", []byte(old), false, nil)
	release := make(chan struct{})
	reached := make(chan struct{}, 1)
	gcsemu.VerifSetHandler(func(point, key string) {
		if point == "fs.add.afterContent" && key == "b/o" {
			select {
			case reached <- struct{}{}:
				<-release
			default:
			}
		}
	})
	done := make(chan struct{})
	go func() {
		drive.NewClient(srv.Base).UploadMedia("b", "o", "application/x-new", []byte(neu), false, nil)
		close(done)
	}()
	var desc string
	bad := false
	select {
	case <-reached:
		media := srv.Client.GetMedia(0, "b", "o")
		meta := srv.Client.GetMeta("b", "o")
		m, _ := meta.JSON()
		if string(media.Body) == neu && drive.StrField(m, "md5Hash") == model.MD5b64([]byte(old)) {
			bad = true
			desc = "while the overwrite was between its two file writes, media GET returned the new bytes and metadata GET still the old MD5/content type"
		} else {
			desc = fmt.Sprintf("media=%q md5=%s", clipS(string(media.Body)), drive.StrField(m, "md5Hash"))
		}
	case <-time.After(20 * time.Second):
		desc = "yield point fs.add.afterContent not reached"
	}
	close(release)
	<-done
	return bad, desc
}

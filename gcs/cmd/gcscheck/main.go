// gcscheck: runtime-monitoring checks for the GCS emulator and the lock map. One sub-command per property.
package main

import (
	"fmt"
	"os"

	"verif/common"
	"verif/gcs/drive"
)

type checkDef struct {
	level string
	fn    func(*common.Run)
}

var checks = map[string]checkDef{}

// register is called from the init() of each cNN.go file.
func register(id, level string, fn func(*common.Run)) { checks[id] = checkDef{level, fn} }

// children maps a child-process mode name to its entry point (e.g. the emulator host used by the fuzzing check).
var children = map[string]func(args []string){}

func main() {
	if len(os.Args) < 2 {
		fmt.Fprintln(os.Stderr, "usage: gcscheck <ID> <quick|thorough|--replay file> | gcscheck child <mode> ...")
		os.Exit(3)
	}
	if os.Args[1] == "child" && len(os.Args) >= 3 {
		if fn, ok := children[os.Args[2]]; ok {
			fn(os.Args[3:])
			return
		}
		fmt.Fprintln(os.Stderr, "unknown child mode", os.Args[2])
		os.Exit(3)
	}
	c, ok := checks[os.Args[1]]
	if !ok {
		fmt.Fprintln(os.Stderr, "unknown check", os.Args[1])
		os.Exit(3)
	}
	run := common.NewRun(os.Args[1], c.level, os.Args[2:])
	if os.Args[1] != "C20G" && os.Args[1] != "C19" {
		// (C20G runs the emulator in child processes and judges unanswered requests itself - being answered is its property)
		drive.OnUnanswered = func(desc string, period int) bool { return hangConfirm(run, desc, period) }
	}
	c.fn(run)
	run.Finish()
}

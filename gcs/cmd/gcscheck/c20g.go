package main

import (
	"bufio"
	"bytes"
	"encoding/json"
	"fmt"
	"io"
	"mime"
	"mime/multipart"
	"net"
	"net/http"
	"os"
	osexec "os/exec"
	"path/filepath"
	"strings"
	"sync"
	"syscall"
	"time"

	"github.com/fullstorydev/emulators/storage/gcsemu"

	"verif/common"
	"verif/gcs/drive"
)

func init() {
	register("C20G", "exploration", runC20G)
	children["server"] = c20gChildServer
}

// ---- child: emulator host ----------------------------------------------------------------------------------------

func c20gChildServer(args []string) {
	kind, dir := args[0], args[1]
	if dir == "-" {
		dir = ""
	}
	var opts gcsemu.Options
	if kind == "file" {
		opts.Store = gcsemu.NewFileStore(dir)
	} else {
		opts.Store = gcsemu.NewMemStore()
	}
	srv, err := gcsemu.NewServer("127.0.0.1:0", opts)
	if err != nil {
		fmt.Fprintln(os.Stderr, "start:", err)
		os.Exit(3)
	}
	fmt.Println("ADDR " + srv.Addr)
	// serve until the parent goes away
	_, _ = io.Copy(io.Discard, os.Stdin)
	os.Exit(0)
}

type c20gChild struct {
	cmd     *osexec.Cmd
	stdin   io.WriteCloser
	errPath string
	base    string
	addr    string
	done    chan error
	cl      *drive.Client
	kind    string
	errSeen int64 // bytes of stderr already examined
	retries int64
}

func c20gStart(tag, kind, scratch string) (*c20gChild, string) {
	self, _ := os.Executable()
	dir := "-"
	if kind == "file" {
		dir = filepath.Join(scratch, fmt.Sprintf("%s-%d", tag, time.Now().UnixNano()))
		_ = os.MkdirAll(dir, 0o777)
	}
	errPath := filepath.Join(common.Root(), ".build", fmt.Sprintf("child-gcs-%s-%d-%d.err", tag, os.Getpid(), time.Now().UnixNano()))
	ef, err := os.Create(errPath)
	if err != nil {
		return nil, err.Error()
	}
	cmd := osexec.Command(self, "child", "server", kind, dir)
	cmd.Stderr = ef
	in, _ := cmd.StdinPipe()
	out, _ := cmd.StdoutPipe()
	cmd.SysProcAttr = &syscall.SysProcAttr{Pdeathsig: syscall.SIGKILL}
	if err := cmd.Start(); err != nil {
		ef.Close()
		return nil, err.Error()
	}
	ef.Close()
	c := &c20gChild{cmd: cmd, stdin: in, errPath: errPath, done: make(chan error, 1), kind: kind}
	lineCh := make(chan string, 1)
	go func() {
		l, _ := bufio.NewReader(out).ReadString('\n')
		lineCh <- strings.TrimSpace(l)
		_, _ = io.Copy(io.Discard, out)
	}()
	go func() { c.done <- cmd.Wait() }()
	select {
	case l := <-lineCh:
		if !strings.HasPrefix(l, "ADDR ") {
			c.stop()
			return nil, "child did not come up: " + l
		}
		c.addr = strings.TrimPrefix(l, "ADDR ")
		c.base = "http://" + c.addr
	case <-time.After(60 * time.Second):
		c.stop()
		return nil, "child did not come up within 60 s"
	}
	c.cl = drive.NewClient(c.base)
	return c, ""
}

func (c *c20gChild) stop() {
	if c.cl != nil {
		c.cl.Close()
	}
	_ = c.cmd.Process.Kill()
	select {
	case <-c.done:
	case <-time.After(10 * time.Second):
	}
	_ = os.Remove(c.errPath)
}

func (c *c20gChild) alive() bool {
	select {
	case err := <-c.done:
		c.done <- err
		return false
	default:
		return true
	}
}

// newPanics returns panic / fatal text that appeared on the child's stderr since the last call.
func (c *c20gChild) newPanics() string {
	f, err := os.Open(c.errPath)
	if err != nil {
		return ""
	}
	defer f.Close()
	if _, err := f.Seek(c.errSeen, 0); err != nil {
		return ""
	}
	buf, _ := io.ReadAll(f)
	c.errSeen += int64(len(buf))
	s := string(buf)
	for _, marker := range []string{"http: panic serving", "panic:", "fatal error:"} {
		if i := strings.Index(s, marker); i >= 0 {
			end := i + 1500
			if end > len(s) {
				end = len(s)
			}
			return s[i:end]
		}
	}
	return ""
}

// ---- request model -------------------------------------------------------------------------------------------------

type c20gReq struct {
	Method string
	Target string // path + query, already escaped (or deliberately broken)
	Hdr    [][2]string
	Body   []byte
	Raw    []byte // non-nil: these bytes are written to a raw TCP connection instead
}

func (q c20gReq) String() string {
	if q.Raw != nil {
		return fmt.Sprintf("RAW %q", clipN(string(q.Raw), 600))
	}
	return fmt.Sprintf("%s %s hdr=%v body=%q", q.Method, q.Target, q.Hdr, clipN(string(q.Body), 400))
}

func clipN(s string, n int) string {
	if len(s) > n {
		return s[:n] + "..."
	}
	return s
}

const c20gB = "fzb"

// c20gTemplates returns valid requests for every endpoint (against the fixture bucket/objects).
func c20gTemplates(r *common.Rand, uploadID string) []c20gReq {
	js := [2]string{"Content-Type", "application/json"}
	mp := drive.MultipartBody("BOUND", []byte(`{"name":"mp.txt","contentType":"text/plain"}`), "text/plain", []byte("multipart-data"))
	comp, _ := json.Marshal(map[string]any{"sourceObjects": []map[string]any{{"name": "a.txt"}, {"name": "dir/b.txt", "objectPreconditions": map[string]any{"ifGenerationMatch": 0}}}, "destination": map[string]any{"contentType": "text/plain"}})
	return []c20gReq{
		{Method: "POST", Target: "/storage/v1/b", Hdr: [][2]string{js}, Body: []byte(`{"name":"fzb2"}`)},
		{Method: "GET", Target: "/storage/v1/b/" + c20gB},
		{Method: "POST", Target: "/upload/storage/v1/b/" + c20gB + "/o?uploadType=media&name=m.txt&ifGenerationMatch=0", Hdr: [][2]string{{"Content-Type", "text/plain"}}, Body: []byte("media-data")},
		{Method: "POST", Target: "/upload/storage/v1/b/" + c20gB + "/o?uploadType=multipart", Hdr: [][2]string{{"Content-Type", "multipart/related; boundary=BOUND"}}, Body: mp},
		{Method: "POST", Target: "/upload/storage/v1/b/" + c20gB + "/o?uploadType=resumable&ifMetagenerationMatch=1", Hdr: [][2]string{js}, Body: []byte(`{"name":"res.bin","md5Hash":"1B2M2Y8AsgTpgAmY7PhCfg=="}`)},
		{Method: "PUT", Target: "/upload/storage/v1/b/" + c20gB + "/o?uploadType=resumable&upload_id=" + uploadID, Hdr: [][2]string{{"Content-Range", "bytes 0-4/10"}}, Body: []byte("01234")},
		{Method: "POST", Target: "/upload/storage/v1/b/" + c20gB + "/o?uploadType=resumable&upload_id=" + uploadID, Hdr: [][2]string{{"Content-Range", "bytes */*"}}},
		{Method: "GET", Target: "/storage/v1/b/" + c20gB + "/o/a.txt"},
		{Method: "GET", Target: "/storage/v1/b/" + c20gB + "/o/dir%2Fb.txt?alt=media"},
		{Method: "GET", Target: "/download/storage/v1/b/" + c20gB + "/o/a.txt?alt=media"},
		{Method: "GET", Target: "/" + c20gB + "/dir/b.txt"},
		{Method: "GET", Target: "/storage/v1/b/" + c20gB + "/o/gz.bin?alt=media"},
		{Method: "GET", Target: "/storage/v1/b/" + c20gB + "/o/gz.bin?alt=media", Hdr: [][2]string{{"Accept-Encoding", "gzip"}}},
		{Method: "GET", Target: "/storage/v1/b/" + c20gB + "/o?prefix=d&delimiter=%2F&maxResults=2"},
		{Method: "GET", Target: "/storage/v1/b/" + c20gB + "/o?pageToken=" + "CgVhLnR4dA%3D%3D"},
		{Method: "PATCH", Target: "/storage/v1/b/" + c20gB + "/o/a.txt?ifMetagenerationNotMatch=77", Hdr: [][2]string{js}, Body: []byte(`{"metadata":{"k":"v"},"contentType":"text/x"}`)},
		{Method: "DELETE", Target: "/storage/v1/b/" + c20gB + "/o/tmp.txt?ifGenerationNotMatch=5"},
		{Method: "POST", Target: "/storage/v1/b/" + c20gB + "/o/composed.txt/compose?ifGenerationMatch=0", Hdr: [][2]string{js}, Body: comp},
		{Method: "POST", Target: "/storage/v1/b/" + c20gB + "/o/a.txt/rewriteTo/b/" + c20gB + "/o/copy%2Fof-a.txt", Hdr: [][2]string{js}, Body: []byte("{}")},
		{Method: "DELETE", Target: "/storage/v1/b/fzb2"},
	}
}

// numeric junk: values between ~1e6 and 2^62 are deliberately absent (a defect that allocates by such a number would
// exhaust the sandbox's memory instead of being observed); the extremes are there.
var c20gJunk = []string{"", "-1", "0", "99999999999999999999", "9223372036854775807", "4611686018427387904", "9223372036854775808", "65536", "abc", "1e9", "%00", "null", "true", "1.5", "-9223372036854775808", "%205", "5%20", "0x10"} // (raw spaces would break the request line itself: that is left to the byte-level part)

func c20gMutateQuery(r *common.Rand, target string) string {
	path, query, _ := strings.Cut(target, "?")
	var params []string
	if query != "" {
		params = strings.Split(query, "&")
	}
	switch r.Intn(7) {
	case 0: // drop a parameter
		if len(params) > 0 {
			i := r.Intn(len(params))
			params = append(params[:i], params[i+1:]...)
		}
	case 1: // duplicate a parameter with another value
		if len(params) > 0 {
			k, _, _ := strings.Cut(common.Pick(r, params), "=")
			params = append(params, k+"="+common.Pick(r, c20gJunk))
		}
	case 2: // replace a value with junk
		if len(params) > 0 {
			i := r.Intn(len(params))
			k, _, _ := strings.Cut(params[i], "=")
			params[i] = k + "=" + common.Pick(r, c20gJunk)
		}
	case 3: // add a hostile known parameter
		params = append(params, common.Pick(r, []string{"ifGenerationMatch", "ifGenerationNotMatch", "ifMetagenerationMatch", "ifMetagenerationNotMatch", "maxResults", "pageToken", "upload_id", "uploadType", "name", "alt", "prefix", "delimiter"})+"="+common.Pick(r, c20gJunk))
	case 4: // break the path: drop / duplicate / truncate segments
		segs := strings.Split(path, "/")
		switch r.Intn(4) {
		case 0:
			if len(segs) > 2 {
				i := 1 + r.Intn(len(segs)-1)
				segs = append(segs[:i], segs[i+1:]...)
			}
		case 1:
			segs = segs[:1+r.Intn(len(segs))]
		case 2:
			i := r.Intn(len(segs))
			segs = append(segs[:i], append([]string{segs[i]}, segs[i:]...)...)
		default:
			segs = append(segs, common.Pick(r, []string{"compose", "rewriteTo", "rewriteTo/b", "rewriteTo/b/x", "rewriteTo/b/x/o", "o", "b", "%2F", "..", "%00", ""}))
		}
		path = strings.Join(segs, "/")
	case 5: // malformed escapes in the query
		params = append(params, common.Pick(r, []string{"%zz=1", "a=%", "=%%", "&&&", "a=b=c", ";x=1"}))
	default:
		path += common.Pick(r, []string{"/", "//", "/compose", "/rewriteTo/", "/rewriteTo/b/", "/o/", "%ff", "?"})
	}
	if len(params) == 0 {
		return path
	}
	return path + "?" + strings.Join(params, "&")
}

func c20gMutateBody(r *common.Rand, q *c20gReq) {
	switch r.Intn(9) {
	case 0: // truncate at a random boundary
		if len(q.Body) > 0 {
			q.Body = q.Body[:r.Intn(len(q.Body))]
		}
	case 1: // JSON type confusion
		q.Body = []byte(common.Pick(r, []string{"null", "[]", "5", `"str"`, "{}", `{"name":null}`, `{"name":5}`, `{"sourceObjects":null}`, `{"sourceObjects":[null]}`, `{"sourceObjects":[{"name":"a.txt","objectPreconditions":null}],"destination":null}`, `{"sourceObjects":[{}]}`, `{"destination":{"name":5}}`, `{"metadata":null}`, `{"metadata":{"a":null}}`, `{"metadata":5}`, `{"size":"x"}`, `{"generation":"x"}`, `{"name":"` + strings.Repeat("n", 5000) + `"}`, `{`, `{"a":`, "\x00\x01"}))
	case 2: // multipart damage
		q.Hdr = setHdr(q.Hdr, "Content-Type", common.Pick(r, []string{"multipart/related", "multipart/related; boundary=", "multipart/related; boundary=OTHER", "multipart/mixed; boundary=BOUND", "text/plain", "", "multipart/related; boundary=\"", "garbage/;;;"}))
	case 3:
		q.Body = []byte("--BOUND\r\nContent-Type: application/json\r\n\r\n{\"name\":\"one-part\"}\r\n--BOUND--\r\n")
	case 4:
		q.Body = []byte("--BOUND\r\nContent-Type: application/json\r\n\r\n{\"name\":\"unterminated\"}\r\n--BOUND\r\n\r\ndata without end")
	case 5: // Content-Range garbage
		q.Hdr = setHdr(q.Hdr, "Content-Range", common.Pick(r, []string{"", "bytes", "bytes 5-1/10", "bytes -1--5/3", "bytes 0-99999999999/*", "bytes */-5", "bytes 0-4/3", "bytes 9-13/20", "chars 0-4/10", "bytes 0-4", "bytes a-b/c", "bytes 0-4/10/20", "bytes */99999999999999999999"}))
	case 6: // gzip header with a body that is not gzip
		q.Hdr = setHdr(q.Hdr, "Content-Encoding", "gzip")
	case 7: // hostile proxy headers used for link building
		q.Hdr = append(q.Hdr, [2]string{common.Pick(r, []string{"X-Forwarded-Host", "Forwarded", "Authority", "X-Forwarded-Proto"}), common.Pick(r, []string{",", "host=", "host=\"", "a,b,c", "~", "https", strings.Repeat("h", 3000)})})
	default:
		q.Body = r.Bytes(r.Intn(200))
	}
}

func setHdr(h [][2]string, k, v string) [][2]string {
	out := [][2]string{}
	for _, x := range h {
		if !strings.EqualFold(x[0], k) {
			out = append(out, x)
		}
	}
	return append(out, [2]string{k, v})
}

// c20gBatch builds a batch request of n parts (read-only or state-neutral inner requests, some malformed).
func c20gBatch(r *common.Rand) (c20gReq, []c20gReq) {
	inner := []c20gReq{
		{Method: "GET", Target: "/storage/v1/b/" + c20gB + "/o/a.txt"},
		{Method: "GET", Target: "/storage/v1/b/" + c20gB + "/o/missing.txt"},
		{Method: "GET", Target: "/storage/v1/b/" + c20gB + "/o?prefix=d"},
		{Method: "DELETE", Target: "/storage/v1/b/" + c20gB + "/o/never-there.txt"},
		{Method: "PATCH", Target: "/storage/v1/b/" + c20gB + "/o/missing.txt", Hdr: [][2]string{{"Content-Type", "application/json"}}, Body: []byte(`{"contentType":"x/y"}`)},
		{Method: "GET", Target: "/storage/v1/b/nobucket/o"},
		{Method: "GET", Target: "/storage/v1/b/" + c20gB + "/o/a.txt?ifGenerationMatch=junk"},
		{Method: "POST", Target: "/storage/v1/b/" + c20gB + "/o/x/compose", Hdr: [][2]string{{"Content-Type", "application/json"}}, Body: []byte(`{"sourceObjects":[{"name":"missing"}],"destination":{}}`)},
		{Method: "FOO", Target: "/storage/v1/b/" + c20gB + "/o/a.txt"},
		{Method: "GET", Target: "/storage/v1/b/" + c20gB + "/o/a.txt?alt=weird"},
	}
	n := r.Intn(6)
	var parts []c20gReq
	var buf bytes.Buffer
	for i := 0; i < n; i++ {
		p := common.Pick(r, inner)
		parts = append(parts, p)
		fmt.Fprintf(&buf, "--BATCH\r\nContent-Type: application/http\r\nContent-ID: <item%d>\r\n\r\n", i)
		fmt.Fprintf(&buf, "%s %s HTTP/1.1\r\n", p.Method, p.Target)
		for _, h := range p.Hdr {
			fmt.Fprintf(&buf, "%s: %s\r\n", h[0], h[1])
		}
		if len(p.Body) > 0 {
			fmt.Fprintf(&buf, "Content-Length: %d\r\n", len(p.Body))
		}
		buf.WriteString("\r\n")
		buf.Write(p.Body)
		buf.WriteString("\r\n")
	}
	buf.WriteString("--BATCH--\r\n")
	return c20gReq{Method: "POST", Target: "/batch/storage/v1", Hdr: [][2]string{{"Content-Type", "multipart/mixed; boundary=BATCH"}}, Body: buf.Bytes()}, parts
}

func c20gBadBatch(r *common.Rand) c20gReq {
	b, _ := c20gBatch(r)
	switch r.Intn(6) {
	case 0:
		b.Hdr = nil
	case 1:
		b.Hdr = [][2]string{{"Content-Type", "multipart/mixed"}}
	case 2:
		if len(b.Body) > 0 {
			b.Body = b.Body[:r.Intn(len(b.Body))]
		}
	case 3:
		b.Body = bytes.ReplaceAll(b.Body, []byte("application/http"), []byte("text/plain"))
	case 4:
		b.Body = bytes.ReplaceAll(b.Body, []byte(" HTTP/1.1"), []byte(""))
	default:
		b.Body = []byte("--BATCH\r\nContent-Type: application/http\r\n\r\nGARBAGE\r\n--BATCH--\r\n")
	}
	return b
}

// ---- sending and checking --------------------------------------------------------------------------------------------

type c20gResp struct {
	status int
	hdr    http.Header
	body   []byte
	err    string
}

func (c *c20gChild) send(q c20gReq) c20gResp {
	if q.Raw != nil {
		return c.sendRaw(q.Raw)
	}
	if !strings.HasPrefix(q.Target, "/") {
		q.Target = "/" + q.Target
	}
	rsp := c.cl.Do(q.Method, q.Target, q.Hdr, q.Body)
	if strings.HasPrefix(rsp.Err, "bad request:") {
		// the client library itself refuses to build this request (e.g. an escape its URL parser rejects): nothing was sent
		return c20gResp{status: -1}
	}
	for try := 0; try < 3 && rsp.Err != "" && c.alive(); try++ {
		// A connection can be reset under the client by the HTTP stack itself (the server answers a request whose body
		// is still in flight and closes; a keep-alive connection dies for reasons of an earlier exchange). Only a failure
		// that repeats on fresh connections is attributed to the emulator's handling of this request.
		c.cl.Close()
		c.retries++
		time.Sleep(time.Duration(5*(try+1)) * time.Millisecond)
		rsp = c.cl.Do(q.Method, q.Target, q.Hdr, q.Body)
	}
	out := c20gResp{status: rsp.Status, hdr: rsp.Header, body: rsp.Body, err: rsp.Err}
	if rsp.Err != "" && c.alive() {
		// diagnostic: the same request over a raw connection, reading whatever arrives
		var buf bytes.Buffer
		fmt.Fprintf(&buf, "%s %s HTTP/1.1\r\nHost: %s\r\n", q.Method, q.Target, c.addr)
		for _, h := range q.Hdr {
			fmt.Fprintf(&buf, "%s: %s\r\n", h[0], h[1])
		}
		fmt.Fprintf(&buf, "Content-Length: %d\r\nConnection: close\r\n\r\n", len(q.Body))
		buf.Write(q.Body)
		if conn, err := net.DialTimeout("tcp", c.addr, 5*time.Second); err == nil {
			_ = conn.SetDeadline(time.Now().Add(10 * time.Second))
			_, werr := conn.Write(buf.Bytes())
			got, rerr := io.ReadAll(conn)
			conn.Close()
			out.err += fmt.Sprintf(" [raw retry: write err=%v, read %d bytes, read err=%v, head=%q]", werr, len(got), rerr, clipN(string(got), 300))
		}
	}
	return out
}

// sendRaw writes bytes to a fresh TCP connection, half-closes, and reads whatever comes back.
func (c *c20gChild) sendRaw(raw []byte) c20gResp {
	conn, err := net.DialTimeout("tcp", c.addr, 10*time.Second)
	if err != nil {
		return c20gResp{err: "dial: " + err.Error()}
	}
	defer conn.Close()
	_ = conn.SetDeadline(time.Now().Add(20 * time.Second))
	if _, err := conn.Write(raw); err != nil {
		return c20gResp{err: "write: " + err.Error()}
	}
	if tc, ok := conn.(*net.TCPConn); ok {
		_ = tc.CloseWrite()
	}
	rd := bufio.NewReader(conn)
	rsp, err := http.ReadResponse(rd, nil)
	if err != nil {
		// a connection closed without a response is acceptable for bytes that are not an HTTP request
		if ne, ok := err.(net.Error); ok && ne.Timeout() {
			return c20gResp{err: "timeout: no response and no close within 20 s after the request bytes ended"}
		}
		return c20gResp{status: -1}
	}
	defer rsp.Body.Close()
	body, _ := io.ReadAll(rsp.Body)
	return c20gResp{status: rsp.StatusCode, hdr: rsp.Header, body: body}
}

// c20gWellFormed checks the response shape rules of the statement.
func c20gWellFormed(q c20gReq, rsp c20gResp) string {
	if rsp.err != "" {
		return "no complete HTTP response: " + rsp.err
	}
	if rsp.status == -1 {
		return "" // raw bytes that were not answered (connection closed): not an HTTP exchange
	}
	ct := rsp.hdr.Get("Content-Type")
	if strings.HasPrefix(ct, "application/json") && len(bytes.TrimSpace(rsp.body)) > 0 {
		var v any
		if err := json.Unmarshal(rsp.body, &v); err != nil {
			return fmt.Sprintf("Content-Type %q but the body is not JSON: %q", ct, clipN(string(rsp.body), 200))
		}
		if rsp.status >= 400 {
			m, _ := v.(map[string]any)
			e, _ := m["error"].(map[string]any)
			if e == nil {
				return fmt.Sprintf("status %d with a JSON body that is not an error envelope: %q", rsp.status, clipN(string(rsp.body), 200))
			}
			if code, ok := e["code"].(float64); !ok || int(code) != rsp.status {
				return fmt.Sprintf("error envelope code %v does not equal the HTTP status %d", e["code"], rsp.status)
			}
			if _, ok := e["message"].(string); !ok {
				return "error envelope without message"
			}
		}
	}
	if rsp.status >= 200 && rsp.status < 300 && strings.HasPrefix(ct, "application/json") && len(bytes.TrimSpace(rsp.body)) == 0 {
		return "2xx JSON response with an empty body"
	}
	return ""
}

// c20gCheckBatch: one sub-response per part, each equal (status + body) to the same request sent on its own.
func (c *c20gChild) c20gCheckBatch(rsp c20gResp, parts []c20gReq) string {
	if rsp.status != 200 {
		return fmt.Sprintf("well-formed batch answered %d: %s", rsp.status, clipN(string(rsp.body), 200))
	}
	_, params, err := mime.ParseMediaType(rsp.hdr.Get("Content-Type"))
	if err != nil || params["boundary"] == "" {
		return "batch response without a multipart boundary: " + rsp.hdr.Get("Content-Type")
	}
	mr := multipart.NewReader(bytes.NewReader(rsp.body), params["boundary"])
	i := 0
	for {
		p, err := mr.NextPart()
		if err == io.EOF {
			break
		}
		if err != nil {
			return "batch response body is not valid multipart: " + err.Error()
		}
		if i >= len(parts) {
			return fmt.Sprintf("batch response has more than the %d parts sent", len(parts))
		}
		sub, err := http.ReadResponse(bufio.NewReader(p), nil)
		if err != nil {
			return fmt.Sprintf("batch sub-response %d is not an HTTP response: %v", i, err)
		}
		body, _ := io.ReadAll(sub.Body)
		if want := fmt.Sprintf("<response-item%d>", i); p.Header.Get("Content-ID") != want {
			return fmt.Sprintf("batch sub-response %d has Content-ID %q, want %q", i, p.Header.Get("Content-ID"), want)
		}
		alone := c.send(parts[i])
		if alone.status != sub.StatusCode || !bytes.Equal(bytes.TrimSpace(alone.body), bytes.TrimSpace(body)) {
			return fmt.Sprintf("batch sub-response %d for %s differs from the same request sent alone: batch %d %q vs alone %d %q", i, parts[i], sub.StatusCode, clipN(string(body), 200), alone.status, clipN(string(alone.body), 200))
		}
		i++
	}
	if i != len(parts) {
		return fmt.Sprintf("batch of %d parts answered with %d sub-responses", len(parts), i)
	}
	return ""
}

// fixture: bucket with a few objects, incl. one whose metadata says gzip but whose bytes are not.
func (c *c20gChild) fixture() string {
	if rsp := c.cl.CreateBucket(c20gB); !rsp.OK() {
		return "fixture bucket: " + rsp.String()
	}
	// the probe object lives in its own bucket, which no template (and so no mutated path) names
	if rsp := c.cl.CreateBucket("probe-bucket"); !rsp.OK() {
		return "probe bucket: " + rsp.String()
	}
	if rsp := c.cl.UploadMedia("probe-bucket", "probe.txt", "text/plain", []byte("probe-content"), false, nil); !rsp.OK() {
		return "probe object: " + rsp.String()
	}
	for name, body := range map[string]string{"a.txt": "content-a", "dir/b.txt": "content-b", "dir/c.txt": "content-c"} {
		if rsp := c.cl.UploadMedia(c20gB, name, "text/plain", []byte(body), false, nil); !rsp.OK() {
			return "fixture object: " + rsp.String()
		}
	}
	mp := drive.MultipartBody("FX", []byte(`{"name":"gz.bin","contentEncoding":"gzip","contentType":"application/octet-stream"}`), "application/octet-stream", []byte("these bytes are not gzip"))
	if rsp := c.cl.Do("POST", "/upload/storage/v1/b/"+c20gB+"/o?uploadType=multipart", [][2]string{{"Content-Type", "multipart/related; boundary=FX"}}, mp); !rsp.OK() {
		return "fixture gzip object: " + rsp.String()
	}
	return ""
}

func (c *c20gChild) probe(n int) string {
	rsp := c.cl.GetMedia(0, "probe-bucket", "probe.txt")
	if !rsp.OK() || string(rsp.Body) != "probe-content" {
		return "previously stored object no longer served intact: " + rsp.String()
	}
	name := fmt.Sprintf("probe-w%d.txt", n%5)
	if rsp := c.cl.UploadMedia("probe-bucket", name, "text/plain", []byte(fmt.Sprint("w", n)), false, nil); !rsp.OK() {
		return "valid upload after the case failed: " + rsp.String()
	}
	if rsp := c.cl.GetMedia(0, "probe-bucket", name); !rsp.OK() || string(rsp.Body) != fmt.Sprint("w", n) {
		return "valid upload after the case not readable: " + rsp.String()
	}
	return ""
}

func runC20G(run *common.Run) {
	run.Rule = "GCS half of C20, emulator in child processes built with the race detector (memory and file store). Part 'fuzz': case = one hostile HTTP request - a valid template of every endpoint (bucket create/get/delete, media / multipart / resumable upload incl. chunk PUT/POST and status query, metadata GET, media GET in three URL forms incl. an object whose metadata says gzip but whose bytes are not, list, patch, delete, compose with source preconditions, rewrite, batch) incl. object names that are not valid UTF-8 in every position of a request, perturbed structurally (parameters dropped / duplicated / junk / negative / huge, path segments dropped / duplicated / appended, bodies truncated, JSON type confusion incl. null sub-objects, multipart without boundary / one part / unterminated, Content-Range garbage, gzip header on non-gzip body, hostile proxy headers, unknown upload ids, damaged batch bodies) or at byte level on a raw TCP stream (bit flips, truncation, insertion, deletion incl. the HTTP framing) - followed by a probe (stored object intact, new upload + read succeed). Well-formed batches of 0-5 parts: one sub-response per part, each equal to the same request sent alone. Part 'members': complete enumeration of (carrier of an object resource: multipart metadata part, resumable start + completing chunk, PATCH body alone / after valid members, compose destination, rewrite body) x (every member of the object resource + an unknown one) x (junk of the right JSON type but wrong content: base64 of 0-5/15-17/33 bytes, invalid base64, empty, huge, numbers as strings incl. negative and beyond 64 bits, impossible timestamps; and of every wrong type incl. nested nulls), each followed by metadata GET, media GET and listing of the object named, all of which must be answered. Part 'mix': rounds of concurrent traffic (listing while deleting, same-name uploads/patches/deletes, bucket delete during uploads, concurrent chunks on one upload id, copies and composes in opposite directions over one pair of objects). Part 'stall': for every body-carrying endpoint a client sends the head and 0, 1, half or all-but-one bytes of the body and goes quiet; meanwhile eleven valid GETs of a second client (objects and bucket the stalled request names, listing) must be answered; then the body is completed and the stalled request must be answered too. Monitors: child exit, 'http: panic serving' / panic / fatal text on its stderr, race-detector reports with a frame in the emulator, a complete HTTP response, JSON bodies parse, error statuses produced by the emulator carry the {error:{code,message}} envelope with code == status, request hang (client watchdog 60 s), probe. Non-trivial = case answered with a 4xx/5xx (fuzz) / well-formed batch with >= 2 parts / mix round; distinct by case."
	run.Assumptions = []string{"net/http recovers handler panics per connection, so they are observed as 'http: panic serving' on the child's stderr plus a dropped connection", "raw byte streams that are not an HTTP request may be answered by closing the connection"}
	scratch, err := os.MkdirTemp("", "verif-c20g-")
	if err != nil {
		run.Violation("setup", 0, err.Error(), nil)
		return
	}
	defer os.RemoveAll(scratch)
	var early sync.WaitGroup
	if run.WantSub("sweep") {
		early.Add(1)
		go func() { defer early.Done(); c20gSweep(run, scratch) }()
	}
	if run.WantSub("members") {
		early.Add(1)
		go func() { defer early.Done(); c20gMembers(run, scratch) }()
	}
	early.Wait()
	if run.WantSub("fuzz") && !run.TooMany() {
		c20gFuzz(run, scratch)
	}
	if run.WantSub("mix") && !run.TooMany() {
		c20gMix(run, scratch)
	}
	if run.WantSub("stall") && !run.TooMany() {
		c20gStall(run, scratch)
	}
	run.ScanRaceLogs("github.com/fullstorydev/emulators/storage")
}

var c20gParams = []string{"ifGenerationMatch", "ifGenerationNotMatch", "ifMetagenerationMatch", "ifMetagenerationNotMatch", "maxResults", "pageToken", "upload_id", "uploadType", "name", "alt", "prefix", "delimiter"}

// c20gSweep: complete enumeration of (endpoint template x query parameter x junk value): the parameter is set to the
// junk value (replacing an existing one). Every request is followed by the panic / well-formedness monitors; the
// probe runs after each template's block.
func c20gSweep(run *common.Run, scratch string) {
	var wg sync.WaitGroup
	for ki, kind := range drive.Stores {
		wg.Add(1)
		go func(ki int, kind string) {
			defer wg.Done()
			ch, msg := c20gStart(fmt.Sprintf("sw%d", ki), kind, scratch)
			if ch == nil {
				run.Violation("sweep", ki, "cannot start child: "+msg, nil)
				return
			}
			defer func() { ch.stop() }()
			if m := ch.fixture(); m != "" {
				run.Violation("sweep", ki, m, nil)
				return
			}
			_, uploadID, _ := ch.cl.ResumableInit(c20gB, []byte(`{"name":"res-live.bin"}`), nil, "")
			tmpls := c20gTemplates(nil, uploadID)
			n := 0
			// names that are not valid UTF-8 (percent-encoded bytes 0xff, 0xc3 0x28, a lone 0x80): every upload
			// protocol, then listings whose page boundary falls on such a name, metadata GET, delete - each request
			// must get a well-formed answer (accepting or refusing the name), and nothing may panic
			for bi, raw := range []string{"%FFy", "%FFz", "%C3%28", "ok%80", "dir/%FF/x"} {
				reqs := []c20gReq{
					{Method: "POST", Target: "/upload/storage/v1/b/" + c20gB + "/o?uploadType=media&name=" + raw, Hdr: [][2]string{{"Content-Type", "text/plain"}}, Body: []byte("x")},
					{Method: "POST", Target: "/upload/storage/v1/b/" + c20gB + "/o?uploadType=resumable&name=" + raw + "r", Hdr: [][2]string{{"Content-Type", "application/json"}}, Body: []byte("{}")},
					{Method: "GET", Target: "/storage/v1/b/" + c20gB + "/o?maxResults=1&prefix=%FF"},
					{Method: "GET", Target: "/storage/v1/b/" + c20gB + "/o?maxResults=1"},
					{Method: "GET", Target: "/storage/v1/b/" + c20gB + "/o?maxResults=2&delimiter=/&prefix=" + raw[:3]},
					{Method: "GET", Target: "/storage/v1/b/" + c20gB + "/o/" + strings.ReplaceAll(raw, "/", "%2F")},
					{Method: "POST", Target: "/storage/v1/b/" + c20gB + "/o/a.txt/rewriteTo/b/" + c20gB + "/o/" + strings.ReplaceAll(raw, "/", "%2F") + "c", Hdr: [][2]string{{"Content-Type", "application/json"}}, Body: []byte("{}")},
					{Method: "GET", Target: "/storage/v1/b/" + c20gB + "/o?maxResults=1&prefix=" + raw[:3]},
				}
				for qi, q := range reqs {
					idx := 9_000_000 + (ki*10+bi)*10 + qi
					if !run.Want("sweep", idx) || run.TooMany() {
						continue
					}
					rsp := ch.send(q)
					n++
					bad := ""
					if !ch.alive() {
						bad = "the emulator process died: " + ch.newPanics()
					} else if p := ch.newPanics(); p != "" {
						bad = "handler panic: " + clipN(p, 900)
					} else if m := c20gWellFormed(q, rsp); m != "" {
						bad = m
					}
					if bad != "" {
						run.Violation("sweep", idx, bad+" | store="+kind+" case="+clipN(q.String(), 800), map[string]any{"store": kind, "case": q.String()})
					}
					run.Case(common.Hash64("sweep-utf8", kind, q.String()), rsp.status >= 400)
					run.Count("requests_with_names_that_are_not_utf8", 1)
				}
			}
			for ti, t := range tmpls {
				for pi, param := range c20gParams {
					for ji, junk := range c20gJunk {
						idx := ((ki*100+ti)*100+pi)*100 + ji
						if !run.Want("sweep", idx) || run.TooMany() {
							continue
						}
						q := t
						path, query, _ := strings.Cut(t.Target, "?")
						var params []string
						for _, p := range strings.Split(query, "&") {
							if p != "" && !strings.HasPrefix(p, param+"=") {
								params = append(params, p)
							}
						}
						params = append(params, param+"="+junk)
						q.Target = path + "?" + strings.Join(params, "&")
						rsp := ch.send(q)
						n++
						bad := ""
						if !ch.alive() {
							bad = "the emulator process died: " + ch.newPanics()
						} else if p := ch.newPanics(); p != "" {
							bad = "handler panic: " + clipN(p, 900)
						} else if m := c20gWellFormed(q, rsp); m != "" {
							bad = m
						}
						if bad != "" {
							run.Violation("sweep", idx, bad+" | store="+kind+" case="+clipN(q.String(), 800), map[string]any{"store": kind, "case": q.String()})
							ch.stop()
							ch, msg = c20gStart(fmt.Sprintf("sw%d", ki), kind, scratch)
							if ch == nil || ch.fixture() != "" {
								return
							}
						}
						run.Case(common.Hash64("sweep", kind, q.String()), rsp.status >= 400)
					}
				}
				if bad := ch.probe(ti); bad != "" {
					run.Violation("sweep", ki*100+ti, bad+" | store="+kind+" after the parameter sweep of "+t.Method+" "+t.Target, nil)
				}
			}
			run.Count("parameter_sweep_requests", int64(n))
		}(ki, kind)
	}
	wg.Wait()
}

// c20gObjectMembers: every member of the object resource (google.golang.org/api/storage/v1 Object), which is what the
// metadata part of an upload, a PATCH body, the destination of a compose and the body of a rewrite are decoded into.
var c20gObjectMembers = []string{"acl", "bucket", "cacheControl", "componentCount", "contentDisposition", "contentEncoding", "contentLanguage", "contentType", "crc32c", "customTime", "customerEncryption", "etag", "eventBasedHold", "generation", "hardDeleteTime", "id", "kind", "kmsKeyName", "md5Hash", "mediaLink", "metadata", "metageneration", "name", "owner", "restoreToken", "retention", "retentionExpirationTime", "selfLink", "size", "softDeleteTime", "storageClass", "temporaryHold", "timeCreated", "timeDeleted", "timeFinalized", "timeStorageClassUpdated", "updated", "noSuchMember"}

// c20gMemberJunk: raw JSON values. Strings of every content class a member can be parsed as (base64 of 0..5, 15..17
// and 33 bytes, invalid / unpadded / URL-safe base64, decimal numbers incl. negative / beyond 64 bits / non-numbers,
// timestamps valid and impossible, empty, control characters, path-like, huge), then values of every other JSON type
// incl. nested nulls. c20gMemberJunkMore is added at the thorough tier.
var c20gMemberJunk = []string{
	`""`, `"AA=="`, `"AAA="`, `"AAAA"`, `"AAAAAA=="`, `"AAAAAAA="`, `"AAAAAAAAAAAAAAAAAAAA"`, `"AAAAAAAAAAAAAAAAAAAAAA=="`, `"AAAAAAAAAAAAAAAAAAAAAAA="`, `"` + strings.Repeat("QUJD", 11) + `"`,
	`"A"`, `"===="`, `"!!!!"`, `"AAAAAA"`, `"____-w=="`,
	`"0"`, `"-1"`, `"9223372036854775807"`, `"9223372036854775808"`, `"-9223372036854775808"`, `"99999999999999999999999999"`, `"1e9"`, `" 5"`, `"abc"`,
	`"2020-01-01T00:00:00Z"`, `"0000-00-00T00:00:00Z"`, `"9999-12-31T23:59:60.999999999+99:99"`,
	`"\u0000"`, `"a\r\nb"`, `"../../x"`, `"gzip"`, `"` + strings.Repeat("h", 70000) + `"`,
	`null`, `true`, `0`, `5`, `-1`, `1.5`, `1e30`, `18446744073709551616`,
	`[]`, `[null]`, `[{}]`, `["x"]`, `[{"entity":null,"role":5}]`, `[null,{"entity":"e"}]`,
	`{}`, `{"a":null}`, `{"a":5}`, `{"a":{"b":"c"}}`, `{"entity":null,"entityId":5}`, `{"encryptionAlgorithm":null,"keySha256":5}`, `{"mode":null,"retainUntilTime":"x"}`,
}

var c20gMemberJunkMore = []string{
	`"/////w=="`, `"AA"`, `"AAA"`, `"AA==AA=="`, `"AAAA\n"`, `" AAAAAA=="`, `"1"`, `"10"`, `"18446744073709551616"`, `"1.5"`, `"0x10"`, `"+5"`, `"NaN"`, `"2020-01-01"`, `"T"`, `"\ud800"`, `"/"`,
	`false`, `-9223372036854775809`, `[[]]`, `[5]`, `[{"entity":"allUsers","role":"READER","projectTeam":null}]`, `{"":""}`, `{"a":["b"]}`, `{"entity":"e","entityId":"i"}`, `{"mode":"Locked","retainUntilTime":"2020-01-01T00:00:00Z"}`,
}

// c20gMembers: complete enumeration of (member of the object resource x junk value x carrier of an object resource).
// Carriers: the metadata part of a multipart upload, the metadata body of a resumable start followed - if a session
// was opened - by the chunk that completes it, a PATCH body (the junk after valid members; thorough tier also alone),
// the destination of a compose, the body of a rewrite. Every request must be answered (panic / process /
// well-formedness monitors); every object a 2xx-answered carrier named must afterwards still get an answer from
// metadata GET and media GET, and the bucket from a listing; the probe runs every 25 (member, junk) pairs.
func c20gMembers(run *common.Run, scratch string) {
	junks := c20gMemberJunk
	carriers := []int{0, 1, 3, 4, 5}
	if run.IsThorough() {
		junks = append(append([]string(nil), junks...), c20gMemberJunkMore...)
		carriers = []int{0, 1, 2, 3, 4, 5}
	}
	nsh := workers() / 2
	var wg sync.WaitGroup
	for ki, kind := range drive.Stores {
		for sh := 0; sh < nsh; sh++ {
			wg.Add(1)
			go func(ki int, kind string, sh int) {
				defer wg.Done()
				tag := fmt.Sprintf("mb%d-%d", ki, sh)
				var ch *c20gChild
				start := func() bool {
					var msg string
					ch, msg = c20gStart(tag, kind, scratch)
					if ch == nil {
						run.Violation("members", ki, "cannot start child: "+msg, nil)
						return false
					}
					if m := ch.fixture(); m != "" {
						run.Violation("members", ki, m, nil)
						return false
					}
					return true
				}
				js := [2]string{"Content-Type", "application/json"}
				n, pairs := 0, 0
				// monitored exchange; "" if the request was answered properly
				exchange := func(q c20gReq) (c20gResp, string) {
					rsp := ch.send(q)
					n++
					if !ch.alive() {
						return rsp, "the emulator process died: " + ch.newPanics()
					} else if p := ch.newPanics(); p != "" {
						return rsp, "handler panic: " + clipN(p, 900)
					}
					return rsp, c20gWellFormed(q, rsp)
				}
				for mi, member := range c20gObjectMembers {
					for ji, junk := range junks {
						if (mi*len(junks)+ji)%nsh != sh {
							continue
						}
						pairIdx := (ki*100+mi)*200 + ji
						if !run.Want("members", pairIdx) || run.TooMany() {
							continue
						}
						if ch == nil {
							if !start() {
								return
							}
							defer func() {
								if ch != nil {
									ch.stop()
								}
							}()
						}
						resource := func(valid string) []byte {
							if member == "name" || valid == "" {
								return []byte(`{"` + member + `":` + junk + `}`)
							}
							return []byte(`{` + valid + `,"` + member + `":` + junk + `}`)
						}
						bad := ""
						var at c20gReq
						var history []string
						var touched []string
						do := func(q c20gReq) c20gResp {
							at = q
							var rsp c20gResp
							rsp, bad = exchange(q)
							history = append(history, fmt.Sprintf("%s -> %d", clipN(q.String(), 300), rsp.status))
							return rsp
						}
						for _, carrier := range carriers {
							if bad != "" {
								break
							}
							// the object the request names (unless the junk replaces the name)
							target := fmt.Sprintf("mj%d.txt", carrier)
							var q c20gReq
							switch carrier {
							case 0:
								body := drive.MultipartBody("BOUND", resource(`"name":"`+target+`","contentType":"text/plain"`), "text/plain", []byte("multipart-data"))
								q = c20gReq{Method: "POST", Target: "/upload/storage/v1/b/" + c20gB + "/o?uploadType=multipart", Hdr: [][2]string{{"Content-Type", "multipart/related; boundary=BOUND"}}, Body: body}
							case 1:
								q = c20gReq{Method: "POST", Target: "/upload/storage/v1/b/" + c20gB + "/o?uploadType=resumable", Hdr: [][2]string{js}, Body: resource(`"name":"` + target + `"`)}
							case 2:
								target = "a.txt"
								q = c20gReq{Method: "PATCH", Target: "/storage/v1/b/" + c20gB + "/o/a.txt", Hdr: [][2]string{js}, Body: resource("")}
							case 3:
								target = "dir/c.txt"
								q = c20gReq{Method: "PATCH", Target: "/storage/v1/b/" + c20gB + "/o/dir%2Fc.txt", Hdr: [][2]string{js}, Body: resource(`"metadata":{"k":"v"},"contentType":"text/x"`)}
							case 4:
								body := []byte(`{"sourceObjects":[{"name":"a.txt"},{"name":"dir/b.txt"}],"destination":` + string(resource(`"contentType":"text/plain"`)) + `}`)
								q = c20gReq{Method: "POST", Target: "/storage/v1/b/" + c20gB + "/o/" + target + "/compose", Hdr: [][2]string{js}, Body: body}
							default:
								q = c20gReq{Method: "POST", Target: "/storage/v1/b/" + c20gB + "/o/dir%2Fb.txt/rewriteTo/b/" + c20gB + "/o/" + target, Hdr: [][2]string{js}, Body: resource(`"contentType":"text/plain"`)}
							}
							rsp := do(q)
							status := rsp.status
							if bad == "" && carrier == 1 && rsp.status >= 200 && rsp.status < 300 {
								// a session was opened with this metadata: complete it, the junk is used at completion
								loc := rsp.hdr.Get("Location")
								if i := strings.LastIndex(loc, "upload_id="); i >= 0 {
									rsp = do(c20gReq{Method: "PUT", Target: drive.SessionTarget(c20gB, loc[i+len("upload_id="):]), Hdr: [][2]string{{"Content-Range", "bytes 0-9/10"}}, Body: []byte("0123456789")})
									run.Count(fmt.Sprintf("member_junk.resumable_sessions_completed.%dxx", rsp.status/100), 1)
								}
							}
							if rsp.status >= 200 && rsp.status < 300 {
								touched = append(touched, target)
							}
							run.Case(common.Hash64("members", kind, member, junk, fmt.Sprint(carrier)), status >= 400)
							run.Count(fmt.Sprintf("member_junk.carrier%d.%dxx", carrier, status/100), 1)
						}
						for _, target := range touched {
							if bad == "" {
								do(c20gReq{Method: "GET", Target: "/storage/v1/b/" + c20gB + "/o/" + strings.ReplaceAll(target, "/", "%2F")})
							}
							if bad == "" {
								do(c20gReq{Method: "GET", Target: "/storage/v1/b/" + c20gB + "/o/" + strings.ReplaceAll(target, "/", "%2F") + "?alt=media"})
							}
						}
						if bad == "" && len(touched) > 0 {
							do(c20gReq{Method: "GET", Target: "/storage/v1/b/" + c20gB + "/o?maxResults=50"})
						}
						pairs++
						if bad == "" && pairs%25 == 0 {
							at = c20gReq{Method: "probe"}
							bad = ch.probe(pairs)
						}
						if bad != "" {
							run.Violation("members", pairIdx, bad+" | store="+kind+" member="+member+" junk="+clipN(junk, 80)+" failing request="+clipN(at.String(), 800), map[string]any{"store": kind, "member": member, "junk": clipN(junk, 200), "requests": history})
							ch.stop()
							if !start() {
								return
							}
						}
					}
				}
				run.Count("member_junk_requests", int64(n))
				run.Count("member_junk_pairs", int64(pairs))
			}(ki, kind, sh)
		}
	}
	wg.Wait()
}

func c20gFuzz(run *common.Run, scratch string) {
	total := run.N(4000, 200000)
	nshard := workers()
	per := (total + nshard - 1) / nshard
	var wg sync.WaitGroup
	for sh := 0; sh < nshard; sh++ {
		wg.Add(1)
		go func(sh int) {
			defer wg.Done()
			kind := drive.Stores[sh%2]
			var ch *c20gChild
			uploadID := "1"
			start := func() bool {
				var msg string
				ch, msg = c20gStart(fmt.Sprintf("fz%d", sh), kind, scratch)
				if ch == nil {
					run.Violation("fuzz", sh, "cannot start child: "+msg, nil)
					return false
				}
				if m := ch.fixture(); m != "" {
					run.Violation("fuzz", sh, m, nil)
					return false
				}
				_, uploadID, _ = ch.cl.ResumableInit(c20gB, []byte(`{"name":"res-live.bin"}`), nil, "")
				return true
			}
			if !start() {
				return
			}
			defer func() { ch.stop() }()
			journal := filepath.Join(common.Root(), ".build", fmt.Sprintf("journal-C20G-fz%d.txt", sh))
			defer func() { run.Count("transport_errors_retried_on_a_fresh_connection", ch.retries) }()
			for i := sh * per; i < (sh+1)*per && i < total; i++ {
				if !run.Want("fuzz", i) || run.TooMany() {
					continue
				}
				r := run.Rand("C20G.fuzz", i)
				tmpls := c20gTemplates(r, uploadID)
				var q c20gReq
				var batchParts []c20gReq
				switch k := r.Intn(20); {
				case k < 2:
					q, batchParts = c20gBatch(r)
				case k < 4:
					q = c20gBadBatch(r)
				case k < 8: // byte-level mutation of the raw request stream
					t := common.Pick(r, tmpls)
					var buf bytes.Buffer
					fmt.Fprintf(&buf, "%s %s HTTP/1.1\r\nHost: %s\r\n", t.Method, t.Target, ch.addr)
					for _, h := range t.Hdr {
						fmt.Fprintf(&buf, "%s: %s\r\n", h[0], h[1])
					}
					fmt.Fprintf(&buf, "Content-Length: %d\r\nConnection: close\r\n\r\n", len(t.Body))
					buf.Write(t.Body)
					raw := buf.Bytes()
					for m, nm := 0, r.Range(1, 4); m < nm && len(raw) > 0; m++ {
						switch r.Intn(4) {
						case 0:
							raw[r.Intn(len(raw))] ^= 1 << uint(r.Intn(8))
						case 1:
							raw = raw[:r.Intn(len(raw))]
						case 2:
							p := r.Intn(len(raw))
							raw = append(raw[:p], append(r.Bytes(r.Range(1, 5)), raw[p:]...)...)
						default:
							p := r.Intn(len(raw))
							e := p + r.Intn(len(raw)-p)
							raw = append(raw[:p], raw[e:]...)
						}
					}
					q = c20gReq{Raw: raw}
				default:
					q = common.Pick(r, tmpls)
					q.Hdr = append([][2]string(nil), q.Hdr...)
					q.Body = append([]byte(nil), q.Body...)
					for m, nm := 0, r.Range(1, 3); m < nm; m++ {
						if r.Bool() {
							q.Target = c20gMutateQuery(r, q.Target)
						} else {
							c20gMutateBody(r, &q)
						}
					}
					if r.Chance(1, 10) {
						q.Method = common.Pick(r, []string{"GET", "POST", "PUT", "PATCH", "DELETE", "HEAD", "OPTIONS", "FOO"})
					}
				}
				_ = os.WriteFile(journal, []byte(fmt.Sprintf("case %d store %s: %s\n", i, kind, q)), 0o666)
				rsp := ch.send(q)
				run.Count(fmt.Sprintf("fuzz_responses.%dxx", rsp.status/100), 1)
				bad := ""
				if !ch.alive() {
					bad = "the emulator process died: " + ch.newPanics()
				} else if p := ch.newPanics(); p != "" {
					bad = "handler panic: " + clipN(p, 900)
				} else if m := c20gWellFormed(q, rsp); m != "" {
					bad = m
				} else if batchParts != nil {
					bad = ch.c20gCheckBatch(rsp, batchParts)
					if len(batchParts) >= 2 {
						run.Count("well_formed_batches_with_2+_parts", 1)
					}
				}
				if bad == "" {
					bad = ch.probe(i)
					if p := ch.newPanics(); p != "" && bad == "" {
						bad = "handler panic during the probe: " + clipN(p, 900)
					}
				}
				if bad != "" {
					errTail, _ := os.ReadFile(ch.errPath)
					if len(errTail) > 3000 {
						errTail = errTail[len(errTail)-3000:]
					}
					run.Violation("fuzz", i, bad+" | store="+kind+" case="+clipN(q.String(), 1200), map[string]any{"store": kind, "case": q.String(), "child_stderr_tail": string(errTail)})
					ch.stop()
					if !start() {
						return
					}
				}
				run.Case(common.Hash64(q.String()), rsp.status >= 400 || len(batchParts) >= 2)
				if i%1300 == 3 {
					run.Sample(fmt.Sprintf("%s -> %d", clipN(q.String(), 300), rsp.status))
				}
			}
		}(sh)
	}
	wg.Wait()
}

// c20gStall: a client that sends the head of a request and only part of its body, and then goes quiet, must not keep
// other clients' requests from being answered. For every body-carrying endpoint: open a connection, send the head
// (with the full Content-Length) and the first k bytes of the body; while it is quiet, a second client sends valid
// requests for the objects and the bucket the stalled request names (metadata GET, media GET, listing, bucket GET);
// then the rest of the body is sent and the stalled request must be answered normally. A victim is "kept waiting" only
// if it got no answer within the watchdog while the other client was quiet AND is answered once that client resumed.
func c20gStall(run *common.Run, scratch string) {
	const watchdog = 25 * time.Second
	var wg sync.WaitGroup
	for ki, kind := range drive.Stores {
		wg.Add(1)
		go func(ki int, kind string) {
			defer wg.Done()
			ch, msg := c20gStart(fmt.Sprintf("st%d", ki), kind, scratch)
			if ch == nil {
				run.Violation("stall", ki, "cannot start child: "+msg, nil)
				return
			}
			defer func() { ch.stop() }()
			if m := ch.fixture(); m != "" {
				run.Violation("stall", ki, m, nil)
				return
			}
			_, uploadID, _ := ch.cl.ResumableInit(c20gB, []byte(`{"name":"res-live.bin"}`), nil, "")
			victims := []string{
				"/storage/v1/b/" + c20gB + "/o/a.txt",
				"/storage/v1/b/" + c20gB + "/o/a.txt?alt=media",
				"/storage/v1/b/" + c20gB + "/o/dir%2Fb.txt",
				"/storage/v1/b/" + c20gB + "/o/composed.txt",
				"/storage/v1/b/" + c20gB + "/o/copy%2Fof-a.txt",
				"/storage/v1/b/" + c20gB + "/o/m.txt",
				"/storage/v1/b/" + c20gB + "/o/mp.txt",
				"/storage/v1/b/" + c20gB + "/o/res-live.bin",
				"/storage/v1/b/" + c20gB + "/o",
				"/storage/v1/b/" + c20gB,
				"/storage/v1/b/fzb2",
			}
			ti := 0
			for _, t := range c20gTemplates(nil, uploadID) {
				if len(t.Body) < 2 {
					continue
				}
				for _, cut := range []int{0, 1, len(t.Body) / 2, len(t.Body) - 1} {
					idx := (ki*100+ti)*10 + cut%10
					ti++
					if !run.Want("stall", idx) || run.TooMany() {
						continue
					}
					desc := fmt.Sprintf("store=%s stalled request: %s %s after %d of %d body bytes", kind, t.Method, t.Target, cut, len(t.Body))
					conn, err := net.DialTimeout("tcp", ch.addr, 10*time.Second)
					if err != nil {
						run.Violation("stall", idx, "dial: "+err.Error(), nil)
						return
					}
					var head bytes.Buffer
					fmt.Fprintf(&head, "%s %s HTTP/1.1\r\nHost: %s\r\nContent-Length: %d\r\n", t.Method, t.Target, ch.addr, len(t.Body))
					for _, h := range t.Hdr {
						fmt.Fprintf(&head, "%s: %s\r\n", h[0], h[1])
					}
					head.WriteString("\r\n")
					head.Write(t.Body[:cut])
					_, _ = conn.Write(head.Bytes())
					time.Sleep(30 * time.Millisecond) // let the server start on the request; not a verdict
					type vres struct {
						target string
						status int
						err    error
					}
					resCh := make(chan vres, len(victims))
					for _, v := range victims {
						go func(v string) {
							hc := &http.Client{Timeout: watchdog, Transport: &http.Transport{DisableKeepAlives: true}}
							rsp, err := hc.Get("http://" + ch.addr + v)
							if err != nil {
								resCh <- vres{v, 0, err}
								return
							}
							_, _ = io.Copy(io.Discard, rsp.Body)
							rsp.Body.Close()
							resCh <- vres{v, rsp.StatusCode, nil}
						}(v)
					}
					var waiting []string
					for range victims {
						r := <-resCh
						if r.err != nil {
							waiting = append(waiting, r.target)
						}
					}
					// the quiet client resumes
					_, _ = conn.Write(t.Body[cut:])
					_ = conn.SetReadDeadline(time.Now().Add(watchdog))
					rsp, rerr := http.ReadResponse(bufio.NewReader(conn), nil)
					if rerr == nil {
						_, _ = io.Copy(io.Discard, rsp.Body)
						rsp.Body.Close()
					}
					conn.Close()
					bad := ""
					if len(waiting) > 0 {
						// were they merely slow, or really held up by the quiet client? ask again now that it is gone
						var still []string
						for _, v := range waiting {
							hc := &http.Client{Timeout: watchdog, Transport: &http.Transport{DisableKeepAlives: true}}
							r2, err := hc.Get("http://" + ch.addr + v)
							if err != nil {
								still = append(still, v)
								continue
							}
							r2.Body.Close()
						}
						if len(still) == 0 {
							bad = fmt.Sprintf("while one client was quiet in the middle of its request body, valid requests of another client got no answer within %s and were answered as soon as the first client went on: %v", watchdog, waiting)
						} else {
							bad = fmt.Sprintf("requests not answered within %s, also after the stalled client finished: %v", watchdog, still)
						}
					} else if rerr != nil {
						bad = "the stalled request itself was never answered after its body was completed: " + rerr.Error()
					}
					if !ch.alive() {
						bad = "the emulator process died: " + ch.newPanics()
					} else if p := ch.newPanics(); p != "" && bad == "" {
						bad = "handler panic: " + clipN(p, 900)
					}
					if bad == "" {
						bad = ch.probe(idx)
					}
					if bad != "" {
						run.Violation("stall", idx, bad+" | "+desc, map[string]any{"store": kind, "case": desc})
						ch.stop()
						ch, msg = c20gStart(fmt.Sprintf("st%d", ki), kind, scratch)
						if ch == nil || ch.fixture() != "" {
							return
						}
						_, uploadID, _ = ch.cl.ResumableInit(c20gB, []byte(`{"name":"res-live.bin"}`), nil, "")
					}
					run.Case(common.Hash64("stall", desc), true)
					run.Count("stalled_requests", 1)
					run.Count("victim_requests_answered_while_a_client_was_quiet", int64(len(victims)-len(waiting)))
				}
			}
		}(ki, kind)
	}
	wg.Wait()
}

func c20gMix(run *common.Run, scratch string) {
	rounds := run.N(60, 1500)
	var wg sync.WaitGroup
	for ki, kind := range drive.Stores {
		wg.Add(1)
		go func(ki int, kind string) {
			defer wg.Done()
			ch, msg := c20gStart(fmt.Sprintf("mix%d", ki), kind, scratch)
			if ch == nil {
				run.Violation("mix", ki, "cannot start child: "+msg, nil)
				return
			}
			defer func() { ch.stop() }()
			if m := ch.fixture(); m != "" {
				run.Violation("mix", ki, m, nil)
				return
			}
			for round := ki; round < rounds; round += 2 {
				if !run.Want("mix", round) || run.TooMany() {
					continue
				}
				bad := c20gMixRound(run, ch, round)
				if !ch.alive() {
					bad = "the emulator process died during a concurrent round: " + ch.newPanics()
				} else if p := ch.newPanics(); p != "" {
					bad = "handler panic during a concurrent round: " + clipN(p, 900)
				}
				if bad == "" {
					bad = ch.probe(round)
				}
				if bad != "" {
					run.Violation("mix", round, bad+" | store="+kind, map[string]any{"store": kind, "round": round})
					ch.stop()
					ch, msg = c20gStart(fmt.Sprintf("mix%d", ki), kind, scratch)
					if ch == nil || ch.fixture() != "" {
						return
					}
				}
				run.Case(common.Hash64("mix", kind, fmt.Sprint(round)), true)
				run.Count("mix_rounds", 1)
			}
		}(ki, kind)
	}
	wg.Wait()
}

func c20gMixRound(run *common.Run, ch *c20gChild, round int) string {
	var wg sync.WaitGroup
	stop := make(chan struct{})
	var badMu sync.Mutex
	bad := ""
	worker := func(fn func(cl *drive.Client, n int) *drive.Resp) {
		wg.Add(1)
		go func() {
			defer wg.Done()
			cl := drive.NewClient(ch.base)
			defer cl.Close()
			for n := 0; ; n++ {
				select {
				case <-stop:
					return
				default:
				}
				rsp := fn(cl, n)
				if rsp != nil && rsp.Err != "" && ch.alive() && !strings.Contains(rsp.Err, "EOF") && !strings.Contains(rsp.Err, "reset") {
					badMu.Lock()
					bad = "request failed at transport level: " + rsp.Err
					badMu.Unlock()
					return
				}
			}
		}()
	}
	mb := "mixb"
	ch.cl.CreateBucket(mb)
	switch round % 5 {
	case 4: // copies and composes in opposite directions over the same pair of objects (lock-order hazards)
		ch.cl.UploadMedia(mb, "x", "text/plain", []byte("xx"), false, nil)
		ch.cl.UploadMedia(mb, "y", "text/plain", []byte("yy"), false, nil)
		worker(func(cl *drive.Client, n int) *drive.Resp { return cl.Rewrite(mb, "x", mb, "y") })
		worker(func(cl *drive.Client, n int) *drive.Resp { return cl.Rewrite(mb, "y", mb, "x") })
		worker(func(cl *drive.Client, n int) *drive.Resp {
			return cl.Compose(mb, "x", []byte(`{"sourceObjects":[{"name":"x"},{"name":"y"}],"destination":{"contentType":"text/plain"}}`), nil)
		})
		worker(func(cl *drive.Client, n int) *drive.Resp {
			return cl.Compose(mb, "y", []byte(`{"sourceObjects":[{"name":"y"},{"name":"x"}],"destination":{"contentType":"text/plain"}}`), nil)
		})
		worker(func(cl *drive.Client, n int) *drive.Resp { return cl.Rewrite(mb, "x", mb, "x") })
		worker(func(cl *drive.Client, n int) *drive.Resp {
			// keep the objects small: composes double them
			if n%5 == 0 {
				cl.UploadMedia(mb, "x", "text/plain", []byte("xx"), false, nil)
				return cl.UploadMedia(mb, "y", "text/plain", []byte("yy"), false, nil)
			}
			return cl.GetMeta(mb, "y")
		})
	case 0: // listing while uploading and deleting
		worker(func(cl *drive.Client, n int) *drive.Resp {
			return cl.List(mb, [][2]string{{"delimiter", "/"}, {"maxResults", "3"}})
		})
		worker(func(cl *drive.Client, n int) *drive.Resp { return cl.List(mb, [][2]string{{"prefix", "d/"}}) })
		worker(func(cl *drive.Client, n int) *drive.Resp {
			return cl.UploadMedia(mb, fmt.Sprintf("d/%d/f%d.txt", n%3, n%7), "text/plain", []byte("x"), false, nil)
		})
		worker(func(cl *drive.Client, n int) *drive.Resp {
			return cl.Delete(mb, fmt.Sprintf("d/%d/f%d.txt", n%3, n%7), nil)
		})
	case 1: // same-name uploads, patches, deletes, reads
		worker(func(cl *drive.Client, n int) *drive.Resp {
			return cl.UploadMedia(mb, "same", "text/plain", []byte(fmt.Sprint("v", n)), false, nil)
		})
		worker(func(cl *drive.Client, n int) *drive.Resp {
			return cl.Patch(mb, "same", []byte(`{"metadata":{"k":"v"}}`), nil)
		})
		worker(func(cl *drive.Client, n int) *drive.Resp { return cl.Delete(mb, "same", nil) })
		worker(func(cl *drive.Client, n int) *drive.Resp { return cl.GetMedia(n%3, mb, "same") })
		worker(func(cl *drive.Client, n int) *drive.Resp { return cl.GetMeta(mb, "same") })
	case 2: // bucket delete during uploads; compose and copy
		worker(func(cl *drive.Client, n int) *drive.Resp {
			return cl.UploadMedia(mb, fmt.Sprint("u", n%4), "text/plain", []byte("x"), false, nil)
		})
		worker(func(cl *drive.Client, n int) *drive.Resp {
			r := cl.Do("DELETE", drive.BucketPath(mb), nil, nil)
			cl.CreateBucket(mb)
			return r
		})
		worker(func(cl *drive.Client, n int) *drive.Resp {
			return cl.Compose(mb, "comp", []byte(`{"sourceObjects":[{"name":"u0"},{"name":"u1"}],"destination":{"contentType":"text/plain"}}`), nil)
		})
		worker(func(cl *drive.Client, n int) *drive.Resp { return cl.Rewrite(mb, "u2", mb, "copy/of/u2") })
	default: // concurrent chunks on one upload id
		_, id, _ := ch.cl.ResumableInit(mb, []byte(`{"name":"shared-session.bin"}`), nil, "")
		target := drive.SessionTarget(mb, id)
		for w := 0; w < 4; w++ {
			worker(func(cl *drive.Client, n int) *drive.Resp {
				switch n % 3 {
				case 0:
					return cl.ResumableChunk("PUT", target, "bytes 0-4/*", []byte("01234"))
				case 1:
					return cl.ResumableChunk("PUT", target, "bytes 5-9/10", []byte("56789"))
				default:
					return cl.ResumableChunk("PUT", target, "bytes */*", nil)
				}
			})
		}
	}
	time.Sleep(150 * time.Millisecond)
	close(stop)
	wg.Wait()
	ch.cl.Do("DELETE", drive.BucketPath(mb), nil, nil)
	return bad
}

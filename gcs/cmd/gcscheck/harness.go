package main

import (
	"bytes"
	"encoding/json"
	"fmt"
	"os"
	"regexp"
	"runtime"
	"sort"
	"strconv"
	"strings"
	"sync/atomic"
	"time"

	"verif/common"
	"verif/gcs/drive"
	"verif/gcs/model"
)

func workers() int {
	n := runtime.NumCPU()
	if n > 16 {
		n = 16
	}
	if n < 2 {
		n = 2
	}
	return n
}

// mutWatchdog bounds PATCH / DELETE / compose / rewrite requests of the model-driven checks (the general watchdog of
// the drive client, 60 s, bounds everything else). A request that is not answered within its watchdog refutes every
// property whose statement says what the request answers: the case reports "request not answered within <d>: <request>"
// and is abandoned at once, its server is not used again (it may hold an object's lock for good), and after
// maxUnanswered such reports the run stops.
const (
	mutWatchdog   = 20 * time.Second
	maxUnanswered = 3
)

var unansweredReqs atomic.Int64

// tooMany: enough was reported to stop exploring (violations of any kind, or requests that got no answer).
func tooMany(run *common.Run) bool {
	return run.TooMany() || unansweredReqs.Load() >= maxUnanswered
}

// noResp renders "the request got no response": a watchdog expiry as "request not answered within <d>: <request>".
func noResp(what, req string, rsp *drive.Resp) string {
	if rsp.Unanswered > 0 {
		unansweredReqs.Add(1)
		return fmt.Sprintf("%s = %s", rsp.Err, req)
	}
	return what + " got no response: " + rsp.Err
}

// srvPool keeps one emulator per store for the cases a worker runs one after the other. A server on which a request
// went unanswered is dropped (closed in the background) and replaced by a fresh one.
type srvPool map[string]*drive.Server

func (p srvPool) get(store string) (*drive.Server, error) {
	if s := p[store]; s != nil {
		if !s.Wedged() {
			return s, nil
		}
		s.Close()
		delete(p, store)
	}
	s, err := drive.Start(store, "")
	if err != nil {
		return nil, err
	}
	s.Client.Guard(mutWatchdog)
	p[store] = s
	return s, nil
}

func (p srvPool) closeAll() {
	for _, s := range p {
		s.Close()
	}
}

// stepRec is one executed step as it is written into samples and replay files.
type stepRec struct {
	N      int      `json:"n"`
	Req    string   `json:"request"`
	Expect string   `json:"expect"`
	Obs    string   `json:"observed"`
	Sub    []string `json:"sub,omitempty"`
}

// exec runs operations against one emulator in lock-step with the reference model.
type exec struct {
	cl       *drive.Client
	kind     string
	m        *model.Store
	laws     *model.Laws
	steps    []stepRec
	lawViol  []string            // observations that refute a C10 law (reported by C10 only)
	universe map[string][]string // bucket -> names that every dump reads (live candidates + decoys)
	allForms bool                // fetch every media form of every name in every dump
	touched  map[string]bool     // bucket\0name touched by the current step: all forms fetched
	last     map[string]string   // canon of the previous dump
	lastDump *drive.StoreDump
	// snaps keeps object resources exactly as earlier metadata GETs returned them (current and stale, also of earlier
	// incarnations of a name): bodies for read-modify-write style PATCH requests that send the full resource back.
	snaps    map[string][]map[string]any
	lastFull string // status + complete body of the last deciding response (+ resumable sub-requests)
	mustSame bool   // the last step failed (non-2xx) or only read: the next dump must equal the previous one
	readOnly bool   // ... because the step consisted of reads only
	stats    map[string]int64
	sess     *sessInfo // the resumable session of the upload in progress / just decided (nil: none was opened)
	// queue holds the remaining requests of a multi-request scenario drawn by an earlier step: runStep executes them one
	// per step (each followed by the caller's dump and comparisons) before it draws a new kind.
	queue   []func(r *common.Rand) string
	bigDone int64         // "same bytes again" scenarios started (stats are flushed, this is not)
	lateCur *model.Object // the object (nil: absent) against which the last upload's conditions were judged
}

// sessInfo is what a client still knows about a resumable session after its deciding response.
type sessInfo struct {
	method, target string
	lastCR         string // Content-Range and body of the last request sent on the session
	lastBody       []byte
	decided        bool // the deciding response came from a chunk / finalising request (not from the initiation)
}

func newExec(srv *drive.Server, strictGrowth bool) *exec {
	srv.Client.Guard(mutWatchdog)
	return &exec{cl: srv.Client, kind: srv.Kind, m: model.NewStore(), laws: model.NewLaws(strictGrowth),
		universe: map[string][]string{}, touched: map[string]bool{}, stats: map[string]int64{}, snaps: map[string][]map[string]any{}}
}

func (e *exec) rec(req, expect, obs string, sub []string) {
	e.steps = append(e.steps, stepRec{N: len(e.steps), Req: req, Expect: expect, Obs: obs, Sub: sub})
}

// recResp records a step decided by rsp and keeps the full deciding response for cross-store comparison.
func (e *exec) recResp(req, expect string, rsp *drive.Resp, sub []string) {
	e.rec(req, expect, rsp.String(), sub)
	e.lastFull = fmt.Sprintf("%d %s", rsp.Status, rsp.Body)
	if rsp.Err != "" {
		e.lastFull = "transport error: " + rsp.Err
	}
	if len(sub) > 0 {
		e.lastFull += "\n" + strings.Join(sub, "\n")
	}
}

func (e *exec) law(msg string) {
	if msg != "" {
		e.lawViol = append(e.lawViol, fmt.Sprintf("after step %d: %s", len(e.steps)-1, msg))
	}
}

// noteSnap remembers a resource as served by a metadata GET (at most 6 per name, distinct generation/metageneration).
func (e *exec) noteSnap(b, n string, res map[string]any) {
	k := b + "\x00" + n
	id := fmt.Sprint(res["generation"], "/", res["metageneration"])
	for _, s := range e.snaps[k] {
		if fmt.Sprint(s["generation"], "/", s["metageneration"]) == id {
			return
		}
	}
	if len(e.snaps[k]) >= 6 {
		e.snaps[k] = append(e.snaps[k][:1], e.snaps[k][2:]...) // keep the oldest, drop the second oldest
	}
	e.snaps[k] = append(e.snaps[k], res)
}

// snapshot does a metadata GET of a live object now and remembers the resource.
func (e *exec) snapshot(b, n string) {
	if r := e.cl.GetMeta(b, n); r.Status == 200 {
		if m, err := r.JSON(); err == nil {
			e.noteSnap(b, n, m)
		}
	}
}

// cloneResource deep-copies a decoded resource (one level of nesting: metadata).
func cloneResource(res map[string]any) map[string]any {
	out := map[string]any{}
	for k, v := range res {
		if mm, ok := v.(map[string]any); ok {
			cp := map[string]any{}
			for a, b := range mm {
				cp[a] = b
			}
			out[k] = cp
		} else {
			out[k] = v
		}
	}
	return out
}

// noteWrite counts content writes that re-create a name deleted earlier / replace a live object.
func (e *exec) noteWrite(b, n string, cur *model.Object) {
	e.stats["content_writes"]++
	if cur == nil && len(e.laws.Seen(b, n)) > 0 {
		e.stats["recreations"]++
	}
}

func (e *exec) touch(b, n string) { e.touched[b+"\x00"+n] = true }

// flush adds the client's request counters and the executor's own statistics to the run.
func (e *exec) flush(run *common.Run) {
	for k, v := range e.cl.Counts() {
		run.Count(k, v)
	}
	for k, v := range e.stats {
		run.Count(k, v)
	}
	e.stats = map[string]int64{}
}

func (e *exec) createBucket(b string) string {
	r := e.cl.CreateBucket(b)
	e.rec("create bucket "+b, "2xx", r.String(), nil)
	if !r.OK() {
		return "bucket creation failed: " + r.String()
	}
	e.m.AddBucket(b)
	if _, ok := e.universe[b]; !ok {
		e.universe[b] = nil
	}
	return ""
}

// cycleBucket deletes a bucket (the emulator removes it with everything in it) and creates it again.
func (e *exec) cycleBucket(b string) string {
	r := e.cl.Do("DELETE", drive.BucketPath(b), nil, nil)
	e.rec("delete bucket "+b, "2xx (bucket and its objects gone) or an error (nothing changed)", r.String(), nil)
	if r.Err != "" {
		return "bucket deletion: " + r.String()
	}
	if r.OK() {
		for _, n := range e.m.Names(b) {
			e.m.Del(b, n)
			e.laws.Delete(b, n)
		}
		e.stats["bucket_deletes"]++
	} else {
		e.mustSame = true
	}
	return e.createBucket(b)
}

func bodyDesc(b []byte) string {
	head := b
	if len(head) > 12 {
		head = head[:12]
	}
	return fmt.Sprintf("%d bytes md5=%s head=%q", len(b), model.MD5b64(b), head)
}

// ---------------------------------------------------------------- upload

type uploadSpec struct {
	Proto    string // media | multipart | resumable
	Bucket   string
	Name     string
	Body     []byte
	CT       string            // "" = no content type sent anywhere
	CTMode   string            // multipart: both | meta | part
	UserMeta map[string]string // multipart / resumable metadata
	// Extra: further resource fields sent in the multipart / resumable metadata (nested ones: acl entries, owner,
	// retention, customerEncryption). The model demands nothing about them; whatever the server shows for them
	// afterwards is part of the state that failed requests must leave alone.
	Extra map[string]any
	// ContentEncoding "gzip": the metadata (multipart / resumable) declares the object gzip-encoded; Body then IS a gzip
	// stream and is what the object consists of (size, MD5, stored bytes). Unrelated to Gzip below, which compresses
	// the request body in transit.
	ContentEncoding string
	Gzip            bool   // request bodies gzip-compressed in transit (media / multipart body; resumable: the start request and every chunk)
	Streamed        bool   // request bodies (media / multipart body, resumable start and chunks) sent without a Content-Length (chunked)
	MD5             string // "", right, wrong, malformed (multipart / resumable)
	Conds           model.Conds
	Boundary        string
	// resumable session behaviour
	Post        bool // send chunks with POST instead of PUT (needs the Location URL)
	UseLocation bool // take the session URL from Location (well-formed names only), else rebuild it from the upload id
	KnownTotal  bool // chunks declare the total ("bytes a-b/N"), else "bytes a-b/*" finished by "bytes */N"
	ChunkMax    int  // upper bound of a chunk's length (>=1)
	Hostile     bool // interleave status queries and overlapping re-sends
	// Between, if set, runs after the session was initiated and before the first chunk (C04: the object changes
	// while the session is open; the conditions must be judged against the state at completion).
	Between func() string `json:"-"`
	// Mid, if set, runs once while the session is open and partly sent: after the MidAfter-th (>= 1) data chunk that was
	// answered 308 and before the session's next request. A session whose content fits into fewer chunk requests never
	// runs it (MidRan stays false).
	Mid      func() string `json:"-"`
	MidAfter int
	MidRan   bool
	// FixedChunks: every data chunk is exactly ChunkMax bytes long (the last one shorter), so that the number of chunk
	// requests is known in advance.
	FixedChunks bool
}

var wellFormedRe = regexp.MustCompile(`^[A-Za-z0-9._/-]+$`)

func (u *uploadSpec) describe() string {
	s := fmt.Sprintf("upload %s %s/%q %s ct=%q", u.Proto, u.Bucket, u.Name, bodyDesc(u.Body), u.CT)
	if u.Proto == "multipart" {
		s += " ctmode=" + u.CTMode + " boundary=" + u.Boundary
	}
	if u.Gzip {
		s += " gzip"
	}
	if u.Streamed {
		s += " streamed"
	}
	if u.ContentEncoding != "" && u.Proto != "media" {
		s += " contentEncoding=" + u.ContentEncoding
	}
	if u.MD5 != "" {
		s += " md5=" + u.MD5
	}
	if len(u.UserMeta) > 0 {
		s += fmt.Sprintf(" metadata=%v", u.UserMeta)
	}
	if len(u.Extra) > 0 && u.Proto != "media" {
		x, _ := json.Marshal(u.Extra)
		s += fmt.Sprintf(" extra=%s", x)
	}
	if u.Proto == "resumable" {
		s += fmt.Sprintf(" post=%v location=%v knownTotal=%v chunkMax=%d hostile=%v", u.Post, u.UseLocation, u.KnownTotal, u.ChunkMax, u.Hostile)
	}
	if !u.Conds.Empty() {
		s += " conds=" + u.Conds.String()
	}
	return s
}

func (u *uploadSpec) metaJSON() []byte {
	m := map[string]any{"name": u.Name}
	if u.CT != "" && (u.Proto == "resumable" || u.CTMode == "both" || u.CTMode == "meta") {
		m["contentType"] = u.CT
	}
	if len(u.UserMeta) > 0 {
		m["metadata"] = u.UserMeta
	}
	for k, v := range u.Extra {
		m[k] = v
	}
	if u.ContentEncoding != "" {
		m["contentEncoding"] = u.ContentEncoding
	}
	switch u.MD5 {
	case "right":
		m["md5Hash"] = model.MD5b64(u.Body)
	case "wrong":
		m["md5Hash"] = model.MD5b64(append([]byte("not-"), u.Body...))
	case "malformed":
		m["md5Hash"] = "!!not*base64!!"
	}
	b, _ := json.Marshal(m)
	return b
}

func condParams(c model.Conds) [][2]string { return c.Params() }

// sendUpload performs the protocol and returns the deciding response (the first one that is not a 308) plus a log
// of the sub-requests and a protocol-level complaint (a 308 whose Range is inconsistent, no progress).
func (e *exec) sendUpload(u *uploadSpec, r *common.Rand) (final *drive.Resp, sub []string, complaint string) {
	q := condParams(u.Conds)
	e.sess = nil
	// how the bodies of this upload's own requests travel (set around each of them, so that requests of hooks that run
	// while a session is open are not affected)
	wire := drive.Wire{Streamed: u.Streamed, Gzip: u.Gzip && u.Proto == "resumable"}
	wired := func(fn func() *drive.Resp) *drive.Resp {
		e.cl.Wire = wire
		defer func() { e.cl.Wire = drive.Wire{} }()
		return fn()
	}
	if u.Streamed && len(u.Body) > 0 {
		e.stats["uploads_streamed_without_content_length"]++
		if u.Gzip {
			e.stats["uploads_streamed_without_content_length_gzip_"+u.Proto]++
		}
	}
	switch u.Proto {
	case "media":
		return wired(func() *drive.Resp { return e.cl.UploadMedia(u.Bucket, u.Name, u.CT, u.Body, u.Gzip, q) }), nil, ""
	case "multipart":
		partCT := ""
		if u.CT != "" && (u.CTMode == "both" || u.CTMode == "part") {
			partCT = u.CT
		}
		return wired(func() *drive.Resp {
			return e.cl.UploadMultipart(u.Bucket, u.metaJSON(), partCT, u.Body, u.Boundary, u.Gzip, q)
		}), nil, ""
	}
	// resumable
	var init *drive.Resp
	var id, loc string
	wired(func() *drive.Resp {
		init, id, loc = e.cl.ResumableInit(u.Bucket, u.metaJSON(), q, u.CT)
		return init
	})
	if u.Gzip {
		e.stats["resumable_sessions_with_gzip_request_bodies"]++
	}
	sub = append(sub, fmt.Sprintf("init -> %d Location=%q", init.Status, init.Header.Get("Location")))
	if !init.OK() {
		return init, sub, ""
	}
	if id == "" {
		return init, sub, "resumable initiation answered 2xx without an upload_id in Location"
	}
	if u.Between != nil {
		sub = append(sub, "-- other requests while the session is open, before its first chunk (recorded as the steps before this one)")
		if msg := u.Between(); msg != "" {
			return init, sub, "while the session was open: " + msg
		}
		e.stats["resumable_sessions_with_requests_before_first_chunk"]++
	}
	target := drive.SessionTarget(u.Bucket, id)
	method := "PUT"
	if (u.UseLocation || u.Post) && loc != "" && wellFormedRe.MatchString(u.Name) {
		target = loc
		e.stats["resumable_location_sessions"]++
		if u.Post {
			method = "POST"
			e.stats["resumable_post_sessions"]++
		}
	}
	e.stats["resumable_sessions"]++
	sess := &sessInfo{method: method, target: target}
	e.sess = sess // (a Between hook may have run uploads of its own)
	N := int64(len(u.Body))
	var stored, maxSent int64
	queries, resends := 0, 0 // bounded so that truncating re-sends cannot starve progress
	dataChunks := 0          // data chunks answered 308 so far
	send := func(cr string, body []byte) *drive.Resp {
		rsp := wired(func() *drive.Resp { return e.cl.ResumableChunk(method, target, cr, body) })
		sess.lastCR, sess.lastBody = cr, body
		sub = append(sub, fmt.Sprintf("%s %q (%d bytes) -> %d Range=%q", method, cr, len(body), rsp.Status, rsp.Header.Get("Range")))
		e.stats["resumable_requests"]++
		return rsp
	}
	for iter := 0; iter < 200; iter++ {
		var rsp *drive.Resp
		total := "*"
		if u.KnownTotal {
			total = strconv.FormatInt(N, 10)
		}
		switch {
		case u.Hostile && queries < 4 && r.Chance(1, 5):
			queries++
			// status query; with the total it finishes the upload iff everything is stored
			if r.Bool() {
				rsp = send("bytes */*", nil)
			} else {
				rsp = send("bytes */"+strconv.FormatInt(N, 10), nil)
			}
			e.stats["resumable_status_queries"]++
		case u.Hostile && stored > 0 && resends < 3 && r.Chance(1, 4):
			resends++
			// overlapping re-send of bytes already acknowledged, starting at an earlier committed offset
			lo := int64(r.Intn(int(stored)))
			hi := lo + int64(r.Intn(int(min64(N-lo, int64(u.ChunkMax)))))
			if hi >= N {
				hi = N - 1
			}
			if hi+1 > maxSent {
				maxSent = hi + 1
			}
			rsp = send(fmt.Sprintf("bytes %d-%d/%s", lo, hi, total), u.Body[lo:hi+1])
			e.stats["resumable_resends"]++
		case stored >= N:
			// everything is stored (or the object is empty): finish with a bodiless request carrying the total
			rsp = send("bytes */"+strconv.FormatInt(N, 10), nil)
		default:
			lo := stored
			ln := int64(1 + r.Intn(u.ChunkMax))
			if u.FixedChunks {
				ln = int64(u.ChunkMax)
			}
			hi := lo + ln - 1
			if hi >= N-1 {
				hi = N - 1
			}
			if hi+1 > maxSent {
				maxSent = hi + 1
			}
			rsp = send(fmt.Sprintf("bytes %d-%d/%s", lo, hi, total), u.Body[lo:hi+1])
			if u.Hostile && hi == N-1 && rsp.Status == 308 && r.Chance(1, 3) {
				// re-send the last chunk unchanged
				rsp = send(fmt.Sprintf("bytes %d-%d/%s", lo, hi, total), u.Body[lo:hi+1])
				e.stats["resumable_resends"]++
			}
		}
		if rsp.Err != "" || rsp.Status != 308 {
			if rsp.OK() && len(sub) >= 3 {
				e.stats["resumable_multi"]++
			}
			sess.decided = true
			return rsp, sub, ""
		}
		k, ok := drive.ParseRange308(rsp.Header.Get("Range"))
		if !ok {
			return rsp, sub, fmt.Sprintf("308 reply carries a malformed Range header %q", rsp.Header.Get("Range"))
		}
		if k > maxSent {
			return rsp, sub, fmt.Sprintf("308 reply reports %d bytes stored (Range %q) but only %d bytes were ever sent", k, rsp.Header.Get("Range"), maxSent)
		}
		stored = k
		if len(sess.lastBody) > 0 {
			dataChunks++
		}
		if u.Mid != nil && !u.MidRan && dataChunks >= max(1, u.MidAfter) {
			u.MidRan = true
			sub = append(sub, fmt.Sprintf("-- other requests while the session is open, %d of %d bytes stored (recorded as the steps before this one)", stored, N))
			msg := u.Mid()
			e.sess = sess
			if msg != "" {
				return rsp, sub, fmt.Sprintf("while the session was open (%d of %d bytes stored): %s", stored, N, msg)
			}
			e.stats["resumable_sessions_with_requests_between_chunks"]++
		}
	}
	return &drive.Resp{Err: "gave up"}, sub, "resumable upload did not finish within 200 requests although every byte was offered"
}

func min64(a, b int64) int64 {
	if a < b {
		return a
	}
	return b
}

// checkResource compares an object resource (upload / patch / compose / copy response, metadata GET) with the
// model object. It returns the first difference. gen/metagen are not compared here.
func checkResource(res map[string]any, b, n string, o *model.Object) string {
	if got := drive.StrField(res, "name"); got != n {
		return fmt.Sprintf("resource name %q, want %q", got, n)
	}
	if got := drive.StrField(res, "bucket"); got != b {
		return fmt.Sprintf("resource bucket %q, want %q", got, b)
	}
	sz, ok := drive.Int64Field(res, "size")
	if _, present := res["size"]; !present {
		sz, ok = 0, true // the JSON encoding omits a zero size
	}
	if !ok || sz != int64(len(o.Content)) {
		return fmt.Sprintf("resource size %v, want %d", res["size"], len(o.Content))
	}
	if !o.Composite {
		if got := drive.StrField(res, "md5Hash"); got != o.MD5() {
			return fmt.Sprintf("resource md5Hash %q, want %q", got, o.MD5())
		}
	}
	if o.CTKnown {
		if got := drive.StrField(res, "contentType"); got != o.CT {
			return fmt.Sprintf("resource contentType %q, want %q", got, o.CT)
		}
	}
	return ""
}

func gensOf(res map[string]any) (gen, metagen int64, msg string) {
	gen, ok1 := drive.Int64Field(res, "generation")
	metagen, ok2 := drive.Int64Field(res, "metageneration")
	if !ok1 || !ok2 {
		return gen, metagen, fmt.Sprintf("resource lacks generation/metageneration (generation=%v metageneration=%v)", res["generation"], res["metageneration"])
	}
	return gen, metagen, ""
}

// headerAgrees checks that the x-goog-generation / x-goog-metageneration headers of a response equal the body.
func (e *exec) headerAgrees(where string, rsp *drive.Resp, gen, metagen int64) {
	hg, hm := rsp.Header.Get("X-Goog-Generation"), rsp.Header.Get("X-Goog-Metageneration")
	if hg != "" && hg != strconv.FormatInt(gen, 10) {
		e.law(fmt.Sprintf("%s: x-goog-generation header %s differs from body generation %d", where, hg, gen))
	}
	if hm != "" && hm != strconv.FormatInt(metagen, 10) {
		e.law(fmt.Sprintf("%s: x-goog-metageneration header %s differs from body metageneration %d", where, hm, metagen))
	}
	if hg != "" {
		e.stats["gen_headers_compared"]++
	}
}

// expectFailure decides whether a non-2xx status is admissible; returns "" or a complaint.
func failureOK(v model.Verdict, status int, absentNotFoundOK bool, extra ...int) bool {
	for _, s := range extra {
		if status == s {
			return true
		}
	}
	if v == model.Pass {
		return false
	}
	return model.StatusAllowed(v, status, absentNotFoundOK)
}

// upload executes one upload and checks it. Returns "" or what refutes the property.
func (e *exec) upload(u *uploadSpec, r *common.Rand) string {
	md5bad := u.MD5 == "wrong" || u.MD5 == "malformed"
	e.touch(u.Bucket, u.Name)
	rsp, sub, complaint := e.sendUpload(u, r)
	e.touch(u.Bucket, u.Name)
	// The expectation is computed against the model as it is when the upload completes (sendUpload does not touch the
	// model; only a Between hook does).
	cur := e.m.Get(u.Bucket, u.Name)
	e.lateCur = cur
	v := model.Eval(cur, u.Conds)
	expect := "200 + resource"
	switch {
	case v == model.Bad:
		expect = "400 (unparsable condition), nothing changed"
	case v != model.Pass && md5bad:
		expect = v.String() + " or 4xx (bad MD5), nothing changed"
	case v != model.Pass:
		expect = v.String() + ", nothing changed"
	case md5bad:
		expect = "4xx (declared MD5 does not match), previous object intact"
	}
	e.recResp(u.describe(), expect, rsp, sub)
	e.stats["uploads_"+u.Proto]++
	if rsp.Err != "" {
		return noResp("upload", u.describe(), rsp)
	}
	if complaint != "" {
		return complaint
	}
	if v == model.Pass && !md5bad {
		return e.ackUpload(u, u.Body, rsp, cur)
	}
	// a failure is expected
	e.mustSame = true
	if rsp.OK() {
		return fmt.Sprintf("upload that must fail (%s) was acknowledged: %s", expect, rsp)
	}
	ok := false
	if v != model.Pass && failureOK(v, rsp.Status, false) {
		ok = true
	}
	if md5bad && v != model.Bad && rsp.Status >= 400 && rsp.Status < 500 {
		ok = true
	}
	if !ok {
		return fmt.Sprintf("upload failed with status %d, expected %s", rsp.Status, expect)
	}
	if md5bad {
		e.stats["md5_rejections"]++
	}
	if v != model.Pass {
		e.stats["precondition_failures"]++
	}
	if md5bad && u.Proto == "resumable" && e.sess != nil && e.sess.decided {
		return e.retryRejectedSession(u, r, cur, v)
	}
	return ""
}

// ackUpload checks the 2xx acknowledgement of an upload of content and moves the model.
func (e *exec) ackUpload(u *uploadSpec, content []byte, rsp *drive.Resp, cur *model.Object) string {
	if !rsp.OK() {
		return fmt.Sprintf("valid upload rejected: %s", rsp)
	}
	res, err := rsp.JSON()
	if err != nil {
		return "upload response is not a JSON object: " + err.Error()
	}
	o := &model.Object{Content: append([]byte(nil), content...), CT: u.CT, CTKnown: u.CT != ""}
	if msg := checkResource(res, u.Bucket, u.Name, o); msg != "" {
		return "upload response: " + msg
	}
	gen, metagen, msg := gensOf(res)
	if msg != "" {
		return "upload response: " + msg
	}
	o.Gen, o.Metagen = gen, metagen
	o.Learned = model.ExtractFields(res)
	e.noteWrite(u.Bucket, u.Name, cur)
	e.law(e.laws.Write(u.Bucket, u.Name, gen, metagen))
	e.headerAgrees("upload response", rsp, gen, metagen)
	e.m.Put(u.Bucket, u.Name, o)
	e.stats["uploads_ok"]++
	if gzipEncoded(o) {
		e.stats["objects_stored_gzip_encoded"]++
	}
	if !u.Conds.Empty() {
		e.stats["conditioned_passes"]++
	}
	if cur != nil {
		e.stats["overwrites"]++
	}
	return ""
}

// retryRejectedSession: the finalisation of a resumable session was just rejected (4xx) and the session's metadata
// declares an MD5 that its bytes do not match. A client may try again on the SAME session: it repeats the
// finalising request, re-sends the same bytes, or re-sends the whole content from offset 0 with other bytes. Whatever
// it sends, as long as the bytes do not match the MD5 declared when the session was opened the request must not be
// acknowledged (a 308 "incomplete" or any 4xx, including 404/410 "no such session", are rejections) and the store
// must stay as it was. Finally the client may re-send, from offset 0, the bytes that DO match the declared MD5: that
// is either refused as well (session gone; nothing changed) or it is an upload of exactly those bytes.
func (e *exec) retryRejectedSession(u *uploadSpec, r *common.Rand, cur *model.Object, v model.Verdict) string {
	s := e.sess
	declared := "an undecodable value"
	if u.MD5 == "wrong" {
		declared = model.MD5b64(append([]byte("not-"), u.Body...))
	}
	// refusal: 308 (incomplete), any 4xx, or - when the session's conditions fail as well - their status (304)
	refusal := func(status int) bool {
		return status == 308 || (status >= 400 && status <= 499) || (v != model.Pass && failureOK(v, status, false))
	}
	held := u.Body // what the session holds, as far as the client can tell
	original := true
	full := func(b []byte) string { return fmt.Sprintf("bytes 0-%d/%d", len(b)-1, len(b)) }
	try := func(what, cr string, body []byte) (*drive.Resp, string) {
		rsp := e.cl.ResumableChunk(s.method, s.target, cr, body)
		e.stats["resumable_requests"]++
		e.rec(fmt.Sprintf("retry on the session of the rejected upload of %s/%q: %s %s %q (%s)", u.Bucket, u.Name, what, s.method, cr, bodyDesc(body)),
			"not acknowledged (308 or 4xx), nothing changed: the session declared md5Hash "+declared, rsp.String(), nil)
		e.lastFull += fmt.Sprintf("\nretry %s -> %d", what, rsp.Status)
		if rsp.Err != "" {
			return rsp, noResp("retry on a resumable session", fmt.Sprintf("%s %q on the session of %s/%q", s.method, cr, u.Bucket, u.Name), rsp)
		}
		return rsp, ""
	}
	for t, n := 0, r.Range(1, 3); t < n; t++ {
		var rsp *drive.Resp
		var msg, what string
		sent := held
		switch x := r.Intn(4); {
		case x == 0 && original && s.lastCR != "":
			what = "the rejected finalising request once more"
			rsp, msg = try(what, s.lastCR, s.lastBody)
			e.stats["md5_retries_same_bytes"]++
		case x == 1 && len(held) > 0:
			what = "the same bytes re-sent from offset 0"
			rsp, msg = try(what, full(held), held)
			e.stats["md5_retries_same_bytes"]++
		case x == 2:
			what = "other bytes sent from offset 0"
			sent = append([]byte(fmt.Sprintf("retry-%d-", t)), u.Body[:len(u.Body)/2]...)
			rsp, msg = try(what, full(sent), sent)
			held, original = sent, false
			e.stats["md5_retries_other_bytes"]++
		default:
			what = "a bodiless finalising request"
			rsp, msg = try(what, fmt.Sprintf("bytes */%d", len(held)), nil)
			e.stats["md5_retries_same_bytes"]++
		}
		if msg != "" {
			return msg
		}
		if rsp.OK() {
			return fmt.Sprintf("after the finalisation of a resumable upload was rejected for its declared MD5 (%s), %s on the same session was acknowledged although the bytes (%s) still do not match the declared MD5: %s", declared, what, bodyDesc(sent), rsp)
		}
		if !refusal(rsp.Status) {
			return fmt.Sprintf("retry on a session whose finalisation was rejected for its MD5 (%s) answered %d, expected a rejection (308 or 4xx)", what, rsp.Status)
		}
		if rsp.Status == 404 || rsp.Status == 410 {
			e.stats["md5_retries_session_gone"]++
			return ""
		}
	}
	if u.MD5 != "wrong" || !r.Bool() {
		return ""
	}
	right := append([]byte("not-"), u.Body...)
	rsp, msg := try("the bytes that match the declared MD5, from offset 0", full(right), right)
	if msg != "" {
		return msg
	}
	e.stats["md5_retries_right_bytes"]++
	if !rsp.OK() {
		if !refusal(rsp.Status) {
			return fmt.Sprintf("retry with the matching bytes on a session whose finalisation was rejected answered %d, expected 2xx, 308 or 4xx", rsp.Status)
		}
		return ""
	}
	if v != model.Pass {
		return fmt.Sprintf("retry on the session of an upload that must fail (%s) was acknowledged: %s", v, rsp)
	}
	// accepted: it is an upload of exactly the matching bytes
	e.mustSame = false
	e.stats["md5_retries_right_bytes_accepted"]++
	return e.ackUpload(u, right, rsp, cur)
}

// ---------------------------------------------------------------- delete / patch

func (e *exec) del(b, n string, c model.Conds) string {
	cur := e.m.Get(b, n)
	v := model.Eval(cur, c)
	expect := "2xx, object absent afterwards"
	if cur == nil {
		expect = "404"
		if v != model.Pass {
			expect = v.String() + "|404"
		}
	} else if v != model.Pass {
		expect = v.String()
	}
	if v == model.Bad {
		expect = "400"
	}
	e.touch(b, n)
	rsp := e.cl.Delete(b, n, condParams(c))
	req := fmt.Sprintf("delete %s/%q", b, n)
	if !c.Empty() {
		req += " conds=" + c.String()
	}
	e.recResp(req, expect, rsp, nil)
	e.stats["deletes"]++
	if rsp.Err != "" {
		return noResp("delete", req, rsp)
	}
	if cur != nil && v == model.Pass {
		if !rsp.OK() {
			return "valid delete rejected: " + rsp.String()
		}
		e.m.Del(b, n)
		e.laws.Delete(b, n)
		e.stats["deletes_ok"]++
		if !c.Empty() {
			e.stats["conditioned_passes"]++
		}
		return ""
	}
	e.mustSame = true
	if rsp.OK() {
		return fmt.Sprintf("delete that must fail (%s) was acknowledged with %d", expect, rsp.Status)
	}
	if v == model.Bad {
		if rsp.Status != 400 {
			return fmt.Sprintf("delete with an unparsable condition answered %d, want 400", rsp.Status)
		}
		return ""
	}
	if cur == nil && v == model.Pass {
		if rsp.Status != 404 {
			return fmt.Sprintf("delete of an absent object answered %d, want 404", rsp.Status)
		}
		return ""
	}
	if !failureOK(v, rsp.Status, cur == nil) {
		return fmt.Sprintf("delete failed with status %d, expected %s", rsp.Status, expect)
	}
	e.stats["precondition_failures"]++
	return ""
}

// folderOf: name (with or without a trailing "/") is a proper "/"-prefix of a live name of the bucket - what a file
// system would call a directory - and not itself an object.
func (e *exec) folderOf(b, name string) bool {
	p := strings.TrimSuffix(name, "/") + "/"
	if e.m.Get(b, name) != nil || p == "/" {
		return false
	}
	for _, l := range e.m.Names(b) {
		if len(l) > len(p) && strings.HasPrefix(l, p) {
			return true
		}
	}
	return false
}

// delFolder sends a DELETE for a name under which nothing is stored and that is only a "/"-prefix of stored names
// ("reports/2024" or "reports/" while "reports/2024/q1.bin" exists). There is no such object: the request must not be
// acknowledged and nothing may change - in particular the objects below the prefix. The statement does not say with
// which status an absent object's delete is refused, so for these names any error status is taken (404 is what a
// store without directories answers); a failing / unparsable condition may be reported with its own status.
func (e *exec) delFolder(b, n string, c model.Conds) string {
	if e.m.Get(b, n) != nil {
		return e.del(b, n, c)
	}
	v := model.Eval(nil, c)
	expect := "not acknowledged (404 or another error status), nothing changed - no object of that name exists, only objects below it"
	if v == model.Bad {
		expect = "400"
	}
	e.touch(b, n)
	rsp := e.cl.Delete(b, n, condParams(c))
	req := fmt.Sprintf("delete %s/%q (never stored; a '/'-prefix of stored names)", b, n)
	if !c.Empty() {
		req += " conds=" + c.String()
	}
	e.recResp(req, expect, rsp, nil)
	e.stats["deletes"]++
	e.stats["deletes_of_folder_prefix_names"]++
	if rsp.Err != "" {
		return noResp("delete", req, rsp)
	}
	// which error status is not part of what the stores have to agree on
	e.lastFull = fmt.Sprintf("acknowledged=%v", rsp.OK())
	e.mustSame = true
	if rsp.OK() {
		return fmt.Sprintf("delete of %s/%q was acknowledged with %d although no object of that name was ever stored (it is only a '/'-prefix of the stored names %q)", b, n, rsp.Status, e.m.Names(b))
	}
	if v == model.Bad {
		if rsp.Status != 400 {
			return fmt.Sprintf("delete with an unparsable condition answered %d, want 400", rsp.Status)
		}
		return ""
	}
	if rsp.Status < 400 && !failureOK(v, rsp.Status, true) {
		return fmt.Sprintf("delete of the absent %s/%q answered %d, expected an error status", b, n, rsp.Status)
	}
	if v != model.Pass {
		e.stats["precondition_failures"]++
	}
	return ""
}

// reads is a step made of reads only, all addressed to one object and its bucket: metadata GET, media GET through every
// URL form with and without "Accept-Encoding: gzip" in a drawn order, a listing. Each answer is compared with the
// model; the dump that follows must equal the dump before the step.
func (e *exec) reads(r *common.Rand, b, n string) string {
	o := e.m.Get(b, n)
	var sub []string
	note := func(what string, status int) { sub = append(sub, fmt.Sprintf("%s -> %d", what, status)) }
	var msg string
	type get struct {
		form int
		ae   bool
	}
	var gets []get
	for f := 0; f < drive.NForms; f++ {
		if f == drive.FormPublic && !drive.PublicOK(n) {
			continue
		}
		gets = append(gets, get{f, false}, get{f, true})
	}
	common.Shuffle(r, gets)
	gets = gets[:r.Range(2, len(gets))]
	metaAt, listAt := r.Intn(len(gets)+1), r.Intn(len(gets)+1)
	for i := 0; i <= len(gets) && msg == ""; i++ {
		if i == metaAt {
			rsp := e.cl.GetMeta(b, n)
			note("metadata GET", rsp.Status)
			switch {
			case o == nil && rsp.Status != 404:
				msg = fmt.Sprintf("metadata GET of absent %s/%q = %d, want 404", b, n, rsp.Status)
			case o != nil:
				res, err := rsp.JSON()
				if rsp.Status != 200 || err != nil {
					msg = fmt.Sprintf("metadata GET of live %s/%q = %s", b, n, rsp)
				} else if m := checkResource(res, b, n, o); m != "" {
					msg = fmt.Sprintf("metadata GET of %s/%q: %s", b, n, m)
				} else if m := model.FieldsEqual(model.ExtractFields(res), o.Learned); m != "" {
					msg = fmt.Sprintf("metadata GET of %s/%q: user-settable fields differ from the last acknowledged ones: %s", b, n, m)
				}
			}
		}
		if i == listAt && msg == "" {
			pfx := ""
			if j := strings.LastIndex(n, "/"); j >= 0 && r.Bool() {
				pfx = n[:j+1]
			}
			dlm := common.Pick(r, []string{"", "/"})
			pages, trunc, err := e.cl.ListAll(b, pfx, dlm, common.Pick(r, []int{0, 1, 2}), len(e.m.Names(b))+3)
			var mp []model.Page
			for _, p := range pages {
				mp = append(mp, model.Page{Items: p.Names, Prefixes: p.Prefixes})
			}
			note(fmt.Sprintf("list prefix=%q delimiter=%q (%d pages)", pfx, dlm, len(pages)), pages[len(pages)-1].Status)
			if err != nil || trunc || pages[len(pages)-1].Status != 200 {
				msg = fmt.Sprintf("listing of bucket %s prefix=%q delimiter=%q failed: status %d err=%v token chain cut=%v", b, pfx, dlm, pages[len(pages)-1].Status, err, trunc)
			} else if m := model.CheckPages(mp, e.m.Names(b), pfx, dlm, 0); m != "" {
				msg = fmt.Sprintf("listing of bucket %s prefix=%q delimiter=%q: %s", b, pfx, dlm, m)
			}
		}
		if i < len(gets) && msg == "" {
			g := gets[i]
			rsp := e.cl.GetMediaAE(g.form, b, n, g.ae)
			mv := &drive.MediaView{Fetched: true, Form: g.form, AcceptGzip: g.ae, Status: rsp.Status, Body: rsp.Body, Err: rsp.Err, Encoding: rsp.Header.Get("Content-Encoding"),
				Gen: rsp.Header.Get("X-Goog-Generation"), Metagen: rsp.Header.Get("X-Goog-Metageneration")}
			note("media GET ("+mediaDesc(mv)+")", rsp.Status)
			if o == nil {
				if rsp.Status != 404 {
					msg = fmt.Sprintf("media GET (%s) of absent %s/%q = %d, want 404", mediaDesc(mv), b, n, rsp.Status)
				}
			} else {
				msg = e.checkMedia(b, n, o, mv)
			}
		}
	}
	what := "live"
	if o == nil {
		what = "absent"
	} else if gzipEncoded(o) {
		what = "live, contentEncoding gzip"
		e.stats["read_steps_on_gzip_encoded_objects"]++
	}
	e.rec(fmt.Sprintf("reads of %s/%q (%s)", b, n, what), "answers as the model says; nothing changes", fmt.Sprintf("%d requests", len(sub)), sub)
	e.lastFull = strings.Join(sub, "\n")
	e.stats["read_steps"]++
	e.mustSame, e.readOnly = true, true
	return msg
}

// patch sends a PATCH. fields is the JSON body: non-null user-settable fields, possibly embedded in a full object
// resource as an earlier metadata GET returned it (output-only fields such as generation, metageneration, size,
// md5Hash, name, links, timestamps must then not change the object).
func (e *exec) patch(b, n string, fields map[string]any, c model.Conds) string {
	cur := e.m.Get(b, n)
	v := model.Eval(cur, c)
	expect := "200, metageneration+1, only the supplied fields changed"
	if cur == nil {
		expect = "404"
		if v != model.Pass {
			expect = v.String() + "|404"
		}
	} else if v != model.Pass {
		expect = v.String()
	}
	if v == model.Bad {
		expect = "400"
	}
	body, _ := json.Marshal(fields)
	e.touch(b, n)
	rsp := e.cl.Patch(b, n, body, condParams(c))
	req := fmt.Sprintf("patch %s/%q %s", b, n, body)
	if _, full := fields["generation"]; full {
		e.stats["patches_full_resource"]++
		if cur != nil && fmt.Sprint(fields["generation"], "/", fields["metageneration"]) != fmt.Sprint(cur.Gen, "/", cur.Metagen) {
			e.stats["patches_full_resource_stale"]++
		}
	}
	if !c.Empty() {
		req += " conds=" + c.String()
	}
	e.recResp(req, expect, rsp, nil)
	e.stats["patches"]++
	if hasNested(fields) {
		e.stats["patches_setting_nested_fields"]++
	}
	if bn, ok := fields["name"].(string); ok && (bn != n || (fields["bucket"] != nil && fields["bucket"] != b)) {
		e.stats["patches_body_is_another_objects_resource"]++
		if e.m.Get(b, bn) == nil {
			e.stats["patches_body_names_an_absent_object"]++
		}
	}
	if rsp.Err != "" {
		return noResp("patch", req, rsp)
	}
	if cur != nil && v == model.Pass {
		if !rsp.OK() {
			return "valid patch rejected: " + rsp.String()
		}
		res, err := rsp.JSON()
		if err != nil {
			return "patch response is not a JSON object: " + err.Error()
		}
		next := cur.Clone()
		if ct, ok := fields["contentType"].(string); ok {
			next.CT, next.CTKnown = ct, true
		}
		if msg := checkResource(res, b, n, next); msg != "" {
			return "patch response: " + msg
		}
		gen, metagen, msg := gensOf(res)
		if msg != "" {
			return "patch response: " + msg
		}
		e.law(e.laws.Patch(b, n, gen, metagen))
		want := model.MergePatch(cur.Learned, model.ExtractFields(fields))
		if msg := model.FieldsEqual(model.ExtractFields(res), want); msg != "" {
			e.law("patch response does not show exactly the merged fields: " + msg)
		}
		next.Gen, next.Metagen = gen, metagen
		next.Learned = model.ExtractFields(res)
		e.m.Put(b, n, next)
		e.stats["patches_ok"]++
		if !c.Empty() {
			e.stats["conditioned_passes"]++
		}
		return ""
	}
	e.mustSame = true
	if rsp.OK() {
		return fmt.Sprintf("patch that must fail (%s) was acknowledged: %s", expect, rsp)
	}
	if v == model.Bad {
		if rsp.Status != 400 {
			return fmt.Sprintf("patch with an unparsable condition answered %d, want 400", rsp.Status)
		}
		return ""
	}
	if cur == nil && v == model.Pass {
		if rsp.Status != 404 {
			return fmt.Sprintf("patch of an absent object answered %d, want 404", rsp.Status)
		}
		return ""
	}
	if !failureOK(v, rsp.Status, cur == nil) {
		return fmt.Sprintf("patch failed with status %d, expected %s", rsp.Status, expect)
	}
	e.stats["precondition_failures"]++
	return ""
}

// nestedFields are resource fields whose values are objects or arrays of objects. The model does not describe them;
// they are only ever sent in uploads (as part of the new object) and in PATCH requests that must fail.
var nestedFields = []string{"acl", "owner", "retention", "customerEncryption"}

func hasNested(fields map[string]any) bool {
	for _, k := range nestedFields {
		if _, ok := fields[k]; ok {
			return true
		}
	}
	return false
}

// badPatch is a PATCH body that is not a valid object resource: well-formed JSON whose members are valid (Valid, in
// the order Order) except one member of the wrong JSON type (BadKey: BadRaw) that comes after at least one valid one.
type badPatch struct {
	Valid  map[string]any
	BadKey string
	Raw    string
}

// patchBad sends a PATCH whose body carries a type error. It is either refused (any 4xx; with failing conditions or
// an absent object also their statuses) and then nothing at all may have changed, or - by a lenient server, for a
// live object whose conditions pass - acknowledged, in which case it is a patch of the valid members: metageneration
// +1, generation / content untouched, valid members merged, members the body does not name unchanged (nothing is
// demanded about the member of the wrong type).
func (e *exec) patchBad(b, n string, bp *badPatch, c model.Conds) string {
	cur := e.m.Get(b, n)
	v := model.Eval(cur, c)
	expect := "4xx (body is not a valid resource), nothing changed"
	if cur == nil {
		expect = "404 or 4xx, nothing changed"
	} else if v != model.Pass {
		expect = v.String() + " or 400, nothing changed"
	}
	e.touch(b, n)
	rsp := e.cl.Patch(b, n, []byte(bp.Raw), condParams(c))
	req := fmt.Sprintf("patch %s/%q %s", b, n, bp.Raw)
	if !c.Empty() {
		req += " conds=" + c.String()
	}
	e.recResp(req, expect, rsp, nil)
	e.stats["patches"]++
	e.stats["patches_type_error_body"]++
	if rsp.Err != "" {
		return noResp("patch", req, rsp)
	}
	if !rsp.OK() {
		e.mustSame = true
		ok := rsp.Status >= 400 && rsp.Status < 500
		if cur != nil && v == model.Pass && (rsp.Status == 404 || rsp.Status == 412) {
			ok = false // the object is there and its conditions hold
		}
		if !ok && v != model.Pass && failureOK(v, rsp.Status, cur == nil) {
			ok = true // 304
		}
		if !ok {
			return fmt.Sprintf("patch with a type error in its body answered %d, expected %s", rsp.Status, expect)
		}
		e.stats["patches_type_error_rejected"]++
		if cur != nil && v == model.Pass {
			e.stats["patches_type_error_rejected_live_pass"]++
		}
		return ""
	}
	if cur == nil || v != model.Pass {
		e.mustSame = true
		return fmt.Sprintf("patch that must fail (%s) was acknowledged: %s", expect, rsp)
	}
	res, err := rsp.JSON()
	if err != nil {
		return "patch response is not a JSON object: " + err.Error()
	}
	next := cur.Clone()
	if ct, ok := bp.Valid["contentType"].(string); ok {
		next.CT, next.CTKnown = ct, true
	} else if bp.BadKey == "contentType" {
		next.CTKnown = false
	}
	if msg := checkResource(res, b, n, next); msg != "" {
		return "patch response: " + msg
	}
	gen, metagen, msg := gensOf(res)
	if msg != "" {
		return "patch response: " + msg
	}
	e.law(e.laws.Patch(b, n, gen, metagen))
	want := model.MergePatch(cur.Learned, model.ExtractFields(bp.Valid))
	got := model.ExtractFields(res)
	delete(want, bp.BadKey)
	gotCmp := model.CloneFields(got)
	delete(gotCmp, bp.BadKey)
	if msg := model.FieldsEqual(gotCmp, want); msg != "" {
		e.law("patch response does not show exactly the merged fields: " + msg)
	}
	next.Gen, next.Metagen = gen, metagen
	next.Learned = got
	e.m.Put(b, n, next)
	e.stats["patches_ok"]++
	return ""
}

// ---------------------------------------------------------------- compose / copy

type composeSrc struct {
	Name     string  `json:"name"`
	GenMatch *string `json:"ifGenerationMatch,omitempty"`
}

type composeSpec struct {
	Bucket   string
	Dst      string
	Srcs     []composeSrc
	CT       string
	UserMeta map[string]string
	Conds    model.Conds
}

func (c *composeSpec) body() []byte {
	var srcs []map[string]any
	for _, s := range c.Srcs {
		m := map[string]any{"name": s.Name}
		if s.GenMatch != nil {
			m["objectPreconditions"] = map[string]any{"ifGenerationMatch": *s.GenMatch}
		}
		srcs = append(srcs, m)
	}
	dest := map[string]any{}
	if c.CT != "" {
		dest["contentType"] = c.CT
	}
	if len(c.UserMeta) > 0 {
		dest["metadata"] = c.UserMeta
	}
	doc := map[string]any{"kind": "storage#composeRequest", "destination": dest}
	if srcs == nil {
		doc["sourceObjects"] = []any{}
	} else {
		doc["sourceObjects"] = srcs
	}
	b, _ := json.Marshal(doc)
	return b
}

func (e *exec) compose(c *composeSpec) string {
	// reasons to fail, each with its admissible statuses
	allowed := map[int]bool{}
	var why []string
	if len(c.Srcs) > 32 {
		allowed[400] = true
		why = append(why, ">32 sources:400")
	}
	var data []byte
	for i, s := range c.Srcs {
		o := e.m.Get(c.Bucket, s.Name)
		if o == nil {
			allowed[404] = true
			why = append(why, fmt.Sprintf("source %d missing:404", i))
			continue
		}
		if s.GenMatch != nil {
			if g, err := strconv.ParseInt(*s.GenMatch, 10, 64); err != nil || g != o.Gen {
				allowed[412] = true
				why = append(why, fmt.Sprintf("source %d generation mismatch:412", i))
			}
		}
		data = append(data, o.Content...)
	}
	cur := e.m.Get(c.Bucket, c.Dst)
	v := model.Eval(cur, c.Conds)
	switch v {
	case model.Bad:
		allowed[400] = true
		why = append(why, "unparsable condition:400")
	case model.FailMatch:
		allowed[412] = true
	case model.FailNot:
		allowed[304] = true
	case model.FailBoth, model.FailAbsent:
		allowed[412], allowed[304] = true, true
	}
	if v != model.Pass && v != model.Bad {
		why = append(why, "destination precondition:"+v.String())
	}
	zero := len(c.Srcs) == 0
	expect := "200, destination = concatenation in request order, sources untouched"
	if len(why) > 0 {
		expect = "fail (" + strings.Join(why, "; ") + "), nothing changed"
	} else if zero {
		expect = "0 sources: 4xx (nothing changed) or 2xx with an empty object"
	}
	e.touch(c.Bucket, c.Dst)
	rsp := e.cl.Compose(c.Bucket, c.Dst, c.body(), condParams(c.Conds))
	var names []string
	for _, s := range c.Srcs {
		n := s.Name
		if s.GenMatch != nil {
			n += "@" + *s.GenMatch
		}
		names = append(names, n)
	}
	req := fmt.Sprintf("compose %s/%q <- %q ct=%q metadata=%v", c.Bucket, c.Dst, names, c.CT, c.UserMeta)
	if !c.Conds.Empty() {
		req += " conds=" + c.Conds.String()
	}
	e.recResp(req, expect, rsp, nil)
	e.stats["composes"]++
	if rsp.Err != "" {
		return noResp("compose", req, rsp)
	}
	if len(why) > 0 {
		e.mustSame = true
		if rsp.OK() {
			return fmt.Sprintf("compose that must fail (%s) was acknowledged: %s", strings.Join(why, "; "), rsp)
		}
		if !allowed[rsp.Status] {
			return fmt.Sprintf("compose failed with status %d, expected %s", rsp.Status, expect)
		}
		e.stats["compose_failures_expected"]++
		return ""
	}
	if !rsp.OK() {
		if zero && rsp.Status >= 400 && rsp.Status < 500 {
			e.mustSame = true
			return ""
		}
		return "valid compose rejected: " + rsp.String()
	}
	res, err := rsp.JSON()
	if err != nil {
		return "compose response is not a JSON object: " + err.Error()
	}
	o := &model.Object{Content: data, CT: c.CT, CTKnown: c.CT != "", Composite: true}
	if msg := checkResource(res, c.Bucket, c.Dst, o); msg != "" {
		return "compose response: " + msg
	}
	got := model.ExtractFields(res)
	wantMeta := map[string]any{}
	for k, v := range c.UserMeta {
		wantMeta[k] = v
	}
	gm, _ := got["metadata"].(map[string]any)
	if msg := model.FieldsEqual(map[string]any{"metadata": gm}, map[string]any{"metadata": wantMeta}); msg != "" && (len(gm) > 0 || len(wantMeta) > 0) {
		return "compose response: destination metadata not taken from the request: " + msg
	}
	gen, metagen, msg := gensOf(res)
	if msg != "" {
		return "compose response: " + msg
	}
	o.Gen, o.Metagen = gen, metagen
	o.Learned = got
	e.noteWrite(c.Bucket, c.Dst, cur)
	e.law(e.laws.Write(c.Bucket, c.Dst, gen, metagen))
	e.m.Put(c.Bucket, c.Dst, o)
	e.stats["composes_ok"]++
	if !c.Conds.Empty() {
		e.stats["conditioned_passes"]++
	}
	return ""
}

func (e *exec) copyObj(sb, sn, db, dn string) string { return e.copyObjBody(sb, sn, db, dn, nil) }

// copyObjBody is a copy whose request body is a destination object resource (nil: the empty resource {}). The body
// carries output-only fields (generation, metageneration, md5Hash, size, timestamps, ... - stale or made up), which a
// client cannot set, and exactly the source's user-settable fields; the destination must therefore come out as with {}.
func (e *exec) copyObjBody(sb, sn, db, dn string, body map[string]any) string {
	src := e.m.Get(sb, sn)
	expect := "200 rewriteResponse, destination = clone of source, source untouched"
	if src == nil {
		expect = "404, nothing changed"
	}
	e.touch(db, dn)
	e.touch(sb, sn)
	var rsp *drive.Resp
	req := fmt.Sprintf("copy %s/%q -> %s/%q", sb, sn, db, dn)
	if body == nil {
		rsp = e.cl.Rewrite(sb, sn, db, dn)
	} else {
		raw, _ := json.Marshal(body)
		rsp = e.cl.RewriteBody(sb, sn, db, dn, raw)
		req += fmt.Sprintf(" body=%s", raw)
		e.stats["copies_with_resource_body"]++
		if dst := e.m.Get(db, dn); dst != nil {
			if g, ok := drive.Int64Field(body, "generation"); ok && g != dst.Gen {
				e.stats["copies_with_resource_body_other_generation"]++
			}
		}
	}
	e.recResp(req, expect, rsp, nil)
	e.stats["copies"]++
	if rsp.Err != "" {
		return noResp("copy", req, rsp)
	}
	if src == nil {
		e.mustSame = true
		if rsp.Status != 404 {
			return fmt.Sprintf("copy of a missing source answered %d, want 404", rsp.Status)
		}
		return ""
	}
	if !rsp.OK() {
		return "valid copy rejected: " + rsp.String()
	}
	doc, err := rsp.JSON()
	if err != nil {
		return "copy response is not a JSON object: " + err.Error()
	}
	for _, k := range []string{"totalBytesRewritten", "objectSize"} {
		n, ok := drive.Int64Field(doc, k)
		if _, present := doc[k]; !present {
			n, ok = 0, true // the JSON encoding omits zero values
		}
		if !ok || n != int64(len(src.Content)) {
			return fmt.Sprintf("copy response %s=%v, want %d", k, doc[k], len(src.Content))
		}
	}
	res, _ := doc["resource"].(map[string]any)
	if res == nil {
		return "copy response carries no resource"
	}
	o := src.Clone()
	if msg := checkResource(res, db, dn, o); msg != "" {
		return "copy response resource: " + msg
	}
	if msg := model.FieldsEqual(model.ExtractFields(res), src.Learned); msg != "" {
		return "copy response resource: user-settable metadata differs from the source's: " + msg
	}
	gen, metagen, msg := gensOf(res)
	if msg != "" {
		return "copy response resource: " + msg
	}
	o.Gen, o.Metagen = gen, metagen
	o.Learned = model.ExtractFields(res)
	e.noteWrite(db, dn, e.m.Get(db, dn))
	e.law(e.laws.Write(db, dn, gen, metagen))
	e.m.Put(db, dn, o)
	e.stats["copies_ok"]++
	return ""
}

// ---------------------------------------------------------------- whole-store verification

func (e *exec) namesToDump() map[string][]string {
	out := map[string][]string{}
	for b, ns := range e.universe {
		set := map[string]bool{}
		for _, n := range ns {
			set[n] = true
		}
		for _, n := range e.m.Names(b) {
			set[n] = true
		}
		var all []string
		for n := range set {
			all = append(all, n)
		}
		sort.Strings(all)
		out[b] = all
	}
	return out
}

// verify dumps the whole store and compares it with the model; after a failed request it also demands that the
// dump equals the previous dump. Returns "" or the refuting observation.
func (e *exec) verify() string {
	stepNo := len(e.steps)
	// every media GET is sent with or without "Accept-Encoding: gzip", varying with step, name and form
	ae := func(n string, f int) int {
		if common.Hash64(n, fmt.Sprint(stepNo, "/", f))%2 == 0 {
			return f | drive.AcceptGzip
		}
		return f
	}
	forms := func(b, n string) []int {
		if e.allForms || e.touched[b+"\x00"+n] {
			// all three forms, and the first of them once more the other way round
			first := ae(n, drive.FormJSON)
			return []int{first, ae(n, drive.FormDownload), ae(n, drive.FormPublic), first ^ drive.AcceptGzip}
		}
		f := (stepNo + int(common.Hash64(n)%3)) % 3
		if f == drive.FormPublic && !drive.PublicOK(n) {
			f = drive.FormJSON
		}
		return []int{ae(n, f)}
	}
	d := e.cl.Dump(e.namesToDump(), forms)
	e.stats["dumps"]++
	e.touched = map[string]bool{}
	if e.cl.Unanswered() > 0 {
		// a read of the dump got no answer (the remaining ones were not sent)
		unansweredReqs.Add(1)
		return e.cl.FirstUnanswered() + " = a read of the whole-store dump"
	}
	msg := e.diff(d)
	canon := d.Canon("", "")
	if msg == "" && e.mustSame && e.last != nil {
		if dm := drive.DiffCanon(e.last, canon); dm != "" {
			msg = "a failed request changed the observable store: " + dm
			if e.readOnly {
				msg = "reads (metadata GET, media GET, listing) changed the observable store: " + dm
			}
		}
		if e.readOnly {
			e.stats["unchanged_dumps_compared_after_reads"]++
		}
		e.stats["unchanged_dumps_compared"]++
	}
	e.mustSame, e.readOnly = false, false
	e.last = canon
	e.lastDump = d
	return msg
}

func (e *exec) diff(d *drive.StoreDump) string {
	buckets := make([]string, 0, len(d.Buckets))
	for b := range d.Buckets {
		buckets = append(buckets, b)
	}
	sort.Strings(buckets)
	for _, b := range buckets {
		bv := d.Buckets[b]
		if !e.m.HasBucket(b) {
			if bv.Status != 404 || bv.ListStatus != 404 {
				return fmt.Sprintf("bucket %s was never created but GET bucket=%d, list=%d", b, bv.Status, bv.ListStatus)
			}
		} else {
			if bv.Status != 200 {
				return fmt.Sprintf("GET bucket %s = %d, want 200", b, bv.Status)
			}
			if bv.ListErr != "" || bv.ListStatus != 200 {
				return fmt.Sprintf("listing of bucket %s failed: status %d %s", b, bv.ListStatus, bv.ListErr)
			}
			seen := map[string]bool{}
			for i, n := range bv.Listed {
				if seen[n] {
					return fmt.Sprintf("listing of bucket %s shows %q twice", b, n)
				}
				seen[n] = true
				if e.m.Get(b, n) == nil {
					return fmt.Sprintf("listing of bucket %s shows %q, which the model does not hold (live: %q)", b, n, e.m.Names(b))
				}
				if g, mg, msg := gensOf(bv.Items[i]); msg == "" {
					e.law(e.laws.Observe(b, n, "listing item", g, mg))
					e.stats["gen_reports_compared"]++
				} else {
					e.law("listing item " + b + "/" + n + ": " + msg)
				}
			}
			for _, n := range e.m.Names(b) {
				if !seen[n] {
					return fmt.Sprintf("listing of bucket %s lacks live object %q (listed: %q)", b, n, bv.Listed)
				}
			}
			for mr, pl := range bv.Paged {
				if pl.Err != "" {
					return fmt.Sprintf("listing of bucket %s with maxResults=%d: %s", b, mr, pl.Err)
				}
				got := map[string]int{}
				for _, n := range pl.Names {
					got[n]++
				}
				for _, n := range e.m.Names(b) {
					if got[n] != 1 {
						return fmt.Sprintf("listing of bucket %s with maxResults=%d over %d pages shows live object %q %d times (pages: %q)", b, mr, pl.Pages, n, got[n], pl.Names)
					}
				}
				if len(pl.Names) != len(e.m.Names(b)) {
					return fmt.Sprintf("listing of bucket %s with maxResults=%d shows %q, live are %q", b, mr, pl.Names, e.m.Names(b))
				}
				e.stats["paged_listings_compared"]++
			}
		}
		names := make([]string, 0, len(bv.Objects))
		for n := range bv.Objects {
			names = append(names, n)
		}
		sort.Strings(names)
		for _, n := range names {
			ov := bv.Objects[n]
			o := e.m.Get(b, n)
			if o == nil {
				if ov.MetaStatus != 404 {
					return fmt.Sprintf("metadata GET of absent %s/%q = %d %s, want 404", b, n, ov.MetaStatus, clipS(ov.MetaRaw))
				}
				for _, mv := range ov.Media {
					if mv.Fetched && mv.Status != 404 {
						return fmt.Sprintf("media GET (%s) of absent %s/%q = %d, want 404", mediaDesc(&mv), b, n, mv.Status)
					}
				}
				e.stats["absent_names_confirmed"]++
				continue
			}
			if ov.MetaStatus != 200 || ov.Meta == nil {
				return fmt.Sprintf("metadata GET of live %s/%q = %d %s %s", b, n, ov.MetaStatus, ov.MetaErr, clipS(ov.MetaRaw))
			}
			if msg := checkResource(ov.Meta, b, n, o); msg != "" {
				return fmt.Sprintf("metadata GET of %s/%q: %s", b, n, msg)
			}
			g, mg, msg := gensOf(ov.Meta)
			if msg != "" {
				return fmt.Sprintf("metadata GET of %s/%q: %s", b, n, msg)
			}
			if g != o.Gen || mg != o.Metagen {
				return fmt.Sprintf("metadata GET of %s/%q reports generation/metageneration %d/%d, last acknowledged %d/%d", b, n, g, mg, o.Gen, o.Metagen)
			}
			e.stats["gen_reports_compared"]++
			e.noteSnap(b, n, ov.Meta)
			if msg := model.FieldsEqual(model.ExtractFields(ov.Meta), o.Learned); msg != "" {
				return fmt.Sprintf("metadata GET of %s/%q: user-settable fields differ from the last acknowledged ones: %s", b, n, msg)
			}
			for i := range ov.Media {
				mv := &ov.Media[i]
				if !mv.Fetched {
					continue
				}
				if msg := e.checkMedia(b, n, o, mv); msg != "" {
					return msg
				}
			}
		}
	}
	return ""
}

func mediaDesc(mv *drive.MediaView) string {
	if mv.AcceptGzip {
		return drive.FormNames[mv.Form] + ", Accept-Encoding: gzip"
	}
	return drive.FormNames[mv.Form] + ", no Accept-Encoding"
}

// gzipEncoded: the server last acknowledged the object with contentEncoding "gzip".
func gzipEncoded(o *model.Object) bool {
	s, _ := o.Learned["contentEncoding"].(string)
	return s == "gzip"
}

// checkMedia compares one media GET of a live object with the model: the body is the stored content byte for byte. For
// an object stored with contentEncoding gzip a client that did not send "Accept-Encoding: gzip" may instead be
// served the decompressed content (decompressive transcoding); a client that did send it gets the stored bytes.
func (e *exec) checkMedia(b, n string, o *model.Object, mv *drive.MediaView) string {
	if mv.Err != "" || mv.Status != 200 {
		return fmt.Sprintf("media GET (%s) of live %s/%q = %d %s", mediaDesc(mv), b, n, mv.Status, mv.Err)
	}
	if !bytes.Equal(mv.Body, o.Content) {
		plain, isGz := drive.Gunzip(o.Content)
		if !(gzipEncoded(o) && !mv.AcceptGzip && isGz && bytes.Equal(mv.Body, plain)) {
			what := "uploaded " + bodyDesc(o.Content)
			if gzipEncoded(o) && isGz {
				what = fmt.Sprintf("stored with contentEncoding gzip: %s, decompressed %s", bodyDesc(o.Content), bodyDesc(plain))
			}
			return fmt.Sprintf("media GET (%s) of %s/%q returned %s (Content-Encoding %q), %s", mediaDesc(mv), b, n, bodyDesc(mv.Body), mv.Encoding, what)
		}
		e.stats["media_compared_transcoded"]++
	} else if gzipEncoded(o) {
		e.stats["media_compared_gzip_encoded_as_stored"]++
	}
	e.stats["media_compared"]++
	if mv.Gen != "" || mv.Metagen != "" {
		hg, _ := strconv.ParseInt(mv.Gen, 10, 64)
		hm, _ := strconv.ParseInt(mv.Metagen, 10, 64)
		e.law(e.laws.Observe(b, n, "media GET header ("+drive.FormNames[mv.Form]+")", hg, hm))
		e.stats["gen_reports_compared"]++
	}
	return ""
}

func clipS(s string) string {
	s = strings.TrimSpace(s)
	if len(s) > 200 {
		return s[:200] + "..."
	}
	return s
}

// ---------------------------------------------------------------- representability on the file store

// representable: the name can be stored as a file next to the given live names (no empty, "." or ".." component, no
// trailing "/", no ".emumeta" suffix, components <= 255 bytes, not a directory-prefix of / prefixed by a live name).
func representable(name string, live []string) bool {
	if name == "" || strings.HasSuffix(name, ".emumeta") {
		return false
	}
	for _, c := range strings.Split(name, "/") {
		if c == "" || c == "." || c == ".." || len(c) > 255 || strings.HasSuffix(c, ".emumeta") {
			return false
		}
	}
	for _, l := range live {
		if l == name {
			continue
		}
		if strings.HasPrefix(l, name+"/") || strings.HasPrefix(name, l+"/") {
			return false
		}
	}
	return true
}

// hangConfirm is called when a request got no answer within its watchdog (checks whose emulator runs in this process).
// A deadline alone is no verdict on a loaded machine: two goroutine dumps are taken 3 s apart; if handler goroutines
// of the emulator are blocked (not running, not in I/O) in the same state and stack in both, the request is reported
// by the caller as unanswered (a violation of whatever the caller was checking: every request of these properties must
// be answered); otherwise the request is waited for again (a suspended or overloaded machine resumes and answers), and
// only after three periods without an answer and without a blocked handler the run ends INCONCLUSIVE.
func hangConfirm(run *common.Run, desc string, period int) bool {
	snapshot := func() map[string]string {
		buf := make([]byte, 16<<20)
		buf = buf[:runtime.Stack(buf, true)]
		out := map[string]string{}
		for _, g := range strings.Split(string(buf), "\n\n") {
			head, _, _ := strings.Cut(g, "\n")
			id, state, ok := strings.Cut(strings.TrimPrefix(head, "goroutine "), " [")
			if !ok || !strings.Contains(g, "gcsemu.(*GcsEmu).") {
				continue
			}
			if strings.HasPrefix(state, "running") || strings.HasPrefix(state, "runnable") || strings.HasPrefix(state, "syscall") || strings.HasPrefix(state, "IO wait") {
				continue
			}
			state, _, _ = strings.Cut(state, ",")
			state = strings.TrimSuffix(state, "]:")
			lines := strings.Split(g, "\n")
			out[id] = state + "\n" + strings.Join(lines[1:min(len(lines), 14)], "\n")
		}
		return out
	}
	first := snapshot()
	time.Sleep(3 * time.Second)
	second := snapshot()
	blocked := 0
	for id, a := range first {
		if second[id] == a {
			blocked++
		}
	}
	run.Count("unanswered_requests_examined_with_goroutine_dumps", 1)
	if blocked > 0 {
		run.Count("unanswered_requests_with_blocked_emulator_handlers", 1)
		return true
	}
	if period < 2 {
		run.Count("watchdog_expiries_with_no_blocked_handler", 1)
		return false // wait for the answer for another period
	}
	run.Blind(fmt.Sprintf("a request got no answer within its watchdog but no handler of the emulator in this process is blocked (slow machine?): %s", desc))
	run.Finish()
	os.Exit(4)
	return true
}

package main

import (
	"encoding/json"
	"fmt"
	"math/bits"
	"sort"
	"strings"
	"sync/atomic"

	"verif/common"
	"verif/gcs/drive"
	"verif/gcs/model"
)

func init() { register("C11", "exploration", runC11) }

var (
	c11Universe = []string{"a", "a.txt", "a-b", "a/b", "a/b/c", "a/c", "a0", "ab/", "b", "b/c"}
	c11Prefixes = []string{"", "a", "a/", "a/b", "a.", "b", "c"}
	c11Delims   = []string{"", "/", "b", "/b"}

	// second universe: sibling DIRECTORIES whose names extend one another by a byte that sorts below '/'
	// ('.', '-', '!', '+') or above it ('0'), on two levels, so that a walk ordering directories by their plain
	// entry name (instead of name + "/") disagrees with the bytewise order of the object names.
	c11Universe2 = []string{"d/v1/x", "d/v1/y", "d/v1.2/x", "d/v1-b/x", "d/v10/x", "d/v1/w/z", "d/v1/w.1/z", "d/v1!/x", "d/v1+c/x", "d0"}
	c11Prefixes2 = []string{"", "d/", "d/v1", "d/v1.", "d/v1/", "d/v1/w", "e"}
	c11Delims2   = []string{"", "/", "v1/", "."}
	// components for tree-shaped random name sets
	c11Comps = []string{"v1", "v1.2", "v1-b", "v10", "v1!", "v1+", "v1 x", "w", "w.1", "w-"}
)

const (
	kfListDelim = "KF14" // delimiter + maxResults: names lost / prefixes repeated across pages
	kfWalkOrder = "KF15" // file store lists directory by directory instead of bytewise
)

type c11Case struct {
	sub   string
	idx   int
	store string
	names []string
	pfx   []string
	dlm   []string
}

// C11: listing is complete, duplicate-free and ordered for any prefix / delimiter / page size.
func runC11(run *common.Run) {
	maxSize := run.N(4, 5)
	run.Rule = fmt.Sprintf("sub-space 'exh' (enumerated COMPLETELY, exhaustive=true refers to it): every subset of size <= %d of the name universe %q x prefixes %q x delimiters %q, and of the nested sibling-directory universe %q x prefixes %q x delimiters %q (file store: the subsets representable as files), x maxResults 1..n+1 and unset x both stores, the token chain followed to its end (more than n+2 pages is a violation); 'rand': random larger subsets of either universe and of their union, and tree-shaped sets (8 names of depth 2-3 built from directory components that extend one another: v1, v1.2, v1-b, v10, v1!, ...) with prefixes / delimiters cut from the names; 'big' (thorough): random 12-name buckets over the alphabet {a,b,/,.,-,0} with prefixes/delimiters cut from the names. ; 'large' (both tiers, both stores): one bucket of 2300-2900 names (thorough: 3 buckets of up to 4600) - flat names, 12-30 directories of 25-45 files with sibling names sorting between them, a second flat group; group sizes drawn per seed so that the 1000th / 2000th name falls into different groups - uploaded in random order and listed with maxResults in {unset (default page size), 1 (first 60 pages), 7, 300, 999, 1000, 1001, 1200, 5000, one random size 2-60, one random size 400-2500} x 11 prefix/delimiter pairs (none, '/', prefixes cutting into the directory / flat groups, a multi-character delimiter, a prefix matching nothing), every chain followed to its end (small sizes: bounded number of pages, then the beginning of the answer is compared). Every exh / rand / big case first lists the bucket BEFORE anything was uploaded (every prefix x delimiter, maxResults unset, 1, 2: 200 and nothing) and, after the main grid, deletes its objects one by one in a case-dependent order (as given, reversed, rotated) until the bucket is empty: listed after the last delete (every fourth case after every delete) with every prefix x delimiter x maxResults in {unset, 1, n+1}, bucket metadata GET 200 before the first upload and after the last delete; every second case then uploads half of the names again and lists. 'long' (both tiers, both stores): 4 (thorough: 40) sets of 9 names of up to 1024 bytes - three nested directory components of 200-230 bytes, file components <= 240 bytes (legal file-store paths), total lengths 700, 765, 766, 767 and 1024 bytes, shorter names inside and beside the long directories - listed with maxResults unset, 1..n+1 x prefixes cut from the names (up to > 766 bytes, a whole name) x delimiters {none, '/', three bytes of a directory component}, every nextPageToken followed, so that page boundaries fall on every long name and on prefixes collapsed from them; then drained and refilled like the other cases. 'churn' (both tiers, both stores): pools of 6 names from either universe or their union; 14-24 drawn uploads / deletes / overwrites of single objects, then deletes until nothing is left, so that the bucket runs empty through deletes of nested and top-level names several times and is filled again; after EVERY mutation the complete prefix x delimiter grid with maxResults in {unset, 1, 2, n+1}, and the bucket GET whenever it is empty. Oracle per pagination: concatenated items == model items, concatenated prefixes == model prefixes (each once, ascending), items+prefixes per page <= maxResults, every item's JSON == the metadata GET of that name; plus malformed tokens / maxResults => 400, missing bucket => 404, an existing bucket - also one that never held an object or lost its last object through a delete - => 200 for the listing (no items) and for its metadata GET. Case = one (name set, store). Non-trivial = at least one pagination of the case needed >= 2 pages and at least one listing returned a collapsed prefix (churn: the bucket was emptied by deletes at least twice and a pagination needed >= 2 pages); distinct by name set x store. Objects are stored one time in three by a media upload (content type only), else by a multipart or resumable upload whose metadata draws from content type / disposition / language / encoding identity, cache control, user metadata, customTime, holds, acl entries + owner (three in four), retention, customerEncryption, one in four patched afterwards (every second name set of 'exh' uses media uploads only); listings are sent with projection unset / full / noAcl in turn and every listed item - the whole resource as decoded JSON - must equal the metadata GET of that name sent with the same projection value. List -> PATCH -> list again: after the full grid of a case one to three of the objects just listed are patched (drawn fields) and the bucket is listed again with every prefix x delimiter x maxResults {unset, 2}; churn cases patch a live object in one mutation step in five; the items are compared with the metadata GETs sent AFTER the patch.", maxSize, c11Universe, c11Prefixes, c11Delims, c11Universe2, c11Prefixes2, c11Delims2)
	run.Assumptions = []string{
		"listing model from the statement: bytewise ascending names, prefix filter, collapse at the first delimiter after the prefix",
		"file store: only name sets representable as files (no name that is a directory of another, no trailing '/')",
		"item metadata is compared as decoded JSON with the metadata GET of the same name through the same server",
		"a bucket exists from its creation until it is deleted, whatever happens to its objects: an empty bucket lists as 200 without items and its metadata GET answers 200 (the reference model keeps buckets and objects apart)",
		"object names of up to 1024 bytes are legal (the documented GCS limit); the emulator's own page tokens are well-formed whatever their length",
		"a request that gets no answer within the client watchdog (20 s for PATCH / DELETE / compose / rewrite, 60 s otherwise) is reported as 'request not answered within <d>: <request>', the case is abandoned and its server not used again; after 3 such reports the run stops",
		"a malformed token is one that is not base64 or whose bytes are not a decodable token ('////'); well-formed tokens are only ever taken from the server",
	}
	j := common.NewJournal("C11")
	var cases []c11Case
	// exhaustive subsets in a fixed order: by size, then by bit mask
	var masks []int
	for m := 0; m < 1<<len(c11Universe); m++ {
		if bits.OnesCount(uint(m)) <= maxSize {
			masks = append(masks, m)
		}
	}
	sort.SliceStable(masks, func(a, b int) bool { return bits.OnesCount(uint(masks[a])) < bits.OnesCount(uint(masks[b])) })
	subsetOf := func(u []string, m int) []string {
		var out []string
		for i, n := range u {
			if m&(1<<i) != 0 {
				out = append(out, n)
			}
		}
		return out
	}
	excluded := func(names []string, store string) bool {
		if store == "file" && run.KnownOpen(kfWalkOrder) && walkOrderSensitive(names) {
			return true
		}
		return false
	}
	skippedKF := 0
	type univ struct {
		names, pfx, dlm []string
	}
	univs := []univ{{c11Universe, c11Prefixes, c11Delims}, {c11Universe2, c11Prefixes2, c11Delims2}}
	for ui, u := range univs {
		for i, m := range masks {
			for s, store := range drive.Stores {
				names := subsetOf(u.names, m)
				if store == "file" && !setRepresentable(names) {
					continue
				}
				if excluded(names, store) {
					skippedKF++
					continue
				}
				cases = append(cases, c11Case{"exh", (ui*len(masks)+i)*2 + s, store, names, u.pfx, u.dlm})
			}
		}
	}
	nExh := len(cases)
	// 'large': one bucket per store whose listing needs several default-sized pages; run first, they take longest
	nLarge := run.N(1, 3)
	var largeCases []c11Case
	for i := 0; i < nLarge; i++ {
		for s, store := range drive.Stores {
			largeCases = append(largeCases, c11Case{sub: "large", idx: i*2 + s, store: store})
		}
	}
	cases = append(largeCases, cases...)
	cutQueries := func(r *common.Rand, names []string) (pfx, dlm []string) {
		pfx, dlm = []string{"", "d/"}, []string{"", "/"}
		for q := 0; q < 5; q++ {
			n := common.Pick(r, names)
			pfx = append(pfx, n[:r.Intn(len(n)+1)])
			a := r.Intn(len(n))
			dlm = append(dlm, n[a:a+1+r.Intn(min(2, len(n)-a))])
		}
		return
	}
	for i, n := 0, run.N(300, 3000); i < n; i++ {
		r := run.Rand("C11.rand", i)
		var pool, pfx, dlm []string
		switch i % 4 {
		case 0:
			pool, pfx, dlm = append([]string(nil), c11Universe...), c11Prefixes, c11Delims
		case 1:
			pool, pfx, dlm = append([]string(nil), c11Universe2...), c11Prefixes2, c11Delims2
		case 2:
			pool = append(append([]string(nil), c11Universe...), c11Universe2...)
			pfx, dlm = append(append([]string(nil), c11Prefixes...), c11Prefixes2[1:]...), c11Delims
		case 3:
			// tree-shaped set: 8 names of depth 2-3 over components that extend one another
			seen := map[string]bool{}
			for len(pool) < 8 {
				n := common.Pick(r, []string{"d", "d", "e"})
				for l, k := 0, r.Range(1, 2); l < k; l++ {
					n += "/" + common.Pick(r, c11Comps)
				}
				n += "/" + common.Pick(r, []string{"x", "y", "x.1", "x-"})
				if !seen[n] {
					seen[n] = true
					pool = append(pool, n)
				}
			}
			pfx, dlm = cutQueries(r, pool)
		}
		k := len(pool)
		if i%4 != 3 {
			k = r.Range(maxSize+1, min(len(pool), 10))
			common.Shuffle(r, pool)
		}
		for s, store := range drive.Stores {
			names := append([]string(nil), pool[:k]...)
			if store == "file" {
				names = makeRepresentable(names)
			}
			if excluded(names, store) {
				skippedKF++
				continue
			}
			cases = append(cases, c11Case{"rand", i*2 + s, store, names, pfx, dlm})
		}
	}
	// 'churn': buckets whose objects come and go; pools of 6 names from either universe, their union or a tree-shaped set
	for i, n := 0, run.N(60, 600); i < n; i++ {
		r := run.Rand("C11.churnpool", i)
		var pool, pfx, dlm []string
		switch i % 3 {
		case 0:
			pool, pfx, dlm = append([]string(nil), c11Universe...), c11Prefixes, c11Delims
		case 1:
			pool, pfx, dlm = append([]string(nil), c11Universe2...), c11Prefixes2, c11Delims2
		case 2:
			pool = append(append([]string(nil), c11Universe...), c11Universe2...)
			pfx, dlm = append(append([]string(nil), c11Prefixes...), c11Prefixes2[1:]...), c11Delims
		}
		common.Shuffle(r, pool)
		pool = pool[:6]
		for s, store := range drive.Stores {
			if excluded(pool, store) {
				skippedKF++
				continue
			}
			cases = append(cases, c11Case{"churn", i*2 + s, store, pool, pfx, dlm})
		}
	}
	// 'long': names of 700-1024 bytes (1024 is the longest name GCS allows), several of them sharing directory components of
	// 200-240 bytes, with total lengths on both sides of 766 bytes; page boundaries fall on every one of them
	for i, n := 0, run.N(4, 40); i < n; i++ {
		names, pfx, dlm := c11LongNames(run.Rand("C11.long", i))
		for s, store := range drive.Stores {
			ns := names
			if store == "file" {
				ns = makeRepresentable(names)
			}
			cases = append(cases, c11Case{"long", i*2 + s, store, ns, pfx, dlm})
		}
	}
	if run.IsThorough() {
		for i := 0; i < 500; i++ {
			r := run.Rand("C11.big", i)
			var names []string
			seen := map[string]bool{}
			for len(names) < 12 {
				n := ""
				for l, k := 0, r.Range(1, 5); l < k; l++ {
					n += string("ab/.-0"[r.Intn(6)])
				}
				if seen[n] || !cleanSafe(n) {
					continue
				}
				seen[n] = true
				names = append(names, n)
			}
			pfx, dlm := []string{""}, []string{"", "/"}
			for q := 0; q < 5; q++ {
				n := common.Pick(r, names)
				pfx = append(pfx, n[:r.Intn(len(n)+1)])
				a := r.Intn(len(n))
				dlm = append(dlm, n[a:a+1+r.Intn(min(2, len(n)-a))])
			}
			for s, store := range drive.Stores {
				ns := names
				if store == "file" {
					ns = makeRepresentable(names)
				}
				if excluded(ns, store) {
					skippedKF++
					continue
				}
				cases = append(cases, c11Case{"big", i*2 + s, store, ns, pfx, dlm})
			}
		}
	}
	run.Count("cases_skipped_for_open_findings", int64(skippedKF))
	run.Canary(kfListDelim, canaryListDelim)
	run.Canary(kfWalkOrder, canaryWalkOrder)

	W := workers()
	var aborted atomic.Bool
	common.Parallel(W, W, func(w int) {
		srvs := srvPool{}
		defer srvs.closeAll()
		for ci := w; ci < len(cases); ci += W {
			c := cases[ci]
			if !run.Want(c.sub, c.idx) {
				continue
			}
			if tooMany(run) {
				aborted.Store(true)
				return
			}
			srv, err := srvs.get(c.store) // (a server on which a request went unanswered is replaced)
			if err != nil {
				run.Violation(c.sub, c.idx, "cannot start emulator: "+err.Error(), nil)
				return
			}
			j.Begin(w, fmt.Sprintf("C11 %s case=%d store=%s names=%q seed=%d", c.sub, c.idx, c.store, c.names, run.Seed))
			if c.sub == "large" {
				c11Large(run, srv, c)
			} else {
				c11Run(run, srv, c, ci)
			}
			if srv.Wedged() {
				unansweredReqs.Add(1) // the case reported it; counted towards stopping the run
			}
			j.End(w)
		}
	})
	if run.Replay == nil && !aborted.Load() {
		run.Exhaustive = true
		run.Set("exhaustive_subspace", fmt.Sprintf("exh: %d (name set, store) cases = all subsets of size <= %d of each of the two 10-name universes on the memory store and all file-representable ones on the file store, each with all %d prefix x delimiter pairs and maxResults 1..n+1 + unset; rand/big are sampling", nExh, maxSize, len(c11Prefixes)*len(c11Delims)))
	}
}

// clipName shortens a very long name for messages: its beginning, its length, its end.
func clipName(n string) string {
	if len(n) <= 120 {
		return n
	}
	return fmt.Sprintf("%s...(%d bytes)...%s", n[:40], len(n), n[len(n)-30:])
}

func clipNames(ns []string) []string {
	out := make([]string, len(ns))
	for i, n := range ns {
		out[i] = clipName(n)
	}
	return out
}

func contains(xs []string, x string) bool {
	for _, y := range xs {
		if y == x {
			return true
		}
	}
	return false
}

func cleanSafe(n string) bool {
	if strings.HasPrefix(n, "/") {
		return false
	}
	for _, c := range strings.Split(strings.TrimSuffix(n, "/"), "/") {
		if c == "" || c == "." || c == ".." {
			return false
		}
	}
	return true
}

func setRepresentable(names []string) bool {
	for _, n := range names {
		if !representable(n, names) {
			return false
		}
	}
	return true
}

// makeRepresentable drops, in order, every name that cannot be stored next to the names kept so far.
func makeRepresentable(names []string) []string {
	var out []string
	for _, n := range names {
		if representable(n, out) {
			out = append(out, n)
		}
	}
	return out
}

// walkOrderSensitive is the trigger class of the file-store walk-order finding: some name lies in a directory d
// (it starts with d + "/") while another name continues d with a byte that sorts below '/' (e.g. "a/b" and "a.txt"),
// so that a directory-by-directory walk and the bytewise order disagree.
func walkOrderSensitive(names []string) bool {
	for _, n := range names {
		for i := 0; i < len(n); i++ {
			if n[i] != '/' {
				continue
			}
			dir := n[:i]
			for _, o := range names {
				if len(o) > len(dir) && strings.HasPrefix(o, dir) && o[len(dir)] < '/' {
					return true
				}
			}
		}
	}
	return false
}

func canonJSON(m map[string]any) string {
	b, _ := json.Marshal(m)
	return string(b)
}

// c11Projections are the values of the listing's (and the metadata GET's) projection parameter; "" = not sent.
var c11Projections = []string{"", "full", "noAcl"}

// c11Meta draws the metadata of a multipart / resumable upload: the whole range of fields an object can be stored with -
// content type / disposition / language, cache control, user metadata, custom time, holds, and (three times in four) acl
// entries and an owner, sometimes retention and customerEncryption.
func c11Meta(r *common.Rand, n string) map[string]any {
	m := map[string]any{"name": n, "contentType": common.Pick(r, contentTypes)}
	if r.Chance(2, 3) {
		m["metadata"] = map[string]any{"of": n, common.Pick(r, []string{"k", "colour", "x-y"}): common.Pick(r, []string{"v", "blue", "ü", ""})}
	}
	if r.Bool() {
		m["cacheControl"] = common.Pick(r, []string{"no-cache", "public, max-age=60"})
	}
	if r.Bool() {
		m["contentDisposition"] = common.Pick(r, []string{"inline", `attachment; filename="x.txt"`})
	}
	if r.Bool() {
		m["contentLanguage"] = common.Pick(r, []string{"en", "de"})
	}
	if r.Chance(1, 3) {
		m["contentEncoding"] = "identity"
	}
	if r.Chance(1, 3) {
		m["customTime"] = "2021-02-03T04:05:06.789Z"
	}
	if r.Chance(1, 4) {
		m[common.Pick(r, []string{"eventBasedHold", "temporaryHold"})] = true
	}
	for k, v := range genExtra(r) {
		m[k] = v
	}
	return m
}

// c11Objects stores the objects of a listing case and keeps, per projection value, what a metadata GET sent with that
// projection returned for each of them.
type c11Objects struct {
	run    *common.Run
	cl     *drive.Client
	r      *common.Rand
	b      string
	metaOf map[string]map[string]string // projection -> name -> canonical JSON of the metadata GET
	hasACL map[string]bool
	counts map[string]int64 // flushed into the run by flush()
	plain  bool             // media uploads only (every second case of the exhaustive sub-space, to keep its cost down)
}

var c11ProjLabel = map[string]string{"": "unset", "full": "full", "noAcl": "noAcl"}

func (s *c11Objects) flush() {
	for k, v := range s.counts {
		s.run.Count(k, v)
	}
	s.counts = map[string]int64{}
}

func newC11Objects(run *common.Run, cl *drive.Client, r *common.Rand, b string) *c11Objects {
	s := &c11Objects{run: run, cl: cl, r: r, b: b, metaOf: map[string]map[string]string{}, hasACL: map[string]bool{}, counts: map[string]int64{}}
	for _, p := range c11Projections {
		s.metaOf[p] = map[string]string{}
	}
	return s
}

// upload stores one object - one time in three by a media upload (content type only), else by a multipart or resumable
// upload with drawn metadata, one time in four followed by a PATCH - and reads its metadata back with every projection
// value. It returns "" or what failed.
func (s *c11Objects) upload(n string, content []byte) string {
	r, cl, b := s.r, s.cl, s.b
	delete(s.hasACL, n)
	switch x := r.Intn(6); {
	case x < 2 || len(content) == 0 || s.plain:
		if rsp := cl.UploadMedia(b, n, "text/plain", content, false, nil); !rsp.OK() {
			return fmt.Sprintf("upload of %q failed: %s", clipName(n), rsp)
		}
	default:
		m := c11Meta(r, n)
		raw, _ := json.Marshal(m)
		var rsp *drive.Resp
		if x < 5 {
			rsp = cl.UploadMultipart(b, raw, "", content, genBoundary(r), false, nil)
		} else {
			init, id, _ := cl.ResumableInit(b, raw, nil, "")
			if !init.OK() || id == "" {
				return fmt.Sprintf("resumable initiation for %q failed: %s", clipName(n), init)
			}
			rsp = cl.ResumableChunk("PUT", drive.SessionTarget(b, id), fmt.Sprintf("bytes 0-%d/%d", len(content)-1, len(content)), content)
		}
		if !rsp.OK() {
			return fmt.Sprintf("upload of %q with metadata %s failed: %s", clipName(n), raw, rsp)
		}
		s.run.Count("objects_uploaded_with_drawn_metadata", 1)
		if m["acl"] != nil || m["owner"] != nil {
			s.hasACL[n] = true
			s.run.Count("objects_uploaded_with_acl_or_owner", 1)
		}
	}
	if r.Chance(1, 4) {
		body, _ := json.Marshal(genPatchFields(r))
		if rsp := cl.Patch(b, n, body, nil); !rsp.OK() {
			return fmt.Sprintf("patch of %q with %s failed: %s", clipName(n), body, rsp)
		}
		s.run.Count("objects_patched_before_listing", 1)
	}
	return s.readBack(n)
}

// patch sends a PATCH with drawn fields to an object that is live (and, where the caller says so, was listed before)
// and reads its metadata back with every projection value: later listings are compared with the state AFTER the patch.
func (s *c11Objects) patch(n string) string {
	body, _ := json.Marshal(genPatchFields(s.r))
	if rsp := s.cl.Patch(s.b, n, body, nil); !rsp.OK() {
		return fmt.Sprintf("patch of %q with %s failed: %s", clipName(n), body, rsp)
	}
	return s.readBack(n)
}

// readBack stores what a metadata GET of n returns now, per projection value.
func (s *c11Objects) readBack(n string) string {
	cl, b := s.cl, s.b
	for _, p := range c11Projections {
		target := drive.ObjPath(b, n)
		if p != "" {
			target += drive.Query([][2]string{{"projection", p}})
		}
		rsp := cl.Do("GET", target, nil, nil)
		m, err := rsp.JSON()
		if rsp.Status != 200 || err != nil {
			return fmt.Sprintf("metadata GET of %q (projection %q) failed: %s", clipName(n), p, rsp)
		}
		s.metaOf[p][n] = canonJSON(m)
	}
	return ""
}

// projQuery is the query parameter of a listing sent with projection p.
func projQuery(p string) [][2]string {
	if p == "" {
		return nil
	}
	return [][2]string{{"projection", p}}
}

// itemDiff compares one listed item (listing sent with projection p) with the metadata GET of the same name sent with
// the same projection: the whole resource, as decoded JSON.
func (s *c11Objects) itemDiff(p, name string, item map[string]any) string {
	s.counts["items_compared_with_their_metadata_get"]++
	if s.hasACL[name] {
		s.counts["items_with_acl_or_owner_compared_projection_"+c11ProjLabel[p]]++
	}
	if got, want := canonJSON(item), s.metaOf[p][name]; got != want {
		// name the differing members first (the resources are long)
		var w map[string]any
		_ = json.Unmarshal([]byte(want), &w)
		keys := map[string]bool{}
		for k := range item {
			keys[k] = true
		}
		for k := range w {
			keys[k] = true
		}
		var diffs []string
		for k := range keys {
			a, _ := json.Marshal(item[k])
			g, _ := json.Marshal(w[k])
			if _, in := item[k]; !in {
				a = []byte("<absent>")
			}
			if _, in := w[k]; !in {
				g = []byte("<absent>")
			}
			if string(a) != string(g) {
				diffs = append(diffs, fmt.Sprintf("%s: item %s, GET %s", k, a, g))
			}
		}
		sort.Strings(diffs)
		return fmt.Sprintf("item %q (listing sent with projection %q) differs from its metadata GET (same projection) in %s; item %s, GET %s", clipName(name), p, strings.Join(diffs, "; "), got, want)
	}
	return ""
}

func c11Run(run *common.Run, srv *drive.Server, c c11Case, ci int) {
	cl := srv.Client
	b := fmt.Sprintf("l%d-%s", ci, c.sub)
	var log []string
	fail := func(what string) {
		run.Violation(c.sub, c.idx, what, map[string]any{"store": c.store, "names": c.names, "requests": log})
	}
	defer func() {
		for k, v := range cl.Counts() {
			run.Count(k, v)
		}
	}()
	if r := cl.CreateBucket(b); !r.OK() {
		fail("bucket creation failed: " + r.String())
		return
	}
	objs := newC11Objects(run, cl, run.Rand("C11.meta", ci), b)
	objs.plain = c.sub == "exh" && (c.idx/2)%2 == 1 // (idx/2 numbers the name sets; both stores alike)
	defer objs.flush()
	multiPage, collapsed := false, false
	listings := 0
	// bucketThere: the bucket was created and never deleted, so its metadata GET answers 200 whatever it holds
	bucketThere := func(when string) bool {
		if r := cl.GetBucket(b); r.Status != 200 {
			fail(fmt.Sprintf("GET bucket %s %s = %s, want 200 (the bucket was created and never deleted)", b, when, r))
			return false
		}
		run.Count("bucket_gets_compared", 1)
		return true
	}
	upload := func(n, content string) bool {
		if msg := objs.upload(n, []byte(content)); msg != "" {
			fail(msg)
			return false
		}
		return true
	}
	// grid lists the bucket, which holds exactly names, with every prefix x delimiter of the case x the given
	// maxResults values (0 = unset) and compares every complete pagination with the listing model.
	grid := func(names []string, sizes []int, when string) bool {
		n := len(names)
		for _, pfx := range c.pfx {
			for _, dlm := range c.dlm {
				for _, mr := range sizes {
					// the projection parameter varies from listing to listing (not sent, full, noAcl)
					proj := c11Projections[listings%len(c11Projections)]
					pages, trunc, err := cl.ListAllQ(b, pfx, dlm, mr, n+3, projQuery(proj))
					listings++
					objs.counts["listings_projection_"+c11ProjLabel[proj]]++
					desc := fmt.Sprintf("list prefix=%q delimiter=%q maxResults=%d projection=%q", clipName(pfx), dlm, mr, proj)
					if when != "" {
						desc = when + ": " + desc
					}
					var mp []model.Page
					for _, p := range pages {
						mp = append(mp, model.Page{Items: p.Names, Prefixes: p.Prefixes, Token: p.Token})
						desc += fmt.Sprintf(" | %d items=%q prefixes=%q token=%v", p.Status, clipNames(p.Names), clipNames(p.Prefixes), p.Token != "")
						if p.Status != 200 {
							desc += fmt.Sprintf(" body=%s", clipS(p.Raw))
						}
					}
					log = append(log, desc)
					if len(log) > 12 {
						log = log[len(log)-12:]
					}
					if err != nil {
						fail(desc + ": " + err.Error())
						return false
					}
					if last := pages[len(pages)-1]; last.Status != 200 {
						fail(fmt.Sprintf("%s: status %d", desc, last.Status))
						return false
					}
					if trunc || len(pages) > n+2 {
						fail(fmt.Sprintf("%s: the token chain did not end within n+2=%d pages", desc, n+2))
						return false
					}
					if msg := model.CheckPages(mp, names, pfx, dlm, mr); msg != "" {
						fail(desc + ": " + msg)
						return false
					}
					for _, p := range pages {
						for i, it := range p.Items {
							if msg := objs.itemDiff(proj, p.Names[i], it); msg != "" {
								fail(desc + ": " + msg)
								return false
							}
						}
						if len(p.Prefixes) > 0 {
							collapsed = true
						}
					}
					if len(pages) >= 2 {
						multiPage = true
					}
					if n == 0 {
						objs.counts["listings_of_empty_buckets"]++
					}
					objs.counts["pages_followed"] += int64(len(pages))
				}
			}
		}
		return true
	}
	// a bucket that never held an object lists as empty (200, no items) for every prefix / delimiter / page size
	if !grid(nil, []int{0, 1, 2}, "bucket that never held an object") || !bucketThere("before the first upload") {
		return
	}
	if c.sub == "churn" {
		// c.names is a pool: objects come and go in a drawn order, the bucket runs empty several times; after every
		// upload / delete the bucket is listed with every prefix x delimiter x maxResults in {unset, 1, 2, n+1}
		r := run.Rand("C11.churn", c.idx)
		var live []string
		emptied, steps := 0, r.Range(14, 24)
		for st := 0; st < steps || len(live) > 0; st++ {
			var absent []string
			for _, x := range c.names {
				if !contains(live, x) && (c.store != "file" || representable(x, live)) {
					absent = append(absent, x)
				}
			}
			grow := len(live) == 0 || (len(live) < 4 && r.Chance(2, 5))
			if st >= steps || len(absent) == 0 {
				grow = false // wind down: delete what is left
			}
			what := ""
			if grow {
				x := common.Pick(r, absent)
				if !upload(x, fmt.Sprintf("content %d of %s", st, x)) {
					return
				}
				live = append(live, x)
				what = fmt.Sprintf("step %d: after uploading %q", st, x)
			} else {
				x := common.Pick(r, live)
				if r.Chance(1, 6) {
					if !upload(x, fmt.Sprintf("overwritten %d of %s", st, x)) {
						return
					}
					what = fmt.Sprintf("step %d: after overwriting %q", st, x)
				} else if r.Chance(1, 4) {
					// a PATCH of an object that earlier listings of this server showed with its old metadata
					if msg := objs.patch(x); msg != "" {
						fail(msg)
						return
					}
					run.Count("objects_patched_between_two_listings", 1)
					what = fmt.Sprintf("step %d: after patching %q", st, x)
				} else {
					if rsp := cl.Delete(b, x, nil); !rsp.OK() {
						fail(fmt.Sprintf("delete of %q failed: %s", x, rsp))
						return
					}
					var rest []string
					for _, y := range live {
						if y != x {
							rest = append(rest, y)
						}
					}
					live = rest
					run.Count("drain_deletes", 1)
					what = fmt.Sprintf("step %d: after deleting %q", st, x)
					if len(live) == 0 {
						emptied++
						run.Count("buckets_emptied_by_deletes", 1)
						what += " (the bucket's last object)"
					}
				}
			}
			sort.Strings(live)
			if !grid(live, []int{0, 1, 2, len(live) + 1}, what) {
				return
			}
			if len(live) == 0 && !bucketThere(what) {
				return
			}
		}
		run.Count("listings", int64(listings))
		run.Case(common.Hash64("churn", c.store, fmt.Sprint(c.idx), strings.Join(c.names, "\x00")), emptied >= 2 && multiPage)
		if c.idx < 2 {
			run.Sample(map[string]any{"sub": "churn", "store": c.store, "pool": c.names, "times_emptied_by_deletes": emptied, "last_listings": log[max(0, len(log)-3):]})
		}
		return
	}
	for _, n := range c.names {
		if !upload(n, "content of "+n) {
			return
		}
	}
	n := len(c.names)
	var full []int
	for mr := 0; mr <= n+1; mr++ { // 0 = unset
		full = append(full, mr)
	}
	if !grid(c.names, full, "") {
		return
	}
	// list -> PATCH -> list again: one to three of the objects just listed are patched (metageneration +1, same
	// generation and content); every item of the listings that follow must equal its metadata GET AFTER the patch.
	if n > 0 && c.sub != "large" {
		pr := run.Rand("C11.patch", ci)
		var patched []string
		for k, kn := 0, pr.Range(1, 3); k < kn; k++ {
			x := common.Pick(pr, c.names)
			if msg := objs.patch(x); msg != "" {
				fail(msg)
				return
			}
			patched = append(patched, x)
			run.Count("objects_patched_between_two_listings", 1)
		}
		if !grid(c.names, []int{0, 2}, fmt.Sprintf("after patching %q, which the listings before showed", clipNames(patched))) {
			return
		}
	}
	// Drain: the objects are deleted one by one (order varies with the case) until the bucket is empty again. It is
	// listed after every delete (every fourth case; the others after the last one) - a bucket emptied by deletes is
	// still a bucket: 200 with no items, and its metadata GET answers 200 - then filled again and listed.
	if c.sub == "long" {
		for _, x := range c.names {
			if len(x) >= 766 {
				run.Count("long_names_of_766_bytes_or_more_listed", 1)
			}
		}
		run.Count("long_name_sets", 1)
	}
	if c.sub != "large" {
		order := append([]string(nil), c.names...)
		switch ci % 3 {
		case 1:
			for i, j := 0, len(order)-1; i < j; i, j = i+1, j-1 {
				order[i], order[j] = order[j], order[i]
			}
		case 2:
			if len(order) > 1 {
				order = append(order[1:], order[0])
			}
		}
		left := append([]string(nil), c.names...)
		for k, dn := range order {
			if r := cl.Delete(b, dn, nil); !r.OK() {
				fail(fmt.Sprintf("delete of %q failed: %s", dn, r))
				return
			}
			var rest []string
			for _, x := range left {
				if x != dn {
					rest = append(rest, x)
				}
			}
			left = rest
			run.Count("drain_deletes", 1)
			if ci%4 == 0 || k == len(order)-1 {
				if !grid(left, []int{0, 1, len(left) + 1}, fmt.Sprintf("after deleting %q (%d of %d)", order[:k+1], k+1, len(order))) {
					return
				}
			}
		}
		if n > 0 {
			run.Count("buckets_emptied_by_deletes", 1)
		}
		if !bucketThere("after its last object was deleted") {
			return
		}
		if ci%2 == 0 && n > 0 {
			back := order[:(n+1)/2]
			for _, x := range back {
				if !upload(x, "second content of "+x) {
					return
				}
			}
			if !grid(back, []int{0, 1, len(back)}, fmt.Sprintf("after the emptied bucket was filled again with %q", back)) || !bucketThere("after the refill") {
				return
			}
			run.Count("emptied_buckets_refilled", 1)
		}
	}
	run.Count("listings", int64(listings))
	if ci%8 == 0 {
		for _, q := range [][2]string{{"pageToken", "!!!"}, {"pageToken", "////"}, {"maxResults", "0"}, {"maxResults", "-1"}, {"maxResults", "x"}} {
			r := cl.List(b, [][2]string{q})
			if r.Status != 400 {
				fail(fmt.Sprintf("list %s=%s answered %d, want 400", q[0], q[1], r.Status))
				return
			}
			run.Count("malformed_parameter_listings", 1)
		}
		if r := cl.List(b+"-missing", nil); r.Status != 404 {
			fail(fmt.Sprintf("listing of a missing bucket answered %d, want 404", r.Status))
			return
		}
	}
	run.Case(common.Hash64(c.store, strings.Join(c.names, "\x00"), strings.Join(c.pfx, "\x00"), strings.Join(c.dlm, "\x00")), multiPage && collapsed)
	if ci%997 == 5 {
		run.Sample(map[string]any{"store": c.store, "names": c.names, "last_listings": log[max(0, len(log)-3):]})
	}
}

// c11LongNames builds a set of 9 names of up to 1024 bytes: three nested directory components of 200-230 bytes (a fourth
// of 240 for the longest name) and file components of at most 240 bytes, so that every name is also a legal path of the
// file store (components <= 255 bytes, the metadata sidecar's suffix included). Total lengths: 700, 765, 766, 767, 1024,
// two shorter names inside the long directories, a sibling of the first directory and one short top-level name.
// Prefixes and delimiters are cut from the names (prefixes of more than 600 and more than 766 bytes, a whole name).
func c11LongNames(r *common.Rand) (names, pfx, dlm []string) {
	comp := func(n int) string {
		b := make([]byte, n)
		for i := range b {
			b[i] = "abcdefghijklmnopqrstuvwxyz0123456789-._"[r.Intn(39)]
		}
		if b[0] == '.' {
			b[0] = 'd'
		}
		return string(b)
	}
	d1, d2, d3 := comp(r.Range(200, 230)), comp(r.Range(200, 230)), comp(r.Range(200, 230))
	base := d1 + "/" + d2 + "/" + d3 + "/"
	tail := func(tag string, total int) string { // a file component that brings the name to exactly total bytes
		n := total - len(base)
		return tag + strings.Repeat(string("qrstuvw"[r.Intn(7)]), n-len(tag))
	}
	for _, t := range []struct {
		tag   string
		total int
	}{{"f700-", 700}, {"f765-", 765}, {"f766-", 766}, {"f767-", 767}} {
		names = append(names, base+tail(t.tag, t.total))
	}
	d4 := comp(240)
	names = append(names, base+d4+"/"+strings.Repeat("m", 1024-len(base)-len(d4)-1)) // 1024 bytes
	names = append(names, d1+"/"+d2+"/x", d1+"/"+d2+"-"+comp(100)+"/y", d1+"-sibling/"+comp(230)+"/"+comp(240), "z-short")
	common.Shuffle(r, names)
	pfx = []string{"", d1[:10], d1 + "/", base[:len(base)-1], base, base + "f76", names[r.Intn(len(names))], "zz-nothing"}
	a := r.Intn(len(d2) - 4)
	dlm = []string{"", "/", d2[a : a+3]}
	return
}

// c11LargeNames builds a name set of 2300-2900 names (thorough: up to 4600) in three groups whose sizes are drawn
// so that the 1000th, 2000th ... name in bytewise order falls into different groups from seed to seed: flat names
// "a-NNNNN", names in 12-30 "directories" "dir-NN/fNNN" (plus "dir-NN.x" siblings sorting between the directories) and
// flat names "obj/NNNNN" and "zz NNNN".
func c11LargeNames(r *common.Rand, thorough bool) []string {
	var names []string
	na, nd, per, no := r.Range(300, 900), r.Range(12, 30), r.Range(25, 45), r.Range(700, 1100)
	if thorough {
		no += r.Range(500, 1700)
	}
	for i := 0; i < na; i++ {
		names = append(names, fmt.Sprintf("a-%05d", i*3))
	}
	for d := 0; d < nd; d++ {
		for f := 0; f < per; f++ {
			names = append(names, fmt.Sprintf("dir-%02d/f%03d", d, f))
		}
		if d%4 == 1 {
			names = append(names, fmt.Sprintf("dir-%02d.x", d), fmt.Sprintf("dir-%02d/sub/deep", d))
		}
	}
	for i := 0; i < no; i++ {
		names = append(names, fmt.Sprintf("obj/%05d", i))
	}
	for i, k := 0, 2300-len(names); i < k; i++ { // at least 2300 in every draw
		names = append(names, fmt.Sprintf("zz %04d", i))
	}
	for i := 0; i < 40; i++ {
		names = append(names, fmt.Sprintf("zz-tail-%02d", i))
	}
	return names
}

// c11Large lists one large bucket (several pages at the default page size) with page sizes around and far from the
// default, with and without prefix / delimiter, and compares every complete pagination with the listing model.
func c11Large(run *common.Run, srv *drive.Server, c c11Case) {
	cl := srv.Client
	r := run.Rand("C11.large", c.idx/2) // the same name set on both stores
	names := c11LargeNames(r, run.IsThorough())
	sorted := append([]string(nil), names...)
	sort.Strings(sorted)
	n := len(names)
	b := fmt.Sprintf("large%d-%s", c.idx, c.store)
	var log []string
	fail := func(what string) {
		run.Violation(c.sub, c.idx, what, map[string]any{"store": c.store, "names_total": n, "names_at_1000_boundaries": boundaryNames(sorted), "requests": log})
	}
	defer func() {
		for k, v := range cl.Counts() {
			run.Count(k, v)
		}
	}()
	if rsp := cl.CreateBucket(b); !rsp.OK() {
		fail("bucket creation failed: " + rsp.String())
		return
	}
	upl := append([]string(nil), names...)
	common.Shuffle(r, upl)
	objs := newC11Objects(run, cl, run.Rand("C11.largemeta", c.idx), b)
	defer objs.flush()
	for _, nm := range upl {
		if msg := objs.upload(nm, []byte(nm)); msg != "" {
			fail(msg)
			return
		}
	}
	type query struct{ pfx, dlm string }
	queries := []query{{"", ""}, {"", "/"}, {"dir-", ""}, {"dir-", "/"}, {"dir-0", "/f"}, {"obj/", ""}, {"obj/0", "/"}, {"a-0", ""}, {"dir-05/", "/"}, {"", "-"}, {"nothing-here", ""}}
	// maxResults: 0 = unset (default page size). Small sizes are followed for a bounded number of pages only.
	sizes := []int{0, 1, 7, 300, 999, 1000, 1001, 1200, 5000, r.Range(2, 60), r.Range(400, 2500)}
	multiPage, collapsed := false, false
	nlist := 0
	for qi, q := range queries {
		wantItems, wantPrefixes := model.List(names, q.pfx, q.dlm)
		entries := len(wantItems) + len(wantPrefixes)
		for _, mr := range sizes {
			if qi >= 4 && (mr == 1 || mr == 999 || mr == 1001) {
				continue // the full size set on the four main queries, a thinner one on the others
			}
			maxPages := entries + 3
			partial := false
			if mr == 1 && entries > 60 {
				maxPages, partial = 60, true
			}
			if mr > 1 && mr < 60 && entries/mr > 400 {
				maxPages, partial = 400, true
			}
			proj := c11Projections[nlist%len(c11Projections)]
			nlist++
			pages, trunc, err := cl.ListAllQ(b, q.pfx, q.dlm, mr, maxPages, projQuery(proj))
			objs.counts["listings_projection_"+c11ProjLabel[proj]]++
			desc := fmt.Sprintf("list prefix=%q delimiter=%q maxResults=%d (0 = unset) projection=%q: %d pages", q.pfx, q.dlm, mr, proj, len(pages))
			for i, p := range pages {
				if i < 3 || i >= len(pages)-2 {
					first, last := "", ""
					if len(p.Names) > 0 {
						first, last = p.Names[0], p.Names[len(p.Names)-1]
					}
					desc += fmt.Sprintf(" | page %d: %d, %d items %q..%q, %d prefixes, token=%v", i, p.Status, len(p.Names), first, last, len(p.Prefixes), p.Token != "")
				}
			}
			log = append(log, desc)
			if len(log) > 8 {
				log = log[len(log)-8:]
			}
			if err != nil {
				fail(desc + ": " + err.Error())
				return
			}
			if last := pages[len(pages)-1]; last.Status != 200 {
				fail(fmt.Sprintf("%s: status %d", desc, last.Status))
				return
			}
			if trunc && !partial {
				fail(fmt.Sprintf("%s: the token chain did not end within %d pages although the listing has only %d entries", desc, maxPages, entries))
				return
			}
			var gotItems, gotPrefixes []string
			for i, p := range pages {
				if mr > 0 && len(p.Names)+len(p.Prefixes) > mr {
					fail(fmt.Sprintf("%s: page %d holds %d entries > maxResults", desc, i, len(p.Names)+len(p.Prefixes)))
					return
				}
				gotItems = append(gotItems, p.Names...)
				gotPrefixes = append(gotPrefixes, p.Prefixes...)
				for k, it := range p.Items {
					if msg := objs.itemDiff(proj, p.Names[k], it); msg != "" {
						fail(desc + ": " + msg)
						return
					}
				}
				if len(p.Prefixes) > 0 {
					collapsed = true
				}
			}
			if trunc {
				// a bounded walk along the chain: what was seen so far must be the beginning of the complete answer
				wi, wp := wantItems, wantPrefixes
				if len(gotItems) <= len(wi) {
					wi = wi[:len(gotItems)]
				}
				if len(gotPrefixes) <= len(wp) {
					wp = wp[:len(gotPrefixes)]
				}
				if msg := seqDiff("items", gotItems, wi); msg != "" {
					fail(desc + " (first " + fmt.Sprint(len(pages)) + " pages): " + msg)
					return
				}
				if msg := seqDiff("prefixes", gotPrefixes, wp); msg != "" {
					fail(desc + " (first " + fmt.Sprint(len(pages)) + " pages): " + msg)
					return
				}
				run.Count("large_bounded_paginations", 1)
			} else {
				if msg := seqDiff("items", gotItems, wantItems); msg != "" {
					fail(desc + ": " + msg)
					return
				}
				if msg := seqDiff("prefixes", gotPrefixes, wantPrefixes); msg != "" {
					fail(desc + ": " + msg)
					return
				}
				run.Count("large_complete_paginations", 1)
			}
			if len(pages) >= 2 {
				multiPage = true
			}
			run.Count("pages_followed", int64(len(pages)))
			run.Count("listings", 1)
			run.Count("large_entries_compared", int64(len(gotItems)+len(gotPrefixes)))
		}
	}
	run.Count("large_buckets", 1)
	run.Count("large_bucket_objects", int64(n))
	run.Case(common.Hash64("large", c.store, fmt.Sprint(n), sorted[n/2]), multiPage && collapsed)
	if c.idx < 2 {
		run.Sample(map[string]any{"sub": "large", "store": c.store, "objects": n, "names_at_1000_boundaries": boundaryNames(sorted), "last_listings": log[max(0, len(log)-2):]})
	}
}

// boundaryNames are the names around every 1000th position of the bytewise order (for violation reports).
func boundaryNames(sorted []string) []string {
	var out []string
	for i := 1000; i < len(sorted); i += 1000 {
		out = append(out, fmt.Sprintf("#%d=%q #%d=%q", i, sorted[i-1], i+1, sorted[i]))
	}
	return out
}

// seqDiff compares two name sequences and describes the first difference compactly (the sequences are long).
func seqDiff(what string, got, want []string) string {
	for i := 0; i < len(got) && i < len(want); i++ {
		if got[i] != want[i] {
			prev := ""
			if i > 0 {
				prev = got[i-1]
			}
			return fmt.Sprintf("%s differ at position %d: got %q (after %q), want %q; %d listed, %d expected", what, i+1, got[i], prev, want[i], len(got), len(want))
		}
	}
	if len(got) != len(want) {
		return fmt.Sprintf("%s: %d listed, %d expected (the common beginning is equal)", what, len(got), len(want))
	}
	return ""
}

// runs one fixed listing and reports whether it deviates from the model
func c11Fixed(store string, names []string, pfx, dlm string, mr int) (bool, string) {
	srv, err := drive.Start(store, "")
	if err != nil {
		return false, "cannot start emulator: " + err.Error()
	}
	defer srv.Close()
	cl := srv.Client
	cl.CreateBucket("kb")
	for _, n := range names {
		if r := cl.UploadMedia("kb", n, "text/plain", []byte(n), false, nil); !r.OK() {
			return false, "upload failed: " + r.String()
		}
	}
	pages, trunc, err := cl.ListAll("kb", pfx, dlm, mr, len(names)+3)
	if err != nil || trunc {
		return true, fmt.Sprintf("pagination broken: %v truncated=%v", err, trunc)
	}
	var mp []model.Page
	for _, p := range pages {
		mp = append(mp, model.Page{Items: p.Names, Prefixes: p.Prefixes})
	}
	if msg := model.CheckPages(mp, names, pfx, dlm, mr); msg != "" {
		return true, fmt.Sprintf("names %q prefix=%q delimiter=%q maxResults=%d: %s", names, pfx, dlm, mr, msg)
	}
	return false, "listing matches the model"
}

func canaryListDelim() (bool, string) {
	return c11Fixed("mem", []string{"d/1", "d/2", "d/3", "z"}, "", "/", 2)
}

func canaryWalkOrder() (bool, string) {
	return c11Fixed("file", []string{"a.txt", "a/b"}, "a.", "", 0)
}

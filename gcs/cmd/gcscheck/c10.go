package main

import (
	"fmt"
	"time"

	"verif/common"
	"verif/gcs/drive"
)

func init() { register("C10", "exploration", runC10) }

// C10: generation / metageneration laws. Online law monitor over every response of generated histories.
func runC10(run *common.Run) {
	run.Rule = "case = one generated history (40-70 steps: bursts of 3-6 back-to-back content writes to one name with no delay, patch bursts, read-modify-write patches whose body is a full object resource from an earlier metadata GET (current or stale, also of an earlier incarnation; two times in five the resource of ANOTHER object - a live neighbour, an object of the other bucket, or a name that does not exist - so that name / bucket / id / links in the body differ from the URL and only the addressed object may change) with or without changed user fields, uploads by all three protocols, overwrites, delete and re-creation, compose (also self-appends: a live destination first among its own sources), copy within and across buckets - two copies in three with a request body that is a full destination resource as a read-modify-write client sends it: output-only fields (generation, metageneration, md5Hash, size, timestamps) from an earlier GET of the destination or the source, current or stale, or made up with a generation below / above the destination's current one, user-settable fields exactly the source's -, PATCH bodies with a JSON type error (refused: numbers unchanged), conditioned requests that fail, operations on neighbour names, the 'same bytes again' scenario (about one history in three, at most once per history): an object of 1 MiB or 1 MiB + 17 bytes is uploaded, then written AGAIN with byte-identical content through the other two upload protocols (with and without a declared MD5), copied onto itself, overwritten by a copy of a twin that holds the same bytes, patched (metageneration 2) and uploaded once more, one request per step, and finally deleted - every one of them is a successful content write and must get a generation greater than every earlier one of that name and metageneration 1; 15% of the resumable uploads are sent in >= 2 chunk requests with other requests on the same object between two chunks; steps made of reads only (metadata GET, media GET through every URL form with and without 'Accept-Encoding: gzip', listing; one upload in ten is a gzip stream stored with contentEncoding gzip) after which the whole dump must equal the dump before, requests addressed to never-stored names that are '/'-prefixes of stored names) on one store; the law monitor sees every response: content write => generation new for that name and greater than all earlier ones (also across deletions) and metageneration 1; patch => metageneration +1, generation/size/md5/content unchanged, exactly the supplied fields merged; after every step a whole-store dump (listing items, metadata GET, media GET headers of every name) must report exactly the acknowledged numbers for every object, and upload response headers must agree with the body. Non-trivial = the history had a burst, a successful patch, a re-creation of a deleted name and a failed request; distinct by hash of the step log x store. 'sibling' scenarios: two objects whose names extend one another by a suffix a store might use for files of its own (X and X.tmp, X.meta, X~, X.part, X.bak, X.lock, X.new, X.old, X.swp, X.json, X.emumeta.tmp, .X.swp, #X#; file store: only names it can hold), both given non-default metadata (content type, user metadata, acl / owner ..., mostly a patch on top), then 3-6 requests - overwrite by any protocol, patch, copy onto it (also from the sibling: 'upload to name.tmp, rewrite to name'), compose onto it, delete / re-creation - addressed to one of the two, one per step; the dump after each compares both objects' content, metadata, MD5, generation and metageneration with the model. 'compose_chain' scenarios: composes whose source lists begin with the same head object and continue with different tails, accepted ones (results kept under <head>.cat1..3) alternating with ones that must be refused (failing / unparsable destination condition, failing per-source ifGenerationMatch on a later source, missing later source; addressed to an earlier result, another name, the head or a tail); the dump after every request compares the content of every object."
	run.Assumptions = []string{
		"patches change only user-settable fields with non-null values (contentType, cacheControl, contentDisposition, contentLanguage, metadata keys); a body may also carry the output-only fields of a full resource as an earlier GET returned them, which must not change the object (generation, content, size, MD5 unchanged, metageneration exactly +1)",
		"a copy's request body may be a destination resource: its output-only fields must not reach the new object (new generation greater than every earlier one of that name, metageneration 1, content / size / MD5 the source's); its user-settable fields are sent equal to the source's so that 'metadata of the source' and 'metadata of the request' coincide",
		"the baseline for 'only the supplied fields changed' is the field set the server last acknowledged for the object",
		"file store: strict growth is decided only if the scratch file system keeps mtimes at 1 microsecond or finer (measured at start); otherwise counted inconclusive",
		"file store: only names representable as files are written",
		"writing an object again with the bytes it already holds is a content write like any other (the statement makes no exception for unchanged content)",
		"a request that gets no answer within the client watchdog (20 s for PATCH / DELETE / compose / rewrite, 60 s otherwise) is reported as 'request not answered within <d>: <request>', the case is abandoned and its server not used again; after 3 such reports the run stops",
	}
	gran, err := drive.MtimeGranularity()
	if err != nil {
		gran = 2 * time.Second
	}
	run.Set("scratch_fs_mtime_granularity_ns", gran.Nanoseconds())
	fileStrict := gran <= time.Microsecond
	j := common.NewJournal("C10")
	n := run.N(200, 5000)
	if !run.WantSub("hist") {
		return
	}
	common.Parallel(n*2, workers(), func(i int) {
		if !run.Want("hist", i) || tooMany(run) {
			return
		}
		store := drive.Stores[i%2]
		j.Begin(i%64, fmt.Sprintf("C10 hist case=%d store=%s seed=%d", i, store, run.Seed))
		c10History(run, i, store, store == "mem" || fileStrict)
		j.End(i % 64)
	})
}

func c10History(run *common.Run, idx int, store string, strict bool) {
	r := run.Rand("C10.hist", idx)
	srv, err := drive.Start(store, "")
	if err != nil {
		run.Violation("hist", idx, "cannot start emulator: "+err.Error(), nil)
		return
	}
	defer srv.Close()
	e := newExec(srv, strict)
	defer e.flush(run)
	fail := func(what string) {
		run.Violation("hist", idx, what, map[string]any{"store": store, "steps": tailSteps(e.steps, 40), "steps_total": len(e.steps), "law_observations": e.lawViol})
	}
	o := &progOpts{Buckets: []string{"vb1", "vb2"}, Names: []string{"g", "g2", "dir/g", "g.txt", "dir/h"}, FileRules: store == "file", CondPct: 30, JunkPct: 3, MD5Pct: 15, NoGzip: true, ExtraPct: 15, CopyBodyPct: 65, GzipObjPct: 10, MidPct: 15,
		W: map[string]int{"upload": 12, "overwrite": 16, "burst": 14, "patch": 10, "patch_burst": 8, "patch_full": 10, "patch_bad": 4, "delete": 14, "delete_absent": 3, "patch_absent": 2, "compose": 8, "copy": 12, "noop": 3, "reads": 4, "decoy": 3, "big_same": 1, "sibling": 4, "compose_chain": 2}}
	for _, b := range o.Buckets {
		if msg := e.createBucket(b); msg != "" {
			fail(msg)
			return
		}
		e.universe[b] = append([]string{"decoy"}, o.Names...)
	}
	check := func(where string) bool {
		if len(e.lawViol) > 0 {
			fail(e.lawViol[0])
			return false
		}
		if msg := e.verify(); msg != "" {
			fail(where + ": " + msg)
			return false
		}
		if len(e.lawViol) > 0 {
			fail(e.lawViol[0])
			return false
		}
		return true
	}
	if !check("initial dump") {
		return
	}
	bursts := 0
	for s, n := 0, r.Range(40, 70); s < n; s++ {
		before := e.stats["content_writes"]
		if msg := runStep(r, e, o); msg != "" {
			fail(msg)
			return
		}
		if e.stats["content_writes"]-before >= 3 {
			bursts++
		}
		if !check(fmt.Sprintf("after step %d", len(e.steps)-1)) {
			return
		}
	}
	if !strict {
		run.Inconclusive("file store strict-growth clause undecided: scratch file system mtime granularity coarser than 1us")
	}
	run.Count("bursts", int64(bursts))
	nontrivial := bursts > 0 && e.stats["patches_ok"] > 0 && e.stats["recreations"] > 0 && (e.stats["precondition_failures"] > 0 || e.stats["md5_rejections"] > 0)
	run.Case(common.Hash64(store, stepsHash(e.steps)), nontrivial)
	if idx < 2 {
		run.Sample(map[string]any{"store": store, "case": idx, "steps": tailSteps(e.steps, 6)})
	}
}

package main

import (
	"bytes"
	"fmt"
	"net"
	"os"
	osexec "os/exec"
	"path/filepath"
	"regexp"
	"sort"
	"strings"
	"sync"
	"syscall"
	"time"

	"verif/common"
	"verif/gcs/drive"
	"verif/gcs/model"
)

func init() { register("C09", "exploration", runC09) }

var c09Names = []string{"p", "p.txt", "d/q", "d/e/r", "d.x", "d-y", "s t", "ü", "d/q.bin", "d/e.1/r", "d/e-2/r", "d!/q", "report.csv", "report/2024.csv", "report-old",
	// names two and three directories deep together with the names of those directories themselves: once the last object
	// below "logs" is deleted, "logs" and "logs/2024" are ordinary absent names that can be written, copied / composed onto
	// and whose DELETE is a 404 - on both stores
	"logs/2024/app.txt", "logs/2024", "logs", "arch/2023/q4/sum.csv", "arch/2023/q4", "arch/2023", "arch", "report",
	// names that continue a neighbour's name by a suffix a store might use for files of its own (temporaries, backups)
	"p.tmp", "d/q.tmp", "report.csv.bak", "p.txt~"}

func c09Opts() *progOpts {
	return &progOpts{Buckets: []string{"vb1", "vb2"}, Names: c09Names, FileRules: true, CondPct: 25, JunkPct: 3, MD5Pct: 20, BigPerMille: 3, ExtraPct: 30, CopyBodyPct: 50, GzipObjPct: 22, MidPct: 15,
		W: map[string]int{"upload": 22, "overwrite": 16, "burst": 3, "delete": 14, "delete_absent": 3, "patch": 10, "patch_full": 7, "patch_bad": 8, "patch_burst": 3, "patch_absent": 2, "compose": 9, "copy": 10, "bucket_cycle": 3, "noop": 2, "reads": 9, "decoy": 5, "dirs": 6, "big_same": 1, "sibling": 7, "compose_chain": 2}}
}

// C09: the file store persists everything and is equivalent to the memory store.
func runC09(run *common.Run) {
	run.Rule = "sub 'restart': one generated program (30-60 steps: uploads by all protocols, overwrites, patches, deletes, compose, copy within/across 2 buckets, conditioned and failing requests, PATCH bodies whose valid members (user metadata, acl / owner ...) are followed by a member of the wrong JSON type and that must be refused without a trace, failing PATCH requests naming nested fields, retries on resumable sessions rejected for their MD5, copies whose request body is a full - stale or made-up - destination resource, self-append composes; names representable as files, interleaving files and directories such as d/q, d.x, d-y, report.csv vs report/2024.csv, sibling directories d/e, d/e.1, d/e-2; read-modify-write patches sending back full resources, also the resource of another / another bucket's / a non-existent object onto the addressed one; one upload in five carries a real gzip stream as content, mostly declared contentEncoding gzip in its metadata or by a later PATCH; 'reads' steps: metadata GET, media GET through every URL form with and without 'Accept-Encoding: gzip', a listing, preferably of a gzip-encoded object - the dump after a step that only read must equal the dump before it; 'dirs' scenarios: a name two to four levels deep (logs/2024/app.txt, arch/2023/q4/sum.csv, d/e/r) is stored if need be and deleted, then one request - upload by any protocol, copy onto, compose onto, DELETE (404), reads - is addressed to the name of each of its ancestors' 'directories' (logs, logs/2024; outermost first two times in three), one request per step: once nothing is stored below them they are ordinary absent names on both stores; 'same bytes again' scenario (about one program in three): an object of 1 MiB or 1 MiB + 17 bytes is written again with byte-identical content through the other two upload protocols, copied onto itself, overwritten by a copy of a twin holding the same bytes, patched and uploaded again, then deleted - each a content write with a new generation and metageneration 1 on both stores; 15% of the resumable uploads are sent in >= 2 chunk requests with 1-2 other requests on the same object between two chunks; 'decoy' steps: delete / patch / copy-from / compose-with a never-stored name that is a '/'-prefix of stored names, with and without trailing slash, or a stored name continued by '/') against file-store instance 1; after EVERY request a second emulator instance is started on the same directory and its whole-store dump (bucket GET, full listing, the listing paged with maxResults 1, 2 and 3 along the token chain, metadata + media of every name) must equal instance 1's dump (host names rewritten) and the reference model, generations and metagenerations exactly; at the end content files without a sidecar are dropped into the directory and must be listed, served with size and a generation, and deletable. Sub 'equiv': the same program (same PRNG stream) fed to a memory-store and a file-store emulator in lock-step; every deciding response (status + full body, resumable sub-requests) and every whole-store dump (incl. the concatenated paged listings) must be equal after renaming generations to per-store ordinals of first appearance and dropping timestamps and host:port. Sub 'kill': the real gcsemulator binary built from /repo with -dir, SIGKILLed between requests and restarted. Non-trivial = the program had a successful patch, delete, overwrite and compose-or-copy (restart: and >= 20 second-instance dumps compared); distinct by hash of the step log. 'sibling' scenarios: two objects whose names extend one another by a suffix a store might use for files of its own (X and X.tmp, X.meta, X~, X.part, X.bak, X.lock, X.new, X.old, X.swp, X.json, X.emumeta.tmp, .X.swp, #X#; file store: only names it can hold), both given non-default metadata (content type, user metadata, acl / owner ..., mostly a patch on top), then 3-6 requests - overwrite by any protocol, patch, copy onto it (also from the sibling: 'upload to name.tmp, rewrite to name'), compose onto it, delete / re-creation - addressed to one of the two, one per step; the dump after each compares both objects' content, metadata, MD5, generation and metageneration with the model. 'compose_chain' scenarios: composes whose source lists begin with the same head object and continue with different tails, accepted ones (results kept under <head>.cat1..3) alternating with ones that must be refused (failing / unparsable destination condition, failing per-source ifGenerationMatch on a later source, missing later source; addressed to an earlier result, another name, the head or a tail); the dump after every request compares the content of every object."
	run.Assumptions = []string{
		"programs use only names representable as files (no empty / '.' / '..' component, no trailing '/', no name that is a directory prefix of a live name, no .emumeta suffix, components <= 255 bytes)",
		"the file store keeps no write-back state, so a second instance on the same directory sees what a kill between requests would leave; real SIGKILL/restart cycles of the gcsemulator binary confirm the command-line wiring",
		"uploads may carry acl / owner / retention / customerEncryption in their metadata: whatever an instance shows for them must survive failed requests and restarts and be the same on both stores",
		"equivalence is up to concrete generation numbers (renamed to ordinals), RFC3339 timestamps and host:port",
		"a delete addressed to a never-stored name that is only a '/'-prefix of stored names is not a name representable as a file next to the live names: both stores must refuse it and change nothing, the error status is not compared",
		"media GETs are sent with or without 'Accept-Encoding: gzip' (same choice on both stores / instances); dumps are compared on the entity of the response (its own Content-Encoding undone), so every object - gzip-encoded ones included - must be served alike by both stores, before and after a restart, and after any number of reads",
		"a request that gets no answer within the client watchdog (20 s for PATCH / DELETE / compose / rewrite, 60 s otherwise) is reported as 'request not answered within <d>: <request>', the case is abandoned and its server not used again; after 3 such reports the run stops",
		"legacy content files: listed, metadata with size and a positive generation, media byte-for-byte, deletable (what the statement and DESIGN 5/C09(b) ask)",
	}
	j := common.NewJournal("C09")
	n := run.N(60, 1500)
	W := workers()
	if run.WantSub("restart") {
		common.Parallel(n, W, func(i int) {
			if !run.Want("restart", i) || tooMany(run) {
				return
			}
			j.Begin(i%64, fmt.Sprintf("C09 restart case=%d seed=%d", i, run.Seed))
			c09Restart(run, i)
			j.End(i % 64)
		})
	}
	if run.WantSub("equiv") {
		common.Parallel(n, W, func(i int) {
			if !run.Want("equiv", i) || tooMany(run) {
				return
			}
			j.Begin(100+i%64, fmt.Sprintf("C09 equiv case=%d seed=%d", i, run.Seed))
			c09Equiv(run, i)
			j.End(100 + i%64)
		})
	}
	if run.WantSub("kill") {
		nk := run.N(3, 40)
		bin, err := buildGcsemulator()
		if err != nil {
			run.Violation("kill", 0, "cannot build gcsemulator from the tree under test: "+err.Error(), nil)
			return
		}
		common.Parallel(nk, 4, func(i int) {
			if !run.Want("kill", i) || tooMany(run) {
				return
			}
			j.Begin(200+i, fmt.Sprintf("C09 kill case=%d seed=%d", i, run.Seed))
			c09Kill(run, i, bin)
			j.End(200 + i)
		})
	}
}

func hostOf(base string) string { return strings.TrimPrefix(base, "http://") }

func c09Restart(run *common.Run, idx int) {
	r := run.Rand("C09.restart", idx)
	srv, err := drive.Start("file", "")
	if err != nil {
		run.Violation("restart", idx, "cannot start emulator: "+err.Error(), nil)
		return
	}
	defer srv.Close()
	srv.Client.PagedSizes = []int{1, 2, 3}
	e := newExec(srv, true)
	defer e.flush(run)
	fail := func(what string) {
		run.Violation("restart", idx, what, map[string]any{"store": "file", "steps": tailSteps(e.steps, 40), "steps_total": len(e.steps)})
	}
	o := c09Opts()
	for _, b := range o.Buckets {
		if msg := e.createBucket(b); msg != "" {
			fail(msg)
			return
		}
		e.universe[b] = append([]string{"decoy"}, o.Names...)
	}
	e.universe["vb-never-created"] = []string{"p"}
	compared := 0
	// second instance on the same directory; its dump must equal the first instance's
	second := func(where string) bool {
		s2, err := srv.Second()
		if err != nil {
			fail("cannot start the second instance: " + err.Error())
			return false
		}
		defer s2.Close()
		s2.Client.PagedSizes = srv.Client.PagedSizes
		s2.Client.Guard(mutWatchdog)
		d2 := s2.Client.Dump(e.namesToDump(), func(b, n string) []int {
			if common.Hash64(n, fmt.Sprint(compared))%2 == 0 {
				return []int{drive.FormJSON | drive.AcceptGzip}
			}
			return []int{drive.FormJSON}
		})
		for k, v := range s2.Client.Counts() {
			run.Count(k, v)
		}
		if s2.Wedged() {
			unansweredReqs.Add(1)
			fail(where + ": second instance on the same directory: " + s2.Client.FirstUnanswered())
			return false
		}
		if msg := e.diff(d2); msg != "" {
			fail(where + ": second instance on the same directory disagrees with the acknowledged state: " + msg)
			return false
		}
		if dm := drive.DiffCanon(e.last, d2.Canon(hostOf(s2.Base), hostOf(srv.Base))); dm != "" {
			fail(where + ": second instance on the same directory serves something else than the first: " + dm)
			return false
		}
		compared++
		return true
	}
	step := func(where string) bool {
		if msg := e.verify(); msg != "" {
			fail(where + ": " + msg)
			return false
		}
		return second(where)
	}
	if !step("initial dump") {
		return
	}
	for s, n := 0, r.Range(30, 60); s < n; s++ {
		if msg := runStep(r, e, o); msg != "" {
			fail(msg)
			return
		}
		if !step(fmt.Sprintf("after step %d", len(e.steps)-1)) {
			return
		}
	}
	run.Count("second_instance_dumps_compared", int64(compared))
	// (b) legacy files: content without a sidecar, dropped in while no request is in flight
	legacy := map[string][]byte{"legacy.bin": r.Bytes(r.Range(1, 500)), "legacy-dir/inner.txt": []byte("old data\n")}
	var lnames []string
	for n := range legacy {
		lnames = append(lnames, n)
	}
	sort.Strings(lnames)
	for _, n := range lnames {
		if !representable(n, e.liveIn("vb1")) {
			continue
		}
		f := filepath.Join(srv.Dir, "vb1", filepath.FromSlash(n))
		_ = os.MkdirAll(filepath.Dir(f), 0o777)
		if err := os.WriteFile(f, legacy[n], 0o666); err != nil {
			fail("cannot write legacy file: " + err.Error())
			return
		}
		s2, err := srv.Second()
		if err != nil {
			fail("cannot start the second instance: " + err.Error())
			return
		}
		msg := c09Legacy(s2.Client, "vb1", n, legacy[n])
		s2.Close()
		e.rec("legacy file vb1/"+n+" without sidecar", "listed, served with size and generation, deletable", "ok="+fmt.Sprint(msg == ""), nil)
		if msg != "" {
			fail("legacy file without sidecar: " + msg)
			return
		}
		run.Count("legacy_files_checked", 1)
	}
	if !step("after the legacy files were deleted") {
		return
	}
	nontrivial := compared >= 20 && e.stats["patches_ok"] > 0 && e.stats["deletes_ok"] > 0 && e.stats["overwrites"] > 0 && e.stats["composes_ok"]+e.stats["copies_ok"] > 0
	run.Case(common.Hash64("restart", stepsHash(e.steps)), nontrivial)
	if idx < 2 {
		run.Sample(map[string]any{"sub": "restart", "case": idx, "second_instance_dumps": compared, "steps": tailSteps(e.steps, 5)})
	}
}

func c09Legacy(cl *drive.Client, b, n string, content []byte) string {
	pages, _, err := cl.ListAll(b, "", "", 0, 50)
	if err != nil {
		return "listing failed: " + err.Error()
	}
	listed := false
	for _, p := range pages {
		for _, x := range p.Names {
			if x == n {
				listed = true
			}
		}
	}
	if !listed {
		return fmt.Sprintf("%q is not listed", n)
	}
	r := cl.GetMeta(b, n)
	m, jerr := r.JSON()
	if r.Status != 200 || jerr != nil {
		return fmt.Sprintf("metadata GET of %q: %s", n, r)
	}
	if sz, ok := drive.Int64Field(m, "size"); !ok || sz != int64(len(content)) {
		return fmt.Sprintf("metadata of %q has size %v, want %d", n, m["size"], len(content))
	}
	if g, ok := drive.Int64Field(m, "generation"); !ok || g <= 0 {
		return fmt.Sprintf("metadata of %q has no generation (%v)", n, m["generation"])
	}
	for f := 0; f < drive.NForms; f++ {
		mr := cl.GetMedia(f, b, n)
		if mr.Status != 200 || !bytes.Equal(mr.Body, content) {
			return fmt.Sprintf("media GET (%s) of %q: status %d, %s, want %s", drive.FormNames[f], n, mr.Status, bodyDesc(mr.Body), bodyDesc(content))
		}
	}
	if d := cl.Delete(b, n, nil); !d.OK() {
		return fmt.Sprintf("delete of %q: %s", n, d)
	}
	if r := cl.GetMeta(b, n); r.Status != 404 {
		return fmt.Sprintf("metadata GET of %q after delete: %d, want 404", n, r.Status)
	}
	return ""
}

// ---------------------------------------------------------------- equivalence

var (
	reGen  = regexp.MustCompile(`\b1[0-9]{18}\b`)
	reHost = regexp.MustCompile(`127\.0\.0\.1:[0-9]+`)
	reTime = regexp.MustCompile(`[0-9]{4}-[0-9]{2}-[0-9]{2}T[0-9:.]+Z`)
)

// normalizer renames generations to ordinals of first appearance and drops timestamps and hosts.
type normalizer struct{ gens map[string]string }

func (n *normalizer) norm(s string) string {
	s = reHost.ReplaceAllString(s, "HOST")
	s = reTime.ReplaceAllString(s, "TIME")
	return reGen.ReplaceAllStringFunc(s, func(g string) string {
		if o, ok := n.gens[g]; ok {
			return o
		}
		o := fmt.Sprintf("G%d", len(n.gens)+1)
		n.gens[g] = o
		return o
	})
}

func (n *normalizer) canon(c map[string]string) string {
	keys := make([]string, 0, len(c))
	for k := range c {
		keys = append(keys, k)
	}
	sort.Strings(keys)
	var sb strings.Builder
	for _, k := range keys {
		sb.WriteString(strings.ReplaceAll(k, "\x00", "/") + " => " + n.norm(c[k]) + "\n")
	}
	return sb.String()
}

func firstDiff(a, b string) string {
	la, lb := strings.Split(a, "\n"), strings.Split(b, "\n")
	for i := 0; i < len(la) || i < len(lb); i++ {
		x, y := "", ""
		if i < len(la) {
			x = la[i]
		}
		if i < len(lb) {
			y = lb[i]
		}
		if x != y {
			return fmt.Sprintf("memory store: [%s] file store: [%s]", clipS(x), clipS(y))
		}
	}
	return ""
}

func c09Equiv(run *common.Run, idx int) {
	type side struct {
		srv *drive.Server
		e   *exec
		r   *common.Rand
		nz  *normalizer
	}
	var sides [2]*side
	for i, store := range drive.Stores {
		srv, err := drive.Start(store, "")
		if err != nil {
			run.Violation("equiv", idx, "cannot start emulator: "+err.Error(), nil)
			return
		}
		defer srv.Close()
		srv.Client.PagedSizes = []int{1, 2, 3}
		sides[i] = &side{srv: srv, e: newExec(srv, true), r: run.Rand("C09.equiv", idx), nz: &normalizer{gens: map[string]string{}}}
		defer sides[i].e.flush(run)
	}
	fail := func(what string) {
		run.Violation("equiv", idx, what, map[string]any{"memory_store_steps": tailSteps(sides[0].e.steps, 25), "file_store_steps": tailSteps(sides[1].e.steps, 25)})
	}
	o := c09Opts()
	// both sides run the same generator on the same PRNG stream; each side is also checked against the model
	both := func(f func(s *side) string) bool {
		var msgs [2]string
		for i, s := range sides {
			msgs[i] = f(s)
		}
		for i, m := range msgs {
			if m != "" {
				fail(drive.Stores[i] + " store: " + m)
				return false
			}
		}
		return true
	}
	compare := func(where string) bool {
		a, b := sides[0], sides[1]
		ra, rb := a.e.steps[len(a.e.steps)-1].Req, b.e.steps[len(b.e.steps)-1].Req
		normReq := func(q string) string {
			return reGen.ReplaceAllString(reTime.ReplaceAllString(reHost.ReplaceAllString(q, "HOST"), "TIME"), "G")
		}
		if normReq(ra) != normReq(rb) {
			fail(where + ": the two stores' programs diverged (an earlier response differed): memory " + ra + " / file " + rb)
			return false
		}
		if x, y := a.nz.norm(a.e.lastFull), b.nz.norm(b.e.lastFull); x != y {
			fail(where + ": responses differ between the stores: " + firstDiff(x, y))
			return false
		}
		if x, y := a.nz.canon(a.e.last), b.nz.canon(b.e.last); x != y {
			fail(where + ": whole-store dumps differ between the stores: " + firstDiff(x, y))
			return false
		}
		run.Count("paired_responses_compared", 1)
		return true
	}
	for _, bk := range o.Buckets {
		bk := bk
		if !both(func(s *side) string {
			msg := s.e.createBucket(bk)
			s.e.universe[bk] = append([]string{"decoy"}, o.Names...)
			return msg
		}) {
			return
		}
	}
	if !both(func(s *side) string { return s.e.verify() }) {
		return
	}
	nsteps := sides[0].r.Range(30, 60)
	sides[1].r.Range(30, 60)
	for st := 0; st < nsteps; st++ {
		if !both(func(s *side) string { return runStep(s.r, s.e, o) }) {
			return
		}
		if !both(func(s *side) string { return s.e.verify() }) {
			return
		}
		if len(sides[0].e.steps) != len(sides[1].e.steps) {
			fail(fmt.Sprintf("after step %d: the two stores' programs diverged in length (%d vs %d steps)", st, len(sides[0].e.steps), len(sides[1].e.steps)))
			return
		}
		if !compare(fmt.Sprintf("after step %d", len(sides[0].e.steps)-1)) {
			return
		}
	}
	e := sides[1].e
	nontrivial := e.stats["patches_ok"] > 0 && e.stats["deletes_ok"] > 0 && e.stats["overwrites"] > 0 && e.stats["composes_ok"]+e.stats["copies_ok"] > 0
	run.Case(common.Hash64("equiv", stepsHash(e.steps)), nontrivial)
	if idx < 2 {
		run.Sample(map[string]any{"sub": "equiv", "case": idx, "file_store_steps": tailSteps(e.steps, 3), "memory_store_steps": tailSteps(sides[0].e.steps, 3)})
	}
}

// ---------------------------------------------------------------- real binary, SIGKILL between requests

func buildGcsemulator() (string, error) {
	out := filepath.Join(common.Root(), ".build", "gcsemulator")
	cmd := osexec.Command("go", "build", "-o", out, "github.com/fullstorydev/emulators/storage/cmd/gcsemulator")
	cmd.Dir = filepath.Join(common.Root(), "gcs")
	cmd.Env = append(os.Environ(), "GOFLAGS=-mod=mod", "GOPROXY=off", "GOSUMDB=off", "GOTOOLCHAIN=local")
	if b, err := cmd.CombinedOutput(); err != nil {
		return "", fmt.Errorf("%v: %s", err, b)
	}
	return out, nil
}

type emuProc struct {
	cmd  *osexec.Cmd
	base string
	done chan struct{} // closed when the child has exited
}

var emuStartMu sync.Mutex // one start-up at a time, so two cases cannot probe the same free port

// startEmuProc starts the real gcsemulator binary on dir. It makes sure that the process answering on the chosen
// port is OUR child serving OUR directory (the port is probed free first, but another process may still win it):
// the child must be alive and must serve a marker bucket that exists only in dir.
func startEmuProc(bin, dir string) (*emuProc, error) {
	emuStartMu.Lock()
	defer emuStartMu.Unlock()
	marker := fmt.Sprintf("verif-marker-%d", common.Hash64(dir)%1000000)
	if err := os.MkdirAll(filepath.Join(dir, marker), 0o777); err != nil {
		return nil, err
	}
	for attempt := 0; attempt < 8; attempt++ {
		l, err := net.Listen("tcp", "127.0.0.1:0")
		if err != nil {
			return nil, err
		}
		port := l.Addr().(*net.TCPAddr).Port
		l.Close()
		cmd := osexec.Command(bin, "-host", "127.0.0.1", "-port", fmt.Sprint(port), "-dir", dir, "-verbose=false")
		cmd.Stdout, cmd.Stderr = nil, nil
		if err := cmd.Start(); err != nil {
			return nil, err
		}
		p := &emuProc{cmd: cmd, base: fmt.Sprintf("http://127.0.0.1:%d", port), done: make(chan struct{})}
		go func() { _, _ = cmd.Process.Wait(); close(p.done) }()
		ok := false
		for w := 0; w < 300 && !ok; w++ { // start-up wait only, never a verdict
			select {
			case <-p.done:
				w = 300 // our child exited (lost the port): try another port
				continue
			default:
			}
			cl := drive.NewClient(p.base)
			r := cl.GetBucket(marker)
			cl.Close()
			if r.Err == "" && r.Status == 200 {
				ok = true
				break
			}
			time.Sleep(10 * time.Millisecond)
		}
		select {
		case <-p.done:
			ok = false
		default:
		}
		if ok {
			return p, nil
		}
		p.kill()
	}
	return nil, fmt.Errorf("gcsemulator did not come up on a port of its own")
}

func (p *emuProc) kill() {
	_ = p.cmd.Process.Signal(syscall.SIGKILL)
	<-p.done
}

func (p *emuProc) exited() bool {
	select {
	case <-p.done:
		return true
	default:
		return false
	}
}

func c09Kill(run *common.Run, idx int, bin string) {
	r := run.Rand("C09.kill", idx)
	dir, err := os.MkdirTemp("", "verif-gcs-kill-")
	if err != nil {
		run.Violation("kill", idx, "cannot create scratch dir: "+err.Error(), nil)
		return
	}
	defer os.RemoveAll(dir)
	p, err := startEmuProc(bin, dir)
	if err != nil {
		run.Violation("kill", idx, "cannot start gcsemulator: "+err.Error(), nil)
		return
	}
	defer func() { p.kill() }()
	srv := &drive.Server{Kind: "file", Dir: dir, Base: p.base, Client: drive.NewClient(p.base)}
	srv.Client.PagedSizes = []int{1, 2, 3}
	e := newExec(srv, true)
	defer func() { e.flush(run) }()
	fail := func(what string) {
		run.Violation("kill", idx, what, map[string]any{"steps": tailSteps(e.steps, 40), "steps_total": len(e.steps)})
	}
	o := c09Opts()
	o.BigPerMille = 0
	for _, b := range o.Buckets {
		if msg := e.createBucket(b); msg != "" {
			fail(msg)
			return
		}
		e.universe[b] = append([]string{"decoy"}, o.Names...)
	}
	kills := 0
	for s, n := 0, r.Range(20, 40); s < n; s++ {
		if msg := runStep(r, e, o); msg != "" {
			fail(msg)
			return
		}
		if msg := e.verify(); msg != "" {
			fail(fmt.Sprintf("after step %d: %s", len(e.steps)-1, msg))
			return
		}
		if r.Chance(1, 3) {
			// SIGKILL between requests, restart on the same directory, everything acknowledged must be served
			before := e.last
			oldHost := hostOf(p.base)
			p.kill()
			e.cl.Close()
			for k, v := range e.cl.Counts() {
				run.Count(k, v)
			}
			if p, err = startEmuProc(bin, dir); err != nil {
				fail("cannot restart gcsemulator after SIGKILL: " + err.Error())
				return
			}
			e.cl = drive.NewClient(p.base)
			e.cl.PagedSizes = []int{1, 2, 3}
			e.cl.Guard(mutWatchdog)
			e.rec("SIGKILL gcsemulator, restart with the same -dir", "same buckets, objects, contents, metadata, generations", "restarted", nil)
			kills++
			d := e.cl.Dump(e.namesToDump(), nil)
			if msg := e.diff(d); msg != "" {
				if p.exited() {
					msg += " (the restarted gcsemulator process exited by itself)"
				}
				fail("after SIGKILL and restart: " + msg)
				return
			}
			if dm := drive.DiffCanon(before, d.Canon(hostOf(p.base), oldHost)); dm != "" {
				fail("after SIGKILL and restart the store differs from what was last served: " + dm)
				return
			}
			e.last = d.Canon("", "")
		}
	}
	run.Count("sigkill_restart_cycles", int64(kills))
	run.Case(common.Hash64("kill", stepsHash(e.steps)), kills >= 2 && e.stats["uploads_ok"] > 0)
}

var _ = model.Pass

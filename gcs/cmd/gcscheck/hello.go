package main

import (
	_ "github.com/anishathalye/porcupine"
	_ "github.com/fullstorydev/emulators/storage/gcsemu"
)

package main

import (
	"fmt"

	"verif/common"
	"verif/gcs/drive"
	"verif/gcs/model"
)

func init() { register("C02", "exploration", runC02) }

// C02: what is uploaded is what is served. Differential monitor: generated upload / overwrite / delete programs over
// a hostile name universe against the reference object model; the whole store is dumped and compared after every step.
func runC02(run *common.Run) {
	run.Rule = "case = one generated program (30-80 steps: uploads via media / multipart / resumable with random chunkings, status queries, overlapping re-sends, PUT and POST chunks, gzip-compressed request bodies (media and multipart bodies, and for resumable uploads the start request and every chunk incl. bodiless ones), 35% of the uploads with every request body streamed - no Content-Length, chunked transfer, as a client sends that compresses on the fly - in both the compressed and the plain form, declared MD5 right/wrong/malformed; after a resumable finalisation was rejected for its declared MD5 the client retries 1-3 times on the SAME session - the rejected request once more, the same bytes from offset 0, a bodiless finalising request, other non-matching bytes from offset 0 - which must never be acknowledged (308 or 4xx incl. 404/410) and must change nothing, and then possibly sends the bytes that do match, which is either refused or an upload of exactly those bytes; overwrites; deletes of live and absent names; metadata patches that send back a full, possibly stale, resource from an earlier GET and must leave content, size and MD5 as uploaded; PATCH bodies with a JSON type error that must be refused without a trace; one upload in eight carries a real gzip stream as its content, mostly declared with contentEncoding gzip in multipart / resumable metadata or by a later PATCH; 'decoy' steps address a delete (mostly), a patch, a patch with a type error, a copy-from or a compose-with-source to a name under which nothing was ever stored: a '/'-separated prefix of a stored name with and without a trailing slash ('a/b', 'a/b/' and 'a', 'a/' while 'a/b/c' is stored), a stored name continued by '/', a never-written decoy of the dump universe - never acknowledged, nothing may change, in particular not the objects below the prefix; 'dirs' scenarios delete a name two or more levels deep and then address an upload / copy / compose / DELETE / reads to the names of its ancestors' 'directories', which are ordinary absent names once nothing is stored below them; a 'same bytes again' scenario (one program in four) writes a 1 MiB object again with identical bytes through every protocol and by copies; 15% of the resumable uploads are sent in >= 2 chunk requests with 1-2 other requests on the same object (upload, patch, delete) between two chunks; 'reads' steps send metadata GET, media GETs through every URL form with and without 'Accept-Encoding: gzip' and a listing for one object - the dump after a step that only read must equal the dump before it) over 2 buckets and 6 names + 2 decoys drawn from the hostile name universe, run on one store (memory or file); after every step the whole store is dumped (bucket GET, full listing, metadata GET and media GET of every universe name; all three URL forms for the name just touched, one rotating form for the others) and compared with the reference model. Non-trivial = the program overwrote a live object, deleted a live object, completed a resumable upload that needed >= 2 chunk requests and had an upload rejected for its MD5; distinct by hash of the executed step log x store. 'sibling' scenarios: two objects whose names extend one another by a suffix a store might use for files of its own (X and X.tmp, X.meta, X~, X.part, X.bak, X.lock, X.new, X.old, X.swp, X.json, X.emumeta.tmp, .X.swp, #X#; file store: only names it can hold), both given non-default metadata (content type, user metadata, acl / owner ..., mostly a patch on top), then 3-6 requests - overwrite by any protocol, patch, copy onto it (also from the sibling: 'upload to name.tmp, rewrite to name'), compose onto it, delete / re-creation - addressed to one of the two, one per step; the dump after each compares both objects' content, metadata, MD5, generation and metageneration with the model."
	run.Assumptions = []string{
		"reference object model written from the statement and the public JSON API; generations are learned from responses",
		"resumable chunks are sent to the session URL with PUT; POST only to the Location URL the emulator itself issued (well-formed names)",
		"after a 308 the client continues from the offset the server reports in Range (as the protocol requires); Range must never exceed the bytes sent",
		"re-sent ranges carry the same bytes as the first transmission, except on a session whose finalisation was already rejected for its declared MD5: there the client may start over from offset 0 with other bytes",
		"a retry on a rejected session is judged against the MD5 declared when the session was opened: non-matching bytes => not acknowledged (308, 4xx; 404/410 'no such session' included), store unchanged; matching bytes => refused (nothing changed) or acknowledged as an upload of exactly those bytes",
		"multipart / resumable metadata may carry acl / owner / retention / customerEncryption; nothing is demanded about them except that failed requests leave whatever is shown for them unchanged",
		"content type is demanded only when the request supplied one (media: Content-Type header; multipart: metadata and/or media part header; resumable: metadata)",
		"file store: only names representable as files next to the live names are written or deleted (DESIGN C02/C09); every universe name is still read",
		"names altered by path cleaning and, for the public URL form, names holding a b/<x>/o segment run are outside the generated space",
		"listing is compared as a set here (order and paging are C11)",
		"a delete of a name under which nothing is stored and that is only a '/'-prefix of stored names must not be acknowledged and must change nothing; which error status it gets is not demanded (the statement does not say; a store without directories says 404). Deletes of other absent names: 404",
		"an object stored with contentEncoding gzip (its bytes are a gzip stream) is served as stored, byte for byte, to a client that sends 'Accept-Encoding: gzip'; without that header the stored bytes or their decompressed form (decompressive transcoding of the public API) are accepted. contentEncoding is compared like the other user-settable metadata; the harness never declares gzip for bytes that are no gzip stream",
		"every media GET of every dump is sent with or without 'Accept-Encoding: gzip' (drawn per step, name and form); the client never adds that header by itself and never decompresses; dumps are compared on the entity (the response's own Content-Encoding undone)",
		"a resource without a size field is read as size 0 (the JSON encoding omits zero values)",
		"a request that gets no answer within the client watchdog (20 s for PATCH / DELETE / compose / rewrite, 60 s otherwise) is reported as 'request not answered within <d>: <request>', the case is abandoned and its server not used again; after 3 such reports the run stops",
	}
	j := common.NewJournal("C02")
	nprog := run.N(120, 3000)
	names := append([]string(nil), hostileNames...)
	if !run.KnownOpen(kfVerbRouting) {
		names = append(names, verbNames...)
	}
	run.Canary(kfVerbRouting, func() (bool, string) { return canaryVerbRouting() })
	if !run.WantSub("prog") {
		return
	}
	common.Parallel(nprog*2, workers(), func(i int) {
		if !run.Want("prog", i) || tooMany(run) {
			return
		}
		store := drive.Stores[i%2]
		j.Begin(i%64, fmt.Sprintf("C02 prog case=%d store=%s seed=%d", i, store, run.Seed))
		c02Program(run, i, store, names)
		j.End(i % 64)
	})
}

func c02Program(run *common.Run, idx int, store string, universe []string) {
	r := run.Rand("C02.prog", idx)
	srv, err := drive.Start(store, "")
	if err != nil {
		run.Violation("prog", idx, "cannot start emulator: "+err.Error(), nil)
		return
	}
	defer srv.Close()
	e := newExec(srv, true)
	defer e.flush(run)
	fail := func(what string) {
		run.Violation("prog", idx, what, map[string]any{"store": store, "steps": tailSteps(e.steps, 40), "steps_total": len(e.steps)})
	}
	pool := append([]string(nil), universe...)
	common.Shuffle(r, pool)
	o := &progOpts{Buckets: []string{"vb1", "vb2"}, Names: pool[:6], FileRules: store == "file", MD5Pct: 45, BigPerMille: 12, ExtraPct: 20, GzipObjPct: 12, MidPct: 15, WirePct: 35,
		W: map[string]int{"upload": 40, "overwrite": 22, "delete": 22, "delete_absent": 6, "patch": 3, "patch_full": 5, "patch_bad": 3, "bucket_cycle": 3, "noop": 3, "reads": 5, "decoy": 9, "dirs": 4, "big_same": 1, "sibling": 6}}
	for _, b := range o.Buckets {
		if msg := e.createBucket(b); msg != "" {
			fail(msg)
			return
		}
		e.universe[b] = append(append([]string(nil), o.Names...), pool[6], pool[7])
	}
	e.universe["vb-never-created"] = []string{pool[0]}
	if msg := e.verify(); msg != "" {
		fail("initial dump: " + msg)
		return
	}
	nsteps := r.Range(30, 80)
	for s := 0; s < nsteps; s++ {
		if msg := runStep(r, e, o); msg != "" {
			fail(msg)
			return
		}
		if msg := e.verify(); msg != "" {
			fail(fmt.Sprintf("after step %d: %s", len(e.steps)-1, msg))
			return
		}
	}
	nontrivial := e.stats["overwrites"] > 0 && e.stats["deletes_ok"] > 0 && e.stats["md5_rejections"] > 0 && e.stats["resumable_multi"] > 0
	run.Case(common.Hash64(store, stepsHash(e.steps)), nontrivial)
	if idx < 4 {
		run.Sample(map[string]any{"store": store, "case": idx, "steps": tailSteps(e.steps[:min(len(e.steps), 8)], 8)})
	}
}

func tailSteps(s []stepRec, n int) []stepRec {
	if len(s) > n {
		return s[len(s)-n:]
	}
	return s
}

func stepsHash(s []stepRec) string {
	h := ""
	for _, st := range s {
		h += st.Req + "\x00"
	}
	return fmt.Sprint(common.Hash64(h))
}

// canaryVerbRouting is the fixed reproducer of the routing finding: a resumable upload of "docker/compose.yaml"
// whose single chunk is sent with POST to the Location URL.
func canaryVerbRouting() (bool, string) {
	srv, err := drive.Start("mem", "")
	if err != nil {
		return false, "cannot start emulator: " + err.Error()
	}
	defer srv.Close()
	e := newExec(srv, true)
	if msg := e.createBucket("vb1"); msg != "" {
		return false, msg
	}
	u := &uploadSpec{Proto: "resumable", Bucket: "vb1", Name: "docker/compose.yaml", Body: []byte("services: {}\n"), CT: "text/plain",
		Post: true, UseLocation: true, KnownTotal: true, ChunkMax: 100}
	if msg := e.upload(u, common.NewRand(1, "canary", 0)); msg != "" {
		return true, msg
	}
	return false, "POST chunk for docker/compose.yaml accepted"
}

var _ = model.Pass

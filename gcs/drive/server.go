// Package drive starts real emulator servers in-process and talks to them over loopback TCP with a raw HTTP client
// (no transparent gzip, no redirect following, explicit escaping).
package drive

import (
	"fmt"
	"os"
	"path/filepath"
	"time"

	"github.com/fullstorydev/emulators/storage/gcsemu"
)

// Stores are the two store configurations every check runs on.
var Stores = []string{"mem", "file"}

// Server is one emulator instance listening on 127.0.0.1:<ephemeral>.
type Server struct {
	Kind   string // "mem" or "file"
	Dir    string // file store directory ("" for mem)
	owned  bool   // Dir is removed on Close
	Emu    *gcsemu.Server
	Base   string // http://127.0.0.1:port
	Client *Client
}

// Start launches an emulator. dir == "" with kind "file" creates (and owns) a scratch directory under $TMPDIR.
func Start(kind, dir string) (*Server, error) {
	s := &Server{Kind: kind, Dir: dir}
	var opts gcsemu.Options
	switch kind {
	case "mem":
		opts.Store = gcsemu.NewMemStore()
	case "file":
		if dir == "" {
			d, err := os.MkdirTemp("", "verif-gcs-")
			if err != nil {
				return nil, err
			}
			s.Dir, s.owned = d, true
		}
		opts.Store = gcsemu.NewFileStore(s.Dir)
	default:
		return nil, fmt.Errorf("unknown store kind %q", kind)
	}
	emu, err := gcsemu.NewServer("127.0.0.1:0", opts)
	if err != nil {
		if s.owned {
			_ = os.RemoveAll(s.Dir)
		}
		return nil, err
	}
	s.Emu = emu
	s.Base = "http://" + emu.Addr
	s.Client = NewClient(s.Base)
	return s, nil
}

// Second starts another emulator instance on the same directory (file store only); it does not own the directory.
func (s *Server) Second() (*Server, error) {
	if s.Kind != "file" {
		return nil, fmt.Errorf("Second needs a file store")
	}
	return Start("file", s.Dir)
}

// Wedged: a request sent through the server's client got no answer within its watchdog; the server may hold locks
// for good and must not be used for further cases.
func (s *Server) Wedged() bool { return s.Client != nil && s.Client.Unanswered() > 0 }

// Close stops the emulator. Closing waits for the requests in flight; on a wedged server (a handler that never
// returns) that would block for ever, so there the shutdown is left to a background goroutine.
func (s *Server) Close() {
	if s.Client != nil {
		s.Client.Close()
	}
	if s.Emu != nil {
		if s.Wedged() {
			go s.Emu.Close()
		} else {
			s.Emu.Close()
		}
	}
	if s.owned {
		_ = os.RemoveAll(s.Dir)
	}
}

// MtimeGranularity measures how finely the scratch file system keeps modification times: it sets mtimes with
// nanosecond, microsecond ... digits and reads them back. Returns the finest unit that survived.
func MtimeGranularity() (time.Duration, error) {
	d, err := os.MkdirTemp("", "verif-gcs-mtime-")
	if err != nil {
		return 0, err
	}
	defer os.RemoveAll(d)
	f := filepath.Join(d, "probe")
	if err := os.WriteFile(f, []byte("x"), 0o666); err != nil {
		return 0, err
	}
	base := time.Unix(1700000000, 0)
	for _, g := range []time.Duration{time.Nanosecond, time.Microsecond, time.Millisecond, time.Second} {
		t := base.Add(7 * g)
		if err := os.Chtimes(f, t, t); err != nil {
			return 0, err
		}
		fi, err := os.Stat(f)
		if err != nil {
			return 0, err
		}
		if fi.ModTime().Equal(t) {
			return g, nil
		}
	}
	return 2 * time.Second, nil
}

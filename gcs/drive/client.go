package drive

import (
	"bytes"
	"compress/gzip"
	"context"
	"crypto/md5"
	"encoding/json"
	"fmt"
	"io"
	"net"
	"net/http"
	"net/url"
	"sort"
	"strconv"
	"strings"
	"sync"
	"sync/atomic"
	"time"
)

// Client is a raw HTTP client for one emulator: no transparent gzip, no redirect following, explicit escaping.
type Client struct {
	Base string
	hc   *http.Client
	tr   *http.Transport

	mu     sync.Mutex
	counts map[string]int64

	// PagedSizes: every Dump additionally lists each bucket with these maxResults values, following the token chain.
	PagedSizes []int

	// MutWatchdog > 0: PATCH, DELETE, compose and rewrite requests get this (shorter) watchdog instead of the general
	// one. Those requests carry bodies of a few hundred bytes at most, so how long they take does not depend on payloads.
	MutWatchdog time.Duration
	// FailFast: once a request was not answered within its watchdog the server counts as wedged; every later request on
	// this client fails at once (Resp.Skipped) instead of waiting for the watchdog again.
	FailFast bool

	// Wire: how the bodies of the requests sent while it is set travel (requests without a body are not affected).
	Wire Wire

	// PlusEscaped: a '+' in the path of a request (url.PathEscape leaves it as it is) is sent as %2B instead.
	PlusEscaped bool

	unanswered      atomic.Int64
	firstUnanswered atomic.Value // string
}

// Wire describes the transport of a request body. Gzip: the body is compressed and the request says
// "Content-Encoding: gzip" (a body that a caller compressed itself, as UploadMedia with gz does, is not compressed
// again). Streamed: the body is handed to net/http as a plain io.Reader, so the request carries no Content-Length and
// goes out with "Transfer-Encoding: chunked" - what a client does that compresses or produces its data on the fly.
type Wire struct{ Gzip, Streamed bool }

// Watchdog is the general bound on one request (headers and body of the response included). A request that gets no
// answer within its watchdog is reported by the callers as "not answered": Resp.Unanswered holds the bound.
const Watchdog = 60 * time.Second

// Guard switches on the shorter watchdog for PATCH / DELETE / compose / rewrite requests and fail-fast behaviour.
func (c *Client) Guard(mut time.Duration) {
	c.MutWatchdog, c.FailFast = mut, true
}

// OnUnanswered, when set, is called each time a watchdog period of a request ends without an answer (period 0, 1, 2).
// It reports whether the request is to be given up as unanswered (true) or waited for another period (false). Checks
// whose emulator runs in this process use it to tell a stuck handler from a slow or suspended machine (gcscheck:
// hangConfirm); it may end the process.
var OnUnanswered func(desc string, period int) bool

// Unanswered is the number of requests on this client that got no answer within their watchdog.
func (c *Client) Unanswered() int64 { return c.unanswered.Load() }

// FirstUnanswered describes the first such request ("" if there was none).
func (c *Client) FirstUnanswered() string {
	s, _ := c.firstUnanswered.Load().(string)
	return s
}

// Resp is a complete response (body read to the end).
type Resp struct {
	Status int
	Header http.Header
	Body   []byte
	Err    string // transport error (no response)
	// Unanswered > 0: the request was sent and no (complete) response arrived within this watchdog.
	Unanswered time.Duration
	// Skipped: the request was not sent because an earlier request on this client went unanswered (Client.FailFast).
	Skipped bool
}

func NewClient(base string) *Client {
	tr := &http.Transport{
		DisableCompression:  true,
		MaxIdleConnsPerHost: 4,
		IdleConnTimeout:     30 * time.Second,
		DialContext:         (&net.Dialer{Timeout: 10 * time.Second}).DialContext,
	}
	return &Client{Base: base, tr: tr, counts: map[string]int64{}, hc: &http.Client{
		Transport:     tr,
		Timeout:       60 * time.Second, // watchdog only, never a verdict
		CheckRedirect: func(*http.Request, []*http.Request) error { return http.ErrUseLastResponse },
	}}
}

func (c *Client) Close() { c.tr.CloseIdleConnections() }

// Counts returns and resets the observation counters (requests, responses by status class).
func (c *Client) Counts() map[string]int64 {
	c.mu.Lock()
	defer c.mu.Unlock()
	out := c.counts
	c.counts = map[string]int64{}
	return out
}

func (c *Client) count(k string) {
	c.mu.Lock()
	c.counts[k]++
	c.mu.Unlock()
}

// Do sends one request under the general watchdog. target is the already escaped path + query.
func (c *Client) Do(method, target string, hdr [][2]string, body []byte) *Resp {
	return c.do(Watchdog, method, target, hdr, body)
}

// doMut sends a request whose duration does not depend on payload sizes (PATCH, DELETE, compose, rewrite).
func (c *Client) doMut(method, target string, hdr [][2]string, body []byte) *Resp {
	if c.MutWatchdog > 0 {
		return c.do(c.MutWatchdog, method, target, hdr, body)
	}
	return c.do(Watchdog, method, target, hdr, body)
}

func (c *Client) do(watchdog time.Duration, method, target string, hdr [][2]string, body []byte) *Resp {
	if c.FailFast && c.unanswered.Load() > 0 {
		return &Resp{Skipped: true, Err: "not sent: an earlier request to this server got no answer (" + c.FirstUnanswered() + ")"}
	}
	var rd io.Reader
	streamed := false
	if body != nil {
		if c.Wire.Gzip {
			already := false
			for _, h := range hdr {
				if strings.EqualFold(h[0], "Content-Encoding") {
					already = true
				}
			}
			if !already {
				body = Gzip(body)
				hdr = append(append([][2]string(nil), hdr...), [2]string{"Content-Encoding", "gzip"})
				c.count("request_bodies_gzip_compressed_by_the_transport")
			}
		}
		rd = bytes.NewReader(body)
		if c.Wire.Streamed && len(body) > 0 {
			rd = struct{ io.Reader }{rd} // not a type net/http knows the length of
			streamed = true
			c.count("request_bodies_streamed_without_content_length")
		}
	}
	if c.PlusEscaped {
		path, query, hasQuery := strings.Cut(target, "?")
		target = strings.ReplaceAll(path, "+", "%2B")
		if hasQuery {
			target += "?" + query
		}
	}
	ctx, cancel := context.WithCancel(context.Background())
	defer cancel()
	req, err := http.NewRequestWithContext(ctx, method, c.Base+target, rd)
	if err != nil {
		return &Resp{Err: "bad request: " + err.Error()}
	}
	if streamed {
		req.ContentLength = -1
	}
	for _, h := range hdr {
		req.Header.Set(h[0], h[1])
	}
	c.count("requests")
	done := make(chan *Resp, 1)
	go func() {
		rsp, err := c.hc.Do(req)
		if err != nil {
			done <- &Resp{Err: err.Error()}
			return
		}
		defer rsp.Body.Close()
		b, err := io.ReadAll(rsp.Body)
		if err != nil {
			done <- &Resp{Status: rsp.StatusCode, Header: rsp.Header, Body: b, Err: "reading body: " + err.Error()}
			return
		}
		done <- &Resp{Status: rsp.StatusCode, Header: rsp.Header, Body: b}
	}()
	// The watchdog is a real-time bound. Its expiry alone proves nothing on a loaded (or briefly suspended) machine:
	// OnUnanswered looks at the emulator's handlers; while none of them is blocked the request is waited for again, up
	// to three periods in all.
	for period := 0; ; period++ {
		timer := time.NewTimer(watchdog)
		select {
		case r := <-done:
			timer.Stop()
			if r.Err != "" {
				c.count("transport_errors")
			} else {
				c.count(fmt.Sprintf("responses_%dxx", r.Status/100))
			}
			return r
		case <-timer.C:
		}
		t := target
		if len(t) > 300 {
			t = t[:300] + "..."
		}
		msg := fmt.Sprintf("request not answered within %s: %s %s", time.Duration(period+1)*watchdog, method, t)
		stuck := true
		if OnUnanswered != nil {
			stuck = OnUnanswered(msg, period)
		}
		if !stuck && period < 2 {
			c.count("watchdog_expiries_with_no_blocked_handler_waited_on")
			continue
		}
		cancel()
		if c.unanswered.Add(1) == 1 {
			c.firstUnanswered.Store(msg)
		}
		c.count("requests_not_answered_within_watchdog")
		return &Resp{Err: msg, Unanswered: watchdog}
	}
}

func (r *Resp) OK() bool { return r.Err == "" && r.Status >= 200 && r.Status < 300 }

func (r *Resp) String() string {
	if r.Err != "" {
		return "transport error: " + r.Err
	}
	b := string(r.Body)
	if len(b) > 300 {
		b = b[:300] + "..."
	}
	return fmt.Sprintf("%d %s", r.Status, strings.TrimSpace(b))
}

// JSON decodes the body as a JSON object.
func (r *Resp) JSON() (map[string]any, error) {
	var m map[string]any
	d := json.NewDecoder(bytes.NewReader(r.Body))
	d.UseNumber()
	if err := d.Decode(&m); err != nil {
		return nil, err
	}
	return m, nil
}

// ---------------------------------------------------------------- URL building

func esc(s string) string { return url.PathEscape(s) }

// Query renders parameters in the given order with explicit escaping.
func Query(params [][2]string) string {
	if len(params) == 0 {
		return ""
	}
	var parts []string
	for _, p := range params {
		parts = append(parts, url.QueryEscape(p[0])+"="+url.QueryEscape(p[1]))
	}
	return "?" + strings.Join(parts, "&")
}

func BucketPath(b string) string      { return "/storage/v1/b/" + esc(b) }
func ListPath(b string) string        { return "/storage/v1/b/" + esc(b) + "/o" }
func ObjPath(b, n string) string      { return "/storage/v1/b/" + esc(b) + "/o/" + esc(n) }
func UploadPath(b string) string      { return "/upload/storage/v1/b/" + esc(b) + "/o" }
func DownloadPath(b, n string) string { return "/download" + ObjPath(b, n) }

// PublicPath is /<bucket>/<name> with every path segment escaped separately (slashes stay literal).
func PublicPath(b, n string) string {
	segs := strings.Split(n, "/")
	for i := range segs {
		segs[i] = esc(segs[i])
	}
	return "/" + esc(b) + "/" + strings.Join(segs, "/")
}

// Media URL forms.
const (
	FormJSON = iota
	FormDownload
	FormPublic
	NForms
	// AcceptGzip, or-ed onto a form in the form list handed to Dump: send that media GET with "Accept-Encoding: gzip".
	AcceptGzip = 8
)

var FormNames = [NForms]string{"json?alt=media", "download?alt=media", "public"}

// PublicOK: the public form shares one path space with the JSON form; names containing a "b/<x>/o" segment run
// are not addressable through it (DESIGN C02 exclusion).
func PublicOK(name string) bool {
	segs := strings.Split(name, "/")
	for i := 0; i+2 < len(segs); i++ {
		if segs[i] == "b" && segs[i+2] == "o" {
			return false
		}
	}
	return !strings.HasPrefix(name, "storage/v1/b") && !strings.Contains(name, "/storage/v1/b")
}

func MediaTarget(form int, b, n string) string {
	switch form {
	case FormJSON:
		return ObjPath(b, n) + "?alt=media"
	case FormDownload:
		return DownloadPath(b, n) + "?alt=media"
	}
	return PublicPath(b, n)
}

// ---------------------------------------------------------------- requests

func (c *Client) CreateBucket(b string) *Resp {
	body, _ := json.Marshal(map[string]string{"name": b})
	return c.Do("POST", "/storage/v1/b", [][2]string{{"Content-Type", "application/json"}}, body)
}

func (c *Client) GetBucket(b string) *Resp { return c.Do("GET", BucketPath(b), nil, nil) }

func Gzip(b []byte) []byte {
	var buf bytes.Buffer
	w := gzip.NewWriter(&buf)
	_, _ = w.Write(b)
	_ = w.Close()
	return buf.Bytes()
}

// UploadMedia: POST /upload/storage/v1/b/<b>/o?uploadType=media&name=<n>. ctype "" sends no Content-Type.
func (c *Client) UploadMedia(b, n, ctype string, body []byte, gz bool, q [][2]string) *Resp {
	params := append([][2]string{{"uploadType", "media"}, {"name", n}}, q...)
	var hdr [][2]string
	if ctype != "" {
		hdr = append(hdr, [2]string{"Content-Type", ctype})
	}
	if gz {
		hdr = append(hdr, [2]string{"Content-Encoding", "gzip"})
		body = Gzip(body)
	}
	if body == nil {
		body = []byte{}
	}
	return c.Do("POST", UploadPath(b)+Query(params), hdr, body)
}

// MultipartBody builds a multipart/related body by hand. partCT "" omits the media part's Content-Type header.
func MultipartBody(boundary string, metaJSON []byte, partCT string, data []byte) []byte {
	var buf bytes.Buffer
	buf.WriteString("--" + boundary + "\r\nContent-Type: application/json; charset=UTF-8\r\n\r\n")
	buf.Write(metaJSON)
	buf.WriteString("\r\n--" + boundary + "\r\n")
	if partCT != "" {
		buf.WriteString("Content-Type: " + partCT + "\r\n")
	}
	buf.WriteString("\r\n")
	buf.Write(data)
	buf.WriteString("\r\n--" + boundary + "--\r\n")
	return buf.Bytes()
}

func (c *Client) UploadMultipart(b string, metaJSON []byte, partCT string, data []byte, boundary string, gz bool, q [][2]string) *Resp {
	params := append([][2]string{{"uploadType", "multipart"}}, q...)
	body := MultipartBody(boundary, metaJSON, partCT, data)
	hdr := [][2]string{{"Content-Type", "multipart/related; boundary=" + boundary}}
	if gz {
		hdr = append(hdr, [2]string{"Content-Encoding", "gzip"})
		body = Gzip(body)
	}
	return c.Do("POST", UploadPath(b)+Query(params), hdr, body)
}

// ResumableInit starts a resumable session; returns the response, the upload id and the target (path+query) taken
// from the Location header ("" if the header is missing or does not point at this server).
func (c *Client) ResumableInit(b string, metaJSON []byte, q [][2]string, xUploadCT string) (rsp *Resp, uploadID, locTarget string) {
	params := append([][2]string{{"uploadType", "resumable"}}, q...)
	hdr := [][2]string{{"Content-Type", "application/json; charset=UTF-8"}}
	if xUploadCT != "" {
		hdr = append(hdr, [2]string{"X-Upload-Content-Type", xUploadCT})
	}
	rsp = c.Do("POST", UploadPath(b)+Query(params), hdr, metaJSON)
	if !rsp.OK() {
		return rsp, "", ""
	}
	loc := rsp.Header.Get("Location")
	if i := strings.LastIndex(loc, "upload_id="); i >= 0 {
		uploadID = loc[i+len("upload_id="):]
		if j := strings.IndexAny(uploadID, "&# "); j >= 0 {
			uploadID = uploadID[:j]
		}
	}
	if strings.HasPrefix(loc, c.Base+"/") {
		locTarget = loc[len(c.Base):]
	}
	return rsp, uploadID, locTarget
}

// SessionTarget rebuilds the session URL from the upload id (the documented session URI shape).
func SessionTarget(b, uploadID string) string {
	return UploadPath(b) + Query([][2]string{{"uploadType", "resumable"}, {"upload_id", uploadID}})
}

// ResumableChunk sends one chunk or status query. contentRange e.g. "bytes 0-9/*", "bytes */20", "bytes */*".
func (c *Client) ResumableChunk(method, target, contentRange string, body []byte) *Resp {
	if body == nil {
		body = []byte{}
	}
	return c.Do(method, target, [][2]string{{"Content-Range", contentRange}}, body)
}

// ParseRange308 parses "bytes=0-N" of a 308 reply into the number of bytes the server reports as stored.
// ok=false: header present but not of that shape. Absent header or "bytes=0--1": 0 bytes.
func ParseRange308(h string) (stored int64, ok bool) {
	if h == "" || h == "bytes=0--1" {
		return 0, true
	}
	if !strings.HasPrefix(h, "bytes=0-") {
		return 0, false
	}
	n, err := strconv.ParseInt(h[len("bytes=0-"):], 10, 64)
	if err != nil || n < 0 {
		return 0, false
	}
	return n + 1, true
}

func (c *Client) Patch(b, n string, body []byte, q [][2]string) *Resp {
	return c.doMut("PATCH", ObjPath(b, n)+Query(q), [][2]string{{"Content-Type", "application/json"}}, body)
}

func (c *Client) Delete(b, n string, q [][2]string) *Resp {
	return c.doMut("DELETE", ObjPath(b, n)+Query(q), nil, nil)
}

func (c *Client) Compose(b, dst string, body []byte, q [][2]string) *Resp {
	return c.doMut("POST", ObjPath(b, dst)+"/compose"+Query(q), [][2]string{{"Content-Type", "application/json"}}, body)
}

func (c *Client) Rewrite(sb, sn, db, dn string) *Resp {
	return c.doMut("POST", ObjPath(sb, sn)+"/rewriteTo/b/"+esc(db)+"/o/"+esc(dn), [][2]string{{"Content-Type", "application/json"}}, []byte("{}"))
}

// RewriteBody is Rewrite with a caller-supplied request body: the optional destination object resource of the
// rewrite API (clients that read-modify-write send a full resource here, output-only fields included).
func (c *Client) RewriteBody(sb, sn, db, dn string, body []byte) *Resp {
	return c.doMut("POST", ObjPath(sb, sn)+"/rewriteTo/b/"+esc(db)+"/o/"+esc(dn), [][2]string{{"Content-Type", "application/json"}}, body)
}

func (c *Client) GetMeta(b, n string) *Resp { return c.Do("GET", ObjPath(b, n), nil, nil) }

func (c *Client) GetMedia(form int, b, n string) *Resp {
	return c.Do("GET", MediaTarget(form, b, n), nil, nil)
}

// GetMediaAE is GetMedia with or without "Accept-Encoding: gzip". The transport never adds that header by itself and
// never decompresses a response, so the body is what the server sent and Content-Encoding says how it is encoded.
func (c *Client) GetMediaAE(form int, b, n string, acceptGzip bool) *Resp {
	var hdr [][2]string
	if acceptGzip {
		hdr = [][2]string{{"Accept-Encoding", "gzip"}}
		c.count("media_gets_accepting_gzip")
	} else {
		c.count("media_gets_not_accepting_gzip")
	}
	return c.Do("GET", MediaTarget(form&^AcceptGzip, b, n), hdr, nil)
}

// Gunzip decodes a complete gzip stream (all members); ok=false if b is not one.
func Gunzip(b []byte) (plain []byte, ok bool) {
	zr, err := gzip.NewReader(bytes.NewReader(b))
	if err != nil {
		return nil, false
	}
	plain, err = io.ReadAll(zr)
	if err != nil || zr.Close() != nil {
		return nil, false
	}
	if plain == nil {
		plain = []byte{}
	}
	return plain, true
}

func (c *Client) List(b string, q [][2]string) *Resp {
	return c.Do("GET", ListPath(b)+Query(q), nil, nil)
}

// ---------------------------------------------------------------- decoding helpers

// Int64Field reads a numeric field that the API renders as a JSON string (generation, metageneration, size).
func Int64Field(m map[string]any, k string) (int64, bool) {
	switch v := m[k].(type) {
	case string:
		n, err := strconv.ParseInt(v, 10, 64)
		return n, err == nil
	case json.Number:
		n, err := v.Int64()
		return n, err == nil
	case float64:
		return int64(v), true
	}
	return 0, false
}

func StrField(m map[string]any, k string) string {
	s, _ := m[k].(string)
	return s
}

// ListPage is one decoded page of a listing.
type ListPage struct {
	Status   int
	Items    []map[string]any
	RawItems []string
	Names    []string
	Prefixes []string
	Token    string
	Raw      string
}

func DecodeListPage(r *Resp) (*ListPage, error) {
	p := &ListPage{Status: r.Status, Raw: string(r.Body)}
	if r.Err != "" {
		return p, fmt.Errorf("%s", r.Err)
	}
	if r.Status != 200 {
		return p, nil
	}
	var doc struct {
		Items         []json.RawMessage `json:"items"`
		Prefixes      []string          `json:"prefixes"`
		NextPageToken string            `json:"nextPageToken"`
	}
	if err := json.Unmarshal(r.Body, &doc); err != nil {
		return p, fmt.Errorf("listing body is not JSON: %v", err)
	}
	for _, raw := range doc.Items {
		var m map[string]any
		d := json.NewDecoder(bytes.NewReader(raw))
		d.UseNumber()
		if err := d.Decode(&m); err != nil {
			return p, fmt.Errorf("listing item is not a JSON object: %v", err)
		}
		p.Items = append(p.Items, m)
		p.RawItems = append(p.RawItems, string(raw))
		p.Names = append(p.Names, StrField(m, "name"))
	}
	p.Prefixes = doc.Prefixes
	p.Token = doc.NextPageToken
	return p, nil
}

// ListAll follows the token chain. maxResults <= 0: parameter not sent. It stops after maxPages pages
// (truncated=true) so that a token loop cannot hang the check.
func (c *Client) ListAll(b, prefix, delim string, maxResults, maxPages int) (pages []*ListPage, truncated bool, err error) {
	return c.ListAllQ(b, prefix, delim, maxResults, maxPages, nil)
}

// ListAllQ is ListAll with further query parameters (e.g. projection) sent with every page request.
func (c *Client) ListAllQ(b, prefix, delim string, maxResults, maxPages int, extra [][2]string) (pages []*ListPage, truncated bool, err error) {
	token := ""
	for {
		q := append([][2]string(nil), extra...)
		if prefix != "" {
			q = append(q, [2]string{"prefix", prefix})
		}
		if delim != "" {
			q = append(q, [2]string{"delimiter", delim})
		}
		if maxResults > 0 {
			q = append(q, [2]string{"maxResults", strconv.Itoa(maxResults)})
		}
		if token != "" {
			q = append(q, [2]string{"pageToken", token})
		}
		p, err := DecodeListPage(c.List(b, q))
		pages = append(pages, p)
		if err != nil {
			return pages, false, err
		}
		if p.Status != 200 || p.Token == "" {
			return pages, false, nil
		}
		if len(pages) >= maxPages {
			return pages, true, nil
		}
		token = p.Token
	}
}

// ---------------------------------------------------------------- whole-store dump

// MediaView is what one media GET showed.
type MediaView struct {
	Fetched    bool
	Form       int
	AcceptGzip bool // the request carried "Accept-Encoding: gzip"
	Status     int
	Body       []byte // as sent by the server (never decompressed by the client)
	Encoding   string // Content-Encoding of the response
	Gen        string // X-Goog-Generation
	Metagen    string // X-Goog-Metageneration
	Err        string
}

// Entity is the response body with the response's own Content-Encoding undone: what the client ends up with,
// whichever encodings it said it accepts.
func (mv *MediaView) Entity() []byte {
	if strings.EqualFold(mv.Encoding, "gzip") {
		if plain, ok := Gunzip(mv.Body); ok {
			return plain
		}
	}
	return mv.Body
}

// ObjView is everything observable about one name.
type ObjView struct {
	MetaStatus int
	MetaRaw    string
	Meta       map[string]any
	MetaErr    string
	Media      []MediaView // in request order
}

// BucketView is everything observable about one bucket.
type BucketView struct {
	Status     int // GET bucket
	ListStatus int
	ListErr    string
	Pages      int
	Items      []map[string]any
	RawItems   []string
	Listed     []string
	Objects    map[string]*ObjView
	Paged      map[int]*PagedListing // maxResults -> concatenated pages
}

// PagedListing is a listing followed through its token chain with a small page size.
type PagedListing struct {
	Names []string
	Pages int
	Err   string
}

type StoreDump struct {
	Buckets map[string]*BucketView
}

// Dump reads the whole observable store: every bucket's existence and full (paginated) listing, and for every given
// name (live names plus decoys) the metadata and the media through the forms selected by forms(bucket, name)
// (nil: all applicable forms); a form or-ed with AcceptGzip is requested with "Accept-Encoding: gzip", the same form
// may be listed with and without it.
func (c *Client) Dump(names map[string][]string, forms func(b, n string) []int) *StoreDump {
	d := &StoreDump{Buckets: map[string]*BucketView{}}
	for b, ns := range names {
		bv := &BucketView{Objects: map[string]*ObjView{}}
		d.Buckets[b] = bv
		bv.Status = c.GetBucket(b).Status
		pages, trunc, err := c.ListAll(b, "", "", 0, 50)
		bv.Pages = len(pages)
		for _, p := range pages {
			bv.ListStatus = p.Status
			bv.Items = append(bv.Items, p.Items...)
			bv.RawItems = append(bv.RawItems, p.RawItems...)
			bv.Listed = append(bv.Listed, p.Names...)
		}
		if err != nil {
			bv.ListErr = err.Error()
		} else if trunc {
			bv.ListErr = "listing did not end after 50 pages"
		}
		if bv.ListStatus == 200 {
			for _, mr := range c.PagedSizes {
				pl := &PagedListing{}
				pages, trunc, err := c.ListAll(b, "", "", mr, len(bv.Listed)+5)
				for _, p := range pages {
					pl.Names = append(pl.Names, p.Names...)
					if p.Status != 200 {
						pl.Err = fmt.Sprintf("page answered %d", p.Status)
					}
					if len(p.Names) > mr {
						pl.Err = fmt.Sprintf("page holds %d > maxResults=%d entries", len(p.Names), mr)
					}
				}
				pl.Pages = len(pages)
				if err != nil {
					pl.Err = err.Error()
				} else if trunc {
					pl.Err = fmt.Sprintf("token chain did not end within %d pages", len(bv.Listed)+5)
				}
				if bv.Paged == nil {
					bv.Paged = map[int]*PagedListing{}
				}
				bv.Paged[mr] = pl
			}
		}
		for _, n := range ns {
			ov := &ObjView{}
			bv.Objects[n] = ov
			r := c.GetMeta(b, n)
			ov.MetaStatus, ov.MetaRaw, ov.MetaErr = r.Status, string(r.Body), r.Err
			if r.Status == 200 {
				m, err := r.JSON()
				if err != nil {
					ov.MetaErr = "metadata body is not JSON: " + err.Error()
				}
				ov.Meta = m
			}
			var fs []int
			if forms != nil {
				fs = forms(b, n)
			} else {
				fs = []int{FormJSON, FormDownload, FormPublic}
			}
			for _, fa := range fs {
				f, ae := fa&^AcceptGzip, fa&AcceptGzip != 0
				if f == FormPublic && !PublicOK(n) {
					continue
				}
				r := c.GetMediaAE(f, b, n, ae)
				ov.Media = append(ov.Media, MediaView{Fetched: true, Form: f, AcceptGzip: ae, Status: r.Status, Body: r.Body, Err: r.Err,
					Encoding: r.Header.Get("Content-Encoding"), Gen: r.Header.Get("X-Goog-Generation"), Metagen: r.Header.Get("X-Goog-Metageneration")})
			}
		}
	}
	return d
}

// Canon renders the form-independent part of a dump (bucket existence, raw listing items, raw metadata, digest of the
// entity - the body with the response's own Content-Encoding undone - of the first media GET) so that two dumps of the
// same store can be compared for "nothing changed" although they used other URL forms / Accept-Encoding headers.
// hostFrom/hostTo rewrite the server address in links (for comparing two instances); dropGen removes nothing:
// generations are part of the state.
func (d *StoreDump) Canon(hostFrom, hostTo string) map[string]string {
	out := map[string]string{}
	fix := func(s string) string {
		if hostFrom != "" {
			return strings.ReplaceAll(s, hostFrom, hostTo)
		}
		return s
	}
	for b, bv := range d.Buckets {
		out[b+"\x00"] = fmt.Sprintf("bucket=%d list=%d items=%s", bv.Status, bv.ListStatus, fix(strings.Join(bv.RawItems, "\n")))
		for _, mr := range c2sorted(bv.Paged) {
			pl := bv.Paged[mr]
			out[fmt.Sprintf("%s\x00\x00paged maxResults=%d", b, mr)] = fmt.Sprintf("pages=%d names=%q err=%s", pl.Pages, pl.Names, pl.Err)
		}
		for n, ov := range bv.Objects {
			s := fmt.Sprintf("meta=%d %s", ov.MetaStatus, fix(ov.MetaRaw))
			if ov.MetaStatus != 200 {
				s = fmt.Sprintf("meta=%d", ov.MetaStatus)
			}
			for i := range ov.Media {
				mv := &ov.Media[i]
				if mv.Fetched {
					if mv.Status == 200 {
						ent := mv.Entity()
						s += fmt.Sprintf(" media=200 len=%d md5=%s gen=%s/%s", len(ent), md5hex(ent), mv.Gen, mv.Metagen)
					} else {
						s += fmt.Sprintf(" media=%d", mv.Status)
					}
					break
				}
			}
			out[b+"\x00"+n] = s
		}
	}
	return out
}

// DiffCanon returns "" if equal, else the first differing key with both values.
func DiffCanon(before, after map[string]string) string {
	for k, v := range before {
		if w, ok := after[k]; !ok || w != v {
			return fmt.Sprintf("%q: before [%s] after [%s]", strings.ReplaceAll(k, "\x00", "/"), clip(v), clip(after[k]))
		}
	}
	for k, w := range after {
		if _, ok := before[k]; !ok {
			return fmt.Sprintf("%q: before [] after [%s]", strings.ReplaceAll(k, "\x00", "/"), clip(w))
		}
	}
	return ""
}

func c2sorted(m map[int]*PagedListing) []int {
	var out []int
	for k := range m {
		out = append(out, k)
	}
	sort.Ints(out)
	return out
}

func md5hex(b []byte) string { return fmt.Sprintf("%x", md5.Sum(b)) }

func clip(s string) string {
	if len(s) > 700 {
		return s[:700] + "..."
	}
	return s
}

#!/usr/bin/env python3-vt
"""Validate MANIFEST.json and every evidence file against the schemas in /root/.vp."""
import json, sys, glob, os
import jsonschema
root = os.path.dirname(os.path.abspath(__file__))
ok = True
def check(path, schema_path):
    global ok
    try:
        jsonschema.validate(json.load(open(path)), json.load(open(schema_path)))
        print("ok   ", path)
    except Exception as e:
        ok = False
        print("FAIL ", path, str(e).splitlines()[0])
if os.path.exists(root + "/MANIFEST.json"):
    check(root + "/MANIFEST.json", "/root/.vp/MANIFEST.schema.json")
for f in sorted(glob.glob(root + "/evidence/*.json")):
    check(f, "/root/.vp/EVIDENCE.schema.json")
sys.exit(0 if ok else 1)

#!/bin/bash
# tools/mutant.sh <patch.diff> <ID> [tier] [seed]
# Runs one check against a PRIVATE copy of /repo with the patch applied (never touches /repo):
# copies /repo/{bigtable,storage} and /verif/{bt,gcs,common} to a scratch dir, repoints the harness go.mod
# replace directives at the copy, builds and runs the check there. Evidence/replays land in the scratch dir.
# Prints the check's output and "MUTANT-RESULT exit=<rc>"; removes the scratch dir.
set -u
PATCH="$(readlink -f "$1")"; ID="$2"; TIER="${3:-quick}"; SEED="${4:-1}"
S="$(mktemp -d /tmp/mutant-XXXXXX)"
trap 'rm -rf "$S"' EXIT
mkdir -p "$S/repo" "$S/verif"
cp -r /repo/bigtable /repo/storage "$S/repo/"
(cd "$S/repo" && git init -q . 2>/dev/null; git apply --unsafe-paths -p1 "$PATCH") || { echo "patch does not apply"; exit 9; }
for d in bt gcs common tools; do cp -r "/verif/$d" "$S/verif/"; done
cp /verif/check /verif/known_findings.json "$S/verif/"
[ -f /verif/merge_evidence.py ] && cp /verif/merge_evidence.py "$S/verif/"
sed -i "s#=> /repo/bigtable#=> $S/repo/bigtable#" "$S/verif/bt/go.mod"
sed -i "s#=> /repo/storage#=> $S/repo/storage#" "$S/verif/gcs/go.mod"
cd "$S/verif"
VERIF_REPO="$S/repo" VERIF_SEED="$SEED" ./check "$ID" "$TIER"
rc=$?
echo "MUTANT-RESULT id=$ID tier=$TIER seed=$SEED exit=$rc"
exit $rc

#!/usr/bin/env python3
"""rebase_seed.py <in.diff> <out.diff>: re-create a seeded patch against /repo HEAD with patch(1) fuzz (for patches whose
context lines moved because of later fix: commits). Fails if any hunk is rejected."""
import subprocess, sys, tempfile, shutil, re, difflib, os
src, out = sys.argv[1], sys.argv[2]
d = open(src).read()
files = sorted(set(re.findall(r'^\+\+\+ b/(\S+)', d, re.M)))
t = tempfile.mkdtemp()
try:
    subprocess.run(f"git -C /repo archive HEAD {' '.join(files)} | tar -x -C {t}", shell=True, check=True)
    r = subprocess.run(f"cd {t} && patch -p1 --fuzz=3 --no-backup-if-mismatch < {os.path.abspath(src)}", shell=True, capture_output=True, text=True)
    print(r.stdout.strip())
    if r.returncode != 0:
        print(r.stderr); sys.exit(1)
    res = ''
    for f in files:
        orig = subprocess.run(f"git -C /repo show HEAD:{f}", shell=True, capture_output=True, text=True).stdout
        new = open(os.path.join(t, f)).read()
        res += f"diff --git a/{f} b/{f}\n" + ''.join(difflib.unified_diff(orig.splitlines(True), new.splitlines(True), 'a/' + f, 'b/' + f))
    open(out, 'w').write(res)
finally:
    shutil.rmtree(t)

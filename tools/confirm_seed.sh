#!/bin/bash
# tools/confirm_seed.sh <patch.diff> <demo_test.go> <module: bigtable|storage> <pkg dir rel. to module, e.g. bttest> <TestName regexp> [extra go test flags]
# Confirms a seeded change in a private copy of /repo: demo passes without the change, fails with it,
# and the module's existing suite still passes with it. Prints CONFIRM lines.
set -u
PATCH="$(readlink -f "$1")"; DEMO="$(readlink -f "$2")"; MOD="$3"; PKG="$4"; RUN="$5"; shift 5
export GOFLAGS=-mod=mod GOPROXY=off GOSUMDB=off GOTOOLCHAIN=local
S="$(mktemp -d /tmp/confirm-XXXXXX)"; trap 'rm -rf "$S"' EXIT
cp -r /repo/bigtable /repo/storage "$S/"
cp "$DEMO" "$S/$MOD/$PKG/zz_seed_demo_test.go"
cd "$S/$MOD"; export TMPDIR="$S/tmp"; mkdir -p "$TMPDIR"
go test -vet=off -count=1 -run "$RUN" "$@" "./$PKG/" > "$S/clean.log" 2>&1; rc_clean=$?
(cd "$S" && git apply --unsafe-paths -p1 "$PATCH") || { echo "CONFIRM patch-applies=NO"; exit 9; }
go test -vet=off -count=1 -run "$RUN" "$@" "./$PKG/" > "$S/mut.log" 2>&1; rc_mut=$?
rm -f "$S/$MOD/$PKG/zz_seed_demo_test.go"
go test -vet=off -count=1 ./... > "$S/suite.log" 2>&1; rc_suite=$?
echo "CONFIRM demo-without-change=$([ $rc_clean -eq 0 ] && echo PASS || echo FAIL) demo-with-change=$([ $rc_mut -ne 0 ] && echo FAIL || echo PASS) existing-suite-with-change=$([ $rc_suite -eq 0 ] && echo PASS || echo FAIL)"
[ $rc_clean -ne 0 ] && tail -15 "$S/clean.log"
[ $rc_mut -eq 0 ] && tail -5 "$S/mut.log"
[ $rc_suite -ne 0 ] && tail -15 "$S/suite.log"
[ $rc_clean -eq 0 ] && [ $rc_mut -ne 0 ] && [ $rc_suite -eq 0 ]

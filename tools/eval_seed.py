#!/usr/bin/env python3
"""eval_seed.py <ID> <A|B> [check ids...]: confirm a seeded change produced by a sub-agent (demo passes without / fails with it,
existing suite passes with it), run the property's check(s) against a private patched copy, and store the result under /verif/seeded/."""
import json, os, re, shutil, subprocess, sys
tag, letter = sys.argv[1], sys.argv[2]   # tag = C01 or C01r2 (second round)
pid = tag[:3]
rnd = tag[3:].replace("r", "")
checks = sys.argv[3:] or [pid]
out = f"/tmp/seed/{tag}.out"
diff = f"{out}/{letter}.diff"
demo = f"{out}/{letter}_demo_test.go"
meta = json.load(open(f"{out}/{letter}.meta.json"))
cmd = meta.get("demo_cmd", "")
m = re.search(r"-run[= ]+['\"]?([^\s'\"]+)", cmd)
run = m.group(1) if m else "Seed"
src = open(demo).read()
pkgline = re.search(r"^package (\w+)", src, re.M).group(1)
difftxt = open(diff).read()
mod = "storage" if "/storage/" in difftxt.split("\n")[0] + difftxt else "bigtable"
if "a/bigtable/" in difftxt: mod = "bigtable"
pkg = {"bttest": "bttest", "bttest_test": "bttest", "gcsemu": "gcsemu", "gcsemu_test": "gcsemu", "gcsutil": "gcsutil", "gcsutil_test": "gcsutil"}.get(pkgline, "bttest")
extra = []
if "-tags" in cmd:
    t = re.search(r"-tags[= ]+(\S+)", cmd).group(1); extra += ["-tags", t]
if "-race" in cmd: extra += ["-race"]
print(f"== {pid}-{letter}{rnd}: module={mod} pkg={pkg} run={run} extra={extra}")
r = subprocess.run(["/verif/tools/confirm_seed.sh", diff, demo, mod, pkg, run] + extra, capture_output=True, text=True)
print(r.stdout.strip()[-1500:])
confirmed = r.returncode == 0
results = {}
for c in checks:
    for tier in ["quick"]:
        rr = subprocess.run(["/verif/tools/mutant.sh", diff, c, tier], capture_output=True, text=True)
        lines = [l for l in rr.stdout.splitlines() if l.startswith("VIOLATION") or l.startswith("  what") or l.startswith("MUTANT-RESULT") or "INCONCLUSIVE" in l]
        caught = any(l.startswith("VIOLATION") for l in lines)
        results[c + ":" + tier] = {"caught": caught, "first": [l[:400] for l in lines[:3]]}
        print(f"   check {c} {tier}: {'CAUGHT' if caught else 'missed'}")
        for l in lines[:2]: print("      " + l[:300])
dst = f"/verif/seeded/{pid}-{letter}{rnd}"
os.makedirs(dst, exist_ok=True)
shutil.copy(diff, dst + "/patch.diff")
shutil.copy(demo, dst + "/demo_test.go")
meta.update({"confirmed_by_me": confirmed, "confirm_output": r.stdout.strip()[-600:], "what_i_ran": f"tools/confirm_seed.sh (private copy of /repo: demo without change, demo with change, existing suite with change); tools/mutant.sh patch.diff <check> quick", "checks": results})
json.dump(meta, open(dst + "/meta.json", "w"), indent=1)

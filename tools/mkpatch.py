#!/usr/bin/env python3
"""mkpatch.py <repo-relative-file> <out.diff> : reads python-literal list of (old,new[,count]) replacements from stdin, writes a unified diff (a/ b/ prefixes) against /repo."""
import sys, ast, difflib
rel, out = sys.argv[1], sys.argv[2]
src = open('/repo/' + rel).read()
new = src
for rep in ast.literal_eval(sys.stdin.read()):
    old, nw = rep[0], rep[1]
    cnt = rep[2] if len(rep) > 2 else 1
    assert new.count(old) >= 1, "pattern not found: " + old
    new = new.replace(old, nw, cnt)
d = difflib.unified_diff(src.splitlines(True), new.splitlines(True), 'a/' + rel, 'b/' + rel)
open(out, 'w').write(''.join(d))
print("wrote", out)

#!/usr/bin/env python3
"""Writes MANIFEST.json from the table below (kept in one place so it is always valid and current)."""
import json, os
root = os.path.dirname(os.path.abspath(__file__))

# id -> (engine, category, technique, text, note, design_ref)
CHECKS = {}
def add(id, engine, cat, technique, text, note, ref):
    CHECKS[id] = dict(engine=engine, cat=cat, technique=technique, text=text, note=note, ref=ref)

exec(open(os.path.join(root, "manifest_checks.py")).read())

NOT_BUILT = json.load(open(os.path.join(root, "not_applicable.json")))

hooks_commits = [l.strip() for l in open(os.path.join(root, "MANIFEST.hooks")) if l.strip() and not l.startswith("#")]
man = {
 "version": 1,
 "setup_cmd": "./check setup",
 "hooks": {
  "guard": "verif",
  "enable": "go build -tags verif (done by ./check for the harness modules verif/bt and verif/gcs, which replace the emulator modules with /repo/bigtable and /repo/storage)",
  "baseline_off_cmd": "for m in bigtable storage; do (cd /repo/$m && GOFLAGS=-mod=mod go test -json -vet=off -count=1 -timeout 25m ./...); done",
  "source_commits": [c.split()[0] for c in hooks_commits],
  "add_only": True,
 },
 "engines": [
  {"name": "bt", "path": "bt", "serves_properties": sorted(k for k, v in CHECKS.items() if v["engine"] in ("bt", "bt+gcs")), "kind_free_text": "Go harness module verif/bt: real bttest servers over loopback gRPC, reference data/filter/rowset/GC model, porcupine, hook handlers, child processes for crash images"},
  {"name": "gcs", "path": "gcs", "serves_properties": sorted(k for k, v in CHECKS.items() if v["engine"] in ("gcs", "bt+gcs")), "kind_free_text": "Go harness module verif/gcs: real gcsemu servers over loopback HTTP, reference object model, porcupine, controlled scheduler for the lock map"},
 ],
 "checks": [],
 "not_applicable": [e for e in NOT_BUILT if e["property_id"] not in CHECKS],
 "notes": "All checks are runtime monitors over executions of the real code (see DESIGN.md). Exit 2 + INCONCLUSIVE line = blind run (cannot happen on the unchanged tree with the verif tag).",
}
for id in sorted(CHECKS):
    c = CHECKS[id]
    man["checks"].append({
        "property_id": id,
        "quick_cmd": f"./check {id} quick",
        "thorough_cmd": f"./check {id} thorough",
        "evidence_file": f"/verif/evidence/{id}.json",
        "replay_cmd_template": f"./check {id} --replay {{path}}",
        "engine": c["engine"],
        "level_claimed": {"category": c["cat"], "text": c["text"], "design_ref": c["ref"]},
        "level_note": c["note"],
        "technique": c["technique"],
    })
json.dump(man, open(os.path.join(root, "MANIFEST.json"), "w"), indent=1)
print("MANIFEST.json:", len(man["checks"]), "checks,", len(man["not_applicable"]), "not applicable")
